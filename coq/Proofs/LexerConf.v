(* C18: lexer and parser together (conf_init of the model), and the statement about numeric tokens *)
From Coq Require Import List NArith ZArith Bool Lia.
From PM Require Import Base.Bytes Base.Outcome Gen.GenLex Model.Lexer Proofs.LexerTotal Proofs.LexerLoad.
Import ListNotations.

Lemma lex_all_lend_ok files main : lend_ok (snd (lex_all files main)).
Proof. destruct (lex_all_end_ok files main) as [E | [s E]]; rewrite E; exact I. Qed.

Theorem conf_init_total : forall hl_expand regcomp_ok resolves is_chardev stale_erange (files : text -> option text) (main : text),
  (exists c, conf_init hl_expand regcomp_ok resolves is_chardev stale_erange files main = Ok c /\ mandatory_ok c = true) \/
  (exists site, conf_init hl_expand regcomp_ok resolves is_chardev stale_erange files main = Exit 1 site).
Proof.
  intros hl re gai chr stale files main. unfold conf_init.
  pose proof (lex_all_lend_ok files main) as L. destruct (lex_all files main) as [toks e]; cbn [snd] in L.
  destruct (load_stream_total hl re gai chr stale e toks L) as [[c E] | [s E]].
  - left. exists c. split; [assumption|]. eapply load_stream_accepted; eassumption.
  - right. exists s. assumption.
Qed.

Theorem load_total : forall hl_expand regcomp_ok resolves is_chardev stale_erange (toks : list token),
  (exists c, load hl_expand regcomp_ok resolves is_chardev stale_erange toks = Ok c) \/
  (exists site, load hl_expand regcomp_ok resolves is_chardev stale_erange toks = Exit 1 site).
Proof. intros. unfold load. apply load_stream_total. exact I. Qed.

Theorem load_accepted : forall hl_expand regcomp_ok resolves is_chardev stale_erange (toks : list token) c,
  load hl_expand regcomp_ok resolves is_chardev stale_erange toks = Ok c -> mandatory_ok c = true.
Proof. intros hl re gai chr stale toks c. unfold load. apply load_stream_accepted. exact I. Qed.

(* numbers: the lexer of the current source hands the parser a private copy of every numeric token
   (GenLex.number_copied), so in the model a TNum token carries its own text; that text is a non-empty run of
   digits and dots, and every string token is NUL-free *)
Theorem numbers_partial : number_copied = true /\
  forall (files : text -> option text) (main : text), Forall tok_wf (fst (lex_all files main)).
Proof. split; [reflexivity | exact tokens_wf]. Qed.
