(* Client isolation at the level of the whole daemon (C11): one pass of the select loop (cli_post_poll + dev_post_poll
   with the callbacks of the device layer routed by client id) changes a client record only for that client's own
   descriptor events, its own buffered request lines, or a device callback that carries its id.  Everything else -
   other clients' requests, hang-ups, refused lines, completions, telemetry and diagnostics of other clients' actions,
   the accept of a new client, any device traffic - leaves the record as it was, bit for bit. *)
From Coq Require Import List NArith ZArith Bool Lia.
From PM Require Import Base.Bytes Base.Outcome Gen.GenConsts Model.ScriptAst Model.Enqueue Model.Script Model.Device Model.Client Model.Daemon.
From PM Require Import Proofs.DaemonLedger.
From PM Require Model.Telnet.
Import ListNotations.
Local Open Scope Z_scope.

Definition ev_for (id : Z) (e : ev) : bool :=
  match e with EvComplete i _ _ => Z.eqb i id | EvTele i _ => Z.eqb i id | EvDiag i _ => Z.eqb i id | _ => false end.
Definition sys_for (id : Z) (s : sysev) : bool := match s with SysDev _ e => ev_for id e | _ => false end.

(* no complete request line buffered (true of every client between passes: `dstep_no_line`) *)
Definition no_line (x : dcli) : Prop := take_line [] (dc_from x) = None.
(* quit seen (or EOF), nothing in progress, nothing left to send: the record is destroyed at its next visit *)
Definition finishedb (x : dcli) : bool :=
  cl_quit (dc x) && (match cl_cmd (dc x) with None => true | Some _ => false end) && (match dc_to x with [] => true | _ => false end).

Lemma nth_error_upd_nth_ne {A} (l : list A) f : forall i j, i <> j -> nth_error (upd_nth l i f) j = nth_error l j.
Proof. induction l as [|a l IH]; intros [|i] [|j] H; cbn; auto; try lia; try (apply IH; lia). Qed.
Lemma nth_error_upd_nth_eq {A} (l : list A) f : forall i x, nth_error l i = Some x -> nth_error (upd_nth l i f) i = Some (f x).
Proof. induction l as [|a l IH]; intros [|i] x H; cbn in *; try discriminate; [now inversion H|]. now apply IH. Qed.
Lemma upd_nth_id {A} (l : list A) : forall i x, nth_error l i = Some x -> upd_nth l i (fun _ => x) = l.
Proof. induction l as [|a l IH]; intros [|i] x H; cbn in *; try discriminate; [now inversion H|]. now rewrite (IH i x H). Qed.
Lemma nth_error_remove_lt {A} (l : list A) : forall i j, (j < i)%nat -> nth_error (remove_nth l i) j = nth_error l j.
Proof. induction l as [|a l IH]; intros [|i] [|j] H; cbn; auto; try lia; try (apply IH; lia). Qed.
Lemma nth_error_remove_ge {A} (l : list A) : forall i j, (i <= j)%nat -> nth_error (remove_nth l i) j = nth_error l (S j).
Proof. induction l as [|a l IH]; intros [|i] [|j] H; cbn; auto; try lia; try (now destruct j); try (apply IH; lia). Qed.
Lemma nth_pad_cins n : forall l p, nth p (pad_cins n l) cin0 = if Nat.ltb p n then nth p l cin0 else cin0.
Proof.
  induction n as [|n IH]; intros l p; cbn [pad_cins]; [now destruct p|].
  destruct l as [|c r]; destruct p as [|p]; cbn [nth]; auto.
  - rewrite IH. change (Nat.ltb (S p) (S n)) with (Nat.ltb p n). destruct (Nat.ltb p n); now destruct p.
  - rewrite IH. reflexivity.
Qed.
Lemma length_pad_cins n : forall l, length (pad_cins n l) = n.
Proof. induction n as [|n IH]; intros l; cbn; [reflexivity|]. destruct l; cbn; now rewrite IH. Qed.
Lemma daemon_eta st : mkDaemon (dm_nodes st) (dm_aliases st) (dm_specs st) (dm_pipe st) (dm_devs st) (dm_clients st)
                               (dm_seq st) (dm_store st) (dm_version st) (dm_tel st) = st.
Proof. now destruct st. Qed.

Section F.
  Variable expand_str : text -> option (list text).
  Variable ranged_sorted : list text -> text.
  Variable ranged_plain : list text -> text.
  Variable sorted : list text -> list text.
  Variable rmatch : text -> text -> option pmatch.
  Variable compress : list text -> text.
  Variable short_circuit : bool.

  Notation handle_input := (handle_input expand_str ranged_sorted ranged_plain sorted).
  Notation cli_one := (cli_one expand_str ranged_sorted ranged_plain sorted).
  Notation cli_loop := (cli_loop expand_str ranged_sorted ranged_plain sorted).
  Notation cli_post_poll := (cli_post_poll expand_str ranged_sorted ranged_plain sorted).
  Notation dev_loop := (dev_loop ranged_sorted rmatch compress short_circuit).
  Notation dstep := (dstep expand_str ranged_sorted ranged_plain sorted rmatch compress short_circuit).

  (* ---- the client layer: work for client number i touches record i only ---- *)
  Lemma handle_input_frame fuel : forall st i acc st' evs,
    handle_input fuel st i acc = Ok (st', evs) -> forall j, j <> i -> nth_error (dm_clients st') j = nth_error (dm_clients st) j.
  Proof.
    induction fuel as [|f IH]; intros st i acc st' evs; cbn [Daemon.handle_input]; [intros H; now inversion H|].
    destruct (nth_error (dm_clients st) i) as [x|] eqn:En; [|intros H; now inversion H].
    destruct (take_line [] (dc_from x)) as [[line rest]|]; [|intros H; now inversion H].
    destruct (parse_input _ _ _ _ _ _ _ _) as [[[cf' store'] c'] q].
    match goal with |- match ?e with _ => _ end = _ -> _ => destruct e as [devs'| | | |]; try discriminate end.
    intros H j Hj. rewrite (IH _ _ _ _ _ H j Hj). cbn [dm_clients]. apply nth_error_upd_nth_ne. auto.
  Qed.

  Lemma handle_input_acc fuel : forall st i acc st' evs, handle_input fuel st i acc = Ok (st', evs) -> evs = acc.
  Proof.
    induction fuel as [|f IH]; intros st i acc st' evs; cbn [Daemon.handle_input]; [intros H; now inversion H|].
    destruct (nth_error (dm_clients st) i) as [x|]; [|intros H; now inversion H].
    destruct (take_line [] (dc_from x)) as [[line rest]|]; [|intros H; now inversion H].
    destruct (parse_input _ _ _ _ _ _ _ _) as [[[cf' store'] c'] q].
    match goal with |- match ?e with _ => _ end = _ -> _ => destruct e as [devs'| | | |]; try discriminate end.
    intros H. now apply IH in H.
  Qed.

  Lemma cli_one_frame st i ci st' evs dead :
    cli_one st i ci = Ok (st', evs, dead) -> forall j, j <> i -> nth_error (dm_clients st') j = nth_error (dm_clients st) j.
  Proof.
    unfold Daemon.cli_one. destruct (nth_error (dm_clients st) i) as [x|] eqn:En; [|intros H; now inversion H].
    destruct (ci_bad ci); [intros H; now inversion H|].
    match goal with |- context [let '(x2, w) := ?e in _] => destruct e as [x2 w] end.
    match goal with |- match ?e with _ => _ end = _ -> _ => destruct e as [[st2 evs2]| | | |] eqn:Eh; try discriminate end.
    intros H j Hj; inversion H; subst. rewrite (handle_input_frame _ _ _ _ _ _ Eh j Hj). cbn [dm_clients].
    apply nth_error_upd_nth_ne. auto.
  Qed.

  (* the only client-layer events of a visit are bytes written to THAT client *)
  Lemma cli_one_events st i ci st' evs dead x :
    cli_one st i ci = Ok (st', evs, dead) -> nth_error (dm_clients st) i = Some x ->
    evs = [] \/ exists w, evs = [SysCliWrote (cid x) w].
  Proof.
    unfold Daemon.cli_one. intros H En. rewrite En in H.
    destruct (ci_bad ci); [inversion H; auto|].
    match type of H with context [let '(x2, w) := ?e in _] => destruct e as [x2 w] end.
    match type of H with match ?e with _ => _ end = _ => destruct e as [[st2 evs2]| | | |] eqn:Eh; try discriminate end.
    inversion H; subst. apply handle_input_acc in Eh. subst. destruct w; [now left|right; eexists; reflexivity].
  Qed.

  (* a client with no descriptor event and no complete line buffered is left exactly as it is *)
  Lemma cli_one_idle st i x :
    nth_error (dm_clients st) i = Some x -> no_line x -> cli_one st i cin0 = Ok (st, [], finishedb x).
  Proof.
    intros En Hl. unfold Daemon.cli_one. rewrite En. cbn [cin0 ci_bad ci_in ci_out].
    rewrite (upd_nth_id _ _ _ En), daemon_eta. cbn [Daemon.handle_input]. rewrite En, Hl. rewrite En. reflexivity.
  Qed.

  (* a hang-up (POLLHUP/POLLERR/POLLNVAL) destroys the client record and nothing else: in particular no device queue
     is touched - the actions it enqueued stay (C11 "does not cancel device actions already queued for it") *)
  Lemma cli_one_hangup st i ci x :
    nth_error (dm_clients st) i = Some x -> ci_bad ci = true -> cli_one st i ci = Ok (st, [], true).
  Proof. intros En Hb. unfold Daemon.cli_one. now rewrite En, Hb. Qed.

  Lemma cli_loop_acc : forall cins st i acc st' evs, cli_loop st i cins acc = Ok (st', evs) -> exists t, evs = acc ++ t.
  Proof.
    induction cins as [|ci r IH]; intros st i acc st' evs; cbn [Daemon.cli_loop]; [intros H; inversion H; exists []; now rewrite app_nil_r|].
    destruct (cli_one st i ci) as [[[st1 evs1] dead]| | | |]; try discriminate.
    destruct dead; intros H; apply IH in H; destruct H as (t & ->).
    - exists (evs1 ++ [SysCloseCli match nth_error (dm_clients st1) i with Some y => cl_id (dc y) | None => 0 end] ++ t).
      now rewrite <- !app_assoc.
    - exists (evs1 ++ t). now rewrite <- app_assoc.
  Qed.

  (* records already visited (positions below i) are not touched by the rest of the loop *)
  Lemma cli_loop_visited : forall cins st i acc st' evs,
    cli_loop st i cins acc = Ok (st', evs) -> forall p, (p < i)%nat -> nth_error (dm_clients st') p = nth_error (dm_clients st) p.
  Proof.
    induction cins as [|ci r IH]; intros st i acc st' evs; cbn [Daemon.cli_loop]; [intros H; now inversion H|].
    destruct (cli_one st i ci) as [[[st1 evs1] dead]| | | |] eqn:E1; try discriminate.
    destruct dead; intros H p Hp.
    - rewrite (IH _ _ _ _ _ H p Hp). cbn [dm_clients]. rewrite nth_error_remove_lt by exact Hp.
      apply (cli_one_frame _ _ _ _ _ _ E1). lia.
    - rewrite (IH _ _ _ _ _ H p) by lia. apply (cli_one_frame _ _ _ _ _ _ E1). lia.
  Qed.

  Lemma cli_loop_idle : forall cins st i acc st' evs,
    cli_loop st i cins acc = Ok (st', evs) ->
    forall p x, (i <= p)%nat -> nth_error (dm_clients st) p = Some x -> nth (p - i) cins cin0 = cin0 -> no_line x ->
      (p < i + length cins)%nat ->
      In x (dm_clients st') \/ (finishedb x = true /\ In (SysCloseCli (cid x)) evs).
  Proof.
    induction cins as [|ci r IH]; intros st i acc st' evs; cbn [Daemon.cli_loop]; [intros H p x Hp Hn _ _ Hlen; cbn in Hlen; lia|].
    destruct (cli_one st i ci) as [[[st1 evs1] dead]| | | |] eqn:E1; try discriminate.
    intros H p x Hp Hn Hc Hl Hlen.
    destruct (Nat.eq_dec p i) as [->|Hne].
    - rewrite Nat.sub_diag in Hc. cbn [nth] in Hc. subst ci. rewrite (cli_one_idle _ _ _ Hn Hl) in E1. inversion E1; subst.
      destruct (finishedb x) eqn:Ef.
      + right. split; [reflexivity|]. apply cli_loop_acc in H. destruct H as (t & ->). rewrite Hn.
        apply in_or_app. left. apply in_or_app. right. cbn. left. reflexivity.
      + left. pose proof (cli_loop_visited _ _ _ _ _ _ H i (Nat.lt_succ_diag_r i)) as Hv. rewrite Hn in Hv. eapply nth_error_In; eauto.
    - assert (Hn1 : nth_error (dm_clients st1) p = Some x) by (rewrite (cli_one_frame _ _ _ _ _ _ E1 p Hne); exact Hn).
      destruct p as [|p]; [lia|]. cbn [length] in Hlen.
      destruct dead.
      + apply (IH _ _ _ _ _ H p x); try lia; auto.
        * cbn [dm_clients]. rewrite nth_error_remove_ge by lia. exact Hn1.
        * replace (S p - i)%nat with (S (p - i)) in Hc by lia. exact Hc.
      + apply (IH _ _ _ _ _ H (S p) x); try lia; auto.
        replace (S p - i)%nat with (S (S p - S i)) in Hc by lia. exact Hc.
  Qed.

  Lemma cli_post_poll_idle st r st' evs p x :
    cli_post_poll st r = Ok (st', evs) -> nth_error (dm_clients st) p = Some x -> nth p (r_cli r) cin0 = cin0 -> no_line x ->
    In x (dm_clients st') \/ (finishedb x = true /\ In (SysCloseCli (cid x)) evs).
  Proof.
    unfold Daemon.cli_post_poll. intros H Hn Hc Hl.
    assert (Hp : (p < length (dm_clients st))%nat) by (apply nth_error_Some; congruence).
    destruct (r_accept r).
    - destruct (next_id (dm_seq st)) as [id seq']. cbn [dm_clients] in H.
      apply (cli_loop_idle _ _ _ _ _ _ H p x); try lia.
      + cbn [dm_clients]. rewrite nth_error_app1 by exact Hp. exact Hn.
      + rewrite Nat.sub_0_r, nth_pad_cins, Hc. now destruct (Nat.ltb _ _).
      + exact Hl.
      + rewrite length_pad_cins, app_length. cbn [length Nat.add]. lia.
    - apply (cli_loop_idle _ _ _ _ _ _ H p x); try lia; auto.
      + rewrite Nat.sub_0_r, nth_pad_cins, Hc. now destruct (Nat.ltb _ _).
      + cbn [Nat.add]. rewrite length_pad_cins. exact Hp.
  Qed.

  (* ---- the device layer's callbacks: delivery is by id ---- *)
  Lemma route_frame st e st' : route ranged_sorted st e = Ok st' ->
    forall p x, nth_error (dm_clients st) p = Some x -> ev_for (cid x) e = false -> nth_error (dm_clients st') p = Some x.
  Proof.
    unfold route. intros H p x Hn He.
    destruct e; try solve [inversion H; subst; exact Hn].
    all: cbn [ev_for] in He; apply Z.eqb_neq in He.
    all: destruct (find_cli (dm_clients st) client 0) as [[i y]|] eqn:Ef; [|inversion H; subst; exact Hn].
    all: destruct (find_cli_spec _ _ _ _ _ Ef) as (j & -> & Hj & Hc); cbn [Nat.add] in *.
    all: assert (Hne : j <> p) by (intros ->; rewrite Hn in Hj; inversion Hj; subst; contradiction).
    - inversion H; subst. cbn [dm_clients]. rewrite nth_error_upd_nth_ne by exact Hne. exact Hn.
    - inversion H; subst. cbn [dm_clients]. rewrite nth_error_upd_nth_ne by exact Hne. exact Hn.
    - destruct (act_finish _ _ _ _ _) as [c| | | |]; try discriminate.
      inversion H; subst. cbn [dm_clients]. rewrite nth_error_upd_nth_ne by exact Hne. exact Hn.
  Qed.

  (* ... and a callback with the client's id changes nothing but that record's protocol state and queued output
     (the unread input, the line counters and the position in the list stay) *)
  Lemma route_deliver st e st' : route ranged_sorted st e = Ok st' ->
    forall p x, nth_error (dm_clients st) p = Some x ->
    exists x', nth_error (dm_clients st') p = Some x' /\ cid x' = cid x /\ dc_from x' = dc_from x /\ dc_nl x' = dc_nl x /\ dc_lines x' = dc_lines x.
  Proof.
    intros H p x Hn.
    unfold route in H.
    destruct e; try solve [inversion H; subst; exists x; auto].
    all: destruct (find_cli (dm_clients st) client 0) as [[i y]|] eqn:Ef; [|solve [inversion H; subst; exists x; auto]].
    all: destruct (find_cli_spec _ _ _ _ _ Ef) as (j & -> & Hj & Hc); cbn [Nat.add] in *.
    all: destruct (Nat.eq_dec j p) as [->|Hne].
    all: try (rewrite Hn in Hj; inversion Hj; subst y).
    - inversion H; subst. cbn [dm_clients]. rewrite (nth_error_upd_nth_eq _ _ _ _ Hn). eexists; split; [reflexivity|]. cbn. auto.
    - inversion H; subst. cbn [dm_clients]. rewrite nth_error_upd_nth_ne by exact Hne. exists x; auto.
    - inversion H; subst. cbn [dm_clients]. rewrite (nth_error_upd_nth_eq _ _ _ _ Hn). eexists; split; [reflexivity|]. cbn. auto.
    - inversion H; subst. cbn [dm_clients]. rewrite nth_error_upd_nth_ne by exact Hne. exists x; auto.
    - destruct (act_finish _ _ _ _ _) as [c| | | |] eqn:Ea; try discriminate.
      inversion H; subst. cbn [dm_clients]. rewrite (nth_error_upd_nth_eq _ _ _ _ Hn). eexists; split; [reflexivity|].
      unfold cid. cbn. apply (act_finish_id ranged_sorted) in Ea. auto.
    - destruct (act_finish _ _ _ _ _) as [c| | | |] eqn:Ea; try discriminate.
      inversion H; subst. cbn [dm_clients]. rewrite nth_error_upd_nth_ne by exact Hne. exists x; auto.
  Qed.

  Lemma route_all_frame evs : forall st st', route_all ranged_sorted st evs = Ok st' ->
    forall p x, nth_error (dm_clients st) p = Some x -> existsb (ev_for (cid x)) evs = false -> nth_error (dm_clients st') p = Some x.
  Proof.
    induction evs as [|e r IH]; intros st st' H p x Hn He; cbn in H; [inversion H; subst; exact Hn|].
    destruct (route ranged_sorted st e) as [st1| | | |] eqn:E1; try discriminate.
    cbn [existsb] in He. apply orb_false_iff in He. destruct He as [He1 He2].
    apply (IH _ _ H p x); auto. eapply route_frame; eauto.
  Qed.

  Lemma dev_loop_frame n : forall now st i pins tmo acc st' tmo' evs,
    dev_loop n now st i pins tmo acc = Ok (st', tmo', evs) ->
    forall p x, nth_error (dm_clients st) p = Some x ->
      existsb (sys_for (cid x)) evs = existsb (sys_for (cid x)) acc ->
      existsb (sys_for (cid x)) acc = false -> nth_error (dm_clients st') p = Some x.
  Proof.
    induction n as [|n IH]; intros now st i pins tmo acc st' tmo' evs; cbn [Daemon.dev_loop]; [intros H; inversion H; auto|].
    destruct (nth_error (dm_devs st) i) as [d|]; [|intros H; inversion H; auto].
    match goal with |- context [with_pre ?a ?b ?c] => destruct (with_pre a b c) as [pin t1] end.
    destruct (post_poll_one _ _ _ _ _ _ _ _) as [[[[d' store'] tmo1] evs1]| | | |]; try discriminate.
    match goal with |- match ?e with _ => _ end = _ -> _ => destruct e as [st2| | | |] eqn:Er; try discriminate end.
    intros H p x Hn He Ha.
    (* the accumulated events only grow: if none of the final ones is for x, none of this device's is *)
    assert (Hmono : forall n now st i pins tmo acc st' tmo' evs, dev_loop n now st i pins tmo acc = Ok (st', tmo', evs) -> exists t, evs = acc ++ t).
    { clear. induction n as [|n IH]; intros now st i pins tmo acc st' tmo' evs; cbn [Daemon.dev_loop]; [intros H; inversion H; exists []; now rewrite app_nil_r|].
      destruct (nth_error (dm_devs st) i) as [d|]; [|intros H; inversion H; exists []; now rewrite app_nil_r].
      match goal with |- context [with_pre ?a ?b ?c] => destruct (with_pre a b c) as [pin t1] end.
      destruct (post_poll_one _ _ _ _ _ _ _ _) as [[[[d' store'] tmo1] evs1]| | | |]; try discriminate.
      match goal with |- match ?e with _ => _ end = _ -> _ => destruct e as [st2| | | |]; try discriminate end.
      intros H. apply IH in H. destruct H as (t & ->). exists (map (SysDev i) evs1 ++ t). now rewrite app_assoc. }
    destruct (Hmono _ _ _ _ _ _ _ _ _ _ H) as (t & ->).
    rewrite Ha in He. rewrite !existsb_app in He. rewrite Ha in He. cbn [orb] in He.
    apply orb_false_iff in He. destruct He as [He1 He2].
    apply (IH _ _ _ _ _ _ _ _ _ H p x).
    - eapply route_all_frame; [exact Er|exact Hn|].
      clear -He1. induction evs1 as [|e r IHr]; cbn in *; auto. apply orb_false_iff in He1. destruct He1 as [A B]. rewrite A. cbn. auto.
    - rewrite !existsb_app, Ha, He1, He2. reflexivity.
    - rewrite existsb_app, Ha, He1. reflexivity.
  Qed.


  (* ---- between passes no client has a complete request line waiting: _handle_input drains c->from ---- *)
  Definition NL (st : daemon) : Prop := forall p x, nth_error (dm_clients st) p = Some x -> no_line x.

  Lemma take_line_shorter : forall s acc l r, take_line acc s = Some (l, r) -> (length r < length s)%nat.
  Proof.
    induction s as [|c s IH]; intros acc l r H; cbn in H; [discriminate|].
    destruct (N.eqb c LF); [inversion H; subst; cbn; lia|]. apply IH in H. cbn. lia.
  Qed.

  Lemma handle_input_nl fuel : forall st i acc st' evs,
    handle_input fuel st i acc = Ok (st', evs) ->
    (forall x, nth_error (dm_clients st) i = Some x -> (length (dc_from x) < fuel)%nat) ->
    forall y, nth_error (dm_clients st') i = Some y -> no_line y.
  Proof.
    induction fuel as [|f IH]; intros st i acc st' evs; cbn [Daemon.handle_input].
    - intros H Hlen y Hy. inversion H; subst. specialize (Hlen _ Hy). lia.
    - destruct (nth_error (dm_clients st) i) as [x|] eqn:En; [|intros H _ y Hy; inversion H; subst; congruence].
      destruct (take_line [] (dc_from x)) as [[line rest]|] eqn:Et.
      2:{ intros H _ y Hy; inversion H; subst. rewrite En in Hy. inversion Hy; subst. exact Et. }
      destruct (parse_input _ _ _ _ _ _ _ _) as [[[cf' store'] c'] q].
      match goal with |- match ?e with _ => _ end = _ -> _ => destruct e as [devs'| | | |]; try discriminate end.
      intros H Hlen y Hy. apply (IH _ _ _ _ _ H); [|exact Hy].
      intros z Hz. cbn [dm_clients] in Hz. rewrite (nth_error_upd_nth_eq _ _ _ _ En) in Hz. inversion Hz; subst z.
      cbn [set_dc dc_from]. apply take_line_shorter in Et. specialize (Hlen _ eq_refl). lia.
  Qed.

  Lemma cli_one_nl st i ci st' evs dead : NL st -> cli_one st i ci = Ok (st', evs, dead) -> NL st'.
  Proof.
    intros Hnl H p y Hy.
    destruct (Nat.eq_dec p i) as [->|Hne]; [|rewrite (cli_one_frame _ _ _ _ _ _ H p Hne) in Hy; eapply Hnl; eauto].
    revert H. unfold Daemon.cli_one. destruct (nth_error (dm_clients st) i) as [x|] eqn:En; [|intros H; inversion H; subst; eapply Hnl; eauto].
    destruct (ci_bad ci); [intros H; inversion H; subst; eapply Hnl; eauto|].
    match goal with |- context [let '(x2, w) := ?e in _] => destruct e as [x2 w] end.
    match goal with |- match ?e with _ => _ end = _ -> _ => destruct e as [[st2 evs2]| | | |] eqn:Eh; try discriminate end.
    intros H; inversion H; subst. apply (handle_input_nl _ _ _ _ _ _ Eh); [|exact Hy].
    intros z Hz. cbn [dm_clients] in Hz. rewrite (nth_error_upd_nth_eq _ _ _ _ En) in Hz. inversion Hz; subst z. lia.
  Qed.

  Lemma remove_nth_nl st i : NL st ->
    NL (mkDaemon (dm_nodes st) (dm_aliases st) (dm_specs st) (dm_pipe st) (dm_devs st) (remove_nth (dm_clients st) i)
                 (dm_seq st) (dm_store st) (dm_version st) (dm_tel st)).
  Proof.
    intros Hnl p x. cbn [dm_clients]. destruct (Nat.lt_ge_cases p i) as [Hlt|Hge].
    - rewrite nth_error_remove_lt by exact Hlt. apply Hnl.
    - rewrite nth_error_remove_ge by exact Hge. apply Hnl.
  Qed.

  Lemma cli_loop_nl : forall cins st i acc st' evs, NL st -> cli_loop st i cins acc = Ok (st', evs) -> NL st'.
  Proof.
    induction cins as [|ci r IH]; intros st i acc st' evs Hnl; cbn [Daemon.cli_loop]; [intros H; now inversion H; subst|].
    destruct (cli_one st i ci) as [[[st1 evs1] dead]| | | |] eqn:E1; try discriminate.
    pose proof (cli_one_nl _ _ _ _ _ _ Hnl E1) as H1.
    destruct dead; intros H; eapply IH; try exact H; auto. now apply remove_nth_nl.
  Qed.

  Lemma cli_post_poll_nl st r st' evs : NL st -> cli_post_poll st r = Ok (st', evs) -> NL st'.
  Proof.
    unfold Daemon.cli_post_poll. intros Hnl. destruct (r_accept r); [|apply cli_loop_nl; exact Hnl].
    destruct (next_id (dm_seq st)) as [id seq']. apply cli_loop_nl.
    intros p x. cbn [dm_clients]. destruct (Nat.lt_ge_cases p (length (dm_clients st))) as [Hlt|Hge].
    - rewrite nth_error_app1 by exact Hlt. apply Hnl.
    - rewrite nth_error_app2 by exact Hge. destruct (p - length (dm_clients st))%nat as [|k]; cbn; [|destruct k; discriminate].
      intros H; inversion H; subst. reflexivity.
  Qed.

  Lemma route_nl st e st' : NL st -> route ranged_sorted st e = Ok st' -> NL st'.
  Proof.
    intros Hnl H p y Hy.
    assert (Hlen : length (dm_clients st') = length (dm_clients st)).
    { destruct (route_ids _ _ _ _ H) as (Hi & _). unfold ids in Hi. apply (f_equal (@length Z)) in Hi. now rewrite !map_length in Hi. }
    assert (Hp : (p < length (dm_clients st))%nat) by (rewrite <- Hlen; apply nth_error_Some; congruence).
    destruct (nth_error (dm_clients st) p) as [x|] eqn:En; [|apply nth_error_None in En; lia].
    destruct (route_deliver _ _ _ H p x En) as (x' & Hx' & _ & Hf & _). rewrite Hx' in Hy. inversion Hy; subst y.
    unfold no_line. rewrite Hf. eapply Hnl; eauto.
  Qed.

  Lemma route_all_nl evs : forall st st', NL st -> route_all ranged_sorted st evs = Ok st' -> NL st'.
  Proof.
    induction evs as [|e r IH]; intros st st' Hnl H; cbn in H; [inversion H; subst; exact Hnl|].
    destruct (route ranged_sorted st e) as [st1| | | |] eqn:E1; try discriminate.
    eapply IH; [|exact H]. eapply route_nl; eauto.
  Qed.

  Lemma dev_loop_nl n : forall now st i pins tmo acc st' tmo' evs,
    NL st -> dev_loop n now st i pins tmo acc = Ok (st', tmo', evs) -> NL st'.
  Proof.
    induction n as [|n IH]; intros now st i pins tmo acc st' tmo' evs Hnl; cbn [Daemon.dev_loop]; [intros H; now inversion H; subst|].
    destruct (nth_error (dm_devs st) i) as [d|]; [|intros H; now inversion H; subst].
    match goal with |- context [with_pre ?a ?b ?c] => destruct (with_pre a b c) as [pin t1] end.
    destruct (post_poll_one _ _ _ _ _ _ _ _) as [[[[d' store'] tmo1] evs1]| | | |]; try discriminate.
    match goal with |- match ?e with _ => _ end = _ -> _ => destruct e as [st2| | | |] eqn:Er; try discriminate end.
    intros H. eapply IH; [|exact H]. eapply route_all_nl; [|exact Er]. exact Hnl.
  Qed.

  Lemma dstep_nl st r st' o : NL st -> dstep st r = Ok (st', o) -> NL st'.
  Proof.
    unfold Daemon.dstep. intros Hnl H.
    destruct (cli_post_poll st r) as [[st1 e1]| | | |] eqn:E1; try discriminate.
    destruct (dev_loop _ _ _ _ _ _ _) as [[[st2 tmo] e2]| | | |] eqn:E2; try discriminate.
    inversion H; subst. eapply dev_loop_nl; [|exact E2]. eapply cli_post_poll_nl; eauto.
  Qed.

  Lemma drun_nl rs : forall st acc st' outs, NL st ->
    drun expand_str ranged_sorted ranged_plain sorted rmatch compress short_circuit st rs acc = Ok (st', outs) -> NL st'.
  Proof.
    induction rs as [|r rs IH]; intros st acc st' outs Hnl; cbn [drun]; [intros H; now inversion H; subst|].
    destruct (dstep st r) as [[st1 o]| | | |] eqn:E1; try discriminate.
    intros H. eapply IH; [|exact H]. eapply dstep_nl; eauto.
  Qed.

  (* ---- the ledger of written bytes: dc_sent grows by exactly the bytes of the visit's write event ---- *)
  Definition wrote_in (evs : list sysev) : text := flat_map (fun e => match e with SysCliWrote _ w => w | _ => [] end) evs.

  Lemma handle_input_sent fuel : forall st i acc st' evs,
    handle_input fuel st i acc = Ok (st', evs) ->
    forall x x', nth_error (dm_clients st) i = Some x -> nth_error (dm_clients st') i = Some x' ->
      dc_sent x' = dc_sent x /\ dc_eof x' = dc_eof x /\ (dc_bad x = true -> dc_bad x' = true).
  Proof.
    induction fuel as [|f IH]; intros st i acc st' evs; cbn [Daemon.handle_input].
    - intros H x x' Hx Hx'. inversion H; subst. rewrite Hx in Hx'. inversion Hx'; auto.
    - destruct (nth_error (dm_clients st) i) as [y|] eqn:En; [|intros H x x' Hx; discriminate].
      destruct (take_line [] (dc_from y)) as [[line rest]|].
      2:{ intros H x x' Hx Hx'. inversion H; subst. rewrite En in Hx'. inversion Hx; inversion Hx'; subst. auto. }
      destruct (parse_input _ _ _ _ _ _ _ _) as [[[cf' store'] c'] q].
      match goal with |- match ?e with _ => _ end = _ -> _ => destruct e as [devs'| | | |]; try discriminate end.
      intros H x x' Hx Hx'. inversion Hx; subst y.
      match type of H with Daemon.handle_input _ _ _ _ _ ?s _ _ = _ =>
        assert (Hm : nth_error (dm_clients s) i = Some (set_dc c' (mkDcli (dc x) rest (dc_to x) (dc_nl x) (S (dc_lines x)) (dc_eof x) (dc_bad x) (dc_sent x))))
          by (cbn [dm_clients]; exact (nth_error_upd_nth_eq _ _ _ _ En)) end.
      destruct (IH _ _ _ _ _ H _ _ Hm Hx') as (A & B & C). cbn [set_dc dc_sent dc_eof dc_bad] in *. split; [exact A|]. split; [exact B|].
      intros Hb. apply C. rewrite Hb. reflexivity.
  Qed.

  Lemma cli_one_sent st i ci st' evs dead x x' :
    cli_one st i ci = Ok (st', evs, dead) -> nth_error (dm_clients st) i = Some x -> nth_error (dm_clients st') i = Some x' ->
    dc_sent x' = dc_sent x ++ wrote_in evs.
  Proof.
    unfold Daemon.cli_one. intros H En Hx'. rewrite En in H.
    destruct (ci_bad ci); [inversion H; subst; rewrite En in Hx'; inversion Hx'; subst; cbn; now rewrite app_nil_r|].
    match type of H with context [if ci_in ci then ?a else x] => set (x1 := if ci_in ci then a else x) in H end.
    assert (Hx1 : dc_sent x1 = dc_sent x) by (unfold x1; destruct (ci_in ci); [destruct (ci_read ci) as [[|b0 br]|]|]; reflexivity).
    clearbody x1.
    match type of H with context [let '(x2, w) := ?e in _] => destruct e as [x2 w] eqn:E2 end.
    match type of H with match ?e with _ => _ end = _ => destruct e as [[st2 evs2]| | | |] eqn:Eh; try discriminate end.
    inversion H; subst. pose proof (handle_input_acc _ _ _ _ _ _ Eh) as Hacc. subst evs.
    assert (Hm : nth_error (dm_clients (mkDaemon (dm_nodes st) (dm_aliases st) (dm_specs st) (dm_pipe st) (dm_devs st)
                                                  (upd_nth (dm_clients st) i (fun _ => x2)) (dm_seq st) (dm_store st) (dm_version st) (dm_tel st))) i = Some x2)
      by (cbn [dm_clients]; exact (nth_error_upd_nth_eq _ _ _ _ En)).
    destruct (handle_input_sent _ _ _ _ _ _ Eh _ _ Hm Hx') as (A & _ & _). rewrite A.
    destruct (ci_out ci); [destruct (ci_wrote ci) as [n|]|]; inversion E2; subst x2 w; cbn [dc_sent set_quit dc].
    - rewrite Hx1. destruct (firstn n _) eqn:Ef; cbn [wrote_in flat_map]; now rewrite ?app_nil_r.
    - cbn [wrote_in flat_map]. now rewrite app_nil_r.
    - cbn [wrote_in flat_map]. now rewrite app_nil_r.
  Qed.

  (* ---- one whole pass ---- *)
  Theorem dstep_isolation st r st' o p x :
    dstep st r = Ok (st', o) ->
    nth_error (dm_clients st) p = Some x ->            (* an existing client ...                                   *)
    nth p (r_cli r) cin0 = cin0 ->                     (* ... whose descriptor reports nothing in this pass,       *)
    no_line x ->                                       (* ... that has no complete request line waiting            *)
    existsb (sys_for (cid x)) (do_evs o) = false ->    (* ... and for which no device callback carries its id      *)
    In x (dm_clients st') \/ (finishedb x = true /\ In (SysCloseCli (cid x)) (do_evs o)).
  Proof.
    unfold Daemon.dstep. intros H Hn Hc Hl He.
    destruct (cli_post_poll st r) as [[st1 e1]| | | |] eqn:E1; try discriminate.
    destruct (dev_loop _ _ _ _ _ _ _) as [[[st2 tmo] e2]| | | |] eqn:E2; try discriminate.
    inversion H; subst. cbn [do_evs] in *.
    rewrite existsb_app in He. apply orb_false_iff in He. destruct He as [_ He2].
    destruct (cli_post_poll_idle _ _ _ _ _ _ E1 Hn Hc Hl) as [Hin|[Hf Hin]].
    - left. apply In_nth_error in Hin. destruct Hin as (q & Hq).
      eapply nth_error_In. eapply (dev_loop_frame _ _ _ _ _ _ _ _ _ _ E2 q x Hq); cbn; auto.
    - right. split; auto. apply in_or_app. now left.
  Qed.
End F.
