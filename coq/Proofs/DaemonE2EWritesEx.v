(* Non-vacuity of Proofs/DeviceWrites.v and Proofs/DaemonE2EWrites.v (C03_device_writes_are_statements,
   C03_end_to_end_reported) on the daemon of Proofs/DaemonE2EEx.v (one coprocess device d0, plug p1 = node n1, status script
   `send "st %s\n"; expect "(on|off)"; setplugstate $1 on="on" off="off"`):
     query_rounds   client 1 sends `status n1`, the device answers `on`: the report ledger after the fifth pass holds ONE event -
                    list 0, client 1, device d0, a setplugstate, node n1, state ST_ON, text "on" - produced in that pass by
                    device 0's share of dev_post_poll (pp_reports), and the result list holds n1 = ON with value "on";
     power_rounds   `on n1`: no event at all (the power script has no setplugstate / setresult), the list stays as created. *)
From Coq Require Import List NArith ZArith Bool Lia.
From PM Require Import Base.Bytes Base.Outcome Gen.GenConsts Model.ScriptAst Model.Enqueue Model.Script Model.Device Model.DevHarness
                       Model.Client Model.CliWorld Model.Daemon Spec.Proto Proofs.DaemonLedger Proofs.DaemonPending Proofs.DaemonE2E Proofs.DaemonE2EEx
                       Proofs.DeviceWrites Proofs.DaemonE2EWrites.
From PM Require Properties.C07.
Import ListNotations.
Local Open Scope Z_scope.

Notation erep := (drun_rep e2e_expand e2e_join e2e_join (fun l => l) e2e_rm C07.ex_compress false).
Notation esrep := (dstep_rep e2e_expand e2e_join e2e_join (fun l => l) e2e_rm C07.ex_compress false).

(* the last pass of a history: (the report ledger before the pass, the ledger after it, what device 0's share of the pass
   reports - Device.post_poll_one on the device and the store as the client half left them, on the pass's transport answer -
   and the store after the pass) *)
Definition last_pass_reports (rs : list round) :=
  match dinit e2e_st 1000000 [[ConnNow; ConnNow; ConnNow]] with
  | Ok (st1, _) =>
    let pre := removelast rs in let r := last rs r_none in
    match erun st1 pre [] with
    | Ok (st, _) =>
      match ecpp st r, estep st r with
      | Ok (sta, _), Ok (stb, _) =>
          Some (erep st1 pre [], esrep st r (erep st1 pre []),
                match nth_error (dm_devs sta) 0 with
                | Some d => pp_reports e2e_rm C07.ex_compress false (r_now r) d (dm_store sta) None (hd passin0 (r_dev r))
                | None => []
                end,
                dm_store stb)
      | _, _ => None
      end
    | _ => None
    end
  | _ => None
  end.

Definition on_report : report := mkReport 0 1 (bslit "d0") false (bslit "n1") ST_ON (bslit "on").

Lemma query_reports_example :
  last_pass_reports query_rounds = Some ([], [on_report], [on_report], [[mkArg (bslit "n1") ST_ON RT_NONE (Some (bslit "on"))]]).
Proof. vm_compute. reflexivity. Qed.

Lemma power_reports_example :
  last_pass_reports power_rounds = Some ([], [], [], [[mkArg (bslit "n1") ST_UNKNOWN RT_NONE None]]).
Proof. vm_compute. reflexivity. Qed.
