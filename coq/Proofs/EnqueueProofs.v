From Coq Require Import List NArith ZArith Bool Lia.
From Coq Require String.
From PM Require Import Base.Bytes Gen.GenConsts Model.Enqueue.
Import ListNotations.
Local Open Scope Z_scope.

(* ---------- facts about the regenerated tables (re-checked whenever device.c changes) ---------- *)

Lemma all_table_exact :
  lookup all_table PM_POWER_ON = Some PM_POWER_ON_ALL /\
  lookup all_table PM_POWER_OFF = Some PM_POWER_OFF_ALL /\
  lookup all_table PM_POWER_CYCLE = Some PM_POWER_CYCLE_ALL /\
  lookup all_table PM_RESET = Some PM_RESET_ALL /\
  lookup all_table PM_STATUS_PLUGS = Some PM_STATUS_PLUGS_ALL /\
  lookup all_table PM_STATUS_TEMP = Some PM_STATUS_TEMP_ALL /\
  lookup all_table PM_STATUS_BEACON = Some PM_STATUS_BEACON_ALL /\
  lookup all_table PM_BEACON_ON = None /\ lookup all_table PM_BEACON_OFF = None.
Proof. vm_compute. repeat split; reflexivity. Qed.

Lemma ranged_table_exact :
  lookup ranged_table PM_POWER_ON = Some PM_POWER_ON_RANGED /\
  lookup ranged_table PM_POWER_OFF = Some PM_POWER_OFF_RANGED /\
  lookup ranged_table PM_POWER_CYCLE = Some PM_POWER_CYCLE_RANGED /\
  lookup ranged_table PM_RESET = Some PM_RESET_RANGED /\
  lookup ranged_table PM_BEACON_ON = Some PM_BEACON_ON_RANGED /\
  lookup ranged_table PM_BEACON_OFF = Some PM_BEACON_OFF_RANGED /\
  lookup ranged_table PM_STATUS_PLUGS = None /\ lookup ranged_table PM_STATUS_TEMP = None /\
  lookup ranged_table PM_STATUS_BEACON = None.
Proof. vm_compute. repeat split; reflexivity. Qed.

(* the 28 indices are pairwise distinct where it matters: no variant index collides with a base command
   or with another command's variant *)
Lemma variant_indices_distinct :
  NoDup (power_coms ++ query_coms ++ map snd all_table ++ map snd ranged_table ++ [PM_LOG_IN; PM_LOG_OUT; PM_PING]).
Proof.
  vm_compute.
  repeat (constructor; [cbn; intuition discriminate|]). constructor.
Qed.

Lemma power_not_query : forallb (fun c => negb (is_query c)) power_coms = true.
Proof. vm_compute. reflexivity. Qed.

Lemma query_is_query : forallb is_query query_coms = true.
Proof. vm_compute. reflexivity. Qed.

Lemma power_com_not_query com : In com power_coms -> is_query com = false.
Proof.
  intros H. pose proof power_not_query as F. rewrite forallb_forall in F.
  specialize (F com H). now apply negb_true_iff in F.
Qed.

(* ---------- selection ---------- *)

Lemma targeted_spec d tgts p :
  In p (targeted d tgts) <-> In p (ed_plugs d) /\ plug_targeted tgts p = true.
Proof. unfold targeted. apply filter_In. Qed.

Lemma plug_targeted_node tgts p :
  plug_targeted tgts p = true -> exists n, pl_node p = Some n /\ In n tgts.
Proof.
  unfold plug_targeted, node_in. destruct (pl_node p) as [n|]; [|discriminate].
  intros H. apply existsb_exists in H as [m [Hm E]]. apply text_eqb_eq in E. subst. eauto.
Qed.

Lemma node_plug_targeted tgts p n :
  pl_node p = Some n -> In n tgts -> plug_targeted tgts p = true.
Proof.
  intros E H. unfold plug_targeted, node_in. rewrite E. apply existsb_exists. exists n. split; auto.
  apply text_eqb_refl.
Qed.

Definition singles (d : edev) (com : Z) (tgts : list text) : list qact :=
  map (fun p => mkQact com (Some [p])) (targeted d tgts).

(* the four possible shapes of the result *)
Inductive shape (d : edev) (com : Z) (tgts : list text) : list qact -> Prop :=
| sh_single1 : has d com = true -> length (targeted d tgts) = 1%nat -> shape d com tgts (singles d com tgts)
| sh_all n : all_script d com = Some n ->
    (all_flag d tgts = true \/ (is_query com = true /\ has d com = false)) ->
    shape d com tgts [mkQact n None]
| sh_ranged n : ranged_script d com = Some n -> shape d com tgts [mkQact n (Some (targeted d tgts))]
| sh_singles : has d com = true -> shape d com tgts (singles d com tgts)
| sh_none : has d com = false -> ranged_script d com = None ->
    (all_script d com = None \/ (all_flag d tgts = false /\ is_query com = false)) ->
    shape d com tgts [].

Lemma enqueue_targeted_shape d com tgts : shape d com tgts (enqueue_targeted d com tgts).
Proof.
  unfold enqueue_targeted.
  destruct (has d com) eqn:Hh; cbn [andb negb].
  - rewrite map_length.
    destruct (Nat.eqb (length (targeted d tgts)) 1) eqn:E1.
    + apply Nat.eqb_eq in E1. now apply sh_single1.
    + rewrite andb_false_r, orb_false_r.
      destruct (all_flag d tgts) eqn:Ha.
      * destruct (all_script d com) as [n|] eqn:Hall.
        -- apply sh_all; auto.
        -- destruct (ranged_script d com) as [n|] eqn:Hr; [now apply sh_ranged | now apply sh_singles].
      * destruct (ranged_script d com) as [n|] eqn:Hr; [now apply sh_ranged | now apply sh_singles].
  - rewrite andb_true_r.
    destruct (all_flag d tgts || is_query com) eqn:Ho.
    + destruct (all_script d com) as [n|] eqn:Hall.
      * apply sh_all; auto. apply orb_true_iff in Ho as [Ho|Ho]; auto.
      * destruct (ranged_script d com) as [n|] eqn:Hr; [now apply sh_ranged|].
        apply sh_none; auto.
    + apply orb_false_iff in Ho as [Ho1 Ho2].
      destruct (ranged_script d com) as [n|] eqn:Hr; [now apply sh_ranged|].
      apply sh_none; auto.
Qed.

Lemma all_script_variant d com n : all_script d com = Some n -> lookup all_table com = Some n /\ has d n = true.
Proof.
  unfold all_script. destruct (lookup all_table com) as [m|]; [|discriminate].
  destruct (has d m) eqn:E; [|discriminate]. intros H; inversion H; subst; auto.
Qed.

Lemma ranged_script_variant d com n : ranged_script d com = Some n -> lookup ranged_table com = Some n /\ has d n = true.
Proof.
  unfold ranged_script. destruct (lookup ranged_table com) as [m|]; [|discriminate].
  destruct (has d m) eqn:E; [|discriminate]. intros H; inversion H; subst; auto.
Qed.

(* every queued action addresses only plugs of this device that are mapped to targeted nodes *)
Lemma enq_plugs_targeted d com tgts a ps :
  In a (enqueue_targeted d com tgts) -> qa_plugs a = Some ps ->
  forall p, In p ps -> In p (ed_plugs d) /\ plug_targeted tgts p = true.
Proof.
  intros Hin Hps p Hp. pose proof (enqueue_targeted_shape d com tgts) as S.
  inversion S as [Hh Hl E | n Hn Hc E | n Hn E | Hh E | Hh Hr Hc E]; rewrite <- E in Hin.
  - unfold singles in Hin. apply in_map_iff in Hin as [q [Hq Hq2]]. subst a. cbn in Hps. inversion Hps; subst.
    destruct Hp as [->|[]]. now apply targeted_spec.
  - destruct Hin as [<-|[]]. discriminate.
  - destruct Hin as [<-|[]]. cbn in Hps. inversion Hps; subst. now apply targeted_spec.
  - unfold singles in Hin. apply in_map_iff in Hin as [q [Hq Hq2]]. subst a. cbn in Hps. inversion Hps; subst.
    destruct Hp as [->|[]]. now apply targeted_spec.
  - destruct Hin.
Qed.

(* a whole-device action (plugs = NULL) is queued only if every plug of the device is targeted, or the
   command is a query for which the device has no per-plug script *)
Lemma enq_all_only_when_all d com tgts a :
  In a (enqueue_targeted d com tgts) -> qa_plugs a = None ->
  lookup all_table com = Some (qa_com a) /\
  (all_flag d tgts = true \/ (is_query com = true /\ has d com = false)).
Proof.
  intros Hin Hps. pose proof (enqueue_targeted_shape d com tgts) as S.
  inversion S as [Hh Hl E | n Hn Hc E | n Hn E | Hh E | Hh Hr Hc E]; rewrite <- E in Hin.
  - unfold singles in Hin. apply in_map_iff in Hin as [q [Hq _]]. subst a. discriminate.
  - destruct Hin as [<-|[]]. cbn. split; auto. now apply all_script_variant in Hn.
  - destruct Hin as [<-|[]]. discriminate.
  - unfold singles in Hin. apply in_map_iff in Hin as [q [Hq _]]. subst a. discriminate.
  - destruct Hin.
Qed.

(* the script that runs is the singlet, _all or _ranged variant of the SAME command, and the device defines it *)
Lemma enq_variant d com tgts a :
  In a (enqueue_targeted d com tgts) ->
  has d (qa_com a) = true /\
  (qa_com a = com \/ lookup all_table com = Some (qa_com a) \/ lookup ranged_table com = Some (qa_com a)).
Proof.
  intros Hin. pose proof (enqueue_targeted_shape d com tgts) as S.
  inversion S as [Hh Hl E | n Hn Hc E | n Hn E | Hh E | Hh Hr Hc E]; rewrite <- E in Hin.
  - unfold singles in Hin. apply in_map_iff in Hin as [q [Hq _]]. subst a. cbn. auto.
  - destruct Hin as [<-|[]]. cbn. apply all_script_variant in Hn as [H1 H2]. auto.
  - destruct Hin as [<-|[]]. cbn. apply ranged_script_variant in Hn as [H1 H2]. auto.
  - unfold singles in Hin. apply in_map_iff in Hin as [q [Hq _]]. subst a. cbn. auto.
  - destruct Hin.
Qed.

(* shapes of the plug argument per variant: singlet = exactly one plug; ranged = exactly the targeted plugs *)
Lemma enq_plug_arg d com tgts a :
  In a (enqueue_targeted d com tgts) ->
  (qa_com a = com /\ exists p, qa_plugs a = Some [p] /\ In p (targeted d tgts))
  \/ (lookup all_table com = Some (qa_com a) /\ qa_plugs a = None)
  \/ (lookup ranged_table com = Some (qa_com a) /\ qa_plugs a = Some (targeted d tgts) /\ targeted d tgts <> [] \/
      lookup ranged_table com = Some (qa_com a) /\ qa_plugs a = Some (targeted d tgts)).
Proof.
  intros Hin. pose proof (enqueue_targeted_shape d com tgts) as S.
  inversion S as [Hh Hl E | n Hn Hc E | n Hn E | Hh E | Hh Hr Hc E]; rewrite <- E in Hin.
  - left. unfold singles in Hin. apply in_map_iff in Hin as [q [Hq Hq2]]. subst a. cbn. eauto.
  - right; left. destruct Hin as [<-|[]]. cbn. apply all_script_variant in Hn as [H1 _]. auto.
  - right; right; right. destruct Hin as [<-|[]]. cbn. apply ranged_script_variant in Hn as [H1 _]. auto.
  - left. unfold singles in Hin. apply in_map_iff in Hin as [q [Hq Hq2]]. subst a. cbn. eauto.
  - destruct Hin.
Qed.

Lemma enq_unneeded d com tgts : needs d tgts = false -> enqueue_dev d com tgts = [].
Proof. unfold enqueue_dev. intros ->. destruct (implements d com); reflexivity. Qed.

Lemma needs_targeted d tgts : needs d tgts = true <-> targeted d tgts <> [].
Proof.
  unfold needs, targeted. induction (ed_plugs d) as [|p l IH]; cbn [existsb filter].
  - split; [discriminate|congruence].
  - destruct (plug_targeted tgts p); cbn [orb].
    + split; [discriminate|auto].
    + exact IH.
Qed.

(* ---------- coverage (C02): the repaired check guarantees that every targeted plug of every needed
   device is covered by a queued action ---------- *)

Definition covers (a : qact) (p : plug) : Prop :=
  match qa_plugs a with Some ps => In p ps | None => True end.

Lemma will_act_implements d com tgts : will_act d com tgts = true -> implements d com = true.
Proof.
  unfold will_act, implements. intros H.
  apply orb_true_iff in H as [H|H]; [apply orb_true_iff in H as [H|H]|].
  - now rewrite H.
  - rewrite H. now rewrite orb_true_r.
  - apply andb_true_iff in H as [H _]. rewrite H. now rewrite orb_true_r.
Qed.

Lemma enqueue_covers d com tgts p :
  will_act d com tgts = true -> In p (targeted d tgts) ->
  exists a, In a (enqueue_dev d com tgts) /\ covers a p.
Proof.
  intros Hw Hp.
  assert (Hn : needs d tgts = true) by (apply needs_targeted; intros E; rewrite E in Hp; destruct Hp).
  unfold enqueue_dev. rewrite (will_act_implements _ _ _ Hw), Hn. cbn [negb].
  pose proof (enqueue_targeted_shape d com tgts) as S.
  inversion S as [Hh Hl E | n Hn' Hc E | n Hn' E | Hh E | Hh Hr Hc E].
  - exists (mkQact com (Some [p])). split; [unfold singles; apply in_map_iff; eauto|]. cbn. auto.
  - exists (mkQact n None). split; [left; reflexivity|exact I].
  - exists (mkQact n (Some (targeted d tgts))). split; [left; reflexivity|exact Hp].
  - exists (mkQact com (Some [p])). split; [unfold singles; apply in_map_iff; eauto|]. cbn. auto.
  - exfalso. unfold will_act in Hw. rewrite Hh, Hr in Hw. cbn [orb] in Hw.
    destruct Hc as [Hc|[Hc1 Hc2]].
    + rewrite Hc in Hw. discriminate.
    + rewrite Hc1, Hc2 in Hw. rewrite andb_false_r in Hw. discriminate.
Qed.

(* ... and when the repaired predicate is false for a needed device nothing is queued on it: the
   request must then be refused as a whole (213), which is what check_actions = false causes *)
Lemma not_will_act_empty d com tgts :
  will_act d com tgts = false -> enqueue_dev d com tgts = [].
Proof.
  intros Hw. unfold enqueue_dev.
  destruct (implements d com) eqn:Hi; [|reflexivity]. cbn [negb].
  destruct (needs d tgts) eqn:Hn; [|reflexivity]. cbn [negb].
  unfold will_act in Hw. apply orb_false_iff in Hw as [Hw Hw3]. apply orb_false_iff in Hw as [Hw1 Hw2].
  pose proof (enqueue_targeted_shape d com tgts) as S.
  inversion S as [Hh Hl E | n Hn' Hc E | n Hn' E | Hh E | Hh Hr Hc E]; try congruence.
  - rewrite Hn' in Hw3. cbn [andb] in Hw3. apply orb_false_iff in Hw3 as [Q A].
    destruct Hc as [Hc|[Hc _]]; congruence.
  - rewrite Hn' in Hw2. discriminate.
Qed.

Lemma check_actions_covers devs com tgts :
  check_actions devs com tgts = true ->
  forall d p, In d devs -> In p (targeted d tgts) ->
  exists a, In a (enqueue_dev d com tgts) /\ covers a p.
Proof.
  intros Hc d p Hd Hp. unfold check_actions in Hc. rewrite forallb_forall in Hc. specialize (Hc d Hd).
  assert (Hn : needs d tgts = true) by (apply needs_targeted; intros E; rewrite E in Hp; destruct Hp).
  rewrite Hn in Hc. cbn [negb orb] in Hc. now apply enqueue_covers.
Qed.

(* the old predicate ("some variant exists") does NOT have this property: witness of defect F4 *)
Definition f4_dev : edev :=
  mkEdev (bs "B"%string) [mkPlug (bs "1"%string) (Some (bs "b0"%string)); mkPlug (bs "2"%string) (Some (bs "b1"%string))] [PM_LOG_IN; PM_POWER_ON_ALL].
Lemma check_actions_any_refuted :
  check_actions_any [f4_dev] PM_POWER_ON [bs "b0"%string] = true /\
  needs f4_dev [bs "b0"%string] = true /\ enqueue_dev f4_dev PM_POWER_ON [bs "b0"%string] = [].
Proof. vm_compute. repeat split; reflexivity. Qed.

(* total count = what the client stores in cmd->pending *)
Lemma total_app q1 q2 : total (q1 ++ q2) = (total q1 + total q2)%nat.
Proof. unfold total. induction q1 as [|x q IH]; cbn [app fold_right]; [reflexivity|]. rewrite IH. lia. Qed.

(* ---------- the C01 statements, proved here; Properties/C01.v only restates them ---------- *)

(* every queued action addresses only plugs of ITS device that are mapped to a node in the target list *)
Lemma p_C01_plugs_targeted : forall d com tgts a ps,
  In a (enqueue_dev d com tgts) -> qa_plugs a = Some ps ->
  forall p, In p ps -> In p (ed_plugs d) /\ exists n, pl_node p = Some n /\ In n tgts.
Proof.
  intros d com tgts a ps Hin Hps p Hp.
  unfold enqueue_dev in Hin. destruct (implements d com); [|destruct Hin]. destruct (needs d tgts); [|destruct Hin].
  cbn [negb] in Hin. destruct (enq_plugs_targeted d com tgts a ps Hin Hps p Hp) as [H1 H2].
  split; [exact H1|]. now apply plug_targeted_node.
Qed.

(* a whole-device ('_all') POWER script is queued only when every plug of the device is mapped to a targeted node *)
Lemma p_C01_all_needs_every_plug : forall d com tgts a,
  In com power_coms -> In a (enqueue_dev d com tgts) -> qa_plugs a = None ->
  forall p, In p (ed_plugs d) -> exists n, pl_node p = Some n /\ In n tgts.
Proof.
  intros d com tgts a Hpow Hin Hps p Hp.
  unfold enqueue_dev in Hin. destruct (implements d com); [|destruct Hin]. destruct (needs d tgts); [|destruct Hin].
  cbn [negb] in Hin. destruct (enq_all_only_when_all d com tgts a Hin Hps) as [_ [Hall|[Hq _]]].
  - unfold all_flag in Hall. rewrite forallb_forall in Hall. apply (plug_targeted_node tgts p). now apply Hall.
  - rewrite (power_com_not_query com Hpow) in Hq. discriminate.
Qed.

(* the script that runs is the singlet, _all or _ranged variant of the requested command (tables regenerated
   from _get_all_script/_get_ranged_script of the current device.c) and the device defines it *)
Lemma p_C01_same_command : forall d com tgts a,
  In a (enqueue_dev d com tgts) ->
  has d (qa_com a) = true /\
  (qa_com a = com \/ lookup all_table com = Some (qa_com a) \/ lookup ranged_table com = Some (qa_com a)).
Proof.
  intros d com tgts a Hin.
  unfold enqueue_dev in Hin. destruct (implements d com); [|destruct Hin]. destruct (needs d tgts); [|destruct Hin].
  cbn [negb] in Hin. now apply (enq_variant d com tgts).
Qed.

Lemma p_C01_variant_tables :
  lookup all_table PM_POWER_ON = Some PM_POWER_ON_ALL /\ lookup all_table PM_POWER_OFF = Some PM_POWER_OFF_ALL /\
  lookup all_table PM_POWER_CYCLE = Some PM_POWER_CYCLE_ALL /\ lookup all_table PM_RESET = Some PM_RESET_ALL /\
  lookup all_table PM_BEACON_ON = None /\ lookup all_table PM_BEACON_OFF = None /\
  lookup ranged_table PM_POWER_ON = Some PM_POWER_ON_RANGED /\ lookup ranged_table PM_POWER_OFF = Some PM_POWER_OFF_RANGED /\
  lookup ranged_table PM_POWER_CYCLE = Some PM_POWER_CYCLE_RANGED /\ lookup ranged_table PM_RESET = Some PM_RESET_RANGED /\
  lookup ranged_table PM_BEACON_ON = Some PM_BEACON_ON_RANGED /\ lookup ranged_table PM_BEACON_OFF = Some PM_BEACON_OFF_RANGED /\
  NoDup (power_coms ++ query_coms ++ map snd all_table ++ map snd ranged_table ++ [PM_LOG_IN; PM_LOG_OUT; PM_PING]).
Proof.
  pose proof all_table_exact as A. pose proof ranged_table_exact as R. pose proof variant_indices_distinct as D.
  intuition.
Qed.

(* devices none of whose nodes were named receive no action on behalf of the request *)
Lemma p_C01_uninvolved_device : forall d com tgts,
  (forall p n, In p (ed_plugs d) -> pl_node p = Some n -> ~ In n tgts) -> enqueue_dev d com tgts = [].
Proof.
  intros d com tgts H. apply enq_unneeded.
  destruct (needs d tgts) eqn:E; [|reflexivity]. exfalso.
  unfold needs in E. apply existsb_exists in E as [p [Hp Ht]].
  apply plug_targeted_node in Ht as [n [Hn Hi]]. exact (H p n Hp Hn Hi).
Qed.

(* the ranged variant carries exactly the targeted plugs of the device, in device order; the singlet variant one plug *)
Lemma p_C01_plug_argument : forall d com tgts a,
  In a (enqueue_dev d com tgts) ->
  (qa_com a = com /\ exists p, qa_plugs a = Some [p] /\ In p (targeted d tgts))
  \/ (lookup all_table com = Some (qa_com a) /\ qa_plugs a = None)
  \/ (lookup ranged_table com = Some (qa_com a) /\ qa_plugs a = Some (targeted d tgts)).
Proof.
  intros d com tgts a Hin.
  unfold enqueue_dev in Hin. destruct (implements d com); [|destruct Hin]. destruct (needs d tgts); [|destruct Hin].
  cbn [negb] in Hin. destruct (enq_plug_arg d com tgts a Hin) as [H|[H|[[H1 [H2 _]]|H]]]; auto.
Qed.

(* non-vacuity: a device with one unused plug; `on n0,n1` uses the ranged script on exactly the two mapped plugs
   and not the _all script *)
Lemma p_C01_example :
  let d := mkEdev (bs "d"%string)
             [mkPlug (bs "1"%string) (Some (bs "n0"%string)); mkPlug (bs "2"%string) (Some (bs "n1"%string)); mkPlug (bs "3"%string) None]
             [PM_LOG_IN; PM_POWER_ON_RANGED; PM_POWER_ON_ALL] in
  enqueue_dev d PM_POWER_ON [bs "n0"%string; bs "n1"%string] =
    [mkQact PM_POWER_ON_RANGED (Some [mkPlug (bs "1"%string) (Some (bs "n0"%string)); mkPlug (bs "2"%string) (Some (bs "n1"%string))])].
Proof. vm_compute. reflexivity. Qed.


(* ---------- the plug list of a queued action is a SUB-LIST of the device's plug list (same order, nothing repeated that the device
   does not repeat), hence never longer: the termination measure of _process_action's loop (Proofs/DeviceFuel.v) weighs a foreach by
   the number of plugs of the device ---------- *)
Inductive sublist {A : Type} : list A -> list A -> Prop :=
| sl_nil : sublist [] []
| sl_keep x l1 l2 : sublist l1 l2 -> sublist (x :: l1) (x :: l2)
| sl_skip x l1 l2 : sublist l1 l2 -> sublist l1 (x :: l2).
Lemma sublist_nil {A} (l : list A) : sublist [] l.
Proof. induction l; constructor; assumption. Qed.
Lemma sublist_length {A} (l1 l2 : list A) : sublist l1 l2 -> (length l1 <= length l2)%nat.
Proof. induction 1; cbn [length]; lia. Qed.
Lemma sublist_filter {A} (f : A -> bool) (l : list A) : sublist (filter f l) l.
Proof. induction l as [|x r IH]; cbn [filter]; [constructor|]. destruct (f x); constructor; exact IH. Qed.
Lemma sublist_single {A} (x : A) (l : list A) : In x l -> sublist [x] l.
Proof. induction l as [|y r IH]; [intros []|intros [->|H]; [apply sl_keep, sublist_nil|apply sl_skip, IH, H]]. Qed.
Lemma sublist_trans {A} (l1 l2 l3 : list A) : sublist l1 l2 -> sublist l2 l3 -> sublist l1 l3.
Proof.
  intros H1 H2. revert l1 H1. induction H2 as [|x l2 l3 H2 IH|x l2 l3 H2 IH]; intros l1 H1.
  - exact H1.
  - inversion H1; subst; [apply sl_keep|apply sl_skip]; auto.
  - apply sl_skip. auto.
Qed.

Lemma enq_plugs_sublist d com tgts a ps :
  In a (enqueue_dev d com tgts) -> qa_plugs a = Some ps -> sublist ps (ed_plugs d).
Proof.
  unfold enqueue_dev. destruct (negb (implements d com)); [intros []|]. destruct (negb (needs d tgts)); [intros []|].
  intros Hin Hps. destruct (enq_plug_arg _ _ _ _ Hin) as [(_ & p & E & Hp)|[(_ & E)|[(_ & E & _)|(_ & E)]]]; rewrite E in Hps; try discriminate; injection Hps as <-.
  - eapply sublist_trans; [apply sublist_single; exact Hp|apply sublist_filter].
  - apply sublist_filter.
  - apply sublist_filter.
Qed.
Lemma enq_plugs_length d com tgts a :
  In a (enqueue_dev d com tgts) -> (match qa_plugs a with Some ps => length ps | None => O end <= length (ed_plugs d))%nat.
Proof.
  intros Hin. destruct (qa_plugs a) as [ps|] eqn:E; [|lia]. apply sublist_length. eapply enq_plugs_sublist; eassumption.
Qed.
