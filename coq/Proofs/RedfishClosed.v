(* C19, several targets on one line: RedfishSpec.expected (targets answered one after the other, shallowest first, each
   looking at the status map left by the targets before it) has the closed form of RedfishEff.v:
     lines  = one [sline] per known target (as a multiset), after the reports of the unknown names;
     status = [sfinal].
   The depth order of the specification is what makes the `off` cascade of a targeted ancestor visible to the targets
   below it: when a target is answered, every targeted plug above it has been answered already. *)
From Coq Require Import List NArith ZArith Bool Lia Permutation Sorted.
From PM Require Import Base.Bytes Base.Outcome Gen.GenRfp Model.Redfish Spec.RedfishSpec Model.RedfishView
  Proofs.RedfishBase Proofs.RedfishSteps Proofs.RedfishMgmt Proofs.RedfishRules Proofs.RedfishInv Proofs.RedfishEff.
Import ListNotations.

Lemma scmd_cases (c : scmd) : c = SpStat \/ c = SpOn \/ c = SpOff.
Proof. destruct c; auto. Qed.

Lemma find_app' {A} (p : A -> bool) l1 l2 : find p (l1 ++ l2) = match find p l1 with Some a => Some a | None => find p l2 end.
Proof. induction l1 as [|a r IH]; [reflexivity|]. cbn [app find]. destruct (p a); [reflexivity | exact IH]. Qed.

(* ------------------------------------------------------------------ the depth order *)
Section ByDepth.
Variable f : forest.
Definition dle (p q : text) : Prop := depth f p <= depth f q.

Lemma insert_perm p l : Permutation (insert_by_depth f p l) (p :: l).
Proof.
  induction l as [|q r IH]; cbn [insert_by_depth]; [apply Permutation_refl|].
  destruct (Nat.ltb (depth f p) (depth f q)); [apply Permutation_refl|].
  eapply Permutation_trans; [apply perm_skip; exact IH | apply perm_swap].
Qed.

Lemma insert_sorted p l : StronglySorted dle l -> StronglySorted dle (insert_by_depth f p l).
Proof.
  induction l as [|q r IH]; intros S; cbn [insert_by_depth]; [constructor; constructor|].
  inversion S as [|? ? Sr Fq]; subst.
  destruct (Nat.ltb (depth f p) (depth f q)) eqn:LT.
  - apply Nat.ltb_lt in LT. constructor; [exact S|]. constructor; [unfold dle; lia|].
    eapply Forall_impl; [|exact Fq]. unfold dle. intros a H. lia.
  - apply Nat.ltb_ge in LT. constructor; [now apply IH|].
    apply Forall_forall. intros a Ia. apply (Permutation_in _ (insert_perm p r)) in Ia. destruct Ia as [<-|Ia]; [exact LT|].
    rewrite Forall_forall in Fq. now apply Fq.
Qed.

Lemma by_depth_acc l : forall acc, StronglySorted dle acc ->
  Permutation (fold_left (fun a p => insert_by_depth f p a) l acc) (acc ++ l) /\
  StronglySorted dle (fold_left (fun a p => insert_by_depth f p a) l acc).
Proof.
  induction l as [|p r IH]; intros acc S; cbn [fold_left]; [rewrite app_nil_r; split; [apply Permutation_refl | exact S]|].
  destruct (IH (insert_by_depth f p acc) (insert_sorted p acc S)) as [P S']. split; [|exact S'].
  eapply Permutation_trans; [exact P|]. eapply Permutation_trans; [apply Permutation_app_tail; apply insert_perm|].
  cbn [app]. apply Permutation_middle.
Qed.

Lemma by_depth_spec l : Permutation (by_depth f l) l /\ StronglySorted dle (by_depth f l).
Proof. unfold by_depth. destruct (by_depth_acc l [] (SSorted_nil _)) as [P S]. auto. Qed.

Lemma related_pair_false l : related_pair f l = false -> forall p q, In p l -> In q l -> p <> q -> descendant f p q = false.
Proof.
  induction l as [|x r IH]; intros H p q Ip Iq NE; [destruct Ip|]. cbn [related_pair] in H. apply orb_false_iff in H as [H1 H2].
  assert (X : forall y, In y r -> descendant f x y = false /\ descendant f y x = false).
  { intros y Iy. destruct (descendant f x y || descendant f y x) eqn:E.
    - assert (existsb (fun q0 => descendant f x q0 || descendant f q0 x) r = true) by (apply existsb_exists; eauto). congruence.
    - now apply orb_false_iff in E. }
  destruct Ip as [<-|Ip], Iq as [<-|Iq]; [congruence | apply (X q Iq) | apply (X p Ip) | now apply IH].
Qed.

Lemma related_pair_true l p q : In p l -> In q l -> p <> q -> descendant f p q = true -> related_pair f l = true.
Proof. intros Ip Iq NE D. destruct (related_pair f l) eqn:E; [reflexivity|]. rewrite (related_pair_false l E p q Ip Iq NE) in D. discriminate. Qed.
End ByDepth.

(* ------------------------------------------------------------------ answers = the closed form *)
Section Answers.
Variables (tab : list plug) (fail : list text) (c : scmd) (K : list text) (m0 : statmap).
Notation f := (forest_of tab).
Notation seff := (seff f fail c K m0).
Notation sblocker := (sblocker f fail c K m0).
Notation sline := (sline f fail c K m0).
Notation carried := (carried f fail c K m0).

Hypothesis Kok : forall x, In x K -> okchain tab x.
Hypothesis Kon : c = SpOn -> forall x a, In x K -> In a (anc tab x) -> ~ In a K.

(* the status map after the targets of P *)
Definition sfin (P : list text) (k : text) : sstat :=
  match c with
  | SpStat => st_get m0 k
  | SpOn => if existsb (fun p => carried p && text_eqb k p) P then StOn else st_get m0 k
  | SpOff => if existsb (fun p => carried p && (text_eqb k p || descendant f k p)) P then StOff else st_get m0 k
  end.

Lemma sfinal_sfin k : sfinal f fail c K m0 k = sfin K k.
Proof. reflexivity. Qed.

Lemma anc_step x par l : okchain tab x -> anc tab x = par :: l -> l = anc tab par /\ okchain tab par.
Proof.
  intros C E. assert (I : In par (anc tab x)) by (rewrite E; now left).
  destruct (okchain_anc _ _ _ C I) as (l1 & E1 & NI & Cp). split; [|exact Cp].
  rewrite E in E1. destruct l1 as [|h t]; cbn [app] in E1; [now inversion E1|]. inversion E1; subst h. exfalso. apply NI. now left.
Qed.

(* find over the ancestor chain, root first: a recursion along the parent *)
Definition fblock (g : text -> sstat) (x : text) : option (text * sstat) :=
  match find (fun a => negb (is_on (g a))) (rev (anc tab x)) with Some a => Some (a, g a) | None => None end.
Lemma fblock_root g x : anc tab x = [] -> fblock g x = None.
Proof. intros E. unfold fblock. now rewrite E. Qed.
Lemma fblock_step g x par : anc tab x = par :: anc tab par ->
  fblock g x = match fblock g par with Some r => Some r | None => if negb (is_on (g par)) then Some (par, g par) else None end.
Proof.
  intros E. unfold fblock. rewrite E. cbn [rev]. rewrite find_app'. destruct (find (fun a => negb (is_on (g a))) (rev (anc tab par))); [reflexivity|].
  cbn [find]. destruct (negb (is_on (g par))); reflexivity.
Qed.
Lemma blocker_fblock m x : blocker f fail m x = fblock (qstat f fail m) x.
Proof. reflexivity. Qed.
Lemma sblocker_fblock x : sblocker x = fblock seff x.
Proof. reflexivity. Qed.

Lemma sblocker_none_all x : sblocker x = None -> forall a, In a (anc tab x) -> is_on (seff a) = true.
Proof.
  unfold RedfishEff.sblocker. intros H a I. destruct (find _ (RedfishSpec.chain f x)) eqn:F; [discriminate|].
  assert (Ia : In a (RedfishSpec.chain f x)) by (unfold RedfishSpec.chain; apply -> in_rev; exact I).
  pose proof (find_none _ _ F a Ia) as N. cbv beta in N. now apply negb_false_iff.
Qed.

Lemma seff_K_off a : c = SpOff -> In a K -> is_on (seff a) = false.
Proof. intros E I. apply smem_in in I. unfold RedfishEff.seff. destruct (smem (host_of f a) fail); [reflexivity|]. rewrite E, I. reflexivity. Qed.

Lemma desc_anc k p : descendant f k p = true <-> In p (anc tab k).
Proof. unfold descendant. apply smem_in. Qed.

(* what a query of an ancestor sees in the current map is what the closed form says, as long as everything above it is on *)
Lemma qstat_seff m P par : (forall k, st_get m k = sfin P k) -> (forall p, In p P -> In p K) ->
  okchain tab par -> (c = SpOn -> ~ In par K) -> (In par K -> In par P) -> sblocker par = None ->
  qstat f fail m par = seff par.
Proof.
  intros HM PK C NK KP SB.
  pose proof (sblocker_none_all par SB) as ONALL. pose proof seff_K_off as KOFF.
  unfold qstat, RedfishEff.seff. destruct (smem (host_of f par) fail) eqn:FH; [reflexivity|].
  rewrite HM. unfold sfin. destruct c eqn:EC; [reflexivity| |].
  - assert (N : ~ In par K) by now apply NK. assert (smem par K = false) as -> by now apply mem_not_in.
    destruct (existsb _ P) eqn:X; [|reflexivity]. exfalso. apply existsb_exists in X as (p & Ip & X). apply andb_true_iff in X as [_ X].
    apply text_eqb_eq in X. subst p. apply N. now apply PK.
  - destruct (smem par K) eqn:SK.
    + apply smem_in in SK. destruct (existsb _ P) eqn:X; [reflexivity|]. exfalso. apply not_true_iff_false in X. apply X.
      apply existsb_exists. exists par. split; [now apply KP|]. unfold RedfishEff.carried. rewrite SB, FH, text_eqb_refl. reflexivity.
    + destruct (existsb _ P) eqn:X; [|reflexivity]. exfalso. apply existsb_exists in X as (p & Ip & X). apply andb_true_iff in X as [_ X].
      apply orb_true_iff in X as [X|X].
      * apply text_eqb_eq in X. subst p. apply mem_not_in in SK. apply SK. now apply PK.
      * apply desc_anc in X. pose proof (ONALL p X) as ON. rewrite (KOFF p eq_refl (PK p Ip)) in ON. discriminate.
Qed.

Lemma blocker_agree m P : (forall k, st_get m k = sfin P k) -> (forall p, In p P -> In p K) ->
  forall l x, anc tab x = l -> okchain tab x -> (c = SpOn -> forall a, In a l -> ~ In a K) -> (forall a, In a l -> In a K -> In a P) ->
  blocker f fail m x = sblocker x.
Proof.
  intros HM PK. induction l as [|par l IH]; intros x E C NK KP; rewrite blocker_fblock, sblocker_fblock.
  - now rewrite !fblock_root.
  - destruct (anc_step x par l C E) as [EL Cp]. subst l.
    rewrite !(fblock_step _ x par E). rewrite <- blocker_fblock, <- sblocker_fblock.
    rewrite (IH par eq_refl Cp); [| intros EC a Ia; apply (NK EC); now right | intros a Ia; apply KP; now right].
    destruct (sblocker par) eqn:SB; [reflexivity|].
    rewrite (qstat_seff m P par HM PK Cp); [reflexivity | intros EC; apply (NK EC); now left | apply KP; now left | exact SB].
Qed.

Lemma existsb_snoc {A} (g : A -> bool) l x : existsb g (l ++ [x]) = existsb g l || g x.
Proof. rewrite existsb_app. cbn [existsb]. now rewrite orb_false_r. Qed.

(* one target *)
Lemma answer_closed m P x : (forall k, st_get m k = sfin P k) -> (forall p, In p P -> In p K) -> In x K ->
  (forall a, In a (anc tab x) -> In a K -> In a P) ->
  fst (answer f fail c m x) = sline x /\ forall k, st_get (snd (answer f fail c m x)) k = sfin (P ++ [x]) k.
Proof.
  intros HM PK IK KP. pose proof (Kok x IK) as C.
  assert (B : blocker f fail m x = sblocker x).
  { apply (blocker_agree m P HM PK (anc tab x) x eq_refl C); [intros EC a Ia; now apply (Kon EC x) | exact KP]. }
  assert (SAME : forall k, sfin (P ++ [x]) k = if carried x then match c with SpStat => st_get m0 k | SpOn => if text_eqb k x then StOn else sfin P k
                                                  | SpOff => if text_eqb k x || descendant f k x then StOff else sfin P k end else sfin P k).
  { intros k. unfold sfin. destruct c; [destruct (RedfishEff.carried f fail _ K m0 x); reflexivity| |]; rewrite existsb_snoc; destruct (RedfishEff.carried f fail _ K m0 x); cbn [andb]; rewrite ?orb_false_r; try reflexivity.
    - destruct (text_eqb k x); [now rewrite orb_true_r | now rewrite orb_false_r].
    - destruct (text_eqb k x || descendant f k x); [now rewrite orb_true_r | now rewrite orb_false_r]. }
  unfold answer, RedfishEff.sline, RedfishEff.carried in *. rewrite B. destruct (sblocker x) as [[a s]|] eqn:SB.
  - split; [destruct c, s; reflexivity|]. intros k. rewrite SAME. destruct c, s; cbn [snd]; apply HM.
  - destruct (smem (host_of f x) fail) eqn:FH; cbn [negb] in SAME.
    + split; [reflexivity|]. intros k. rewrite SAME. cbn [snd]. apply HM.
    + destruct (scmd_cases c) as [EC|[EC|EC]]; rewrite EC; cbn [fst snd].
      * split; [rewrite HM; unfold sfin; rewrite EC; reflexivity|]. intros k. rewrite SAME, EC, HM. unfold sfin. rewrite EC. reflexivity.
      * split; [reflexivity|]. intros k. rewrite SAME, EC. destruct (text_eqb k x) eqn:E.
        -- apply text_eqb_eq in E. subst k. apply st_get_set_same.
        -- apply text_eqb_neq in E. rewrite st_get_set_other by exact E. apply HM.
      * split; [reflexivity|]. intros k. rewrite SAME, EC, cascade_off_get. destruct (text_eqb k x || descendant f k x); [reflexivity | apply HM].
Qed.

Lemma depth_dp x : depth f x = dp tab x.
Proof. reflexivity. Qed.

(* a depth-sorted list of targets, everything shallower already answered *)
Lemma answers_closed : forall l m P, (forall k, st_get m k = sfin P k) -> (forall p, In p P -> In p K) -> (forall x, In x l -> In x K) ->
  StronglySorted (dle f) l -> (forall y, In y K -> In y (P ++ l)) ->
  fst (answers f fail c m l) = map sline l /\ forall k, st_get (snd (answers f fail c m l)) k = sfin (P ++ l) k.
Proof.
  induction l as [|x r IH]; intros m P HM PK LK SS ALL; cbn [answers map].
  - rewrite app_nil_r. auto.
  - inversion SS as [|? ? Sr Fx]; subst.
    destruct (answer_closed m P x HM PK (LK x (or_introl eq_refl))) as [E1 HM1].
    { intros a Ia IaK. specialize (ALL a IaK). apply in_app_or in ALL as [H|[H|H]]; [exact H | |]; exfalso.
      - subst a. exact (chain_not_in _ _ _ (Kok x (LK x (or_introl eq_refl))) Ia).
      - rewrite Forall_forall in Fx. specialize (Fx a H). unfold dle in Fx. rewrite !depth_dp in Fx.
        pose proof (dp_anc tab x a (Kok x (LK x (or_introl eq_refl))) Ia). lia. }
    destruct (answer f fail c m x) as [ln m1]. cbn [fst snd] in *.
    destruct (IH m1 (P ++ [x]) HM1) as [E2 HM2]; auto.
    { intros p Ip. apply in_app_or in Ip as [Ip|[<-|[]]]; [now apply PK | apply LK; now left]. }
    { intros y Iy. apply LK. now right. }
    { intros y Iy. specialize (ALL y Iy). rewrite <- app_assoc. exact ALL. }
    destruct (answers f fail c m1 r) as [ls m2]. cbn [fst snd] in *. split; [now rewrite E1, E2|].
    intros k. rewrite HM2, <- app_assoc. reflexivity.
Qed.

Lemma sfin_perm P Q k : (forall p, In p P <-> In p Q) -> sfin P k = sfin Q k.
Proof.
  intros H. unfold sfin. destruct c; [reflexivity| |];
    match goal with |- (if existsb ?g P then _ else _) = _ => assert (existsb g P = existsb g Q) as -> end; try reflexivity;
    (destruct (existsb _ Q) eqn:X; [apply existsb_exists in X as (p & Ip & X); apply existsb_exists; exists p; split; [now apply H | exact X]|]);
    (match goal with |- existsb ?g P = false => destruct (existsb g P) eqn:Y; [|reflexivity] end);
    apply existsb_exists in Y as (p & Ip & Y); exfalso;
    (match type of X with existsb ?g Q = false => assert (existsb g Q = true) by (apply existsb_exists; exists p; split; [now apply H | exact Y]) end); congruence.
Qed.

(* the target list of a command line, all of them known *)
Theorem answers_by_depth : (forall k, st_get m0 k = sfin [] k) ->
  Permutation (fst (answers f fail c m0 (by_depth f K))) (map sline K) /\
  forall k, st_get (snd (answers f fail c m0 (by_depth f K))) k = sfinal f fail c K m0 k.
Proof.
  intros H0. destruct (by_depth_spec f K) as [PM SS].
  destruct (answers_closed (by_depth f K) m0 [] H0) as [E HM]; auto.
  - intros p [].
  - intros x I. eapply Permutation_in; eassumption.
  - intros y Iy. cbn [app]. eapply Permutation_in; [apply Permutation_sym|]; eassumption.
  - split; [rewrite E; now apply Permutation_map|]. intros k. rewrite HM. cbn [app]. rewrite sfinal_sfin. apply sfin_perm.
    intros p. split; intros I; [eapply Permutation_in; eassumption | eapply Permutation_in; [apply Permutation_sym|]; eassumption].
Qed.

Lemma sfin_nil k : st_get m0 k = sfin [] k.
Proof. unfold sfin. destruct c; reflexivity. Qed.
End Answers.
