(* Several clients on one daemon (Model/CliWorld.v, world / wstep): isolation (C11), the pending count (C02) and
   totality of the client layer against its own action queue (C06, C04). *)
From Coq Require Import List NArith ZArith Bool Lia.
From PM Require Import Base.Bytes Base.Outcome Base.Dec Gen.GenConsts Gen.GenClient Model.ScriptAst Model.Enqueue Model.Script Model.Client Model.CliWorld
                       Spec.Proto Proofs.ClientProto Proofs.ClientProofs Proofs.ClientStream Proofs.ClientReply.
Import ListNotations.
Local Open Scope Z_scope.

(* ---------- the client table ---------- *)
Lemma find_client_In cs id c : find_client cs id = Some c -> In c cs /\ cl_id c = id.
Proof.
  induction cs as [|x r IH]; [discriminate|]. cbn [find_client]. destruct (Z.eqb (cl_id x) id) eqn:E.
  - intros H; inversion H; subst. split; [left; reflexivity|now apply Z.eqb_eq].
  - intros H. destruct (IH H) as [A B]. split; [right; exact A|exact B].
Qed.

Lemma find_put_other cs c' j : cl_id c' <> j -> find_client (put_client cs c') j = find_client cs j.
Proof.
  intros H. induction cs as [|x r IH]; [reflexivity|]. cbn [put_client].
  destruct (Z.eqb (cl_id x) (cl_id c')) eqn:E.
  - apply Z.eqb_eq in E. cbn [find_client]. rewrite E. assert (Z.eqb (cl_id c') j = false) as -> by (now apply Z.eqb_neq). reflexivity.
  - cbn [find_client]. destruct (Z.eqb (cl_id x) j); [reflexivity|exact IH].
Qed.

Lemma find_put_same cs c c' : find_client cs (cl_id c') = Some c -> find_client (put_client cs c') (cl_id c') = Some c'.
Proof.
  induction cs as [|x r IH]; [discriminate|]. cbn [find_client put_client]. destruct (Z.eqb (cl_id x) (cl_id c')) eqn:E.
  - intros _. cbn [find_client]. rewrite Z.eqb_refl. reflexivity.
  - intros H. cbn [find_client]. rewrite E. exact (IH H).
Qed.

Lemma put_client_ids cs c' : map cl_id (put_client cs c') = map cl_id cs.
Proof.
  induction cs as [|x r IH]; [reflexivity|]. cbn [put_client]. destruct (Z.eqb (cl_id x) (cl_id c')) eqn:E; cbn [map].
  - apply Z.eqb_eq in E. rewrite E. reflexivity.
  - rewrite IH. reflexivity.
Qed.

Lemma put_client_In cs c' x : NoDup (map cl_id cs) -> In x (put_client cs c') -> x = c' \/ (In x cs /\ cl_id x <> cl_id c').
Proof.
  induction cs as [|y r IH]; intros N H; [destruct H|]. cbn [put_client] in H. cbn [map] in N. inversion N as [|? ? N1 N2]; subst.
  destruct (Z.eqb (cl_id y) (cl_id c')) eqn:E.
  - destruct H as [<-|H]; [left; reflexivity|]. right. split; [right; exact H|]. apply Z.eqb_eq in E. intros E2. apply N1. rewrite E, <- E2. now apply in_map.
  - destruct H as [<-|H]; [right; split; [left; reflexivity|now apply Z.eqb_neq]|].
    destruct (IH N2 H) as [A|[A B]]; [left; exact A|right; split; [right; exact A|exact B]].
Qed.

Lemma find_drop_other cs id j : id <> j -> find_client (drop_client cs id) j = find_client cs j.
Proof.
  intros H. induction cs as [|x r IH]; [reflexivity|]. cbn [drop_client]. destruct (Z.eqb (cl_id x) id) eqn:E.
  - apply Z.eqb_eq in E. cbn [find_client]. rewrite E. assert (Z.eqb id j = false) as -> by (now apply Z.eqb_neq). reflexivity.
  - cbn [find_client]. destruct (Z.eqb (cl_id x) j); [reflexivity|exact IH].
Qed.

Lemma drop_client_In cs id x : In x (drop_client cs id) -> In x cs.
Proof.
  induction cs as [|y r IH]; intros H; [destruct H|]. cbn [drop_client] in H. destruct (Z.eqb (cl_id y) id); [right; exact H|].
  destruct H as [<-|H]; [left; reflexivity|right; exact (IH H)].
Qed.

Lemma drop_client_nodup cs id : NoDup (map cl_id cs) -> NoDup (map cl_id (drop_client cs id)).
Proof.
  induction cs as [|y r IH]; intros N; [constructor|]. cbn [map] in N. inversion N as [|? ? N1 N2]; subst. cbn [drop_client].
  destruct (Z.eqb (cl_id y) id); [exact N2|]. cbn [map]. constructor; [|exact (IH N2)].
  intros H. apply N1. apply in_map_iff in H as [x [E Hx]]. apply in_map_iff. exists x. split; [exact E|exact (drop_client_In _ _ _ Hx)].
Qed.

Lemma find_client_none cs id : ~ In id (map cl_id cs) -> find_client cs id = None.
Proof.
  induction cs as [|x r IH]; intros H; [reflexivity|]. cbn [find_client]. destruct (Z.eqb (cl_id x) id) eqn:E.
  - exfalso. apply H. left. now apply Z.eqb_eq.
  - apply IH. intros A. apply H. right. exact A.
Qed.

(* ---------- the queue ---------- *)
Lemma count_for_app id a b : count_for id (a ++ b) = (count_for id a + count_for id b)%nat.
Proof. unfold count_for. rewrite filter_app, app_length. reflexivity. Qed.

Lemma tag_actions_tagged id slot q e : In e (tag_actions id slot q) -> qe_client e = id /\ qe_slot e = slot.
Proof.
  unfold tag_actions. intros H. apply in_flat_map in H as [da [_ H]]. apply in_map_iff in H as [a [<- _]]. split; reflexivity.
Qed.

Lemma count_tag_actions id id' slot q : count_for id (tag_actions id' slot q) = if Z.eqb id' id then total q else 0%nat.
Proof.
  unfold count_for, tag_actions, total. induction q as [|[d acts] r IH]; [destruct (Z.eqb id' id); reflexivity|].
  cbn [flat_map fold_right fst snd]. rewrite filter_app, app_length, IH.
  assert (G : length (filter (fun e => Z.eqb (qe_client e) id) (map (fun a => mkQentry id' d a slot) acts)) = if Z.eqb id' id then length acts else 0%nat).
  { induction acts as [|a acts IHa]; [destruct (Z.eqb id' id); reflexivity|]. cbn [map filter qe_client].
    destruct (Z.eqb id' id); cbn [length]; rewrite IHa; reflexivity. }
  rewrite G. destruct (Z.eqb id' id); reflexivity.
Qed.

Lemma count_remove_nth id q : forall i e, nth_error q i = Some e ->
  count_for id q = (count_for id (remove_nth i q) + (if Z.eqb (qe_client e) id then 1 else 0))%nat.
Proof.
  unfold count_for. induction q as [|x r IH]; intros [|i] e H; try discriminate.
  - cbn in H. inversion H; subst. cbn [remove_nth filter]. destruct (Z.eqb (qe_client e) id); cbn [length]; lia.
  - cbn [nth_error] in H. cbn [remove_nth filter]. destruct (Z.eqb (qe_client x) id); cbn [length]; rewrite (IH i e H); lia.
Qed.

Lemma remove_nth_In {A} (l : list A) : forall i x, In x (remove_nth i l) -> In x l.
Proof.
  induction l as [|y r IH]; intros [|i] x H; cbn [remove_nth] in H; try (destruct H; fail); [right; exact H|].
  destruct H as [<-|H]; [left; reflexivity|right; exact (IH i x H)].
Qed.

Section W.
  Variable expand_str : text -> option (list text).
  Variable ranged_sorted : list text -> text.
  Variable ranged_plain : list text -> text.
  Variable sorted : list text -> list text.
  Notation parse := (parse_input expand_str ranged_sorted ranged_plain sorted).
  Notation step := (wstep expand_str ranged_sorted ranged_plain sorted).
  Notation runw := (wrun expand_str ranged_sorted ranged_plain sorted).

  Lemma parse_input_id cf store c line cf' store' c' q : parse cf store c line = (cf', store', c', q) -> cl_id c' = cl_id c.
  Proof.
    intros E. destruct (cl_cmd c) as [k|] eqn:Ek.
    - unfold parse_input in E. cbv zeta in E. destruct (CP_LINEMAX <=? _).
      + assert (c' = (if cl_quit (emit CP_ERR_TOOLONG c) then emit CP_ERR_TOOLONG c else emit CP_PROMPT (emit CP_ERR_TOOLONG c))) as -> by congruence.
        destruct (cl_quit _); reflexivity.
      + rewrite Ek in E. assert (c' = emit CP_ERR_CLIBUSY c) as -> by congruence. reflexivity.
    - destruct (parse_idle expand_str ranged_sorted ranged_plain sorted cf store c line cf' store' c' q Ek E) as [[_ [_ [_ H]]]|[k [al [_ [_ [_ [_ [_ [_ [_ [H _]]]]]]]]]]]; exact H.
  Qed.

  (* which client an event talks to (None: nobody / a new one) *)
  Definition target (w : world) (e : wevent) : option Z :=
    match e with
    | WLine id _ | WDrop id => Some id
    | WComplete i _ _ | WTele i _ | WDiag i _ => option_map qe_client (nth_error (w_queue w) i)
    | _ => None
    end.

  (* ---------- C11: an event for one client leaves every other client's record (flags, command, output) alone ---------- *)
  Theorem other_clients_untouched w e w' j :
    step w e = Ok w' -> target w e <> Some j -> In j (map cl_id (w_clients w)) ->
    find_client (w_clients w') j = find_client (w_clients w) j.
  Proof.
    intros H T Hj. destruct e as [v|id l|i err msg|i m|i m|i n st v|i n r v|id]; cbn [wstep target] in *.
    - inversion H; subst w'. cbn [w_clients]. clear H.
      induction (w_clients w) as [|x r IH]; [destruct Hj|]. cbn [app find_client]. destruct (Z.eqb (cl_id x) j) eqn:E; [reflexivity|].
      apply IH. cbn [map] in Hj. destruct Hj as [Hj|Hj]; [apply Z.eqb_neq in E; contradiction|exact Hj].
    - destruct (find_client (w_clients w) id) as [c|] eqn:Ef; [|inversion H; reflexivity].
      destruct (parse (w_cf w) (w_store w) c l) as [[[cf' st'] c'] q] eqn:Ep. inversion H; subst w'. cbn [w_clients].
      apply find_put_other. rewrite (parse_input_id _ _ _ _ _ _ _ _ Ep). destruct (find_client_In _ _ _ Ef) as [_ ->]. congruence.
    - destruct (nth_error (w_queue w) i) as [e|] eqn:En; [|inversion H; reflexivity]. cbn [option_map] in T.
      destruct (find_client (w_clients w) (qe_client e)) as [c|] eqn:Ef; [|inversion H; reflexivity].
      destruct (act_finish ranged_sorted c (w_store w) err msg) as [c'| | | |] eqn:Ea; try discriminate H. inversion H; subst w'. cbn [set_clients w_clients].
      apply find_put_other. destruct (find_client_In _ _ _ Ef) as [_ Ei].
      assert (cl_id c' = cl_id c).
      { unfold act_finish in Ea. destruct (cl_cmd c) as [k|]; [|discriminate]. cbv zeta in Ea. destruct (Z.eqb _ 0).
        - destruct (final_reply _ _ _ _); try discriminate. inversion Ea; subst. cbn. destruct (Z.eqb err ACT_ESUCCESS); reflexivity.
        - inversion Ea; subst. cbn. destruct (Z.eqb err ACT_ESUCCESS); reflexivity. }
      congruence.
    - destruct (nth_error (w_queue w) i) as [e|] eqn:En; [|inversion H; reflexivity]. cbn [option_map] in T.
      destruct (find_client (w_clients w) (qe_client e)) as [c|] eqn:Ef; [|inversion H; reflexivity].
      inversion H; subst w'. cbn [set_clients w_clients]. apply find_put_other. destruct (find_client_In _ _ _ Ef) as [_ Ei]. cbn. congruence.
    - destruct (nth_error (w_queue w) i) as [e|] eqn:En; [|inversion H; reflexivity]. cbn [option_map] in T.
      destruct (find_client (w_clients w) (qe_client e)) as [c|] eqn:Ef; [|inversion H; reflexivity].
      inversion H; subst w'. cbn [set_clients w_clients]. apply find_put_other. destruct (find_client_In _ _ _ Ef) as [_ Ei]. cbn. congruence.
    - destruct (nth_error (w_queue w) i); inversion H; reflexivity.
    - destruct (nth_error (w_queue w) i); inversion H; reflexivity.
    - inversion H; subst w'. cbn [set_clients w_clients]. apply find_drop_other. congruence.
  Qed.

  (* ---------- C11 / C01: what a line of client `id` may add ---------- *)
  Theorem line_effects w id l w' c :
    step w (WLine id l) = Ok w' -> find_client (w_clients w) id = Some c ->
    exists q, w_queue w' = w_queue w ++ tag_actions id (length (w_store w)) q
      /\ (forall e, In e (tag_actions id (length (w_store w)) q) -> qe_client e = id /\ qe_slot e = length (w_store w))
      /\ (w_store w' = w_store w \/ exists k, w_store w' = w_store w ++ [new_arglist (k_targets k)])
      /\ (busy c = true -> Z.of_nat (length (strip (cstr l))) < CP_LINEMAX ->
          q = [] /\ w_store w' = w_store w /\ w_cf w' = w_cf w /\ find_client (w_clients w') id = Some (emit CP_ERR_CLIBUSY c)).
  Proof.
    intros H Ef. cbn [wstep] in H. rewrite Ef in H.
    destruct (parse (w_cf w) (w_store w) c l) as [[[cf' st'] c'] q] eqn:Ep. inversion H; subst w'. cbn [w_queue w_store w_cf w_clients].
    destruct (find_client_In _ _ _ Ef) as [_ Ei]. exists q. rewrite Ei. split; [reflexivity|]. split; [apply tag_actions_tagged|]. split.
    - destruct (cl_cmd c) as [k|] eqn:Ek.
      + left. unfold parse_input in Ep. cbv zeta in Ep. rewrite Ek in Ep. destruct (CP_LINEMAX <=? _); congruence.
      + destruct (parse_idle _ _ _ _ _ _ _ _ _ _ _ _ Ek Ep) as [[_ [_ [A _]]]|[k [al [_ [A [_ [_ [_ [B _]]]]]]]]]; [left; exact A|right; exists k; congruence].
    - intros Hb Hl. rewrite busy_cmd in Hb. destruct (cl_cmd c) as [k|] eqn:Ek; [|discriminate].
      rewrite (parse_busy expand_str ranged_sorted ranged_plain sorted _ _ _ _ k Ek Hl) in Ep.
      assert (q = []) as -> by congruence. assert (st' = w_store w) as -> by congruence. assert (cf' = w_cf w) as -> by congruence.
      assert (c' = emit CP_ERR_CLIBUSY c) as -> by congruence. repeat split.
      rewrite <- Ei. change (cl_id c) with (cl_id (emit CP_ERR_CLIBUSY c)). apply (find_put_same _ c). cbn [emit cl_id]. rewrite Ei. exact Ef.
  Qed.

  (* ---------- C11: a client that goes away ---------- *)
  Theorem drop_keeps_actions w id w' :
    step w (WDrop id) = Ok w' -> w_queue w' = w_queue w /\ w_store w' = w_store w /\ w_cf w' = w_cf w.
  Proof. cbn [wstep]. intros H; inversion H; subst. repeat split. Qed.

  Theorem orphan_completion_discarded w i err msg e :
    nth_error (w_queue w) i = Some e -> find_client (w_clients w) (qe_client e) = None ->
    step w (WComplete i err msg) = Ok (mkWorld (w_cf w) (w_store w) (w_clients w) (remove_nth i (w_queue w)) (w_next w)).
  Proof. intros En Ef. cbn [wstep]. rewrite En, Ef. reflexivity. Qed.

  (* ---------- the invariant: pending = number of queued actions of the client (C02), fresh ids and slots ---------- *)
  Definition cmd_ok (q : list qentry) (nslots : nat) (c : client) : Prop :=
    match cl_cmd c with
    | Some k => k_pending k = Z.of_nat (count_for (cl_id c) q) /\ 0 < k_pending k /\ valid_com (k_com k) = true
                /\ (k_args k < nslots)%nat
                /\ (forall e, In e q -> qe_client e = cl_id c -> qe_slot e = k_args k)
    | None => count_for (cl_id c) q = 0%nat
    end.
  Record winv (w : world) : Prop := mkWinv {
    wi_nodup : NoDup (map cl_id (w_clients w));
    wi_cmd : forall c, In c (w_clients w) -> cmd_ok (w_queue w) (length (w_store w)) c;
    wi_ids : forall c, In c (w_clients w) -> cl_id c < w_next w;
    wi_tags : forall e, In e (w_queue w) -> qe_client e < w_next w /\ (qe_slot e < length (w_store w))%nat;
    wi_slot_tag : forall e1 e2, In e1 (w_queue w) -> In e2 (w_queue w) -> qe_slot e1 = qe_slot e2 -> qe_client e1 = qe_client e2
  }.

  Lemma winv0 cf : winv (world0 cf).
  Proof. split; cbn [world0 w_clients w_queue w_store w_next map]; [constructor|intros ? []|intros ? []|intros ? []|intros ? ? []]. Qed.

  Lemma cmd_ok_same q n x x' : cl_id x' = cl_id x -> cl_cmd x' = cl_cmd x -> cmd_ok q n x -> cmd_ok q n x'.
  Proof. unfold cmd_ok. intros -> ->. auto. Qed.

  Lemma cmd_ok_mono q q' n n' x :
    count_for (cl_id x) q' = count_for (cl_id x) q -> (forall e, In e q' -> qe_client e = cl_id x -> In e q) -> (n <= n')%nat ->
    cmd_ok q n x -> cmd_ok q' n' x.
  Proof.
    unfold cmd_ok. intros Hc Hs Hn. destruct (cl_cmd x) as [k|]; [|congruence].
    intros [A [B [C [D E]]]]. rewrite Hc. split; [exact A|]. split; [exact B|]. split; [exact C|]. split; [lia|]. intros e He Ht. apply E; auto.
  Qed.

  Lemma count_zero_inv id q e : count_for id q = 0%nat -> In e q -> qe_client e <> id.
  Proof.
    unfold count_for. intros H He E. assert (In e (filter (fun e => Z.eqb (qe_client e) id) q)) by (apply filter_In; split; [exact He|now apply Z.eqb_eq]).
    destruct (filter _ q); [contradiction|discriminate].
  Qed.

  Lemma count_zero id q : (forall e, In e q -> qe_client e <> id) -> count_for id q = 0%nat.
  Proof.
    unfold count_for. induction q as [|x r IH]; intros H; [reflexivity|]. cbn [filter].
    destruct (Z.eqb (qe_client x) id) eqn:E; [exfalso; apply (H x (or_introl eq_refl)); now apply Z.eqb_eq|].
    apply IH. intros e He. apply H. right. exact He.
  Qed.

  Lemma find_none_notin cs id c : find_client cs id = None -> In c cs -> cl_id c <> id.
  Proof.
    induction cs as [|x r IH]; intros H Hc; [destruct Hc|]. cbn [find_client] in H. destruct (Z.eqb (cl_id x) id) eqn:E; [discriminate|].
    destruct Hc as [<-|Hc]; [now apply Z.eqb_neq|exact (IH H Hc)].
  Qed.

  Lemma parse_cases cf store c line cf' st' c' q :
    parse cf store c line = (cf', st', c', q) -> cmd_inv c ->
    (q = [] /\ st' = store /\ cl_cmd c' = cl_cmd c) \/
    (exists k al, cl_cmd c = None /\ cl_cmd c' = Some k /\ st' = store ++ [al] /\ k_pending k = Z.of_nat (total q) /\ (0 < total q)%nat
                  /\ k_args k = length store /\ valid_com (k_com k) = true).
  Proof.
    intros E I. destruct (cl_cmd c) as [k|] eqn:Ek.
    - left. unfold parse_input in E. cbv zeta in E. destruct (CP_LINEMAX <=? _).
      + assert (c' = (if cl_quit (emit CP_ERR_TOOLONG c) then emit CP_ERR_TOOLONG c else emit CP_PROMPT (emit CP_ERR_TOOLONG c))) as -> by congruence.
        repeat split; try congruence. destruct (cl_quit _); cbn [emit cl_cmd]; exact Ek.
      + rewrite Ek in E. assert (c' = emit CP_ERR_CLIBUSY c) as -> by congruence. repeat split; try congruence. exact Ek.
    - destruct (parse_input_toks expand_str ranged_sorted ranged_plain sorted _ _ _ _ _ _ _ _ E I) as [_ [_ [_ [_ [I' _]]]]].
      destruct (parse_idle expand_str ranged_sorted ranged_plain sorted cf store c line cf' st' c' q Ek E) as [[A [B [C _]]]|[k [al [A [B [C [D [F _]]]]]]]].
      + left. repeat split; auto.
      + right. exists k, al. unfold cmd_inv in I'. rewrite A in I'. destruct I' as [_ V]. repeat split; auto.
  Qed.

  Lemma NoDup_snoc (l : list Z) x : NoDup l -> ~ In x l -> NoDup (l ++ [x]).
  Proof.
    induction l as [|y r IH]; intros N H; [constructor; [intros []|constructor]|]. inversion N as [|? ? N1 N2]; subst. cbn [app]. constructor.
    - intros A. apply in_app_or in A as [A|[A|[]]]; [contradiction|]. apply H. left. symmetry. exact A.
    - apply IH; [exact N2|]. intros A. apply H. right. exact A.
  Qed.

  Theorem winv_step w e :
    winv w -> (is_connect e = true -> w_next w < CLI_ID_MAX) ->
    exists w', step w e = Ok w' /\ winv w'.
  Proof.
    intros [N C I T ST] Hw. destruct e as [v|id l|i err msg|i m|i m|i n st v|i n r v|id]; cbn [wstep].
    - (* connect *)
      specialize (Hw eq_refl). eexists. split; [reflexivity|]. unfold next_id. apply Z.ltb_lt in Hw. rewrite Hw. apply Z.ltb_lt in Hw.
      split; cbn [w_clients w_queue w_store w_next].
      + rewrite map_app. cbn [map new_client cl_id]. apply NoDup_snoc; [exact N|]. intros A. apply in_map_iff in A as [c [E Hc]]. specialize (I c Hc). lia.
      + intros c Hc. apply in_app_or in Hc as [Hc|[<-|[]]]; [exact (C c Hc)|].
        unfold cmd_ok. cbn [new_client cl_cmd cl_id]. apply count_zero. intros e He. destruct (T e He) as [A _]. lia.
      + intros c Hc. apply in_app_or in Hc as [Hc|[<-|[]]]; [specialize (I c Hc); lia|cbn; lia].
      + intros e He. destruct (T e He). split; [lia|assumption].
      + exact ST.
    - (* a line *)
      destruct (find_client (w_clients w) id) as [c|] eqn:Ef; [|eexists; split; [reflexivity|split; assumption]].
      destruct (find_client_In _ _ _ Ef) as [Hc Ei].
      destruct (parse (w_cf w) (w_store w) c l) as [[[cf' st'] c'] q] eqn:Ep. eexists. split; [reflexivity|].
      pose proof (parse_input_id _ _ _ _ _ _ _ _ Ep) as Eid.
      assert (Ic : cmd_inv c).
      { specialize (C c Hc). unfold cmd_ok in C. unfold cmd_inv. destruct (cl_cmd c); [|exact Logic.I]. destruct C as [_ [A [B _]]]. split; assumption. }
      assert (Hlen : (length (w_store w) <= length st')%nat).
      { destruct (parse_cases _ _ _ _ _ _ _ _ Ep Ic) as [[_ [-> _]]|[k [al [_ [_ [-> _]]]]]]; [lia|rewrite app_length; cbn; lia]. }
      split; cbn [w_clients w_queue w_store w_next].
      + rewrite put_client_ids. exact N.
      + intros x Hx. apply (put_client_In _ _ _ N) in Hx as [->|[Hx Hne]].
        * destruct (parse_cases _ _ _ _ _ _ _ _ Ep Ic) as [[-> [-> Ek]]|[k [al [Ek [Ek' [-> [P1 [P2 [P3 P4]]]]]]]]].
          { cbn [tag_actions flat_map]. rewrite app_nil_r. apply (cmd_ok_same _ _ c); auto. }
          { specialize (C c Hc). unfold cmd_ok in *. rewrite Ek in C. rewrite Ek', Eid.
            rewrite count_for_app, C, count_tag_actions, Z.eqb_refl. repeat split; auto; try lia.
            - rewrite app_length. cbn. lia.
            - intros e He Ht. apply in_app_or in He as [He|He]; [exfalso; exact (count_zero_inv _ _ _ C He Ht)|].
              destruct (tag_actions_tagged _ _ _ _ He) as [_ ->]. symmetry. exact P3. }
        * apply (cmd_ok_mono (w_queue w) _ (length (w_store w))); [| |exact Hlen|exact (C x Hx)].
          { rewrite count_for_app, count_tag_actions. assert (Z.eqb (cl_id c) (cl_id x) = false) as -> by (apply Z.eqb_neq; congruence). lia. }
          { intros e He Ht. apply in_app_or in He as [He|He]; [exact He|]. destruct (tag_actions_tagged _ _ _ _ He) as [A _]. congruence. }
      + intros x Hx. apply (put_client_In _ _ _ N) in Hx as [->|[Hx _]]; [rewrite Eid; exact (I c Hc)|exact (I x Hx)].
      + intros e He. apply in_app_or in He as [He|He].
        * destruct (T e He). split; [assumption|lia].
        * destruct (tag_actions_tagged _ _ _ _ He) as [-> ->]. split; [exact (I c Hc)|].
          destruct (parse_cases _ _ _ _ _ _ _ _ Ep Ic) as [[-> _]|[k [al [_ [_ [-> _]]]]]]; [destruct He|rewrite app_length; cbn; lia].
      + intros e1 e2 H1 H2 Es. apply in_app_or in H1 as [H1|H1], H2 as [H2|H2].
        * exact (ST e1 e2 H1 H2 Es).
        * exfalso. destruct (T e1 H1) as [_ A]. destruct (tag_actions_tagged _ _ _ _ H2) as [_ B]. lia.
        * exfalso. destruct (T e2 H2) as [_ A]. destruct (tag_actions_tagged _ _ _ _ H1) as [_ B]. lia.
        * destruct (tag_actions_tagged _ _ _ _ H1) as [-> _]. destruct (tag_actions_tagged _ _ _ _ H2) as [-> _]. reflexivity.
    - (* a completion *)
      destruct (nth_error (w_queue w) i) as [e|] eqn:En; [|eexists; split; [reflexivity|split; assumption]].
      assert (SUB : forall x, In x (remove_nth i (w_queue w)) -> In x (w_queue w)) by (apply remove_nth_In).
      destruct (find_client (w_clients w) (qe_client e)) as [c|] eqn:Ef.
      + destruct (find_client_In _ _ _ Ef) as [Hc Ei].
        pose proof (count_remove_nth (cl_id c) _ _ _ En) as Cn. rewrite Ei, Z.eqb_refl in Cn.
        pose proof (C c Hc) as Cc. unfold cmd_ok in Cc. destruct (cl_cmd c) as [k|] eqn:Ek; [|rewrite <- Ei in Cn; lia].
        destruct Cc as [P1 [P2 [P3 [P4 P5]]]].
        destruct (final_reply_ok expand_str ranged_sorted ranged_plain sorted
                    (if Z.eqb err ACT_ESUCCESS then c else emit (cprintf CP_INFO_ACTERROR [msg]) c)
                    (mkCommand (k_com k) (k_targets k) (k_pending k - 1) (k_error k || negb (Z.eqb err ACT_ESUCCESS)) (k_args k))
                    (nth (k_args k) (w_store w) []) P3) as [t [_ [Ef' _]]].
        assert (Ea : exists c', act_finish ranged_sorted c (w_store w) err msg = Ok c').
        { unfold act_finish. rewrite Ek. cbv zeta. cbn [k_pending k_args]. destruct (Z.eqb (k_pending k - 1) 0); [rewrite Ef'|]; eauto. }
        destruct Ea as [c' Ea]. rewrite Ea. eexists. split; [reflexivity|].
        destruct (act_finish_spec ranged_sorted c (w_store w) err msg c' k Ek Ea) as [More Last].
        assert (Eid : cl_id c' = cl_id c).
        { destruct (Z.eq_dec (k_pending k - 1) 0) as [E0|E0]; [destruct (Last E0) as [r0 [_ ->]]|rewrite (More E0)]; cbn; destruct (Z.eqb err ACT_ESUCCESS); reflexivity. }
        split; cbn [set_clients w_clients w_queue w_store w_next].
        * rewrite put_client_ids. exact N.
        * intros x Hx. apply (put_client_In _ _ _ N) in Hx as [->|[Hx Hne]].
          { unfold cmd_ok. rewrite Eid. destruct (Z.eq_dec (k_pending k - 1) 0) as [E0|E0].
            - destruct (Last E0) as [r0 [_ ->]]. cbn [emit set_cmd cl_cmd]. rewrite <- Ei in Cn. lia.
            - rewrite (More E0). cbn [set_cmd cl_cmd k_pending k_com k_args]. rewrite <- Ei in Cn. repeat split; auto; try lia. }
          { apply (cmd_ok_mono (w_queue w) _ (length (w_store w))); [| |lia|exact (C x Hx)].
            - pose proof (count_remove_nth (cl_id x) _ _ _ En) as Cx. assert (Z.eqb (qe_client e) (cl_id x) = false) as E2 by (apply Z.eqb_neq; congruence).
              rewrite E2 in Cx. lia.
            - intros e0 He0 _. exact (SUB _ He0). }
        * intros x Hx. apply (put_client_In _ _ _ N) in Hx as [->|[Hx _]]; [rewrite Eid; exact (I c Hc)|exact (I x Hx)].
        * intros e0 He0. exact (T e0 (SUB _ He0)).
        * intros e1 e2 H1 H2. exact (ST e1 e2 (SUB _ H1) (SUB _ H2)).
      + eexists. split; [reflexivity|]. split; cbn [w_clients w_queue w_store w_next]; auto.
        * intros x Hx. apply (cmd_ok_mono (w_queue w) _ (length (w_store w))); [| |lia|exact (C x Hx)].
          { pose proof (count_remove_nth (cl_id x) _ _ _ En) as Cx. pose proof (find_none_notin _ _ _ Ef Hx) as Hne.
            assert (Z.eqb (qe_client e) (cl_id x) = false) as E2 by (apply Z.eqb_neq; congruence). rewrite E2 in Cx. lia. }
          { intros e0 He0 _. exact (SUB _ He0). }
    - (* telemetry *)
      destruct (nth_error (w_queue w) i) as [e|] eqn:En; [|eexists; split; [reflexivity|split; assumption]].
      destruct (find_client (w_clients w) (qe_client e)) as [c|] eqn:Ef; [|eexists; split; [reflexivity|split; assumption]].
      destruct (find_client_In _ _ _ Ef) as [Hc Ei]. eexists. split; [reflexivity|]. split; cbn [set_clients w_clients w_queue w_store w_next]; auto.
      + rewrite put_client_ids. exact N.
      + intros x Hx. apply (put_client_In _ _ _ N) in Hx as [->|[Hx _]]; [apply (cmd_ok_same _ _ c); [reflexivity|reflexivity|exact (C c Hc)]|exact (C x Hx)].
      + intros x Hx. apply (put_client_In _ _ _ N) in Hx as [->|[Hx _]]; [exact (I c Hc)|exact (I x Hx)].
    - (* diagnostic *)
      destruct (nth_error (w_queue w) i) as [e|] eqn:En; [|eexists; split; [reflexivity|split; assumption]].
      destruct (find_client (w_clients w) (qe_client e)) as [c|] eqn:Ef; [|eexists; split; [reflexivity|split; assumption]].
      destruct (find_client_In _ _ _ Ef) as [Hc Ei]. eexists. split; [reflexivity|]. split; cbn [set_clients w_clients w_queue w_store w_next]; auto.
      + rewrite put_client_ids. exact N.
      + intros x Hx. apply (put_client_In _ _ _ N) in Hx as [->|[Hx _]]; [apply (cmd_ok_same _ _ c); [reflexivity|reflexivity|exact (C c Hc)]|exact (C x Hx)].
      + intros x Hx. apply (put_client_In _ _ _ N) in Hx as [->|[Hx _]]; [exact (I c Hc)|exact (I x Hx)].
    - destruct (nth_error (w_queue w) i) as [e|]; eexists; (split; [reflexivity|]); [|split; assumption].
      split; cbn [set_store w_clients w_queue w_store w_next]; auto; unfold write_slot; rewrite store_set_length; auto.
    - destruct (nth_error (w_queue w) i) as [e|]; eexists; (split; [reflexivity|]); [|split; assumption].
      split; cbn [set_store w_clients w_queue w_store w_next]; auto; unfold write_slot; rewrite store_set_length; auto.
    - (* a client goes away: nothing else moves *)
      eexists. split; [reflexivity|]. split; cbn [set_clients w_clients w_queue w_store w_next]; auto.
      + apply drop_client_nodup. exact N.
      + intros x Hx. exact (C x (drop_client_In _ _ _ Hx)).
      + intros x Hx. exact (I x (drop_client_In _ _ _ Hx)).
  Qed.

  (* whatever the clients send and however the device layer completes the actions it was given: the client layer
     never reaches an assert / exit, and the invariant (pending = queued actions of that client) holds throughout *)
  Theorem world_total evs : forall w,
    winv w -> w_next w + Z.of_nat (connects evs) <= CLI_ID_MAX ->
    exists w', runw w evs = Ok w' /\ winv w'.
  Proof.
    induction evs as [|e evs IH]; intros w Hi Hn; [exists w; split; [reflexivity|exact Hi]|].
    unfold connects in Hn. cbn [filter] in Hn.
    destruct (winv_step w e Hi) as [w1 [S1 I1]].
    { intros Hc. rewrite Hc in Hn. cbn [length] in Hn. lia. }
    cbn [wrun]. rewrite S1. apply IH; [exact I1|].
    destruct e; cbn [is_connect] in Hn; cbn [wstep] in S1;
      try (repeat match type of S1 with context [match ?x with _ => _ end] => destruct x end; try discriminate S1; inversion S1; subst; cbn [w_next set_clients set_store]; unfold connects; lia).
    inversion S1; subst. cbn [w_next length] in *. unfold next_id. destruct (w_next w <? CLI_ID_MAX) eqn:E; [|apply Z.ltb_ge in E; lia]. unfold connects. lia.
  Qed.

  Theorem pending_exact evs cf w' c k :
    CLI_ID_FIRST + Z.of_nat (connects evs) <= CLI_ID_MAX ->
    runw (world0 cf) evs = Ok w' -> In c (w_clients w') -> cl_cmd c = Some k ->
    k_pending k = Z.of_nat (count_for (cl_id c) (w_queue w')) /\ 0 < k_pending k.
  Proof.
    intros Hn Hr Hc Hk.
    destruct (world_total evs (world0 cf) (winv0 cf) Hn) as [w2 [R I]]. rewrite Hr in R. inversion R; subst w2.
    pose proof (wi_cmd _ I c Hc) as C. unfold cmd_ok in C. rewrite Hk in C. destruct C as [A [B _]]. split; assumption.
  Qed.

  (* ---------- C11: a reply reads only what the client's own actions wrote ---------- *)
  Theorem result_scope w c k e :
    winv w -> In c (w_clients w) -> cl_cmd c = Some k -> In e (w_queue w) -> qe_slot e = k_args k -> qe_client e = cl_id c.
  Proof.
    intros [N C I T ST] Hc Hk He Hs. pose proof (C c Hc) as Cc. unfold cmd_ok in Cc. rewrite Hk in Cc. destruct Cc as [P1 [P2 [_ [_ P5]]]].
    (* the command has at least one queued action of its own; it shares the slot *)
    assert (exists e0, In e0 (w_queue w) /\ qe_client e0 = cl_id c) as [e0 [H0 T0]].
    { unfold count_for in P1. destruct (filter (fun e => Z.eqb (qe_client e) (cl_id c)) (w_queue w)) as [|e0 r] eqn:Ef; [cbn in P1; lia|].
      assert (In e0 (filter (fun e => Z.eqb (qe_client e) (cl_id c)) (w_queue w))) by (rewrite Ef; left; reflexivity).
      apply filter_In in H as [A B]. exists e0. split; [exact A|now apply Z.eqb_eq]. }
    rewrite <- T0. apply ST; auto. rewrite (P5 e0 H0 T0). exact Hs.
  Qed.
End W.
