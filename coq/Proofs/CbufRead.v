(* cbuf_reader for an arbitrary sink (memory, or a descriptor with short writes / errors), and the FIFO laws of
   cbuf_peek, cbuf_read, cbuf_read_to_fd. *)
From Coq Require Import List ZArith Bool Lia.
From PM Require Import Base.Bytes Gen.GenCbuf Model.Cbuf Spec.Fifo Proofs.CbufList Proofs.CbufInv.
Import ListNotations.
Local Open Scope Z_scope.

(* n bytes from index i without crossing the end, then k more from wherever the cursor is *)
Lemma rot_chunk data i n k : 0 <= i < zlen data -> 0 < n -> n <= zlen data - i -> n < zlen data -> 0 <= k <= zlen data - n ->
  ztake (n + k) (rot i data) = ztake n (zdrop i data) ++ ztake k (rot ((i + n) mod zlen data) data).
Proof.
  intros. rewrite ztake_split by lia. f_equal.
  - unfold rot. apply ztake_app_l. rewrite zlen_zdrop. lia.
  - rewrite <- rot_rot by lia. unfold rot at 2. rewrite ztake_app_l; [reflexivity|].
    rewrite zlen_zdrop, zlen_rot. lia.
Qed.

Lemma rloop_gen fuel : forall S data i nleft snk acc m0 acc' nleft' snk' m',
  zlen data = S -> 0 <= i < S -> 0 <= nleft < S -> nleft <= Z.of_nat fuel ->
  rloop fuel S data i nleft snk acc m0 = (acc', nleft', snk', m') ->
  0 <= nleft' <= nleft /\ acc' = acc ++ ztake (nleft - nleft') (rot i data)
  /\ (nleft' = nleft -> 0 < nleft -> m' <= 0)
  /\ (snk = SinkMem -> nleft' = 0 /\ snk' = SinkMem).
Proof.
  induction fuel as [|f IH]; intros S data i nleft snk acc m0 acc' nleft' snk' m' LS Hi Hn Hf.
  - cbn [rloop]. intros E; inversion E; subst. assert (nleft' = 0) by lia. subst.
    rewrite Z.sub_diag, ztake_neg, app_nil_r by lia. repeat split; try lia; auto.
  - cbn [rloop]. destruct (nleft <=? 0) eqn:E0; [apply Z.leb_le in E0 | apply Z.leb_gt in E0].
    { intros E; inversion E; subst. assert (nleft' = 0) by lia. subst.
      rewrite Z.sub_diag, ztake_neg, app_nil_r by lia. repeat split; try lia; auto. }
    set (n := Z.min nleft (S - i)).
    assert (Hn' : 0 < n /\ n <= nleft /\ n <= S - i) by (unfold n; lia).
    set (chunk := ztake n (zdrop i data)).
    assert (Lc : zlen chunk = n) by (unfold chunk; rewrite zlen_ztake, zlen_zdrop; lia).
    destruct (putf snk chunk) as [[m deliv] snk1] eqn:Ep.
    destruct (putf_spec _ _ _ _ _ Ep) as (Hm & Hd & Hmem).
    destruct (0 <? m) eqn:Em; [apply Z.ltb_lt in Em | apply Z.ltb_ge in Em].
    + destruct (n =? m) eqn:Enm; [apply Z.eqb_eq in Enm | apply Z.eqb_neq in Enm].
      * intros E. subst m.
        assert (Hd' : deliv = chunk) by (rewrite Hd; apply ztake_all; lia).
        apply IH in E; try lia.
        2:{ pose proof (Z.mod_pos_bound (i + n) S ltac:(lia)). lia. }
        destruct E as (R1 & R2 & R3 & R4).
        split; [lia|]. split.
        { rewrite R2, Hd', <- app_assoc. f_equal.
          replace (nleft - nleft') with (n + (nleft - n - nleft')) by lia.
          subst S. rewrite rot_chunk by lia. reflexivity. }
        split; [intros; lia|].
        intros Hs. destruct (Hmem Hs) as (_ & Hs1). apply R4 in Hs1. exact Hs1.
      * intros E; inversion E; subst; clear E.
        split; [lia|]. split.
        { f_equal. replace (nleft - (nleft - m')) with m' by lia.
          unfold chunk. rewrite ztake_ztake. rewrite Z.min_l by lia.
          unfold rot. symmetry. apply ztake_app_l. rewrite zlen_zdrop. lia. }
        split; [intros; lia|].
        intros Hs. destruct (Hmem Hs). lia.
    + intros E; inversion E; subst; clear E.
      split; [lia|]. split; [rewrite Z.sub_diag, ztake_neg, app_nil_r by lia; reflexivity|].
      split; [intros; lia|].
      intros Hs. destruct (Hmem Hs). lia.
Qed.

(* cbuf_reader: what reached the sink is a prefix of the unread bytes, of the length the return value says *)
Lemma reader_spec cb len snk ret deliv snk' : Inv cb -> 0 < len ->
  reader cb len snk = (ret, deliv, snk') ->
  let k := Z.max 0 ret in
  deliv = ztake k (abs cb) /\ k <= Z.min len (cb_used cb) /\ ret <= Z.min len (cb_used cb)
  /\ (snk = SinkMem -> ret = Z.min len (cb_used cb)).
Proof.
  intros H Hlen. pose proof (Inv_valid _ H) as V. unfold valid_prop in V. cbv zeta in V. destruct H as (_ & Ldata & _).
  unfold reader. set (l := Z.min len (cb_used cb)).
  destruct (l =? 0) eqn:E0; [apply Z.eqb_eq in E0 | apply Z.eqb_neq in E0].
  { intros E; inversion E; subst. cbv zeta. rewrite ztake_neg by lia. repeat split; lia. }
  destruct (rloop (Z.to_nat l) (cb_size cb + 1) (cb_data cb) (cb_i_out cb) l snk [] 0) as [[[acc nleft] snk1] m] eqn:ER.
  apply rloop_gen in ER; try lia.
  destruct ER as (R1 & R2 & R3 & R4). cbn [app] in R2.
  assert (A : forall k, 0 <= k <= l -> ztake k (rot (cb_i_out cb) (cb_data cb)) = ztake k (abs cb)).
  { intros k Hk. unfold abs. fold (rot (cb_i_out cb) (cb_data cb)). rewrite ztake_ztake. f_equal. lia. }
  destruct (l - nleft =? 0) eqn:En; [apply Z.eqb_eq in En | apply Z.eqb_neq in En]; intros E; inversion E; subst; clear E; cbv zeta.
  - assert (nleft = l) by lia. subst nleft. specialize (R3 eq_refl ltac:(lia)).
    rewrite Z.sub_diag, ztake_neg by lia. rewrite Z.max_l by lia. rewrite ztake_neg by lia.
    split; [reflexivity|]. split; [lia|]. split; [lia|]. intros Hs. destruct (R4 Hs). lia.
  - rewrite Z.max_r by lia. rewrite A by lia.
    split; [reflexivity|]. split; [lia|]. split; [lia|]. intros Hs. destruct (R4 Hs). lia.
Qed.

(* ---- cbuf_peek ---- *)
Lemma peek_spec cb len ret bytes : Inv cb -> peek cb len = (ret, bytes) ->
  (len < 0 /\ ret = -1 /\ bytes = []) \/
  (0 <= len /\ ret = Z.min len (cb_used cb) /\ bytes = fifo_peek (abs cb) len).
Proof.
  intros H. unfold peek.
  destruct (len <? 0) eqn:E1; [apply Z.ltb_lt in E1 | apply Z.ltb_ge in E1].
  { intros E; inversion E; subst. left. repeat split; lia. }
  pose proof (Inv_valid _ H) as V. unfold valid_prop in V. cbv zeta in V.
  assert (LA : zlen (abs cb) = cb_used cb).
  { unfold abs. fold (rot (cb_i_out cb) (cb_data cb)). rewrite zlen_ztake, zlen_rot. destruct H as (_ & L & _). lia. }
  destruct (len =? 0) eqn:E2; [apply Z.eqb_eq in E2 | apply Z.eqb_neq in E2].
  { intros E; inversion E; subst. right. unfold fifo_peek, qtake. cbn. repeat split; lia. }
  destruct (reader cb len SinkMem) as [[n b] s] eqn:ER. intros E; inversion E; subst; clear E.
  apply reader_spec in ER; [|assumption|lia]. cbv zeta in ER. destruct ER as (R1 & R2 & R3 & R4).
  specialize (R4 eq_refl). right. split; [lia|]. split; [exact R4|].
  rewrite R1. unfold fifo_peek. change qtake with (@ztake byte). rewrite (ztake_clip len), LA. f_equal. lia.
Qed.

Lemma zlen_abs cb : Inv cb -> zlen (abs cb) = cb_used cb.
Proof.
  intros H. pose proof (Inv_valid _ H) as V. unfold valid_prop in V. cbv zeta in V. destruct H as (_ & L & _).
  unfold abs. fold (rot (cb_i_out cb) (cb_data cb)). rewrite zlen_ztake, zlen_rot. lia.
Qed.

(* ---- cbuf_read ---- *)
Lemma read_spec cb len cb' ret bytes : Inv cb -> read cb len = (cb', ret, bytes) ->
  Inv cb' /\
  ((len < 0 /\ ret = -1 /\ bytes = [] /\ cb' = cb) \/
   (0 <= len /\ ret = Z.min len (cb_used cb) /\ bytes = fifo_peek (abs cb) len /\ abs cb' = fifo_drop (abs cb) len
    /\ cb_maxsize cb' = cb_maxsize cb /\ cb_overwrite cb' = cb_overwrite cb)).
Proof.
  intros H. unfold read.
  destruct (len <? 0) eqn:E1; [apply Z.ltb_lt in E1 | apply Z.ltb_ge in E1].
  { intros E; inversion E; subst. split; [assumption|]. left. repeat split; lia. }
  pose proof (Inv_valid _ H) as V. unfold valid_prop in V. cbv zeta in V.
  pose proof (zlen_abs _ H) as LA.
  destruct (len =? 0) eqn:E2; [apply Z.eqb_eq in E2 | apply Z.eqb_neq in E2].
  { intros E; inversion E; subst. split; [assumption|]. right. unfold fifo_peek, fifo_drop, qtake, qskip. cbn. repeat split; lia. }
  destruct (reader cb len SinkMem) as [[n b] s] eqn:ER. intros E; inversion E; subst; clear E.
  pose proof (peek_spec cb len ret bytes H) as P. unfold peek in P.
  replace (len <? 0) with false in P by (symmetry; apply Z.ltb_ge; lia).
  replace (len =? 0) with false in P by (symmetry; apply Z.eqb_neq; lia).
  rewrite ER in P. specialize (P eq_refl). destruct P as [(? & _)|(_ & Pr & Pb)]; [lia|].
  assert (FD : fifo_drop (abs cb) len = zdrop ret (abs cb)).
  { unfold fifo_drop. change qskip with (@zdrop byte). rewrite (zdrop_clip len), LA. f_equal. lia. }
  destruct (0 <? ret) eqn:E3; [apply Z.ltb_lt in E3 | apply Z.ltb_ge in E3].
  - destruct (dropper_Inv cb ret H ltac:(lia)) as (I & A & U). split; [assumption|]. right.
    repeat split; try assumption; try reflexivity; try lia. rewrite A, FD. reflexivity.
  - split; [assumption|]. right. repeat split; try assumption; try reflexivity; try lia.
    rewrite FD. symmetry. apply zdrop_neg. lia.
Qed.

(* ---- cbuf_read_to_fd: the descriptor receives exactly the head of the queue that is then removed ---- *)
Lemma read_to_fd_spec cb fd len cb' ret bytes fd' : Inv cb -> read_to_fd cb fd len = (cb', ret, bytes, fd') ->
  Inv cb' /\ cb_maxsize cb' = cb_maxsize cb /\ cb_overwrite cb' = cb_overwrite cb /\
  let k := Z.max 0 ret in
  bytes = fifo_peek (abs cb) k /\ abs cb' = fifo_drop (abs cb) k /\ k <= cb_used cb /\ zlen bytes = k
  /\ (len < -1 -> ret = -1).
Proof.
  intros H. unfold read_to_fd.
  pose proof (Inv_valid _ H) as V. unfold valid_prop in V. cbv zeta in V.
  pose proof (zlen_abs _ H) as LA.
  assert (Z0 : forall c, Inv c -> c = cb -> Inv c /\ cb_maxsize c = cb_maxsize cb /\ cb_overwrite c = cb_overwrite cb /\
            [] = fifo_peek (abs cb) 0 /\ abs c = fifo_drop (abs cb) 0 /\ 0 <= cb_used cb /\ zlen (@nil byte) = 0).
  { intros c Hc ->. split; [assumption|]. unfold fifo_peek, fifo_drop, qtake, qskip. cbn. repeat split; try reflexivity; try lia. }
  destruct (len <? -1) eqn:E1; [apply Z.ltb_lt in E1 | apply Z.ltb_ge in E1].
  { intros E; inversion E; subst. cbv zeta. change (Z.max 0 (-1)) with 0.
    destruct (Z0 _ H eq_refl) as (a & b & c & d & e & f & g).
    split; [exact a|]. split; [exact b|]. split; [exact c|]. split; [exact d|]. split; [exact e|]. split; [lia|].
    split; [exact g|]. intros; reflexivity. }
  set (l := if len =? -1 then cb_used cb else len).
  destruct (0 <? l) eqn:E2; [apply Z.ltb_lt in E2 | apply Z.ltb_ge in E2].
  2:{ intros E; inversion E; subst. cbv zeta. change (Z.max 0 0) with 0.
      destruct (Z0 _ H eq_refl) as (a & b & c & d & e & f & g).
      split; [exact a|]. split; [exact b|]. split; [exact c|]. split; [exact d|]. split; [exact e|]. split; [lia|].
      split; [exact g|]. intros; lia. }
  destruct (reader cb l (SinkFd fd)) as [[n b] s] eqn:ER.
  assert (G : forall fdx, (if 0 <? n then dropper cb n else cb, n, b, fdx) = (cb', ret, bytes, fd') ->
     Inv cb' /\ cb_maxsize cb' = cb_maxsize cb /\ cb_overwrite cb' = cb_overwrite cb /\
     let k := Z.max 0 ret in
     bytes = fifo_peek (abs cb) k /\ abs cb' = fifo_drop (abs cb) k /\ k <= cb_used cb /\ zlen bytes = k /\ (len < -1 -> ret = -1)).
  { intros fdx E; inversion E; subst; clear E. cbv zeta.
    apply reader_spec in ER; [|assumption|lia]. cbv zeta in ER. destruct ER as (R1 & R2 & R3 & _).
    unfold fifo_peek, fifo_drop. change qtake with (@ztake byte); change qskip with (@zdrop byte).
    destruct (0 <? ret) eqn:E3; [apply Z.ltb_lt in E3 | apply Z.ltb_ge in E3].
    - destruct (dropper_Inv cb ret H ltac:(lia)) as (I & A & U).
      rewrite Z.max_r in * by lia. rewrite R1, zlen_ztake, LA.
      split; [exact I|]. repeat split; try assumption; try reflexivity; try lia.
    - rewrite Z.max_l in * by lia. rewrite R1. rewrite zdrop_neg, ztake_neg by lia.
      split; [exact H|]. repeat split; try assumption; try reflexivity; try lia. }
  destruct s; intros E; eapply G; exact E.
Qed.
