(* What an expect pattern is matched against (_getregex_buf: peek, NUL -> 0xFF, drop rm_eo), independence of the
   filter's result from the way the stream was cut into reads, and reconnects: whatever happened on earlier
   connections (including buffer overflow), after _disconnect + connect a script sees only the new bytes. *)
From Coq Require Import List ZArith NArith Bool Lia.
From PM Require Import Base.Bytes Gen.GenConsts Gen.GenCbuf Model.Cbuf Model.Telnet Spec.Fifo Spec.TelnetSpec
  Proofs.CbufList Proofs.CbufInv Proofs.CbufRead Proofs.CbufWrite Proofs.TelnetProofs Proofs.TelnetDevice
  Proofs.TelnetRun.
Import ListNotations.
Local Open Scope Z_scope.

(* ---- _getregex_buf ---- *)
Lemma memtrans_is_nul_to_ff l : memtrans l = nul_to_ff l.
Proof. reflexivity. Qed.

(* the subject of the match is the whole unread content with every NUL shown as 0xFF; an empty buffer is not
   matched at all *)
Theorem regex_subject_spec b : Inv b ->
  regex_subject b = if cb_used b =? 0 then None else Some (nul_to_ff (abs b)).
Proof.
  intros H. pose proof (zlen_abs _ H) as LA.
  pose proof (Inv_valid _ H) as V. unfold valid_prop in V. cbv zeta in V.
  unfold regex_subject, used. destruct (peek b (cb_used b)) as [n bytes] eqn:Ep.
  apply peek_spec in Ep; [|assumption]. destruct Ep as [(? & _)|(_ & En & Eb)]; [lia|].
  rewrite Z.min_id in En. subst n.
  destruct (cb_used b =? 0) eqn:E0; [apply Z.eqb_eq in E0 | apply Z.eqb_neq in E0].
  - replace (cb_used b <=? 0) with true by (symmetry; apply Z.leb_le; lia). reflexivity.
  - replace (cb_used b <=? 0) with false by (symmetry; apply Z.leb_gt; lia).
    rewrite Eb. unfold fifo_peek. change qtake with (@ztake byte). rewrite ztake_all by lia. reflexivity.
Qed.

(* the presentation changes NUL bytes only, and leaves no NUL *)
Lemma nul_to_ff_length q : length (nul_to_ff q) = length q.
Proof. apply map_length. Qed.

Lemma nul_to_ff_nth q i : (i < length q)%nat ->
  nth i (nul_to_ff q) 0%N = (if N.eqb (nth i q 0%N) 0 then 255%N else nth i q 0%N).
Proof.
  intros Hi. unfold nul_to_ff.
  set (f := fun b : byte => if N.eqb b 0 then 255%N else b).
  rewrite (nth_indep (map f q) 0%N (f 0%N)) by (rewrite map_length; assumption).
  rewrite map_nth. reflexivity.
Qed.

(* a match that ends at offset m consumes exactly the first m bytes *)
Theorem regex_consume_spec b m b' r : Inv b -> 0 <= m <= cb_used b -> regex_consume b m = (b', r) ->
  Inv b' /\ r = m /\ abs b' = fifo_drop (abs b) m /\ cb_used b' = cb_used b - m.
Proof.
  intros H Hm E. unfold regex_consume in E. apply drop_spec in E; [|assumption].
  destruct E as (I1 & [(? & _)|(_ & R1 & A1 & U1 & _)]); [lia|].
  assert (Hr : (if m =? -1 then cb_used b else Z.min m (cb_used b)) = m).
  { destruct (m =? -1) eqn:E; [apply Z.eqb_eq in E; lia|]. lia. }
  rewrite Hr in R1. subst r. split; [assumption|]. split; [reflexivity|]. split; [exact A1|assumption].
Qed.

(* ---- the result does not depend on how the stream was cut into reads ---- *)
Theorem telnet_chunking_independent evs1 evs2 :
  stream_of evs1 = stream_of evs2 ->
  let s1 := fold_left lstep evs1 linit in
  let s2 := fold_left lstep evs2 linit in
  l_consumed s1 ++ l_content s1 = l_consumed s2 ++ l_content s2 /\ l_replies s1 = l_replies s2.
Proof.
  intros E. cbv zeta.
  destruct (telnet_all_chunkings evs1) as (A1 & B1). destruct (telnet_all_chunkings evs2) as (A2 & B2).
  cbv zeta in *. rewrite A1, A2, B1, B2, E. split; reflexivity.
Qed.

(* ---- DevInv is preserved by every event, with or without overflow ---- *)
Lemma sendopts_Inv opts : forall to errs to' errs', Inv to -> cb_overwrite to = WRAP_MANY ->
  sendopts to errs opts = (to', errs') ->
  Inv to' /\ cb_overwrite to' = WRAP_MANY /\ cb_maxsize to' = cb_maxsize to.
Proof.
  induction opts as [|r rest IH]; intros to errs to' errs' H Hw; cbn [sendopts].
  - intros E; inversion E; subst. split; [assumption|split; [assumption|reflexivity]].
  - destruct (Cbuf.write to (sendopt_bytes r)) as [[to1 n] dr] eqn:Ew.
    apply write_spec in Ew; [|assumption|assumption]. destruct Ew as (I1 & _ & _ & _ & M1 & O1).
    intros E. apply IH in E; [|assumption|assumption]. destruct E as (I2 & O2 & M2).
    split; [assumption|]. split; [assumption|congruence].
Qed.

Lemma dev_preprocess_M_DevInv M d nread : DevInv d -> DevInv (dev_preprocess_M M d nread).
Proof.
  intros (If & It & Of & Ot & Mf). unfold dev_preprocess_M.
  destruct (Cbuf.peek (d_from d) M) as [len pk].
  destruct (filter (d_tcp d) (zdrop (len - nread) pk)) as [[t1 dnew] opts].
  destruct (sendopts (d_to d) (d_errs d) opts) as [to' errs1] eqn:Es.
  apply sendopts_Inv in Es; [|assumption|assumption]. destruct Es as (It' & Ot' & Mt').
  cbv zeta.
  destruct (zlen (ztake (len - nread) pk ++ dnew) <? len).
  - destruct (Cbuf.drop (d_from d) len) as [from1 n1] eqn:Ed.
    apply drop_spec in Ed; [|assumption].
    assert (X : Inv from1 /\ cb_maxsize from1 = cb_maxsize (d_from d) /\ cb_overwrite from1 = WRAP_MANY).
    { destruct Ed as (I1 & [(_ & _ & ->)|(_ & _ & _ & _ & M1 & O1)]); (split; [assumption|split; [try reflexivity; try assumption|congruence]]). }
    destruct X as (I1 & M1 & O1).
    destruct (Cbuf.write from1 (ztake (len - nread) pk ++ dnew)) as [[from2 n2] dr2] eqn:Ew.
    apply write_spec in Ew; [|assumption|assumption]. destruct Ew as (I2 & _ & _ & _ & M2 & O2).
    unfold DevInv. cbn [d_from d_to]. conj; try assumption; try congruence; lia.
  - unfold DevInv. cbn [d_from d_to]. conj; try assumption; congruence.
Qed.

Lemma dev_preprocess_DevInv d nread : DevInv d -> DevInv (dev_preprocess d nread).
Proof. rewrite dev_preprocess_is_M. apply dev_preprocess_M_DevInv. Qed.

Lemma rstep_DevInv st e : DevInv (r_dev st) -> DevInv (r_dev (rstep st e)).
Proof.
  destruct st as [d taken consumed delivered within]. cbn [r_dev]. intros DI. pose proof DI as (If & It & Of & Ot & Mf).
  destruct e as [fd|n|script]; cbn [rstep r_dev].
  - unfold handle_read. destruct (Cbuf.write_from_fd (d_from d) fd (-1)) as [[[from' n] dr] fd1] eqn:Ew.
    apply write_from_fd_spec in Ew; [|assumption]. destruct Ew as (w & I1 & _ & _ & _ & _ & _ & M1 & O1).
    assert (D1 : DevInv (mkDev from' (d_to d) (d_tcp d) (d_errs d))).
    { unfold DevInv. cbn [d_from d_to]. conj; try assumption; try congruence; lia. }
    destruct (n <=? 0); cbn [r_dev]; [assumption|]. apply dev_preprocess_DevInv. assumption.
  - destruct (Cbuf.drop (d_from d) n) as [from' r] eqn:Ed. cbn [r_dev].
    apply drop_spec in Ed; [|assumption].
    destruct Ed as (I1 & [(_ & _ & ->)|(_ & _ & _ & _ & M1 & O1)]); unfold DevInv; cbn [d_from d_to]; conj; try assumption; try congruence; lia.
  - unfold handle_write. destruct (Cbuf.read_to_fd (d_to d) script (-1)) as [[[to' n] b] fd1] eqn:Er. cbn [r_dev].
    apply read_to_fd_spec in Er; [|assumption]. cbv zeta in Er. destruct Er as (I1 & M1 & O1 & _).
    unfold DevInv. cbn [d_from d_to]. conj; try assumption; congruence.
Qed.

Lemma rrun_DevInv evs : forall st, DevInv (r_dev st) -> DevInv (r_dev (fold_left rstep evs st)).
Proof. induction evs as [|e evs IH]; intros st H; cbn [fold_left]; [assumption|]. apply IH, rstep_DevInv, H. Qed.

(* ---- reconnect ---- *)
(* on ANY device state that satisfies the invariant, a run that starts with _disconnect + connect sees only the
   bytes of the new connection *)
Theorem telnet_run_after_reconnect d evs :
  DevInv d ->
  let st := fold_left rstep evs (rinit (disconnect d)) in
  r_within st = true ->
  r_consumed st ++ abs (d_from (r_dev st)) = data (r_taken st)
  /\ r_delivered st ++ abs (d_to (r_dev st)) = replies (r_taken st)
  /\ d_errs (r_dev st) = d_errs d.
Proof.
  intros DI. cbv zeta. intros Hw.
  destruct (reconnect_spec d DI) as (DI' & Af & At & Tc). cbv zeta in *.
  assert (I0 : rinvE (d_errs d) (rinit (disconnect d))).
  { intros _. exists linit. cbn [rinit r_dev r_taken r_consumed r_delivered].
    split; [unfold drel; cbn [linit l_content l_tcp]; conj; assumption|].
    split; [apply linit_inv|]. split; [reflexivity|].
    split; [cbn [app linit l_replies]; assumption | reflexivity]. }
  destruct (rrun_invE _ evs _ I0 Hw) as (s & (DI2 & Ac & Tc2) & (dst & D & _) & Lc & Ld & Le).
  apply decode_none_parse in D. destruct D as (Dd & Dr').
  rewrite Dd, Dr', <- Lc, Ac, Ld. split; [reflexivity|]. split; [reflexivity|assumption].
Qed.

(* two connections in a row, the first one arbitrary (it may overflow the buffers, stop in the middle of a telnet
   command, leave unread data and unsent replies): nothing of it shows on the second *)
Theorem telnet_reconnect mn mx d0 evs1 evs2 :
  dev_create mn mx = Some d0 -> Z.max mn mx <= MAX_DEV_BUF ->
  let st1 := fold_left rstep evs1 (rinit d0) in
  let st2 := fold_left rstep evs2 (rinit (disconnect (r_dev st1))) in
  r_within st2 = true ->
  r_consumed st2 ++ abs (d_from (r_dev st2)) = data (r_taken st2)
  /\ r_delivered st2 ++ abs (d_to (r_dev st2)) = replies (r_taken st2)
  /\ d_errs (r_dev st2) = d_errs (r_dev st1).
Proof.
  intros Ec Hm. cbv zeta. intros Hw.
  destruct (dev_create_spec _ _ _ Ec Hm) as ((DI0 & _) & _).
  apply telnet_run_after_reconnect; [|assumption].
  apply rrun_DevInv. exact DI0.
Qed.

(* immediately after _disconnect + connect: both buffers empty, filter state reset *)
Theorem reconnect_clears d : DevInv d ->
  let d' := connected (disconnect d) in
  abs (d_from d') = [] /\ abs (d_to d') = [] /\ cb_used (d_from d') = 0 /\ cb_used (d_to d') = 0
  /\ d_tcp d' = telnet_init /\ regex_subject (d_from d') = None.
Proof.
  intros DI. cbv zeta. destruct (reconnect_spec d DI) as ((If & It & _) & Af & At & Tc). cbv zeta in *.
  split; [assumption|]. split; [assumption|].
  assert (U1 : cb_used (d_from (connected (disconnect d))) = 0) by reflexivity.
  assert (U2 : cb_used (d_to (connected (disconnect d))) = 0) by reflexivity.
  split; [assumption|]. split; [assumption|]. split; [assumption|].
  rewrite regex_subject_spec by assumption. rewrite U1. reflexivity.
Qed.

Lemma nul_to_ff_pointwise q i : (i < length q)%nat ->
  length (nul_to_ff q) = length q
  /\ nth i (nul_to_ff q) 0%N = (if N.eqb (nth i q 0%N) 0 then 255%N else nth i q 0%N).
Proof. intros H. split; [apply nul_to_ff_length | apply nul_to_ff_nth; exact H]. Qed.

(* the run used by the non-vacuity examples of Properties/C09.v *)
Definition ex_evs : list devent :=
  [DRead [FdData [97;255;255]%N]; DConsume 1; DRead [FdData [255;253;3;98;0]%N]; DWrite [2];
   DRead [FdData [255]%N; FdData [251;1;99]%N]].

