(* C19: basic facts about Model/Redfish.v: the plug table walks (plugs_find_root_parent, plugs_child_of_ancestor,
   plugs_is_descendant) against an inductive ancestor chain, the status table, explicit states. *)
From Coq Require Import List NArith ZArith Bool Lia.
From PM Require Import Base.Bytes Base.Outcome Gen.GenRfp Model.Redfish Spec.RedfishSpec Model.RedfishView.
Import ListNotations.

(* ------------------------------------------------------------------ explicit states *)
(* configuration taken from [b]; the mutable parts explicit; no fault *)
Definition St (b : state) (ts : list (name * status)) (act wt dl : list pmsg) (out : list (tag * text)) (log : list event) : state :=
  mkState (s_hosts b) (s_fail b) (s_verbose b) (s_tab b) (s_initial b) ts (s_statpath b) (s_onpath b) (s_offpath b)
          act wt dl out log None.

Ltac st_simpl :=
  cbn [St s_hosts s_fail s_verbose s_tab s_initial s_tstat s_statpath s_onpath s_offpath s_active s_wait s_delayed s_out s_log s_fault
       set_tab set_initial set_tstat set_statpath set_onpath set_offpath set_active set_wait set_delayed set_out set_log set_fault
       emit emitf add_active add_wait add_delayed raise].
Ltac st_simpl_in H :=
  cbn [St s_hosts s_fail s_verbose s_tab s_initial s_tstat s_statpath s_onpath s_offpath s_active s_wait s_delayed s_out s_log s_fault
       set_tab set_initial set_tstat set_statpath set_onpath set_offpath set_active set_wait set_delayed set_out set_log set_fault
       emit emitf add_active add_wait add_delayed raise] in H.

(* the helper sits at its prompt *)
Definition at_prompt (st : state) : Prop :=
  s_active st = [] /\ s_wait st = [] /\ s_delayed st = [] /\ s_fault st = None.

(* configuration that a stat/on/off command never changes *)
Definition same_cfg (a b : state) : Prop :=
  s_hosts a = s_hosts b /\ s_fail a = s_fail b /\ s_verbose a = s_verbose b /\ s_tab a = s_tab b /\ s_initial a = s_initial b /\
  s_statpath a = s_statpath b /\ s_onpath a = s_onpath b /\ s_offpath a = s_offpath b.

Lemma same_cfg_St b ts act wt dl out log : same_cfg (St b ts act wt dl out log) b.
Proof. repeat split. Qed.

(* the lines that answer a target (everything but diagnostics: DEBUG lines of -vv, management messages) *)
Definition keep (e : tag * text) : bool := match fst e with TDiag => false | _ => true end.
Definition res (o : list (tag * text)) : list (tag * text) := filter keep o.
Definition results (st : state) : list (tag * text) := res (s_out st).

Lemma res_app a b : res (a ++ b) = res a ++ res b.
Proof. apply filter_app. Qed.

(* ------------------------------------------------------------------ lookup *)
Lemma lookup_name tab n pd : lookup tab n = Some pd -> p_name pd = n.
Proof. unfold lookup. intros H. apply find_some in H. destruct H as [_ H]. now apply text_eqb_eq in H. Qed.

Lemma lookup_in tab n pd : lookup tab n = Some pd -> In pd tab.
Proof. unfold lookup. intros H. now apply find_some in H. Qed.

Lemma name_valid_lookup tab n : name_valid tab n = true <-> exists pd, lookup tab n = Some pd.
Proof.
  unfold name_valid, lookup. induction tab as [|q r IH]; cbn [existsb find].
  - split; [discriminate | intros [pd H]; discriminate].
  - destruct (text_eqb (p_name q) n); cbn [orb].
    + split; [eauto | reflexivity].
    + exact IH.
Qed.

Lemma name_valid_false_lookup tab n : name_valid tab n = false <-> lookup tab n = None.
Proof.
  destruct (name_valid tab n) eqn:E.
  - apply name_valid_lookup in E as [pd H]. rewrite H. split; discriminate.
  - split; [|reflexivity]. intros _. destruct (lookup tab n) eqn:L; [|reflexivity].
    assert (name_valid tab n = true) by (apply name_valid_lookup; eauto). congruence.
Qed.

(* ------------------------------------------------------------------ ancestor chains *)
(* [chain tab x l]: l = parent of x, grandparent, ..., root; every one a defined plug *)
Inductive chain (tab : list plug) : name -> list name -> Prop :=
| ch_root x pd : lookup tab x = Some pd -> p_parent pd = None -> chain tab x []
| ch_step x pd par l : lookup tab x = Some pd -> p_parent pd = Some par -> chain tab par l -> chain tab x (par :: l).

Lemma chain_lookup tab x l : chain tab x l -> exists pd, lookup tab x = Some pd.
Proof. intros H; inversion H; eauto. Qed.

Lemma chain_det tab x l : chain tab x l -> forall l', chain tab x l' -> l = l'.
Proof.
  induction 1 as [x pd L P | x pd par l L P C IH]; intros l' H'; inversion H' as [x' pd' L' P' | x' pd' par' l2 L' P' C']; subst;
    rewrite L in L'; inversion L'; subst; rewrite P in P'; try discriminate; [reflexivity|].
  inversion P'; subst. f_equal. now apply IH.
Qed.

Lemma chain_suffix tab l1 : forall x a l2, chain tab x (l1 ++ a :: l2) -> chain tab a l2.
Proof.
  induction l1 as [|b l1 IH]; intros x a l2 H; cbn [app] in H; inversion H; subst; [assumption|].
  eapply IH; eassumption.
Qed.

Lemma chain_not_in tab x l : chain tab x l -> ~ In x l.
Proof.
  intros C I. apply in_split in I as [l1 [l2 E]]. subst l.
  pose proof (chain_suffix _ _ _ _ _ C) as C2.
  pose proof (chain_det _ _ _ C _ C2) as E.
  apply (f_equal (@length _)) in E. rewrite app_length in E. cbn [length] in E. lia.
Qed.

Lemma chain_nodup tab x l : chain tab x l -> NoDup l.
Proof.
  induction 1 as [|x pd par l L P C IH]; constructor; [|assumption].
  now apply (chain_not_in _ _ _ C).
Qed.

Lemma chain_in_chain tab x l a : chain tab x l -> In a l -> exists l1 l2, l = l1 ++ a :: l2 /\ ~ In a l1 /\ chain tab a l2.
Proof.
  intros C I. apply in_split in I as [l1 [l2 E]]. subst l. exists l1, l2. split; [reflexivity|]. split.
  - intros I1. pose proof (chain_nodup _ _ _ C) as ND. apply NoDup_remove_2 in ND. apply ND. apply in_or_app. now left.
  - eapply chain_suffix; eassumption.
Qed.

Lemma last_cons_cons {A} (a b : A) l d : last (a :: b :: l) d = last (b :: l) d.
Proof. reflexivity. Qed.
Lemma last_shift {A} (l : list A) : forall a d, last (a :: l) d = last l a.
Proof. induction l as [|b l IH]; intros a d; [reflexivity|]. rewrite last_cons_cons. rewrite IH. cbn [last]. destruct l; [reflexivity|]. now rewrite <- (IH b a). Qed.

(* plugs_find_root_parent *)
Lemma root_walk_chain tab x l : chain tab x l -> forall pd fuel, lookup tab x = Some pd -> length l <= fuel ->
  root_walk fuel tab pd = WFound (last l x).
Proof.
  induction 1 as [x pd0 L P | x pd0 par l L P C IH]; intros pd fuel Lx LE; rewrite L in Lx; inversion Lx; subst pd0.
  - destruct fuel; cbn [root_walk]; rewrite P; cbn [last]; now rewrite (lookup_name _ _ _ L).
  - destruct fuel as [|f]; [cbn [length] in LE; lia|]. cbn [root_walk]. rewrite P.
    destruct (chain_lookup _ _ _ C) as [pd' L']. rewrite L'. rewrite (IH pd' f L'); [|cbn [length] in LE; lia].
    now rewrite last_shift.
Qed.

Lemma root_walk_found tab fuel : forall x pd r, lookup tab x = Some pd -> root_walk fuel tab pd = WFound r ->
  exists l, chain tab x l /\ length l <= fuel /\ last l x = r.
Proof.
  induction fuel as [|f IH]; intros x pd r L H; cbn [root_walk] in H.
  - destruct (p_parent pd) as [par|] eqn:P.
    + destruct (lookup tab par); discriminate.
    + inversion H. exists []. split; [econstructor; eassumption|]. split; [cbn; lia|]. cbn [last]. symmetry. eapply lookup_name; eassumption.
  - destruct (p_parent pd) as [par|] eqn:P.
    + destruct (lookup tab par) as [pd'|] eqn:L'; [|discriminate].
      destruct (IH par pd' r L' H) as [l [C [LE E]]].
      exists (par :: l). split; [econstructor; eassumption|]. split; [cbn [length]; lia|]. now rewrite last_shift.
    + inversion H. exists []. split; [econstructor; eassumption|]. split; [cbn; lia|]. cbn [last]. symmetry. eapply lookup_name; eassumption.
Qed.

Lemma find_root_chain tab x r : find_root tab x = WFound r ->
  exists pd l, lookup tab x = Some pd /\ chain tab x l /\ length l <= length tab /\ last l x = r.
Proof.
  unfold find_root. destruct (lookup tab x) as [pd|] eqn:L; [|discriminate]. intros H.
  destruct (root_walk_found _ _ _ _ _ L H) as [l [C [LE E]]]. eauto 8.
Qed.

Lemma chain_find_root tab x l : chain tab x l -> length l <= length tab -> find_root tab x = WFound (last l x).
Proof.
  intros C LE. unfold find_root. destruct (chain_lookup _ _ _ C) as [pd L]. rewrite L. now apply (root_walk_chain _ _ _ C).
Qed.

(* plugs_child_of_ancestor *)
Lemma coa_walk_chain tab a l2 l1 : forall x pd fuel, chain tab x (l1 ++ a :: l2) -> lookup tab x = Some pd -> ~ In a l1 -> length l1 <= fuel ->
  coa_walk fuel tab pd a = WFound (last l1 x).
Proof.
  induction l1 as [|b l1 IH]; intros x pd fuel C L NI LE; cbn [app] in C; inversion C as [|x' pd0 par l0 L0 P C']; subst;
    rewrite L in L0; inversion L0; subst pd0.
  - destruct fuel; cbn [coa_walk]; rewrite P, text_eqb_refl; cbn [last]; now rewrite (lookup_name _ _ _ L).
  - destruct fuel as [|f]; [cbn [length] in LE; lia|]. cbn [coa_walk]. rewrite P.
    assert (text_eqb b a = false) as ->. { apply text_eqb_neq. intros ->. apply NI. now left. }
    destruct (chain_lookup _ _ _ C') as [pd' L']. rewrite L'.
    rewrite (IH b pd' f C' L'); [now rewrite last_shift | intros I; apply NI; now right | cbn [length] in LE; lia].
Qed.

Lemma coa_walk_none tab a x l : chain tab x l -> forall pd fuel, lookup tab x = Some pd -> ~ In a l -> length l <= fuel ->
  coa_walk fuel tab pd a = WNone.
Proof.
  induction 1 as [x pd0 L P | x pd0 par l L P C IH]; intros pd fuel Lx NI LE; rewrite L in Lx; inversion Lx; subst pd0.
  - destruct fuel; cbn [coa_walk]; now rewrite P.
  - destruct fuel as [|f]; [cbn [length] in LE; lia|]. cbn [coa_walk]. rewrite P.
    assert (text_eqb par a = false) as ->. { apply text_eqb_neq. intros ->. apply NI. now left. }
    destruct (chain_lookup _ _ _ C) as [pd' L']. rewrite L'.
    apply (IH pd' f L'); [intros I; apply NI; now right | cbn [length] in LE; lia].
Qed.

Lemma child_of_ancestor_chain tab x l1 a l2 : chain tab x (l1 ++ a :: l2) -> length (l1 ++ a :: l2) <= length tab ->
  child_of_ancestor tab x a = WFound (last l1 x).
Proof.
  intros C LE. unfold child_of_ancestor. destruct (chain_lookup _ _ _ C) as [pd L]. rewrite L.
  apply (coa_walk_chain _ _ _ _ _ _ _ C L).
  - pose proof (chain_nodup _ _ _ C) as ND. apply NoDup_remove_2 in ND. intros I. apply ND. apply in_or_app. now left.
  - rewrite app_length in LE. cbn [length] in LE. lia.
Qed.

Lemma is_desc_chain tab x l a : chain tab x l -> length l <= length tab -> is_desc tab x a = true <-> In a l.
Proof.
  intros C LE. unfold is_desc. split.
  - intros H. destruct (in_dec text_eq_dec a l) as [I|NI]; [assumption|].
    unfold child_of_ancestor in H. destruct (chain_lookup _ _ _ C) as [pd L]. rewrite L in H.
    rewrite (coa_walk_none _ _ _ _ C _ _ L NI LE) in H. discriminate.
  - intros I. destruct (chain_in_chain _ _ _ _ C I) as [l1 [l2 [E _]]]. subst l.
    now rewrite (child_of_ancestor_chain _ _ _ _ _ C LE).
Qed.

(* ------------------------------------------------------------------ the specification's view of the table *)
Lemma node_of_forest tab p : node_of (forest_of tab) p = option_map (fun q => mkNode (p_name q) (p_host q) (p_parent q)) (lookup tab p).
Proof.
  unfold node_of, forest_of, lookup. induction tab as [|q r IH]; [reflexivity|]. cbn [map find n_name].
  destruct (text_eqb (p_name q) p); [reflexivity | exact IH].
Qed.

Lemma known_forest tab p : known (forest_of tab) p = name_valid tab p.
Proof. unfold known, forest_of, name_valid. induction tab as [|q r IH]; [reflexivity|]. cbn [map existsb n_name]. now rewrite IH. Qed.

Lemma host_of_forest tab p pd : lookup tab p = Some pd -> host_of (forest_of tab) p = p_host pd.
Proof. intros L. unfold host_of. rewrite node_of_forest, L. reflexivity. Qed.

Lemma ancestors_go_chain tab x l : chain tab x l -> forall fuel, length l <= fuel -> ancestors_go fuel (forest_of tab) x = l.
Proof.
  induction 1 as [x pd L P | x pd par l L P C IH]; intros fuel LE.
  - destruct fuel; [reflexivity|]. cbn [ancestors_go]. rewrite node_of_forest, L. cbn [option_map n_parent]. now rewrite P.
  - destruct fuel as [|f]; [cbn [length] in LE; lia|]. cbn [ancestors_go]. rewrite node_of_forest, L. cbn [option_map n_parent]. rewrite P.
    f_equal. apply IH. cbn [length] in LE. lia.
Qed.

Lemma ancestors_chain tab x l : chain tab x l -> length l <= length tab -> ancestors (forest_of tab) x = l.
Proof. intros C LE. unfold ancestors. apply (ancestors_go_chain _ _ _ C). unfold forest_of. now rewrite map_length. Qed.

(* ------------------------------------------------------------------ status table *)
Lemma ts_lookup_update_same ts n s : ts_lookup (ts_update ts n s) n = Some s.
Proof.
  unfold ts_lookup. induction ts as [|e r IH]; cbn [ts_update find fst]; unfold name in *.
  - now rewrite text_eqb_refl.
  - destruct (text_eqb (fst e) n) eqn:E; cbn [find fst]; [now rewrite text_eqb_refl | rewrite E; exact IH].
Qed.

Lemma ts_lookup_update_other ts n s k : k <> n -> ts_lookup (ts_update ts n s) k = ts_lookup ts k.
Proof.
  intros NE. unfold ts_lookup. induction ts as [|e r IH]; cbn [ts_update find fst]; unfold name in *.
  - assert (text_eqb n k = false) as -> by (apply text_eqb_neq; congruence). reflexivity.
  - destruct (text_eqb (fst e) n) eqn:E; cbn [find fst].
    + apply text_eqb_eq in E. rewrite E.
      assert (text_eqb n k = false) as -> by (apply text_eqb_neq; congruence). reflexivity.
    + destruct (text_eqb (fst e) k); [reflexivity | exact IH].
Qed.

Lemma ts_lookup_map_off (P : name -> bool) ts k :
  ts_lookup (map (fun e => if P (fst e) then (fst e, SOff) else e) ts) k =
  match ts_lookup ts k with Some s => Some (if P k then SOff else s) | None => None end.
Proof.
  unfold ts_lookup. induction ts as [|e r IH]; [reflexivity|]. cbn [map find].
  unfold name in *. destruct (P (fst e)) eqn:PE; cbn [fst snd]; destruct (text_eqb (fst e) k) eqn:E; cbn [snd].
  - apply text_eqb_eq in E. subst k. now rewrite PE.
  - exact IH.
  - apply text_eqb_eq in E. subst k. rewrite PE. reflexivity.
  - exact IH.
Qed.

Lemma st_get_statmap ts k : st_get (statmap_of ts) k = match ts_lookup ts k with Some s => sstat_of s | None => StOff end.
Proof.
  unfold st_get, statmap_of, ts_lookup. induction ts as [|e r IH]; [reflexivity|]. cbn [map find fst]. unfold name in *.
  destruct (text_eqb (fst e) k); [reflexivity | exact IH].
Qed.

Lemma st_get_set_same m p s : st_get (st_set m p s) p = s.
Proof.
  unfold st_get. induction m as [|e r IH]; cbn [st_set find fst].
  - now rewrite text_eqb_refl.
  - destruct (text_eqb (fst e) p) eqn:E; cbn [find fst]; [now rewrite text_eqb_refl | rewrite E; exact IH].
Qed.

Lemma st_get_set_other m p s k : k <> p -> st_get (st_set m p s) k = st_get m k.
Proof.
  intros NE. unfold st_get. induction m as [|e r IH]; cbn [st_set find fst].
  - assert (text_eqb p k = false) as -> by (apply text_eqb_neq; congruence). reflexivity.
  - destruct (text_eqb (fst e) p) eqn:E; cbn [find fst].
    + apply text_eqb_eq in E. rewrite E.
      assert (text_eqb p k = false) as -> by (apply text_eqb_neq; congruence). reflexivity.
    + destruct (text_eqb (fst e) k); [reflexivity | exact IH].
Qed.

(* the words of the current source are the documented ones *)
Lemma status_text_word s : status_text s = word (sstat_of s).
Proof. destruct s; reflexivity. Qed.
Lemma cmd_text_word c : cmd_text c = cword (scmd_of c).
Proof. destruct c; reflexivity. Qed.
Lemma status_is_on_spec s : status_is_on s = is_on (sstat_of s).
Proof. destruct s; reflexivity. Qed.

Lemma mem_smem x l : mem x l = smem x l.
Proof. reflexivity. Qed.
