(* C19, several targets on one line, TEXT of the answers and the status table: the invariant of RedfishLive.v refined.

   [eff a] (RedfishEff.v) is what a handler on plug a reports to the waiters below it.  On top of [minv]:
     * every live message (rest of the pass copy, appended entries, delayed polls) sits on a plug ALL of whose ancestors
       answer on ([clr]) -- so when process_waiters(A, s) answers a waiter, A is the first ancestor, root first, that
       is not on, and s = eff A: the line is the documented one ([lnx]);
     * a silent ancestor query never sits on a targeted plug when the command is on/off (for `on` no pending message sits
       above a waiter; for `off` plugname_active() finds the operation on that plug) -- so what a query sees is the
       status before the command;
     * the status table differs from the one before the command exactly at the plugs of the operations carried out
       (and, for off, their descendants); an operation is carried out only on a target whose ancestors all answer on and
       whose host works; every result line printed so far is [lnx] of its plug, and a target that is carried out and
       answered is in the log. *)
From Coq Require Import List NArith ZArith Bool Lia Permutation.
From PM Require Import Base.Bytes Base.Outcome Gen.GenRfp Model.Redfish Spec.RedfishSpec Model.RedfishView
  Proofs.RedfishBase Proofs.RedfishSteps Proofs.RedfishMgmt Proofs.RedfishRules Proofs.RedfishPhased
  Proofs.RedfishReach Proofs.RedfishInv Proofs.RedfishLive Proofs.RedfishDrain Proofs.RedfishEff.
Import ListNotations.

Ltac inapp ::= repeat (progress (rewrite ?in_app_iff in *; cbn [In app] in * )); tauto.

Section Text.
Variables (b : state) (c : cmd) (K U : list name).
Notation tab := (s_tab b).
Notation minv := (minv b c).
Notation eff := (eff b c K).
Notation clr := (clr b c K).
Notation lnx := (lnx b c K).
Notation fails := (fails b).

Definition logged (lg : list event) (p : name) : Prop := In (EvOp c p) lg.

(* a printed entry is the documented one *)
Definition just (d : nat) (lg : list event) (e : tag * text) : Prop :=
  match fst e with
  | TDiag => True
  | TUnknown p => snd e = unk_line p
  | TResult x => snd e = lnx x /\ (clr x -> dp tab x <= d /\ (c <> CStat -> fails x = false -> logged lg x))
  end.

Lemma just_mono d d' lg lg' e : d <= d' -> (forall p, logged lg p -> logged lg' p) -> just d lg e -> just d' lg' e.
Proof.
  intros LE SUB. unfold just. destruct (fst e); auto. intros [E H]. split; [exact E|]. intros CL. destruct (H CL) as [D L]. split; [lia | auto].
Qed.
Lemma just_diag d lg t : just d lg (TDiag, t).
Proof. exact I. Qed.

Record rinv (d : nat) (lv : list pmsg) (st : state) : Prop := mk_rinv {
  ri_clr : forall m, In m (lv ++ s_delayed st) -> clr (m_plug m);
  ri_sil : c <> CStat -> forall m, In m lv -> m_out m = false -> ~ In (m_plug m) K;
  ri_poll : forall m, In m (lv ++ s_delayed st) -> m_poll m = true -> logged (s_log st) (m_plug m);
  ri_log : forall p, logged (s_log st) p -> In p K /\ clr p /\ fails p = false;
  ri_ts1 : forall k, (forall p, logged (s_log st) p -> k <> p /\ (c = COff -> is_desc tab k p = false)) ->
           ts_lookup (s_tstat st) k = ts_lookup (s_tstat b) k;
  ri_ts2 : forall k p, logged (s_log st) p -> k = p \/ (c = COff /\ is_desc tab k p = true) ->
           st_get (statmap_of (s_tstat st)) k = opst c;
  ri_out : outP (just d (s_log st)) st }.

(* ------------------------------------------------------------------ geometry of a waiter below A *)
Lemma geo w A : wfm b c w -> In A (anc tab (m_plug w)) ->
  exists ch, child_of_ancestor tab (m_plug w) A = WFound ch /\ okplug b ch /\ anc tab ch = A :: anc tab A /\
             (parent_is w A = true -> ch = m_plug w) /\ (parent_is w A = false -> In ch (anc tab (m_plug w))).
Proof.
  intros WW IA. pose proof (wf_plug _ _ _ WW) as [CW PW].
  destruct (child_spec tab _ _ CW IA) as (ch & CO & Cch & Ech & ALT). exists ch. split; [exact CO|].
  assert (OKch : okplug b ch).
  { destruct ALT as [[-> _]|[Ich _]]; [split; assumption | apply (okplug_anc b (m_plug w)); [split; assumption | exact Ich]]. }
  split; [exact OKch|]. split; [exact Ech|].
  pose proof (parent_is_anc b c w A WW) as PI. split.
  - intros P. apply PI in P as [l E]. destruct ALT as [[-> _]|[_ (b0 & l0 & E0 & NE)]]; [reflexivity|]. rewrite E in E0. inversion E0. congruence.
  - intros P. destruct ALT as [[_ [l E]]|[Ich _]]; [|exact Ich]. assert (parent_is w A = true) by (apply PI; eauto). congruence.
Qed.

Lemma pend_K d stale todo new st x : minv d stale todo new st K U -> In x (todo ++ new ++ s_delayed st ++ s_wait st) -> m_out x = true -> In (m_plug x) K.
Proof.
  intros INV I O. apply cnt_in. rewrite <- (mi_acct _ _ _ _ _ _ _ _ _ INV (m_plug x)).
  assert (H : In (m_plug x) (pend (todo ++ new ++ s_delayed st ++ s_wait st))) by (unfold pend; apply in_map; apply filter_In; auto).
  apply (count_occ_In text_eq_dec) in H. unfold cnt. lia.
Qed.

(* ------------------------------------------------------------------ process_waiters(plug of m, eff (plug of m)) *)
Lemma pw_R d stale m todo new st st0 s :
  minv d stale (m :: todo) new st K U -> rinv d (m :: todo ++ new) st ->
  grows st st0 [] (pend [m]) -> s_wait st0 = s_wait st -> outP (just d (s_log st)) st0 ->
  s = eff (m_plug m) ->
  (status_is_on s = true -> dp tab (m_plug m) = d \/ forall w, In w (s_wait st) -> ~ In (m_plug m) (anc tab (m_plug w))) ->
  forall lv', s_active (process_waiters st0 (m_plug m) s) = (stale ++ [m]) ++ lv' -> rinv d lv' (process_waiters st0 (m_plug m) s).
Proof.
  intros INV RI G0 W0 O0 ES SON lv' ACT'.
  pose proof INV as [CFG FL ACT COV OLD TODO NEW DL POLL WAIT ON ACCT UNK TSC LOG].
  destruct RI as [RCLR RSIL RPOLL RLOG RTS1 RTS2 ROUT].
  set (A := m_plug m) in *.
  destruct (OLD m) as [WM DM]; [apply in_or_app; right; now left|].
  pose proof WM as [[CA PA] (pda & LA & _) WMO WMS WMP].
  destruct G0 as (K0 & A0 & R0 & U0). rewrite app_nil_r in A0.
  assert (CFG0 : same_cfg st0 b) by (eapply same_cfg_trans; [apply K0 | exact CFG]).
  assert (ET0 : s_tab st0 = tab) by (destruct CFG0 as (_&_&_&E&_); exact E).
  assert (CLA : clr A) by (apply RCLR; now left).
  assert (DESC : forall w, In w (s_wait st) -> is_desc tab (m_plug w) A = true <-> In A (anc tab (m_plug w))).
  { intros w I. destruct (WAIT w I) as (WW & _). apply is_desc_anc. apply (wf_plug _ _ _ WW). }
  assert (HPch : status_is_on s = true -> forall w ch, In w (s_wait st0) -> child_of_ancestor tab (m_plug w) A = WFound ch -> has_path st0 CStat ch = true).
  { intros S w ch I CO. rewrite W0 in I. rewrite (same_cfg_has_path b _ _ CFG0).
    assert (IA : In A (anc tab (m_plug w))) by (apply (DESC w I); unfold is_desc; now rewrite CO).
    destruct (WAIT w I) as (WW & _).
    destruct (geo w A WW IA) as (ch' & CO' & [_ PC] & _). rewrite CO in CO'. inversion CO'; subst ch'. apply PC. now left. }
  destruct (pw_spec tab A s pda st0 ET0 LA HPch) as (qs & G & W & Z & Q & Pp).
  destruct (pw_ext tab A s pda (just d (s_log st)) st0 ET0 LA HPch) as [OUT FRESH].
  { intros t. apply just_diag. }
  { exact O0. }
  { intros w Iw D NS OW. rewrite W0 in Iw. destruct (WAIT w Iw) as (WW & _). pose proof (wf_plug _ _ _ WW) as [CW _].
    destruct (wf_pd _ _ _ WW) as (pdx & Lx & _).
    assert (IA : In A (anc tab (m_plug w))) by now apply DESC.
    unfold just. cbn [fst snd]. split.
    - rewrite (blocked_line_msg c w pdx pda s (wf_out _ _ _ WW OW)). rewrite ES. symmetry.
      apply (lnx_blocked b c K); auto. now rewrite <- ES.
    - intros CL. exfalso. rewrite ES in NS. rewrite (CL A IA) in NS. discriminate. }
  rewrite W0 in *.
  set (st' := process_waiters st0 A s) in *.
  set (wt := s_wait st) in *.
  set (MV := filter (pw_mv tab A s) wt) in *. set (KP := filter (pw_kp tab A s) wt) in *.
  destruct G as (KS & AS & RS & US).
  assert (DL' : s_delayed st' = s_delayed st) by (destruct KS as (_&_&E&_); destruct K0 as (_&_&E0&_); congruence).
  assert (TS' : s_tstat st' = s_tstat st) by (destruct KS as (_&E&_); destruct K0 as (_&E0&_); congruence).
  assert (LG' : s_log st' = s_log st) by (destruct KS as (_&_&_&E&_); destruct K0 as (_&_&_&E0&_); congruence).
  assert (ELV : lv' = todo ++ new ++ MV ++ qs).
  { rewrite AS, A0, ACT in ACT'. rewrite <- !app_assoc in ACT'. cbn [app] in ACT'. apply app_inv_head in ACT'. injection ACT' as E. now rewrite <- E. }
  assert (MVP : forall w, In w MV -> In w wt /\ In A (anc tab (m_plug w)) /\ status_is_on s = true /\ parent_is w A = true).
  { intros w I. apply filter_In in I as [I M]. unfold pw_mv in M. apply andb_true_iff in M as [M P1]. apply andb_true_iff in M as [D S].
    split; [exact I|]. split; [now apply DESC | auto]. }
  assert (KPP : forall w, In w KP -> In w wt /\ (In A (anc tab (m_plug w)) -> status_is_on s = true /\ parent_is w A = false)).
  { intros w I. apply filter_In in I as [I M]. split; [exact I|]. intros IA. apply (DESC w I) in IA. unfold pw_kp in M. rewrite IA in M. cbn [negb orb] in M.
    apply andb_true_iff in M as [S P1]. split; [exact S|]. now destruct (parent_is w A). }
  assert (NEWG : forall x, In x (MV ++ qs) -> status_is_on s = true /\ anc tab (m_plug x) = A :: anc tab A /\ m_poll x = false).
  { intros x I. apply in_app_or in I as [I|I].
    - destruct (MVP x I) as (Iw & IA & S & P1). destruct (WAIT x Iw) as (WX & _ & PX & _).
      destruct (geo x A WX IA) as (ch & _ & _ & E & EP & _). rewrite <- (EP P1). auto.
    - destruct (Q x I) as (w & pd & Iw & CO & L & ->). destruct (KPP w Iw) as [Iw' H].
      assert (IA : In A (anc tab (m_plug w))) by (apply (DESC w Iw'); unfold is_desc; now rewrite CO).
      destruct (H IA) as [S P1]. destruct (WAIT w Iw') as (WW & _). destruct (geo w A WW IA) as (ch & CO' & _ & E & _). rewrite CO in CO'. inversion CO' as [E1].
      cbn [qmsg_of m_plug m_poll]. rewrite E1. auto. }
  assert (CLN : forall x, In x (MV ++ qs) -> clr (m_plug x)).
  { intros x I. destruct (NEWG x I) as (S & E & _). intros a Ia. rewrite E in Ia. destruct Ia as [<-|Ia]; [now rewrite <- ES | now apply CLA]. }
  rewrite ELV. split.
  - (* ri_clr *)
    rewrite DL'. intros x I.
    assert (H : In x ((m :: todo ++ new) ++ s_delayed st) \/ In x (MV ++ qs)) by (clear - I; inapp).
    destruct H as [H|H]; [now apply RCLR | now apply CLN].
  - (* ri_sil: a new silent query does not sit on a target *)
    intros NS x I OX.
    assert (H : In x (todo ++ new) \/ In x MV \/ In x qs) by (clear - I; inapp).
    destruct H as [H|[H|H]].
    { apply (RSIL NS); [right; exact H | exact OX]. }
    { destruct (MVP x H) as (Iw & _). destruct (WAIT x Iw) as (_ & O & _). congruence. }
    intros IK.
    destruct (NEWG x (in_or_app _ _ _ (or_intror H))) as (SO & EA & _).
    assert (CLx : clr (m_plug x)) by (apply CLN; apply in_or_app; now right).
    assert (Ixa : In x (s_active st')) by (rewrite AS; clear - H; inapp).
    destruct (FRESH x Ixa) as [Iold|(w & Iw & CO & PAF)].
    { (* the very same message was already there *)
      rewrite A0, ACT in Iold.
      assert (H2 : In x (stale ++ m :: todo) \/ In x new \/ In x MV) by (clear - Iold; inapp).
      destruct H2 as [H2|[H2|H2]].
      - destruct (OLD x H2) as [_ LE]. unfold dp in LE. rewrite EA in LE. cbn [length] in LE.
        destruct (Q x H) as (w & pd & Iw & CO & _). destruct (KPP w Iw) as [Iw' _].
        assert (IA : In A (anc tab (m_plug w))) by (apply (DESC w Iw'); unfold is_desc; now rewrite CO).
        destruct (SON SO) as [E|NB]; [fold (dp tab A) in LE; lia | exact (NB w Iw' IA)].
      - apply (RSIL NS x); [right; apply in_or_app; now right | exact OX | exact IK].
      - destruct (MVP x H2) as (Iw & _). destruct (WAIT x Iw) as (_ & O & _). congruence. }
    destruct (KPP w Iw) as [Iw' HK'].
    assert (IA : In A (anc tab (m_plug w))) by (apply (DESC w Iw'); unfold is_desc; now rewrite CO).
    destruct (HK' IA) as [_ P1]. destruct (WAIT w Iw') as (WW & OW & _).
    destruct (geo w A WW IA) as (ch & CO' & _ & _ & _ & ICH). rewrite CO in CO'. inversion CO' as [E1]. specialize (ICH P1). rewrite <- E1 in ICH.
    assert (DA : dp tab A = d) by (destruct (SON SO) as [E|NB]; [exact E | exfalso; exact (NB w Iw' IA)]).
    assert (DX : dp tab (m_plug x) = S d) by (unfold dp; rewrite EA; cbn [length]; fold (dp tab A); now rewrite DA).
    specialize (ACCT (m_plug x)). apply (count_occ_In text_eq_dec) in IK. fold (cnt (m_plug x) K) in IK.
    assert (H3 : In (m_plug x) (pend ((m :: todo) ++ new ++ s_delayed st ++ wt)) \/ In (m_plug x) (tres (s_out st))).
    { destruct (in_dec text_eq_dec (m_plug x) (pend ((m :: todo) ++ new ++ s_delayed st ++ wt))) as [Y|N]; [now left|]. right. apply cnt_in.
      apply (count_occ_not_In text_eq_dec) in N. unfold cnt in *. lia. }
    destruct H3 as [H3|H3].
    2:{ apply tres_in in H3 as (e & Ie & Ee). pose proof (ROUT e Ie) as J. unfold just in J. rewrite Ee in J. destruct J as [_ J]. destruct (J CLx) as [LE _]. lia. }
    apply pend_in in H3 as (y & Iy & OY & EY).
    destruct (cmd_cases c NS) as [EC|EC].
    + (* on: no pending message sits above a waiter *)
      apply (ON EC y w Iy OY Iw'). now rewrite EY.
    + (* off: plugname_active() would have found the operation *)
      assert (CW : m_cmd w = COff) by (rewrite <- EC; apply (wf_out _ _ _ WW OW)).
      assert (H4 : In y (m :: todo ++ new) \/ In y (s_delayed st) \/ In y wt) by (clear - Iy; cbn [app] in Iy; inapp).
      destruct H4 as [H4|[H4|H4]].
      * assert (WY : wfm b c y).
        { destruct H4 as [<-|H4]; [exact WM|]. apply in_app_or in H4 as [H4|H4]; [apply OLD; apply in_or_app; right; now right | now apply NEW]. }
        rewrite CW in PAF. rewrite (plugname_active_off _ y (m_plug x)) in PAF; [discriminate | | exact EY | rewrite <- EC; apply (wf_out _ _ _ WY OY)].
        apply in_or_app. left. rewrite A0, ACT. clear - H4. cbn [app]. destruct H4 as [<-|H4]; inapp.
      * destruct (DL y H4) as (_ & _ & LE). rewrite EY in LE. lia.
      * destruct (WAIT y H4) as (WY & _).
        assert (IAy : In A (anc tab (m_plug y))) by (rewrite EY, EA; now left).
        assert (MVy : In y MV).
        { apply filter_In. split; [exact H4|]. unfold pw_mv. rewrite (proj2 (DESC y H4) IAy), SO. cbn [andb].
          apply (parent_is_anc b c y A WY). rewrite EY, EA. eauto. }
        rewrite CW in PAF. rewrite (plugname_active_off _ y (m_plug x)) in PAF; [discriminate | | exact EY | rewrite <- EC; apply (wf_out _ _ _ WY OY)].
        apply in_or_app. now right.
  - (* ri_poll *)
    rewrite DL', LG'. intros x I PX.
    assert (H : In x ((m :: todo ++ new) ++ s_delayed st) \/ In x (MV ++ qs)) by (clear - I; inapp).
    destruct H as [H|H]; [now apply RPOLL|]. destruct (NEWG x H) as (_ & _ & NP). congruence.
  - rewrite LG'. exact RLOG.
  - rewrite LG', TS'. exact RTS1.
  - rewrite LG', TS'. exact RTS2.
  - rewrite LG'. exact OUT.
Qed.

(* ------------------------------------------------------------------ one message of the pass copy *)
Lemma step_R d stale m todo new st :
  minv d stale (m :: todo) new st K U -> rinv d (m :: todo ++ new) st ->
  forall lv', s_active (process_msg st m) = (stale ++ [m]) ++ lv' -> rinv d lv' (process_msg st m).
Proof.
  intros INV RI. pose proof INV as [CFG FL ACT COV OLD TODO NEW DL POLL WAIT ON ACCT UNK TSC LOG].
  pose proof RI as [RCLR RSIL RPOLL RLOG RTS1 RTS2 ROUT].
  destruct (OLD m) as [WM DM]; [apply in_or_app; right; now left|].
  pose proof WM as [[CA PA] (pda & LA & EP & EH) WMO WMS WMP].
  assert (ETAB : s_tab st = tab) by (destruct CFG as (_&_&_&E&_); exact E).
  assert (EFAIL : s_fail st = s_fail b) by (destruct CFG as (_&E&_); exact E).
  assert (NV : name_valid tab (m_plug m) = true) by (apply name_valid_lookup; eauto).
  assert (CLM : clr (m_plug m)) by (apply RCLR; now left).
  assert (G0 : forall f a, grows st (if m_out m then emitf st (TResult (m_plug m)) f a else st) [] (pend [m]) /\
                           s_wait (if m_out m then emitf st (TResult (m_plug m)) f a else st) = s_wait st).
  { intros f a. rewrite pend_one. destruct (m_out m); split; try reflexivity; [apply grows_emit_result | apply grows_refl]. }
  assert (O0 : forall f a, (m_out m = true -> just d (s_log st) (TResult (m_plug m), fmt f a)) ->
               outP (just d (s_log st)) (if m_out m then emitf st (TResult (m_plug m)) f a else st)).
  { intros f a H. destruct (m_out m); [apply outP_emitf; [exact ROUT | now apply H] | exact ROUT]. }
  unfold process_msg. rewrite EH, EFAIL. destruct (mem (p_host pda) (s_fail b)) eqn:FAIL.
  { (* the host fails *)
    destruct (G0 f_shell_error [m_plug m]) as [G W].
    apply (pw_R d stale m todo new st _ SErr INV RI G W).
    - apply O0. intros OM. unfold just. cbn [fst snd]. split; [symmetry; now apply (lnx_own_fail b c K _ pda)|].
      intros _. split; [exact DM|]. intros _ F. unfold RedfishEff.fails in F. rewrite LA, FAIL in F. discriminate.
    - symmetry. now apply (eff_fail b c K _ pda).
    - discriminate. }
  destruct (cmd_is_stat (m_cmd m)) eqn:CS.
  { (* a query *)
    assert (EC : m_cmd m = CStat) by (destruct (m_cmd m); [reflexivity | discriminate CS | discriminate CS]).
    assert (NP : m_poll m = false).
    { destruct (m_poll m) eqn:E; [|reflexivity]. destruct (WMP eq_refl) as [NS O]. rewrite (WMO O) in EC. congruence. }
    unfold stat_process. destruct (ts_lookup (s_tstat st) (m_plug m)) as [s|] eqn:TL; [|exfalso; eapply COV; eassumption].
    assert (ES : s = eff (m_plug m)).
    { destruct (cmd_eq_dec c CStat) as [E|NS].
      - rewrite (eff_stat b c K _ pda E LA FAIL). unfold tsget. rewrite <- (TSC E), TL. reflexivity.
      - assert (OM : m_out m = false). { destruct (m_out m) eqn:O; [|reflexivity]. rewrite (WMO eq_refl) in EC. congruence. }
        assert (NK : ~ In (m_plug m) K) by (apply (RSIL NS m); [now left | exact OM]).
        rewrite (eff_notK b c K _ pda LA FAIL NK). unfold tsget. rewrite <- RTS1, TL; [reflexivity|].
        intros p LP. destruct (RLOG p LP) as (IK & _). split; [congruence|]. intros EO.
        destruct (is_desc tab (m_plug m) p) eqn:D; [|reflexivity]. exfalso.
        apply (is_desc_anc tab _ _ CA) in D. specialize (CLM p D). revert CLM. rewrite EO. rewrite (eff_K_off b K p IK). discriminate. }
    destruct (G0 f_stat_result [m_plug m; status_text s]) as [G W].
    apply (pw_R d stale m todo new st _ s INV RI G W).
    - apply O0. intros OM. assert (E : c = CStat) by (rewrite <- (WMO OM); exact EC). unfold just. cbn [fst snd]. split.
      + rewrite (lnx_own_stat b c K _ pda CA LA CLM FAIL E). rewrite ES, (eff_stat b c K _ pda E LA FAIL). reflexivity.
      + intros _. split; [exact DM|]. intros NS. congruence.
    - exact ES.
    - intros _. left. apply TODO; [now left | exact NP]. }
  assert (NS : m_cmd m <> CStat) by (intros E; rewrite E in CS; discriminate CS).
  assert (OM : m_out m = true). { destruct (m_out m) eqn:E; [reflexivity|]. destruct (WMS eq_refl). congruence. }
  assert (EC : m_cmd m = c) by auto.
  assert (NSc : c <> CStat) by congruence.
  assert (IK : In (m_plug m) K) by (apply (pend_K d stale (m :: todo) new st m INV); [now left | exact OM]).
  unfold on_off_process. destruct (m_poll m) eqn:PM.
  { (* the follow-up poll *)
    destruct (POLL m) as (s & TL & SC); [now left | exact PM|]. rewrite TL, EC, SC.
    assert (G : grows st (emitf st (TResult (m_plug m)) f_onoff_ok [m_plug m]) [] (pend [m])) by (rewrite pend_one, OM; apply grows_emit_result).
    apply (pw_R d stale m todo new st _ s INV RI G eq_refl).
    - apply outP_emitf; [exact ROUT|]. unfold just. cbn [fst snd]. split; [symmetry; now apply (lnx_own_op b c K _ pda)|].
      intros _. split; [exact DM|]. intros _ _. apply RPOLL; [now left | exact PM].
    - now apply (eff_K b c K _ pda).
    - intros S. right. intros w Iw. destruct (status_cmd_cases c _ SC) as [[E _]|[_ ->]]; [|discriminate S]. apply (ON E) with (m := m); [now left | exact OM | exact Iw]. }
  (* the operation itself *)
  unfold poll_or_fail, send_status_poll. rewrite ETAB, LA.
  assert (GP : exists lp, get_path st CStat pda = Some lp).
  { pose proof (PA (m_plug m) (or_introl eq_refl)) as HP. rewrite <- (same_cfg_has_path b st _ CFG) in HP.
    destruct (has_path_get _ _ _ HP) as (pd' & lp & L' & GP'). rewrite ETAB, LA in L'. inversion L'; subst pd'. eauto. }
  destruct GP as [lp ->].
  set (pl := mkMsg (m_cmd m) (m_host m) (m_plug m) (m_parent m) true true).
  set (st1 := add_delayed st pl).
  destruct (flip_frame st1 m) as (FC & FA & FW & FD & FO & FF).
  intros lv' ACT'.
  assert (ELV : lv' = todo ++ new).
  { rewrite FA in ACT'. cbn [st1 add_delayed set_delayed s_active] in ACT'. rewrite ACT in ACT'. rewrite <- !app_assoc in ACT'. cbn [app] in ACT'.
    apply app_inv_head in ACT'. injection ACT' as E. now rewrite <- E. }
  assert (ELOG : s_log (flip st1 m) = s_log st ++ [EvOp c (m_plug m)]) by (rewrite flip_log, EC; reflexivity).
  assert (ETS : s_tstat (flip st1 m) = flip_ts st1 (s_tstat st) c (m_plug m)) by (rewrite (flip_tstat _ _ NS), EC; reflexivity).
  assert (SUB : forall p, logged (s_log st) p -> logged (s_log (flip st1 m)) p) by (intros p H; unfold logged; rewrite ELOG; apply in_or_app; now left).
  assert (LNEW : forall p, logged (s_log (flip st1 m)) p -> logged (s_log st) p \/ p = m_plug m).
  { intros p H. unfold logged in H. rewrite ELOG in H. apply in_app_or in H as [H|[H|[]]]; [now left | right; congruence]. }
  rewrite ELV. split.
  - rewrite FD. cbn [st1 add_delayed set_delayed s_delayed]. intros x I.
    assert (H : In x ((m :: todo ++ new) ++ s_delayed st) \/ pl = x) by (clear - I; inapp).
    destruct H as [H| <-]; [now apply RCLR | exact CLM].
  - intros NS' x I OX. apply (RSIL NS' x); [now right | exact OX].
  - rewrite FD. cbn [st1 add_delayed set_delayed s_delayed]. intros x I PX.
    assert (H : In x ((m :: todo ++ new) ++ s_delayed st) \/ pl = x) by (clear - I; inapp).
    destruct H as [H| <-]; [apply SUB; now apply RPOLL|]. unfold logged. rewrite ELOG. apply in_or_app. right. now left.
  - intros p H. destruct (LNEW p H) as [H1| ->]; [now apply RLOG|]. split; [exact IK|]. split; [exact CLM|].
    unfold RedfishEff.fails. now rewrite LA.
  - intros k H. rewrite ETS. destruct (H (m_plug m)) as [NE D]; [unfold logged; rewrite ELOG; apply in_or_app; right; now left|].
    rewrite flip_ts_other; [|exact NE | cbn [st1 add_delayed set_delayed s_tab]; rewrite ETAB; exact D].
    apply RTS1. intros p LP. apply H. now apply SUB.
  - intros k p H CASE. rewrite ETS, (flip_ts_get_op _ _ _ _ _ NSc). cbn [st1 add_delayed set_delayed s_tab]. rewrite ETAB.
    destruct (text_eqb k (m_plug m) || (cmd_is_off c && is_desc tab k (m_plug m))) eqn:X; [reflexivity|].
    apply orb_false_iff in X as [X1 X2]. apply text_eqb_neq in X1.
    destruct (LNEW p H) as [H1| ->]; [now apply (RTS2 k p)|]. exfalso.
    destruct CASE as [E|[E D]]; [congruence|]. rewrite E in X2. change (cmd_is_off COff) with true in X2. cbn [andb] in X2. congruence.
  - intros e I. rewrite FO in I. apply (just_mono d d (s_log st)); [lia | exact SUB | now apply ROUT].
Qed.

(* ------------------------------------------------------------------ the rest of the pass copy, a pass, the release of polls *)
Lemma fold_R d : forall todo stale new st, minv d stale todo new st K U -> rinv d (todo ++ new) st ->
  forall lv', s_active (fold_left process_msg todo st) = (stale ++ todo) ++ lv' -> rinv d lv' (fold_left process_msg todo st).
Proof.
  induction todo as [|m r IH]; intros stale new st INV RI lv' ACT'; cbn [fold_left] in *.
  - rewrite (mi_act _ _ _ _ _ _ _ _ _ INV) in ACT'. cbn [app] in ACT'. rewrite app_nil_r in ACT'. apply app_inv_head in ACT'. now rewrite <- ACT'.
  - destruct (step_inv b c d stale m r new st K U INV) as (add & I1 & _ & _).
    assert (R1 : rinv d (r ++ new ++ add) (process_msg st m)).
    { apply (step_R d stale m r new st INV RI). rewrite (mi_act _ _ _ _ _ _ _ _ _ I1). reflexivity. }
    apply (IH (stale ++ [m]) (new ++ add) (process_msg st m) I1 R1). rewrite ACT', <- !app_assoc. reflexivity.
Qed.

Lemma pass_R d st : minv d [] (s_active st) [] st K U -> rinv d (s_active st) st -> rinv (S d) (s_active (pass st)) (pass st).
Proof.
  intros INV RI. destruct (fold_inv b c K U d (s_active st) [] [] st INV) as (new' & I' & _ & _).
  pose proof (mi_act _ _ _ _ _ _ _ _ _ I') as ACT. cbn [app] in ACT.
  assert (R : rinv d new' (fold_left process_msg (s_active st) st)).
  { apply (fold_R d (s_active st) [] [] st INV); [now rewrite app_nil_r | exact ACT]. }
  unfold pass. set (st' := fold_left process_msg (s_active st) st) in *.
  assert (E : skipn (length (s_active st)) (s_active st') = new') by (rewrite ACT; apply skipn_length_app).
  rewrite E. cbn [set_active s_active]. destruct R as [RCLR RSIL RPOLL RLOG RTS1 RTS2 ROUT].
  split; cbn [set_active s_delayed s_log s_tstat s_out]; auto.
  intros e I. apply (just_mono d (S d) (s_log st')); [lia | auto | now apply ROUT].
Qed.

Lemma release_R d r st : minv d [] (s_active st) [] st K U -> rinv d (s_active st) st -> rinv d (s_active (release r st)) (release r st).
Proof.
  intros INV [RCLR RSIL RPOLL RLOG RTS1 RTS2 ROUT]. unfold release. cbn [set_active set_delayed s_active].
  assert (FS : forall x, In x (firstn r (s_delayed st)) -> In x (s_delayed st)) by (intros x I; apply (in_fs r); now left).
  assert (SS : forall x, In x (skipn r (s_delayed st)) -> In x (s_delayed st)) by (intros x I; apply (in_fs r); now right).
  split; cbn [set_active set_delayed s_delayed s_log s_tstat s_out]; auto.
  - intros x I. apply RCLR.
    assert (H : In x (s_active st) \/ In x (firstn r (s_delayed st)) \/ In x (skipn r (s_delayed st))) by (clear - I; inapp).
    destruct H as [H|[H|H]]; [| apply FS in H | apply SS in H]; clear - H; inapp.
  - intros NS x I OX. apply in_app_or in I as [I|I]; [now apply (RSIL NS)|]. exfalso.
    destruct (mi_dl _ _ _ _ _ _ _ _ _ INV x (FS x I)) as (WX & PX & _). destruct (wf_poll _ _ _ WX PX) as [_ O]. congruence.
  - intros x I PX. apply RPOLL; [|exact PX].
    assert (H : In x (s_active st) \/ In x (firstn r (s_delayed st)) \/ In x (skipn r (s_delayed st))) by (clear - I; inapp).
    destruct H as [H|[H|H]]; [| apply FS in H | apply SS in H]; clear - H; inapp.
Qed.

(* ------------------------------------------------------------------ the shell loop: whatever drain returns satisfies the refined invariant *)
Lemma drain_R : forall fuel sched st d st', minv d [] (s_active st) [] st K U -> rinv d (s_active st) st ->
  drain fuel sched st = Ok st' -> exists d', rinv d' [] st'.
Proof.
  induction fuel as [|f IH]; intros sched st d st' INV RI DR; cbn [drain] in DR; rewrite (mi_fault _ _ _ _ _ _ _ _ _ INV) in DR.
  - destruct (idle st) eqn:ID; [|discriminate]. inversion DR; subst st'. destruct (idle_lists _ ID) as (EA & _). exists d. now rewrite EA in RI.
  - destruct (idle st) eqn:ID.
    { inversion DR; subst st'. destruct (idle_lists _ ID) as (EA & _). exists d. now rewrite EA in RI. }
    assert (H : exists r', drain f (tl sched) (pass (release r' st)) = Ok st').
    { destruct (s_active st); [destruct (s_delayed st); [discriminate|]|]; eexists; exact DR. }
    destruct H as [r' DR'].
    destruct (release_inv b c K U d r' st INV) as (I1 & _ & _). pose proof (release_R d r' st INV RI) as R1.
    destruct (pass_inv b c K U d (release r' st) I1) as (I2 & _ & _). pose proof (pass_R d (release r' st) I1 R1) as R2.
    exact (IH _ _ _ _ I2 R2 DR').
Qed.

End Text.
