(* C14: hostlist_sort returns.  For every well-formed list whose numbers stay below 2^31 and that denotes at most
   SORT_MAX_NAMES names, the model's sort is Ok: the use-after-free site of hostlist_coalesce is unreachable (hostrange_cmp's
   int result cannot wrap), and the restart loop of hostlist_coalesce finishes within the model's 2^40 trips.

   Termination measure.  Let T = number of names (invariant: every step keeps the multiset of names), n = number of ranges,
   ov h = number of ordered pairs (x before y) with lo y < hi x.  A trip that splits an overlapping pair inserts e >= 0
   one-name ranges and lowers ov by at least 1 + 2e - e*n ... precisely  ov h' + 1 + 2e <= ov h + e*n,  so
        Phi h = (T - n) * T + ov h      strictly decreases at every split (n <= T),
   and a trip that does not split lowers the loop index.  mu (h, i) = Phi h * T + i decreases at every trip and is
   at most T^3 at the start. *)
From Coq Require Import List Arith NArith ZArith Lia Bool Permutation.
From PM Require Import Base.Bytes Base.Outcome Gen.GenHL Model.HL Spec.HLSpec Proofs.HLArith Proofs.HLProofs Proofs.HLIndex
  Proofs.HLSort.
From Coq Require Import ZifyBool ZifyNat ZifyN.
Import ListNotations.
Local Open Scope N_scope.
Ltac Zify.zify_post_hook ::= Z.div_mod_to_equations.

(* ================================================================ numbers below 2^31 *)
Definition B31 : N := 2147483648.
Definition num31 (r : hrange) : Prop := hr_hi r < B31.
Definition nums31 (h : hostlist) : Prop := Forall num31 h.
Definition num31b (r : hrange) : bool := hr_hi r <? B31.

Lemma nums31_forallb h : forallb num31b h = true -> nums31 h.
Proof. intros H. apply Forall_forall. intros r Hr. rewrite forallb_forall in H. apply H in Hr. now apply N.ltb_lt in Hr. Qed.

(* hostrange_cmp's `h1->lo - h2->lo` converted to int keeps its sign when both numbers are below 2^31 *)
Lemma cmp_lo_sign a c : a < B31 -> c < B31 -> (0 <? int_of_ulong (sub64 a c))%Z = (c <? a).
Proof.
  unfold B31. intros Ha Hc. unfold int_of_ulong, to_int, sub64, W64.
  destruct (N.ltb_spec c a) as [H|H].
  - assert (E : (a + 18446744073709551616 - c) mod 18446744073709551616 = a - c).
    { replace (a + 18446744073709551616 - c) with ((a - c) + 1 * 18446744073709551616) by lia.
      rewrite N.mod_add by lia. apply N.mod_small. lia. }
    rewrite E. apply Z.ltb_lt. lia.
  - apply Z.ltb_ge.
    destruct (N.eq_dec a c) as [->|Hne].
    + replace (c + 18446744073709551616 - c) with (0 + 1 * 18446744073709551616) by lia.
      rewrite N.mod_add by lia. rewrite N.mod_small by lia. cbn. lia.
    + assert (E : (a + 18446744073709551616 - c) mod 18446744073709551616 = a + 18446744073709551616 - c).
      { apply N.mod_small. lia. }
      rewrite E. lia.
Qed.

(* ================================================================ hostrange_intersect is total; what Some means *)
Lemma intersect_total h1 h2 : exists nw h1' h2', intersect h1 h2 = Ok (nw, h1', h2').
Proof.
  unfold intersect. destruct (hr_single h1 || hr_single h2); [eauto|].
  rewrite intersect_cmp_evaluated. destruct (hostrange_cmp h1 h2) as [[c h1a] h2a].
  destruct (0 <? c)%Z; [rewrite intersect_order_check; eauto|].
  destruct (_ && _); [|eauto]. destruct (width_combine h1a h2a) as [[? ?]|]; eauto.
Qed.

Lemma intersect_lo_le h1 h2 n h1' h2' : intersect h1 h2 = Ok (Some n, h1', h2') ->
  hr_lo h1 < B31 -> hr_lo h2 < B31 -> hr_lo h1 <= hr_lo h2.
Proof.
  unfold intersect. intros H B1 B2. destruct (hr_single h1 || hr_single h2); [discriminate|].
  rewrite intersect_cmp_evaluated in H. unfold hostrange_cmp in H.
  destruct (prefix_cmp h1 h2 =? 0)%Z eqn:Ep.
  - destruct (width_combine h1 h2) as [[h1a h2a]|] eqn:Ew.
    + destruct (width_combine_shape _ _ _ _ Ew) as (S1 & S2 & _).
      assert (L1 : hr_lo h1a = hr_lo h1) by (rewrite S1; reflexivity).
      assert (L2 : hr_lo h2a = hr_lo h2) by (rewrite S2; reflexivity).
      rewrite L1, L2, cmp_lo_sign in H by assumption.
      destruct (N.ltb_spec (hr_lo h2) (hr_lo h1)); [|assumption].
      rewrite intersect_order_check in H. discriminate.
    + destruct (0 <? _)%Z; [rewrite intersect_order_check in H; discriminate|].
      destruct (_ && _); [|discriminate]. rewrite Ew in H. discriminate.
  - destruct (0 <? prefix_cmp h1 h2)%Z; [rewrite intersect_order_check in H; discriminate|].
    rewrite Ep in H. cbn [andb] in H. discriminate.
Qed.

(* ================================================================ the list after a split, spelled out *)
Definition unit_range (hp : hrange) (k : N) : hrange := mk_range (hr_prefix hp) k k (hr_width hp).

Definition ins_list (hp : hrange) (c m : N) : hostlist :=
  flat_map (fun k => (if c <? k then [unit_range hp k] else []) ++ (if k <? m then [unit_range hp k] else [])) (rng c m).

Definition split_mid (hp hx : hrange) (c m M : N) : hostlist :=
  with_hi hp c :: ins_list hp c m ++ [with_lo (with_hi hx M) m].

Lemma with_hi_self r : with_hi r (hr_hi r) = r.
Proof. destruct r; reflexivity. Qed.

Lemma app_cons_assoc {A} (a : list A) x b c : a ++ x :: b ++ c = a ++ (x :: b) ++ c.
Proof. reflexivity. Qed.

Record split_facts (hprev hnext hp hx : hrange) : Prop := {
  sf_sp : hr_single hprev = false;
  sf_sx : hr_single hnext = false;
  sf_pfx : hr_prefix hnext = hr_prefix hprev;
  sf_fp : same_fields hprev hp;
  sf_fx : same_fields hnext hx;
  sf_w : hr_width hx = hr_width hp;
  sf_ac : hr_lo hprev <= hr_lo hnext;
  sf_cb : hr_lo hnext < hr_hi hprev;
  sf_cd : hr_lo hnext <= hr_hi hnext
}.

Definition mn (b d : N) : N := if d <? b then d else b.
Definition mx (b d : N) : N := if d <? b then b else d.

(* one trip of the loop of hostlist_coalesce on a well-formed list with numbers below 2^31 *)
Lemma coalesce_step_shape h i1 : wf h -> nums31 h -> (S i1 < length h)%nat ->
  exists pre hprev hnext post nw hp hx,
    h = pre ++ hprev :: hnext :: post /\ length pre = i1 /\ intersect hprev hnext = Ok (nw, hp, hx) /\
    same_fields hprev hp /\ same_fields hnext hx /\
    match nw with
    | None => coalesce_step (h, S i1) = Ok (inl (pre ++ hp :: hx :: post, i1))
    | Some _ =>
      split_facts hprev hnext hp hx /\
      let h' := pre ++ split_mid hp hx (hr_lo hnext) (mn (hr_hi hprev) (hr_hi hnext)) (mx (hr_hi hprev) (hr_hi hnext)) ++ post in
      coalesce_step (h, S i1) = Ok (inl (h', (length h' - 1)%nat))
    end.
Proof.
  intros Hwf H31 Hi.
  destruct (nth_error h i1) as [hprev|] eqn:E1; [|apply nth_error_None in E1; lia].
  destruct (nth_error h (S i1)) as [hnext|] eqn:E2; [|apply nth_error_None in E2; lia].
  pose proof (nth_error_split2 h i1 _ _ E1 E2) as Hsplit.
  assert (Hlen : length (firstn i1 h) = i1) by (apply firstn_length_le; lia).
  exists (firstn i1 h), hprev, hnext, (skipn (S (S i1)) h).
  destruct (intersect_total hprev hnext) as (nw & hp & hx & Hi3).
  exists nw, hp, hx.
  assert (Wp : wf_range hprev) by (eapply Forall_forall; [exact Hwf|eapply nth_error_In; eauto]).
  assert (Wx : wf_range hnext) by (eapply Forall_forall; [exact Hwf|eapply nth_error_In; eauto]).
  assert (Bp : num31 hprev) by (eapply Forall_forall; [exact H31|eapply nth_error_In; eauto]).
  assert (Bx : num31 hnext) by (eapply Forall_forall; [exact H31|eapply nth_error_In; eauto]).
  destruct (intersect_sound _ _ _ _ _ Hi3 Wp Wx) as (Np & Nx & Whp & Whx & Fp & Fx & Hnw).
  split; [exact Hsplit|]. split; [exact Hlen|]. split; [exact Hi3|]. split; [exact Fp|]. split; [exact Fx|].
  unfold coalesce_step. rewrite E1, E2, Hi3. cbn [bind].
  destruct nw as [nw|]; [|reflexivity].
  destruct Hnw as (Sp & Sx & Epfx & Ew & Hlt & Enw).
  unfold num31 in Bp, Bx. unfold wf_range in Wp, Wx. rewrite Sp in Wp. rewrite Sx in Wx.
  destruct Wp as [Wp1 Wp2]. destruct Wx as [Wx1 Wx2].
  assert (Hac : hr_lo hprev <= hr_lo hnext).
  { eapply intersect_lo_le; [exact Hi3| |]; unfold B31 in *; lia. }
  split; [constructor; auto|].
  destruct Fp as (Fp1 & Fp2 & Fp3 & Fp4). destruct Fx as (Fx1 & Fx2 & Fx3 & Fx4).
  assert (Elo : hr_lo nw = hr_lo hnext) by (rewrite Enw; reflexivity).
  assert (Ehi : hr_hi nw = mn (hr_hi hprev) (hr_hi hnext)) by (rewrite Enw; reflexivity).
  rewrite Ehi, Elo, Fp3.
  assert (Hm : hr_lo hnext <= mn (hr_hi hprev) (hr_hi hnext) /\ mn (hr_hi hprev) (hr_hi hnext) < B31).
  { unfold mn. destruct (N.ltb_spec (hr_hi hnext) (hr_hi hprev)); lia. }
  destruct Hm as [Hm1 Hm2].
  assert (Eemp : hr_empty (with_hi hp (hr_lo hnext)) = false).
  { unfold hr_empty; cbn [with_hi hr_hi hr_lo]. rewrite Fp2. apply orb_false_iff. split.
    - apply N.ltb_ge. exact Hac.
    - apply N.eqb_neq. unfold ULONG_MAX, B31 in *. lia. }
  rewrite Eemp.
  assert (Eh : ((mn (hr_hi hprev) (hr_hi hnext) =? ULONG_MAX)
               || (1099511627776 <=? sub64 (mn (hr_hi hprev) (hr_hi hnext)) (hr_lo hnext))) = false).
  { apply orb_false_iff. split.
    - apply N.eqb_neq. unfold ULONG_MAX, B31 in *. lia.
    - apply N.leb_gt. rewrite sub64_small by (unfold W64, B31 in *; lia). unfold B31 in *. lia. }
  rewrite Eh.
  (* the new list, piece by piece *)
  assert (Ehx : with_lo (if mn (hr_hi hprev) (hr_hi hnext) <? hr_hi hprev then with_hi hx (hr_hi hprev) else hx)
                        (mn (hr_hi hprev) (hr_hi hnext))
                = with_lo (with_hi hx (mx (hr_hi hprev) (hr_hi hnext))) (mn (hr_hi hprev) (hr_hi hnext))).
  { unfold mn, mx. destruct (N.ltb_spec (hr_hi hnext) (hr_hi hprev)) as [L|L].
    - destruct (N.ltb_spec (hr_hi hnext) (hr_hi hprev)); [reflexivity|lia].
    - rewrite N.ltb_irrefl. rewrite <- Fx3. now rewrite with_hi_self. }
  assert (Eins : forall hp1lo,
    flat_map (fun k => (if hr_hi (with_hi hp (hr_lo hnext)) <? k then [with_hi (with_lo nw k) k] else []) ++
                       (if k <? hr_lo (with_lo hp1lo (mn (hr_hi hprev) (hr_hi hnext))) then [with_hi (with_lo nw k) k] else []))
             (nseq (hr_lo hnext) (N.to_nat (mn (hr_hi hprev) (hr_hi hnext) + 1 - hr_lo hnext)))
    = ins_list hp (hr_lo hnext) (mn (hr_hi hprev) (hr_hi hnext))).
  { intros hp1lo. unfold ins_list, rng. apply flat_map_ext. intros k.
    assert (E : with_hi (with_lo nw k) k = unit_range hp k).
    { rewrite Enw. unfold unit_range, mk_range, with_hi, with_lo; cbn [hr_prefix hr_width hr_single]. now rewrite Fp4, Sp. }
    rewrite E. reflexivity. }
  rewrite Eins, Ehx. unfold split_mid. cbn [app]. rewrite <- !app_assoc. cbn [app]. reflexivity.
Qed.

(* ================================================================ the overlap count *)
Definition cnt (v : N) (l : hostlist) : N := N.of_nat (length (filter (fun y => hr_lo y <? v) l)).
Fixpoint ov (l : hostlist) : N := match l with [] => 0 | x :: l' => cnt (hr_hi x) l' + ov l' end.
Fixpoint cross (a b : hostlist) : N := match a with [] => 0 | x :: a' => cnt (hr_hi x) b + cross a' b end.
Definition len (l : hostlist) : N := N.of_nat (length l).

Lemma len_app a b : len (a ++ b) = len a + len b.
Proof. unfold len. rewrite app_length. lia. Qed.
Lemma len_cons x a : len (x :: a) = 1 + len a.
Proof. unfold len. cbn [length]. lia. Qed.

Lemma cnt_nil v : cnt v [] = 0.
Proof. reflexivity. Qed.
Lemma cnt_cons v x l : cnt v (x :: l) = (if hr_lo x <? v then 1 else 0) + cnt v l.
Proof. unfold cnt. cbn [filter]. destruct (hr_lo x <? v); cbn [length]; lia. Qed.
Lemma cnt_app v a b : cnt v (a ++ b) = cnt v a + cnt v b.
Proof. unfold cnt. rewrite filter_app, app_length. lia. Qed.
Lemma cnt_le v l : cnt v l <= len l.
Proof. induction l as [|x l IH]; [unfold cnt, len; cbn; lia|]. rewrite cnt_cons, len_cons. destruct (hr_lo x <? v); lia. Qed.
Lemma cnt_mono v v' l : v <= v' -> cnt v l <= cnt v' l.
Proof.
  intros Hv. induction l as [|x l IH]; [rewrite !cnt_nil; lia|]. rewrite !cnt_cons.
  destruct (N.ltb_spec (hr_lo x) v); destruct (N.ltb_spec (hr_lo x) v'); lia.
Qed.
Lemma cnt_zero v l : Forall (fun y => v <= hr_lo y) l -> cnt v l = 0.
Proof.
  induction 1 as [|x l Hx Hl IH]; [reflexivity|]. rewrite cnt_cons, IH. destruct (N.ltb_spec (hr_lo x) v); lia.
Qed.

Lemma cross_app_l a b c : cross (a ++ b) c = cross a c + cross b c.
Proof. induction a as [|x a IH]; cbn [app cross]; [lia|]. rewrite IH. lia. Qed.
Lemma cross_app_r a b c : cross a (b ++ c) = cross a b + cross a c.
Proof. induction a as [|x a IH]; cbn [cross]; [lia|]. rewrite IH, cnt_app. lia. Qed.
Lemma cross_le a b : cross a b <= len a * len b.
Proof.
  induction a as [|x a IH]; cbn [cross]; [unfold len; cbn; lia|]. rewrite len_cons. pose proof (cnt_le (hr_hi x) b). lia.
Qed.
Lemma cross_pointwise a b b0 e : (forall v, cnt v b <= cnt v b0 + e) -> cross a b <= cross a b0 + e * len a.
Proof.
  intros H. induction a as [|x a IH]; cbn [cross]; [unfold len; cbn; lia|]. rewrite len_cons. pose proof (H (hr_hi x)). lia.
Qed.
Lemma ov_app a b : ov (a ++ b) = ov a + cross a b + ov b.
Proof. induction a as [|x a IH]; cbn [app ov cross]; [lia|]. rewrite IH, cnt_app. lia. Qed.

Lemma ov_le l : 2 * ov l + len l <= len l * len l.
Proof.
  induction l as [|x l IH]; cbn [ov]; [unfold len; cbn; lia|]. rewrite len_cons. pose proof (cnt_le (hr_hi x) l). lia.
Qed.

(* ov reads lo and hi only *)
Definition same_nums (x y : hrange) : Prop := hr_lo y = hr_lo x /\ hr_hi y = hr_hi x.
Lemma cnt_ext v l l' : Forall2 same_nums l l' -> cnt v l' = cnt v l.
Proof. induction 1 as [|x y l l' [H1 H2] Hl IH]; [reflexivity|]. rewrite !cnt_cons, IH, H1. reflexivity. Qed.
Lemma ov_ext l l' : Forall2 same_nums l l' -> ov l' = ov l.
Proof.
  induction 1 as [|x y l l' [H1 H2] Hl IH]; [reflexivity|]. cbn [ov]. rewrite IH, H2. now rewrite (cnt_ext _ _ _ Hl).
Qed.
Lemma same_nums_refl l : Forall2 same_nums l l.
Proof. induction l; constructor; auto. split; reflexivity. Qed.
Lemma same_fields_nums x y : same_fields x y -> same_nums x y.
Proof. intros (_ & A & B & _). split; assumption. Qed.

(* a chain: every range ends at or before the start of every later one *)
Fixpoint chain (l : hostlist) : Prop :=
  match l with [] => True | x :: l' => Forall (fun y => hr_hi x <= hr_lo y) l' /\ chain l' end.
Lemma ov_chain l : chain l -> ov l = 0.
Proof. induction l as [|x l IH]; [reflexivity|]. intros [H1 H2]. cbn [ov]. rewrite IH by assumption. rewrite cnt_zero; auto. Qed.
Lemma chain_app a b : chain a -> chain b -> (forall x y, In x a -> In y b -> hr_hi x <= hr_lo y) -> chain (a ++ b).
Proof.
  induction a as [|x a IH]; intros Ha Hb Hab; [exact Hb|]. destruct Ha as [H1 H2]. cbn [app chain]. split.
  - apply Forall_app. split; [exact H1|]. apply Forall_forall. intros y Hy. apply Hab; [now left|exact Hy].
  - apply IH; auto. intros x' y Hx' Hy. apply Hab; [now right|exact Hy].
Qed.

Lemma units_chain hp (p q : N -> bool) n : forall s,
  let l := flat_map (fun k => (if p k then [unit_range hp k] else []) ++ (if q k then [unit_range hp k] else [])) (nseq s n) in
  chain l /\ Forall (fun y => s <= hr_lo y /\ hr_lo y = hr_hi y /\ hr_hi y < s + N.of_nat n) l.
Proof.
  induction n as [|n IH]; intros s; cbn zeta; cbn [nseq flat_map]; [split; [exact I|constructor]|].
  destruct (IH (s + 1)) as [C F]. cbn zeta in C, F.
  set (rest := flat_map _ (nseq (s + 1) n)) in *.
  assert (G : Forall (fun y => hr_lo y = s /\ hr_hi y = s)
                     ((if p s then [unit_range hp s] else []) ++ (if q s then [unit_range hp s] else []))).
  { destruct (p s), (q s); repeat constructor. }
  split.
  - apply chain_app; [|exact C|].
    + destruct (p s), (q s); cbn [app chain]; repeat split; repeat constructor; cbn; lia.
    + intros x y Hx Hy. rewrite Forall_forall in G, F. apply G in Hx. apply F in Hy. lia.
  - apply Forall_app. split.
    + eapply Forall_impl; [|exact G]. cbn beta. intros y [A B]. lia.
    + eapply Forall_impl; [|exact F]. cbn beta. intros y (A & B & D). lia.
Qed.

Lemma ins_list_facts hp c m : c <= m ->
  chain (ins_list hp c m) /\ Forall (fun y => c <= hr_lo y /\ hr_lo y = hr_hi y /\ hr_hi y <= m) (ins_list hp c m).
Proof.
  intros Hcm. unfold ins_list, rng.
  destruct (units_chain hp (fun k => c <? k) (fun k => k <? m) (N.to_nat (m + 1 - c)) c) as [C F]. cbn zeta in C, F.
  split; [exact C|]. eapply Forall_impl; [|exact F]. cbn beta. intros y (A & B & D). lia.
Qed.

Lemma split_mid_chain hp hx c m M : hr_lo hp <= c -> c <= m -> m <= M -> chain (split_mid hp hx c m M).
Proof.
  intros Hac Hcm HmM. destruct (ins_list_facts hp c m Hcm) as [C F]. unfold split_mid. cbn [chain]. split.
  - apply Forall_app. split.
    + eapply Forall_impl; [|exact F]. cbn. intros y (A & _). exact A.
    + repeat constructor. cbn. exact Hcm.
  - apply chain_app; [exact C|cbn; auto|].
    intros x y Hx [<-|[]]. rewrite Forall_forall in F. apply F in Hx. cbn. lia.
Qed.

(* the overlap count after a split *)
Lemma split_ov pre post hprev hnext hp hx :
  split_facts hprev hnext hp hx ->
  let c := hr_lo hnext in let m := mn (hr_hi hprev) (hr_hi hnext) in let M := mx (hr_hi hprev) (hr_hi hnext) in
  let e := len (ins_list hp c m) in
  ov (pre ++ split_mid hp hx c m M ++ post) + 1 + 2 * e <= ov (pre ++ hprev :: hnext :: post) + e * len (pre ++ hprev :: hnext :: post).
Proof.
  intros SF c m M e. destruct SF as [Sp Sx Epfx Fp Fx Ew Hac Hcb Hcd].
  destruct Fp as (Fp1 & Fp2 & Fp3 & Fp4). destruct Fx as (Fx1 & Fx2 & Fx3 & Fx4).
  fold c in Hac, Hcb, Hcd.
  assert (Hm : c <= m /\ m <= M /\ ((m = hr_hi hprev /\ M = hr_hi hnext) \/ (m = hr_hi hnext /\ M = hr_hi hprev))).
  { unfold m, M, mn, mx. destruct (N.ltb_spec (hr_hi hnext) (hr_hi hprev)); lia. }
  destruct Hm as (Hcm & HmM & HmM').
  change (hprev :: hnext :: post) with ([hprev; hnext] ++ post).
  rewrite !ov_app, !cross_app_r, !len_app.
  assert (O1 : ov (split_mid hp hx c m M) = 0) by (apply ov_chain, split_mid_chain; lia).
  assert (O0 : 1 <= ov [hprev; hnext]).
  { cbn [ov]. rewrite cnt_cons, cnt_nil. destruct (N.ltb_spec (hr_lo hnext) (hr_hi hprev)); [lia|]. unfold c in Hcb. lia. }
  assert (C1 : cross pre (split_mid hp hx c m M) <= cross pre [hprev; hnext] + e * len pre).
  { apply cross_pointwise. intros v. unfold split_mid. rewrite cnt_cons, cnt_app, !cnt_cons, !cnt_nil.
    cbn [with_hi with_lo hr_lo]. rewrite Fp2. pose proof (cnt_le v (ins_list hp c m)). fold e in H.
    destruct (N.ltb_spec (hr_lo hprev) v); destruct (N.ltb_spec m v); destruct (N.ltb_spec (hr_lo hnext) v); unfold c in *; lia. }
  assert (C2 : cross (split_mid hp hx c m M) post <= cross [hprev; hnext] post + e * len post).
  { unfold split_mid. cbn [cross]. rewrite cross_app_l. cbn [cross with_hi with_lo hr_hi].
    pose proof (cross_le (ins_list hp c m) post) as L. fold e in L.
    assert (cnt c post + cnt M post <= cnt (hr_hi hprev) post + cnt (hr_hi hnext) post).
    { destruct HmM' as [[A B]|[A B]]; rewrite B.
      - pose proof (cnt_mono c (hr_hi hprev) post). lia.
      - pose proof (cnt_mono c (hr_hi hnext) post). lia. }
    lia. }
  assert (L2 : len [hprev; hnext] = 2) by reflexivity. rewrite L2.
  lia.
Qed.

(* ================================================================ invariant and measure of the restart loop *)
Definition nnames (h : hostlist) : N := N.of_nat (length (expand h)).

Lemma names_pos r : wf_range r -> (1 <= length (names r))%nat.
Proof.
  intros W. rewrite (names_length r W). unfold wf_range in W. destruct (hr_single r); [lia|]. unfold rcount. lia.
Qed.
Lemma len_le_nnames h : wf h -> len h <= nnames h.
Proof.
  unfold len, nnames. induction 1 as [|r h Hr Hh IH]; [cbn; lia|]. rewrite expand_cons, app_length. cbn [length].
  pose proof (names_pos r Hr). lia.
Qed.

Definition Inv (T : N) (st : hostlist * nat) : Prop :=
  wf (fst st) /\ nums31 (fst st) /\ nnames (fst st) = T /\ (snd st <= length (fst st) - 1)%nat.

Definition Phi (T : N) (h : hostlist) : N := (T - len h) * T + ov h.
Definition mu (T : N) (st : hostlist * nat) : N := Phi T (fst st) * T + N.of_nat (snd st).

Lemma nums31_ext l l' : Forall2 same_nums l l' -> nums31 l -> nums31 l'.
Proof.
  induction 1 as [|x y l l' [H1 H2] Hl IH]; intros H; [constructor|]. inversion H; subst. constructor; [|now apply IH].
  unfold num31 in *. now rewrite H2.
Qed.

Lemma split_mid_nums31 hp hx c m M : c <= m -> m <= M -> M < B31 -> nums31 (split_mid hp hx c m M).
Proof.
  intros Hcm HmM HM. destruct (ins_list_facts hp c m Hcm) as [_ F]. unfold split_mid. constructor.
  - unfold num31; cbn. lia.
  - apply Forall_app. split.
    + eapply Forall_impl; [|exact F]. cbn beta. intros y (A & B & D). unfold num31. lia.
    + repeat constructor. unfold num31; cbn. exact HM.
Qed.

Lemma split_mid_len hp hx c m M : len (split_mid hp hx c m M) = 2 + len (ins_list hp c m).
Proof. unfold split_mid. rewrite len_cons, len_app. unfold len at 2. cbn [length]. lia. Qed.

(* one trip: either the loop is over, or the invariant is kept and the measure drops *)
Lemma coalesce_step_progress T st : Inv T st ->
  (exists h', coalesce_step st = Ok (inr h') /\ st = (h', 0%nat)) \/
  (exists st', coalesce_step st = Ok (inl st') /\ Inv T st' /\ mu T st' + 1 <= mu T st).
Proof.
  destruct st as [h i]. intros (Hwf & H31 & HT & Hi). cbn [fst snd] in *.
  destruct i as [|i1]; [left; exists h; split; reflexivity|]. right.
  assert (Hi' : (S i1 < length h)%nat) by lia.
  destruct (coalesce_step_shape h i1 Hwf H31 Hi') as (pre & hprev & hnext & post & nw & hp & hx & Eh & Epre & Hint & Fp & Fx & Hstep).
  destruct nw as [nw|].
  - (* an overlapping pair is split, the scan restarts *)
    destruct Hstep as [SF Hstep]. cbn zeta in Hstep.
    set (c := hr_lo hnext) in *. set (m := mn (hr_hi hprev) (hr_hi hnext)) in *. set (M := mx (hr_hi hprev) (hr_hi hnext)) in *.
    set (h' := pre ++ split_mid hp hx c m M ++ post) in *.
    exists (h', (length h' - 1)%nat). split; [exact Hstep|].
    destruct (coalesce_step_sound _ _ _ Hstep Hwf) as [HP HW].
    assert (HT' : nnames h' = T) by (unfold nnames in *; rewrite (Permutation_length HP); exact HT).
    pose proof (len_le_nnames h' HW) as Hn'. rewrite HT' in Hn'.
    pose proof (split_ov pre post hprev hnext hp hx SF) as Hov. cbn zeta in Hov. fold c m M h' in Hov. rewrite <- Eh in Hov.
    set (e := len (ins_list hp c m)) in *.
    assert (Hlen : len h' = len h + e).
    { unfold h'. rewrite Eh, !len_app, split_mid_len, !len_cons. fold e. lia. }
    assert (H31' : nums31 h').
    { rewrite Eh in H31. apply Forall_app in H31 as [A B]. inversion B as [|? ? B1 B2]; subst. inversion B2 as [|? ? B3 B4]; subst.
      destruct SF as [Sp Sx Epfx _ _ Ew Hac Hcb Hcd]. unfold num31 in B1, B3.
      apply Forall_app. split; [exact A|]. apply Forall_app. split; [|exact B4].
      apply split_mid_nums31; unfold m, M, mn, mx, c; destruct (N.ltb_spec (hr_hi hnext) (hr_hi hprev)); lia. }
    split; [repeat split; cbn [fst snd]; auto|].
    unfold mu, Phi. cbn [fst snd].
    assert (Hi2 : N.of_nat (length h' - 1) + 1 <= T).
    { assert (Hge : 2 <= len h') by (rewrite Hlen; unfold len at 1; lia). unfold len in Hn', Hge. lia. }
    assert (Hen : e * len h <= e * T) by (apply N.mul_le_mono_l; lia).
    assert (HD : T - len h = (T - len h') + e) by lia.
    rewrite HD.
    assert (Hphi : (T - len h') * T + ov h' + 1 <= (T - len h' + e) * T + ov h) by lia.
    assert (Hmul : ((T - len h') * T + ov h' + 1) * T <= ((T - len h' + e) * T + ov h) * T) by (apply N.mul_le_mono_r; exact Hphi).
    lia.
  - (* no overlap at this pair: one position down *)
    exists (pre ++ hp :: hx :: post, i1). split; [exact Hstep|].
    destruct (coalesce_step_sound _ _ _ Hstep Hwf) as [HP HW].
    assert (F2 : Forall2 same_nums h (pre ++ hp :: hx :: post)).
    { rewrite Eh. apply Forall2_app; [apply same_nums_refl|]. constructor; [now apply same_fields_nums|].
      constructor; [now apply same_fields_nums|apply same_nums_refl]. }
    assert (Hl : length (pre ++ hp :: hx :: post) = length h) by (rewrite Eh, !app_length; reflexivity).
    split.
    + repeat split; cbn [fst snd]; auto.
      * eapply nums31_ext; eauto.
      * unfold nnames in *. rewrite (Permutation_length HP). exact HT.
      * lia.
    + unfold mu, Phi. cbn [fst snd]. rewrite (ov_ext _ _ F2). unfold len. rewrite Hl. lia.
Qed.

(* ================================================================ 2^k trips *)
Definition pow2 (k : nat) : N := 2 ^ N.of_nat k.
Lemma pow2_0 : pow2 0 = 1.
Proof. reflexivity. Qed.
Lemma pow2_S k : pow2 (S k) = 2 * pow2 k.
Proof. unfold pow2. rewrite Nat2N.inj_succ. apply N.pow_succ_r'. Qed.

Section Progress.
  Variable I : hostlist * nat -> Prop.
  Variable ms : hostlist * nat -> N.
  Hypothesis step_progress : forall st, I st ->
    (exists h', coalesce_step st = Ok (inr h') /\ st = (h', 0%nat)) \/
    (exists st', coalesce_step st = Ok (inl st') /\ I st' /\ ms st' + 1 <= ms st).

  Lemma coalesce_pow_progress k : forall st, I st ->
    (exists h', coalesce_pow k st = Ok (inr h') /\ I (h', 0%nat)) \/
    (exists st', coalesce_pow k st = Ok (inl st') /\ I st' /\ ms st' + pow2 k <= ms st).
  Proof.
    induction k as [|k IH]; intros st HI.
    - cbn [coalesce_pow]. destruct (step_progress st HI) as [(h' & E & ->)|(st' & E & HI' & Hm)].
      + left. exists h'. split; assumption.
      + right. exists st'. rewrite pow2_0. auto.
    - cbn [coalesce_pow]. destruct (IH st HI) as [(h' & E & HI')|(st1 & E & HI1 & Hm1)].
      + left. exists h'. rewrite E. cbn [bind]. auto.
      + rewrite E. cbn [bind]. destruct (IH st1 HI1) as [(h' & E2 & HI')|(st2 & E2 & HI2 & Hm2)].
        * left. exists h'. auto.
        * right. exists st2. rewrite pow2_S. repeat split; auto. lia.
  Qed.

  Lemma coalesce_pow_finishes k st : I st -> ms st < pow2 k -> exists h', coalesce_pow k st = Ok (inr h') /\ I (h', 0%nat).
  Proof.
    intros HI Hm. destruct (coalesce_pow_progress k st HI) as [H|(st' & _ & _ & Hm')]; [exact H|]. lia.
  Qed.
End Progress.

(* ================================================================ the bound *)
Definition SORT_MAX_NAMES : N := 10240.

Lemma mu_start T h : wf h -> nnames h = T -> mu T (h, (length h - 1)%nat) <= T * T * T + T.
Proof.
  intros Hwf HT. unfold mu, Phi. cbn [fst snd].
  pose proof (len_le_nnames h Hwf) as Hn. rewrite HT in Hn. pose proof (ov_le h) as Ho.
  set (n := len h) in *. set (o := ov h) in *.
  assert (Hi : N.of_nat (length h - 1) <= n) by (unfold n, len; lia).
  assert (E : T = (T - n) + n) by lia. set (D := T - n) in *. clearbody D n o.
  assert (H1 : n * n <= n * T) by (apply N.mul_le_mono_l; lia).
  assert (H2 : 2 * o <= n * T) by lia.
  assert (H3 : 2 * o * T <= n * T * T) by (apply N.mul_le_mono_r; exact H2).
  assert (H4 : T * T * T = D * T * T + n * T * T) by (rewrite E at 1; lia).
  assert (H5 : (D * T + o) * T = D * T * T + o * T) by lia.
  lia.
Qed.

Lemma sort_bound T : T <= SORT_MAX_NAMES -> T * T * T + T < pow2 COALESCE_LOG_FUEL.
Proof.
  intros H. assert (A : T * T <= SORT_MAX_NAMES * SORT_MAX_NAMES) by (apply N.mul_le_mono; assumption).
  assert (B : T * T * T <= SORT_MAX_NAMES * SORT_MAX_NAMES * SORT_MAX_NAMES) by (apply N.mul_le_mono; assumption).
  assert (C : SORT_MAX_NAMES * SORT_MAX_NAMES * SORT_MAX_NAMES + SORT_MAX_NAMES < pow2 COALESCE_LOG_FUEL) by (vm_compute; reflexivity).
  lia.
Qed.

(* hostlist_coalesce returns *)
Theorem coalesce_returns h : wf h -> nums31 h -> nnames h <= SORT_MAX_NAMES ->
  exists h', coalesce h = Ok h' /\ Permutation (expand h') (expand h) /\ wf h'.
Proof.
  intros Hwf H31 HT.
  assert (HI : Inv (nnames h) (h, (length h - 1)%nat)) by (repeat split; cbn [fst snd]; auto).
  destruct (coalesce_pow_finishes (Inv (nnames h)) (mu (nnames h)) (coalesce_step_progress (nnames h)) COALESCE_LOG_FUEL _ HI)
    as (h1 & E & _).
  { eapply N.le_lt_trans; [apply mu_start; auto|]. apply sort_bound. exact HT. }
  assert (Ec : coalesce h = Ok (collapse h1)) by (unfold coalesce; rewrite E; reflexivity).
  exists (collapse h1). split; [exact Ec|]. exact (coalesce_sound _ _ Ec Hwf).
Qed.

(* the insertion sort keeps the numbers *)
Lemma ins_rev_nums31 revp : forall x, nums31 revp -> num31 x -> nums31 (ins_rev x revp).
Proof.
  induction revp as [|y rest IH]; intros x Hr Hx; cbn [ins_rev]; [repeat constructor; exact Hx|].
  inversion Hr as [|? ? Hy Hrest]; subst.
  destruct (hostrange_cmp y x) as [[c y'] x'] eqn:E. destruct (hostrange_cmp_shape _ _ _ _ _ E) as [Sy Sx].
  assert (By : num31 y') by (rewrite Sy; exact Hy). assert (Bx : num31 x') by (rewrite Sx; exact Hx).
  destruct (0 <? c)%Z; [constructor; [exact By|apply IH; assumption]|repeat (constructor; auto)].
Qed.

Lemma isort_nums31 h : nums31 h -> nums31 (isort h).
Proof.
  intros H. unfold isort. apply Forall_rev.
  assert (G : forall l acc, nums31 acc -> nums31 l -> nums31 (fold_left (fun acc x => ins_rev x acc) l acc)).
  { induction l as [|x l IH]; intros acc Ha Hl; cbn [fold_left]; [exact Ha|].
    inversion Hl; subst. apply IH; [apply ins_rev_nums31; assumption|assumption]. }
  apply G; [constructor|exact H].
Qed.

(* hostlist_sort returns, and the names are a permutation of the names before *)
Theorem sort_returns h : wf h -> nums31 h -> nnames h <= SORT_MAX_NAMES ->
  exists h', sort h = Ok h' /\ Permutation (expand h') (expand h) /\ wf h'.
Proof.
  intros Hwf H31 HT. unfold sort. destruct (length h <=? 1)%nat.
  - exists h. split; [reflexivity|]. split; [apply Permutation_refl|exact Hwf].
  - destruct (isort_sound h Hwf) as [P W].
    destruct (coalesce_returns (isort h) W (isort_nums31 h H31)) as (h' & E & P' & W').
    { unfold nnames in *. rewrite (Permutation_length P). exact HT. }
    exists h'. split; [exact E|]. split; [eapply Permutation_trans; eauto|exact W'].
Qed.

(* ---------------------------------------------------------------- the hypotheses as one boolean test *)
Definition wf_rangeb (r : hrange) : bool :=
  if hr_single r then (hr_lo r =? 0) && (hr_hi r =? 0) else (hr_lo r <=? hr_hi r) && (hr_hi r <? ULONG_MAX).
Lemma wf_forallb h : forallb wf_rangeb h = true -> wf h.
Proof.
  intros H. apply Forall_forall. intros r Hr. rewrite forallb_forall in H. apply H in Hr. unfold wf_rangeb, wf_range in *.
  destruct (hr_single r); apply andb_true_iff in Hr as [A B].
  - apply N.eqb_eq in A, B. auto.
  - apply N.leb_le in A. apply N.ltb_lt in B. auto.
Qed.

(* well-formed, numbers below 2^31, at most SORT_MAX_NAMES names *)
Definition sortable (h : hostlist) : bool := forallb wf_rangeb h && forallb num31b h && (nnames h <=? SORT_MAX_NAMES).

Corollary sort_returns_b h : sortable h = true -> exists h', sort h = Ok h' /\ Permutation (expand h') (expand h) /\ wf h'.
Proof.
  unfold sortable. intros H. apply andb_true_iff in H as [H C]. apply andb_true_iff in H as [A B].
  apply sort_returns; [now apply wf_forallb|now apply nums31_forallb|now apply N.leb_le].
Qed.
