(* The telnet filter on a Device with real circular buffers (Model/Telnet.v dev_preprocess / handle_read /
   handle_write / disconnect) refines the list-level filter, hence TelnetSpec.parse, for every run of
   reads (with whatever the descriptor returns), consumptions and writes that stays within capacity. *)
From Coq Require Import List ZArith NArith Bool Lia.
From PM Require Import Base.Bytes Gen.GenConsts Gen.GenCbuf Model.Cbuf Model.Telnet Spec.Fifo Spec.TelnetSpec
  Proofs.CbufList Proofs.CbufInv Proofs.CbufRead Proofs.CbufWrite Proofs.TelnetProofs.
Import ListNotations.
Local Open Scope Z_scope.

(* split syntactic conjunctions only (never unfolds Inv) *)
Ltac conj := repeat match goal with |- _ /\ _ => split end.

Lemma max_dev_buf_pos : 0 < MAX_DEV_BUF.
Proof. reflexivity. Qed.

Definition DevInv (d : dev) : Prop :=
  Inv (d_from d) /\ Inv (d_to d)
  /\ cb_overwrite (d_from d) = WRAP_MANY /\ cb_overwrite (d_to d) = WRAP_MANY
  /\ cb_maxsize (d_from d) <= MAX_DEV_BUF.

Lemma zlen_sendopt_bytes r : zlen (sendopt_bytes r) = 3.
Proof. reflexivity. Qed.

Lemma sendopts_spec opts : forall to errs to' errs', Inv to -> cb_overwrite to = WRAP_MANY ->
  zlen (abs to) + zlen (flat_map sendopt_bytes opts) <= cb_maxsize to ->
  sendopts to errs opts = (to', errs') ->
  Inv to' /\ abs to' = abs to ++ flat_map sendopt_bytes opts /\ errs' = errs
  /\ cb_maxsize to' = cb_maxsize to /\ cb_overwrite to' = WRAP_MANY.
Proof.
  induction opts as [|r rest IH]; intros to errs to' errs' H Hw Hcap; cbn [sendopts flat_map].
  - intros E; inversion E; subst. rewrite app_nil_r. conj; try assumption; reflexivity.
  - cbn [flat_map] in Hcap. rewrite zlen_app, zlen_sendopt_bytes in Hcap.
    pose proof (zlen_nonneg (flat_map sendopt_bytes rest)).
    destruct (Cbuf.write to (sendopt_bytes r)) as [[to1 n] dr] eqn:Ew.
    apply write_spec in Ew; [|assumption|assumption].
    destruct Ew as (I1 & N1 & A1 & D1 & M1 & O1).
    rewrite fifo_write_fits in A1 by (rewrite zlen_sendopt_bytes; lia).
    rewrite N1, zlen_sendopt_bytes. change (3 <? 3) with false. cbv iota.
    intros E. apply IH in E; [|assumption|assumption|rewrite A1, zlen_app, zlen_sendopt_bytes, M1; lia].
    destruct E as (I2 & A2 & E2 & M2 & O2).
    split; [assumption|]. split; [rewrite A2, A1, <- app_assoc; reflexivity|].
    split; [assumption|]. split; [congruence|assumption].
Qed.

Lemma filter_replies_bound s : forall t t' d o, filter t s = (t', d, o) ->
  zlen (flat_map sendopt_bytes o) <= 3 * zlen s.
Proof.
  induction s as [|b r IH]; intros t t' d o; cbn [filter].
  - intros E; inversion E; subst. cbn. lia.
  - destruct (step t b) as [[t1 d1] o1] eqn:Es. destruct (filter t1 r) as [[t2 d2] o2] eqn:Ef.
    intros E; inversion E; subst; clear E. specialize (IH _ _ _ _ Ef).
    rewrite flat_map_app, zlen_app, zlen_cons.
    assert (D : zlen (flat_map sendopt_bytes o1) <= 3).
    { unfold step in Es. destruct (t_state t).
      - destruct (N.eqb b T_IAC); inversion Es; cbn; lia.
      - destruct (N.eqb b T_IAC); [inversion Es; cbn; lia|].
        destruct (N.eqb b T_DONT || N.eqb b T_DO || N.eqb b T_WILL || N.eqb b T_WONT); inversion Es; cbn; lia.
      - inversion Es. destruct (recvopt (t_cmd t) b); cbn; lia. }
    lia.
Qed.

(* ---- _telnet_preprocess on the buffers = preprocess on their contents ---- *)
(* dev_preprocess with the size of its static peek buffer as a parameter: the proof below never sees the
   numeral MAX_DEV_BUF (the kernel would otherwise try to evaluate firstn (Z.to_nat 65536) _) *)
Definition dev_preprocess_M (M : Z) (d : dev) (nread : Z) : dev :=
  match Cbuf.peek (d_from d) M with
  | (len, pk) =>
      let old := ztake (len - nread) pk in
      match filter (d_tcp d) (zdrop (len - nread) pk) with
      | (t', dnew, opts) =>
          let device := old ++ dnew in
          let k := zlen device in
          match sendopts (d_to d) (d_errs d) opts with
          | (to', errs1) =>
              if k <? len then
                match Cbuf.drop (d_from d) len with
                | (from1, n1) =>
                    let errs2 := if n1 <? len then errs1 + 1 else errs1 in
                    match Cbuf.write from1 device with
                    | (from2, n2, _) => mkDev from2 to' t' (if n2 <? k then errs2 + 1 else errs2)
                    end
                end
              else mkDev (d_from d) to' t' errs1
          end
      end
  end.

Lemma dev_preprocess_is_M d nread : dev_preprocess d nread = dev_preprocess_M MAX_DEV_BUF d nread.
Proof. reflexivity. Qed.

Lemma dev_preprocess_M_refines M d nread t' content' reps :
  0 < M -> Inv (d_from d) -> Inv (d_to d) -> cb_overwrite (d_from d) = WRAP_MANY -> cb_overwrite (d_to d) = WRAP_MANY ->
  cb_maxsize (d_from d) <= M ->
  preprocess (d_tcp d) (abs (d_from d)) nread = (t', content', reps) ->
  zlen (abs (d_to d)) + zlen reps <= cb_maxsize (d_to d) ->
  forall d', dev_preprocess_M M d nread = d' ->
  (Inv (d_from d') /\ Inv (d_to d') /\ cb_overwrite (d_from d') = WRAP_MANY /\ cb_overwrite (d_to d') = WRAP_MANY)
  /\ abs (d_from d') = content' /\ abs (d_to d') = abs (d_to d) ++ reps
  /\ d_tcp d' = t' /\ d_errs d' = d_errs d
  /\ cb_maxsize (d_from d') = cb_maxsize (d_from d) /\ cb_maxsize (d_to d') = cb_maxsize (d_to d).
Proof.
  intros MP If It Of Ot Mf Hp Hcap d'. unfold dev_preprocess_M.
  pose proof (zlen_abs _ If) as LA.
  pose proof (Inv_valid _ If) as V. unfold valid_prop in V. cbv zeta in V.
  destruct (Cbuf.peek (d_from d) M) as [len pk] eqn:Epk.
  apply peek_spec in Epk; [|assumption]. destruct Epk as [(? & _)|(_ & El & Ep)]; [lia|].
  subst len pk.
  rewrite (Z.min_r M) by lia.
  replace (fifo_peek (abs (d_from d)) M) with (abs (d_from d))
    by (unfold fifo_peek; change qtake with (@ztake byte); symmetry; apply ztake_all; lia).
  unfold preprocess in Hp. rewrite LA in Hp.
  set (used := cb_used (d_from d)) in *.
  destruct (filter (d_tcp d) (zdrop (used - nread) (abs (d_from d)))) as [[t1 dnew] opts] eqn:Ef.
  inversion Hp; subst t' content' reps; clear Hp.
  destruct (sendopts (d_to d) (d_errs d) opts) as [to' errs1] eqn:Es.
  apply sendopts_spec in Es; [|assumption|assumption|assumption].
  destruct Es as (It' & At' & Ee & Mt' & Ot'). subst errs1.
  set (old := ztake (used - nread) (abs (d_from d))) in *.
  destruct (filter_subseq _ _ _ _ _ Ef) as (FL & FQ).
  assert (Hold : zlen (old ++ zdrop (used - nread) (abs (d_from d))) = used) by (unfold old; rewrite ztake_zdrop; assumption).
  rewrite zlen_app in Hold.
  destruct (zlen (old ++ dnew) <? used) eqn:Ek; [apply Z.ltb_lt in Ek | apply Z.ltb_ge in Ek].
  - (* rewrite the buffer *)
    destruct (Cbuf.drop (d_from d) used) as [from1 n1] eqn:Ed.
    apply drop_spec in Ed; [|assumption]. destruct Ed as (I1 & [(? & _)|(_ & R1 & A1 & U1 & M1 & O1)]); [lia|].
    assert (Hn1 : n1 = used).
    { rewrite R1. destruct (used =? -1) eqn:E; [apply Z.eqb_eq in E; lia|]. lia. }
    clear R1. subst n1. replace (used <? used) with false by (symmetry; apply Z.ltb_ge; lia). cbv iota.
    rewrite zdrop_all in A1 by lia.
    destruct (Cbuf.write from1 (old ++ dnew)) as [[from2 n2] dr2] eqn:Ew.
    apply write_spec in Ew; [|assumption|congruence].
    destruct Ew as (I2 & N2 & A2 & D2 & M2 & O2).
    rewrite A1 in A2. rewrite fifo_write_fits in A2 by (change (zlen (@nil byte)) with 0; lia).
    cbn [app] in A2. subst n2.
    replace (zlen (old ++ dnew) <? zlen (old ++ dnew)) with false by (symmetry; apply Z.ltb_ge; lia).
    intros <-. cbn [d_from d_to d_tcp d_errs].
    split; [cbn [d_from d_to]; conj; try assumption; try congruence|].
    split; [assumption|]. split; [assumption|]. split; [reflexivity|]. split; [reflexivity|].
    split; [congruence|assumption].
  - (* nothing was removed: the buffer is left alone *)
    intros <-. cbn [d_from d_to d_tcp d_errs].
    assert (dnew = zdrop (used - nread) (abs (d_from d))) by (apply FQ; rewrite zlen_app in Ek; lia).
    subst dnew.
    split; [cbn [d_from d_to]; conj; assumption|].
    split; [unfold old; rewrite ztake_zdrop; reflexivity|].
    split; [assumption|]. split; [reflexivity|]. split; [reflexivity|]. split; [reflexivity|assumption].
Qed.

Lemma dev_preprocess_refines d nread t' content' reps :
  DevInv d ->
  preprocess (d_tcp d) (abs (d_from d)) nread = (t', content', reps) ->
  zlen (abs (d_to d)) + zlen reps <= cb_maxsize (d_to d) ->
  forall d', dev_preprocess d nread = d' ->
  DevInv d' /\ abs (d_from d') = content' /\ abs (d_to d') = abs (d_to d) ++ reps
  /\ d_tcp d' = t' /\ d_errs d' = d_errs d
  /\ cb_maxsize (d_from d') = cb_maxsize (d_from d) /\ cb_maxsize (d_to d') = cb_maxsize (d_to d).
Proof.
  intros (If & It & Of & Ot & Mf) Hp Hcap d' Ed. rewrite dev_preprocess_is_M in Ed.
  destruct (dev_preprocess_M_refines MAX_DEV_BUF d nread t' content' reps max_dev_buf_pos If It Of Ot Mf Hp Hcap d' Ed)
    as ((J1 & J2 & J3 & J4) & K2 & K3 & K4 & K5 & K6 & K7).
  split; [|conj; assumption].
  unfold DevInv. conj; try assumption. rewrite K6. exact Mf.
Qed.

(* ---- relation between a Device and the list-level state ---- *)
Definition drel (d : dev) (s : lstate) : Prop :=
  DevInv d /\ abs (d_from d) = l_content s /\ d_tcp d = l_tcp s.

(* one POLLIN: whatever the descriptor returns (w, possibly a short count) is one Read event *)
Lemma handle_read_refines d s fd d' err dropped fd' :
  drel d s -> handle_read d fd = (d', err, dropped, fd') ->
  exists w, fd_bytes fd = w ++ fd_bytes fd' /\
    (zlen (abs (d_from d)) + zlen w <= cb_maxsize (d_from d) ->
     zlen (abs (d_to d)) + 3 * zlen w <= cb_maxsize (d_to d) ->
     dropped = 0 /\ drel d' (lstep s (Read w))
     /\ abs (d_to d') = abs (d_to d) ++ skipn (length (l_replies s)) (l_replies (lstep s (Read w)))
     /\ d_errs d' = d_errs d /\ (err = true -> w = [])
     /\ cb_maxsize (d_from d') = cb_maxsize (d_from d) /\ cb_maxsize (d_to d') = cb_maxsize (d_to d)).
Proof.
  intros ((If & It & Of & Ot & Mf) & Ac & Tc). unfold handle_read.
  destruct (Cbuf.write_from_fd (d_from d) fd (-1)) as [[[from' n] dr] fd1] eqn:Ew.
  apply write_from_fd_spec in Ew; [|assumption].
  destruct Ew as (w & I1 & B1 & A1 & D1 & P1 & Z1 & M1 & O1).
  pose proof (zlen_nonneg w) as Hw.
  assert (DropSkip : forall (a b : list byte), skipn (length a) (a ++ b) = b).
  { intros a b. rewrite skipn_app, skipn_all, Nat.sub_diag. reflexivity. }
  destruct (n <=? 0) eqn:En; [apply Z.leb_le in En | apply Z.leb_gt in En].
  - intros E; inversion E; subst; clear E. exists w. split; [assumption|].
    intros C1 C2. assert (w = []) by (apply zlen_0_nil; destruct (Z.eq_dec (zlen w) 0); [assumption|specialize (P1 ltac:(lia)); lia]).
    subst w. rewrite fifo_write_nil in A1 by lia.
    split. { unfold fifo_dropped. change qlen with (@zlen byte). change (zlen (@nil byte)) with 0. lia. }
    cbn [lstep]. unfold preprocess. rewrite app_nil_r. change (zlen (@nil byte)) with 0.
    rewrite Z.sub_0_r. rewrite zdrop_all by lia. cbn [filter flat_map]. rewrite ztake_all by lia. rewrite !app_nil_r.
    split.
    { unfold drel, DevInv. cbn [d_from d_to d_tcp l_content l_tcp]. conj; try assumption; try congruence. }
    cbn [d_to d_errs d_from l_replies]. rewrite skipn_all, app_nil_r.
    conj; try reflexivity; assumption.
  - intros E; inversion E; subst d' err dropped fd'; clear E. exists w. split; [assumption|].
    intros C1 C2.
    assert (Hn : n = zlen w /\ 0 < zlen w).
    { destruct (Z.eq_dec (zlen w) 0) as [Z|NZ]; [specialize (Z1 Z); lia|]. specialize (P1 ltac:(lia)). lia. }
    destruct Hn as (-> & Hpos).
    rewrite fifo_write_fits in A1 by lia.
    set (d1 := mkDev from' (d_to d) (d_tcp d) (d_errs d)).
    assert (DI : DevInv d1) by (unfold DevInv, d1; cbn [d_from d_to]; conj; try assumption; congruence).
    cbn [lstep].
    destruct (preprocess (l_tcp s) (l_content s ++ w) (zlen w)) as [[t' c'] r] eqn:Ep.
    assert (Ep' : preprocess (d_tcp d1) (abs (d_from d1)) (zlen w) = (t', c', r)).
    { unfold d1. cbn [d_tcp d_from]. rewrite A1, Ac, Tc. exact Ep. }
    assert (Rb : zlen r <= 3 * zlen w).
    { destruct (filter (l_tcp s) w) as [[t2 d2] o2] eqn:Ef.
      rewrite (preprocess_read _ _ _ _ _ _ Ef) in Ep. inversion Ep; subst.
      eapply filter_replies_bound; eassumption. }
    pose proof (dev_preprocess_refines d1 (zlen w) t' c' r DI Ep') as Rf.
    cbn [d_to d_from] in Rf. assert (Hc' : zlen (abs (d_to d)) + zlen r <= cb_maxsize (d_to d)) by lia.
    specialize (Rf Hc' _ eq_refl).
    destruct Rf as (R1 & R2 & R3 & R4 & R5 & R6 & R7).
    split. { rewrite D1. unfold fifo_dropped. change qlen with (@zlen byte). lia. }
    split. { unfold drel. cbn [l_content l_tcp]. conj; assumption. }
    cbn [l_replies]. rewrite DropSkip.
    split; [assumption|]. split; [assumption|]. split; [discriminate|].
    split; [rewrite R6; unfold d1; cbn [d_from]; exact M1 | rewrite R7; unfold d1; cbn [d_to]; reflexivity].
Qed.

(* an expect consumes n bytes *)
Lemma consume_refines d s n from' r :
  drel d s -> 0 <= n -> Cbuf.drop (d_from d) n = (from', r) ->
  drel (mkDev from' (d_to d) (d_tcp d) (d_errs d)) (lstep s (Consume n))
  /\ fst (Cbuf.peek (d_from d) n) = r /\ snd (Cbuf.peek (d_from d) n) = ztake n (l_content s)
  /\ cb_maxsize from' = cb_maxsize (d_from d).
Proof.
  intros ((If & It & Of & Ot & Mf) & Ac & Tc) Hn Ed.
  pose proof (zlen_abs _ If) as LA.
  apply drop_spec in Ed; [|assumption]. destruct Ed as (I1 & [(? & _)|(_ & R1 & A1 & U1 & M1 & O1)]); [lia|].
  replace (n =? -1) with false in R1 by (symmetry; apply Z.eqb_neq; lia).
  split.
  { unfold drel, DevInv. cbn [d_from d_to d_tcp lstep l_content l_tcp].
    conj; try assumption; try congruence.
    rewrite A1, <- Ac. subst r. rewrite (zdrop_clip n), LA. f_equal. pose proof (Inv_valid _ If) as V. unfold valid_prop in V. lia. }
  destruct (Cbuf.peek (d_from d) n) as [pr pb] eqn:Epk. apply peek_spec in Epk; [|assumption].
  destruct Epk as [(? & _)|(_ & P1 & P2)]; [lia|]. cbn [fst snd].
  split; [congruence|]. split; [rewrite P2, Ac; reflexivity|assumption].
Qed.

(* _handle_write: the device receives the head of the reply queue, which is then removed *)
Lemma handle_write_refines d fd d' err bytes fd' :
  DevInv d -> handle_write d fd = (d', err, bytes, fd') ->
  DevInv d' /\ bytes ++ abs (d_to d') = abs (d_to d) /\ d_from d' = d_from d /\ d_tcp d' = d_tcp d /\ d_errs d' = d_errs d
  /\ cb_maxsize (d_to d') = cb_maxsize (d_to d).
Proof.
  intros (If & It & Of & Ot & Mf). unfold handle_write.
  destruct (Cbuf.read_to_fd (d_to d) fd (-1)) as [[[to' n] b] fd1] eqn:Er.
  apply read_to_fd_spec in Er; [|assumption]. cbv zeta in Er.
  destruct Er as (I1 & M1 & O1 & B1 & A1 & K1 & L1 & _).
  intros E; inversion E; subst; clear E. cbn [d_from d_to d_tcp d_errs].
  split; [unfold DevInv; cbn [d_from d_to]; conj; try assumption; congruence|].
  split; [|conj; try reflexivity; assumption].
  rewrite A1. unfold fifo_peek, fifo_drop. apply ztake_zdrop.
Qed.

(* _disconnect flushes both buffers; the next connect resets the telnet state *)
Lemma reconnect_spec d : DevInv d ->
  let d' := connected (disconnect d) in
  DevInv d' /\ abs (d_from d') = [] /\ abs (d_to d') = [] /\ d_tcp d' = telnet_init.
Proof.
  intros (If & It & Of & Ot & Mf). cbv zeta. unfold connected, disconnect. cbn [d_from d_to d_tcp d_errs].
  destruct (flush_Inv _ If) as (F1 & F2 & F3). destruct (flush_Inv _ It) as (T1 & T2 & T3).
  split; [unfold DevInv; cbn [d_from d_to]; conj; assumption|].
  conj; try reflexivity; assumption.
Qed.

Lemma dev_create_spec mn mx d : dev_create mn mx = Some d -> Z.max mn mx <= MAX_DEV_BUF ->
  drel (connected d) linit /\ abs (d_to d) = [] /\ d_errs d = 0.
Proof.
  unfold dev_create. destruct (Cbuf.create mn mx) as [c|] eqn:Ec; [|discriminate].
  intros E; inversion E; subst; clear E. intros Hm.
  destruct (create_Inv _ _ _ Ec) as (I1 & A1 & U1 & M1 & N1 & O1).
  unfold drel, DevInv, connected. cbn [d_from d_to d_tcp d_errs linit l_content l_tcp].
  conj; try assumption; try reflexivity; lia.
Qed.
