(* C19, several targets on one line: the invariant of the shell loop.

   Between two messages of a test-mode pass, activecmds = stale ++ todo ++ new (processed entries of the pass copy, the
   rest of the copy, entries appended during the pass).  The loop is synchronous in the DEPTH of the plugs: in pass d
   every query / first-stage operation of the copy sits on a plug of depth d (follow-up polls: depth <= d), everything
   appended sits at depth d+1 -- so the stale entries that plugname_active() still sees can never be mistaken for a
   live handler of the next level.  Every waiter has a live handler (todo, new or delayed) on one of its ancestors. *)
From Coq Require Import List NArith ZArith Bool Lia Permutation.
From PM Require Import Base.Bytes Base.Outcome Gen.GenRfp Model.Redfish Spec.RedfishSpec Model.RedfishView
  Proofs.RedfishBase Proofs.RedfishSteps Proofs.RedfishMgmt Proofs.RedfishRules Proofs.RedfishReach Proofs.RedfishInv.
Import ListNotations.

Ltac inapp := rewrite ?in_app_iff in *; cbn [In] in *; tauto.

Definition cnt (n : name) (l : list name) : nat := count_occ text_eq_dec l n.
Lemma cnt_app n a b : cnt n (a ++ b) = cnt n a + cnt n b.
Proof. apply count_occ_app. Qed.
Lemma cnt_nil n : cnt n [] = 0.
Proof. reflexivity. Qed.
Lemma cnt_in n l : cnt n l > 0 -> In n l.
Proof. unfold cnt. intros H. now apply (count_occ_In text_eq_dec). Qed.

(* weight of a message: what it can still cost in follow-up polls *)
Definition wgt (m : pmsg) : nat := if m_poll m then 1 else if cmd_is_stat (m_cmd m) then 0 else 2.
Definition wsum (l : list pmsg) : nat := list_sum (map wgt l).
Lemma wsum_app a b : wsum (a ++ b) = wsum a + wsum b.
Proof. unfold wsum. now rewrite map_app, list_sum_app. Qed.
Lemma wsum_cons m l : wsum (m :: l) = wgt m + wsum l.
Proof. reflexivity. Qed.
Lemma wsum_nil : wsum [] = 0.
Proof. reflexivity. Qed.

Lemma pend_cons m l : pend (m :: l) = pend [m] ++ pend l.
Proof. change (m :: l) with ([m] ++ l). apply pend_app. Qed.
Lemma pend_one m : pend [m] = if m_out m then [m_plug m] else [].
Proof. unfold pend. cbn [filter]. destruct (m_out m); reflexivity. Qed.
Lemma pend_in l p : In p (pend l) -> exists m, In m l /\ m_out m = true /\ m_plug m = p.
Proof. unfold pend. intros I. apply in_map_iff in I as (m & E & I). apply filter_In in I as [I O]. eauto. Qed.

Lemma cnt_classes tab A s n l :
  cnt n (pend (filter (pw_mv tab A s) l)) + cnt n (pend (filter (pw_an tab A s) l)) + cnt n (pend (filter (pw_kp tab A s) l)) = cnt n (pend l).
Proof.
  induction l as [|w r IH]; [reflexivity|]. cbn [filter]. rewrite (pend_cons w r), cnt_app, <- IH.
  destruct (pw_classes tab A s w) as [(->&->&->)|[(->&->&->)|(->&->&->)]]; rewrite (pend_cons w), cnt_app; lia.
Qed.
Lemma wsum_classes tab A s l : wsum (filter (pw_mv tab A s) l) + wsum (filter (pw_kp tab A s) l) <= wsum l.
Proof.
  induction l as [|w r IH]; [cbn; lia|]. cbn [filter]. rewrite (wsum_cons w r).
  destruct (pw_classes tab A s w) as [(->&_&->)|[(->&_&->)|(->&_&->)]]; rewrite ?wsum_cons; lia.
Qed.

Lemma mv_off tab A s l : status_is_on s = false -> filter (pw_mv tab A s) l = [].
Proof. intros S. induction l as [|w r IH]; [reflexivity|]. cbn [filter]. unfold pw_mv at 1. rewrite S, andb_false_r. cbn [andb]. exact IH. Qed.
Lemma mv_nodesc tab A s l : (forall w, In w l -> is_desc tab (m_plug w) A = false) -> filter (pw_mv tab A s) l = [].
Proof.
  induction l as [|w r IH]; intros H; [reflexivity|]. cbn [filter]. unfold pw_mv at 1. rewrite (H w (or_introl eq_refl)). cbn [andb].
  apply IH. intros; apply H; now right.
Qed.

Section Live.
Variables (b : state) (c : cmd).
Let tab := s_tab b.

Definition okplug (x : name) : Prop := okchain tab x /\ forall a, In a (x :: anc tab x) -> has_path b CStat a = true.

Record wfm (m : pmsg) : Prop := mk_wfm {
  wf_plug : okplug (m_plug m);
  wf_pd : exists pd, lookup tab (m_plug m) = Some pd /\ m_parent m = p_parent pd /\ m_host m = p_host pd;
  wf_out : m_out m = true -> m_cmd m = c;
  wf_sil : m_out m = false -> m_cmd m = CStat /\ m_poll m = false;
  wf_poll : m_poll m = true -> c <> CStat /\ m_out m = true }.

Lemma okplug_anc x a : okplug x -> In a (anc tab x) -> okplug a.
Proof.
  intros [C P] I. destruct (okchain_anc _ _ _ C I) as (l1 & E & _ & Ca). split; [exact Ca|].
  intros a' [<-|I']; apply P; right; [exact I|]. eapply anc_trans; eassumption.
Qed.

Lemma parent_is_anc w A : wfm w -> parent_is w A = true <-> exists l, anc tab (m_plug w) = A :: l.
Proof.
  intros [[C _] (pd & L & PP & _) _ _ _]. pose proof (okchain_parent _ _ _ C L) as H. unfold parent_is. rewrite PP.
  destruct (anc tab (m_plug w)) as [|a l]; rewrite H.
  - split; [discriminate | intros [l E]; discriminate].
  - split; [intros E; apply text_eqb_eq in E; subst; eauto | intros [l' E]; inversion E; apply text_eqb_refl].
Qed.

Lemma wfm_qmsg pd : lookup tab (p_name pd) = Some pd -> okplug (p_name pd) -> wfm (qmsg_of pd).
Proof.
  intros L OK. split; cbn [qmsg_of m_plug m_parent m_host m_out m_cmd m_poll]; [exact OK | eauto | discriminate | auto | discriminate].
Qed.

(* the invariant; K = the known targets of the command line, U = the unknown ones *)
Record minv (d : nat) (stale todo new : list pmsg) (st : state) (K U : list name) : Prop := mk_minv {
  mi_cfg : same_cfg st b;
  mi_fault : s_fault st = None;
  mi_act : s_active st = stale ++ todo ++ new;
  mi_cov : forall n, name_valid tab n = true -> ts_lookup (s_tstat st) n <> None;
  mi_old : forall m, In m (stale ++ todo) -> wfm m /\ dp tab (m_plug m) <= d;
  mi_todo : forall m, In m todo -> m_poll m = false -> dp tab (m_plug m) = d;
  mi_new : forall m, In m new -> wfm m /\ m_poll m = false /\ dp tab (m_plug m) = S d;
  mi_dl : forall m, In m (s_delayed st) -> wfm m /\ m_poll m = true /\ dp tab (m_plug m) <= d;
  mi_poll : forall m, In m (todo ++ s_delayed st) -> m_poll m = true ->
            exists s, ts_lookup (s_tstat st) (m_plug m) = Some s /\ status_is_cmd s c = true;
  mi_wait : forall w, In w (s_wait st) -> wfm w /\ m_out w = true /\ m_poll w = false /\
            exists m, In m (todo ++ new ++ s_delayed st) /\ In (m_plug m) (anc tab (m_plug w));
  mi_on : c = COn -> forall m w, In m (todo ++ new ++ s_delayed st ++ s_wait st) -> m_out m = true -> In w (s_wait st) ->
          ~ In (m_plug m) (anc tab (m_plug w));
  mi_acct : forall n, cnt n (pend (todo ++ new ++ s_delayed st ++ s_wait st)) + cnt n (tres (s_out st)) = cnt n K;
  mi_unk : tunk (s_out st) = U;
  mi_ts : c = CStat -> s_tstat st = s_tstat b;
  mi_log : forall c' p, In (EvOp c' p) (s_log st) -> c' = c /\ c <> CStat /\ In p K }.

Lemma same_cfg_has_path st p : same_cfg st b -> has_path st CStat p = has_path b CStat p.
Proof. intros (_&_&_&E&_&E1&_). unfold has_path, get_path. now rewrite E, E1. Qed.

(* process_waiters(plug of m, s) called while m is the message of the copy being processed *)
Lemma pw_inv d stale m todo new st st0 s K U :
  minv d stale (m :: todo) new st K U ->
  grows st st0 [] (pend [m]) -> s_wait st0 = s_wait st ->
  (status_is_on s = true -> dp tab (m_plug m) = d \/ forall w, In w (s_wait st) -> ~ In (m_plug m) (anc tab (m_plug w))) ->
  exists add, minv d (stale ++ [m]) todo (new ++ add) (process_waiters st0 (m_plug m) s) K U /\
    wsum (todo ++ (new ++ add) ++ s_delayed (process_waiters st0 (m_plug m) s) ++ s_wait (process_waiters st0 (m_plug m) s)) + wgt m
      <= wsum ((m :: todo) ++ new ++ s_delayed st ++ s_wait st) /\
    (status_is_on s = false \/ (forall w, In w (s_wait st) -> ~ In (m_plug m) (anc tab (m_plug w))) -> add = []).
Proof.
  intros [CFG FL ACT COV OLD TODO NEW DL POLL WAIT ON ACCT UNK TSC LOG] G0 W0 SON.
  set (A := m_plug m) in *.
  destruct (OLD m) as [WM DM]; [apply in_or_app; right; now left|].
  destruct WM as [[CA PA] (pda & LA & _) WMO WMS WMP].
  destruct G0 as (K0 & A0 & R0 & U0). rewrite app_nil_r in A0.
  assert (CFG0 : same_cfg st0 b) by (eapply same_cfg_trans; [apply K0 | exact CFG]).
  assert (ET0 : s_tab st0 = tab) by (destruct CFG0 as (_&_&_&E&_); exact E).
  (* geometry of the waiters below A *)
  assert (GEO : forall w, In w (s_wait st) -> In A (anc tab (m_plug w)) ->
            exists ch, child_of_ancestor tab (m_plug w) A = WFound ch /\ okplug ch /\ dp tab ch = S (dp tab A) /\
                       (parent_is w A = true -> ch = m_plug w) /\ (parent_is w A = false -> In ch (anc tab (m_plug w)))).
  { intros w I IA. destruct (WAIT w I) as (WW & _). pose proof (wf_plug _ WW) as [CW PW].
    destruct (child_spec tab _ _ CW IA) as (ch & CO & Cch & Ech & ALT). exists ch. split; [exact CO|].
    assert (OKch : okplug ch).
    { destruct ALT as [[-> _]|[Ich _]]; [split; assumption | apply (okplug_anc (m_plug w)); [split; assumption | exact Ich]]. }
    split; [exact OKch|]. split; [unfold dp; rewrite Ech; reflexivity|].
    pose proof (parent_is_anc w A WW) as PI. split.
    - intros P. apply PI in P as [l E]. destruct ALT as [[-> _]|[_ (b0 & l0 & E0 & NE)]]; [reflexivity|]. rewrite E in E0. inversion E0. congruence.
    - intros P. destruct ALT as [[_ [l E]]|[Ich _]]; [|exact Ich]. assert (parent_is w A = true) by (apply PI; eauto). congruence. }
  assert (DESC : forall w, In w (s_wait st) -> is_desc tab (m_plug w) A = true <-> In A (anc tab (m_plug w))).
  { intros w I. destruct (WAIT w I) as (WW & _). apply is_desc_anc. apply (wf_plug _ WW). }
  destruct (pw_spec tab A s pda st0 ET0 LA) as (qs & G & W & Z & Q & P).
  { intros S w ch I CO. rewrite W0 in I. rewrite (same_cfg_has_path _ _ CFG0).
    assert (IA : In A (anc tab (m_plug w))) by (apply (DESC w I); unfold is_desc; now rewrite CO).
    destruct (GEO w I IA) as (ch' & CO' & [_ PC] & _). rewrite CO in CO'. inversion CO'; subst ch'. apply PC. now left. }
  rewrite W0 in *.
  set (st' := process_waiters st0 A s) in *.
  set (wt := s_wait st) in *.
  set (MV := filter (pw_mv tab A s) wt) in *. set (KP := filter (pw_kp tab A s) wt) in *. set (AN := filter (pw_an tab A s) wt) in *.
  destruct G as (KS & AS & RS & US).
  assert (CFG' : same_cfg st' b) by (eapply same_cfg_trans; [apply KS | exact CFG0]).
  assert (DL' : s_delayed st' = s_delayed st) by (destruct KS as (_&_&E&_); destruct K0 as (_&_&E0&_); congruence).
  assert (TS' : s_tstat st' = s_tstat st) by (destruct KS as (_&E&_); destruct K0 as (_&E0&_); congruence).
  (* no waiter below A: nothing is appended *)
  assert (NOADD : status_is_on s = false \/ (forall w, In w wt -> ~ In A (anc tab (m_plug w))) -> MV ++ qs = []).
  { intros [S|NB].
    - rewrite (Z S), app_nil_r. subst MV. now apply mv_off.
    - assert (E1 : MV = []).
      { subst MV. apply mv_nodesc. intros w I. destruct (is_desc tab (m_plug w) A) eqn:D; [|reflexivity]. exfalso.
        apply (NB w I). now apply DESC. }
      rewrite E1. cbn [app]. destruct qs as [|q r]; [reflexivity|]. exfalso.
      destruct (Q q (or_introl eq_refl)) as (w & pd & I & CO & _). apply filter_In in I as [I _].
      apply (NB w I). apply (DESC w I). unfold is_desc. now rewrite CO. }
  exists (MV ++ qs). split; [|split].
  - (* the invariant *)
    assert (MVP : forall w, In w MV -> In w wt /\ In A (anc tab (m_plug w)) /\ status_is_on s = true /\ parent_is w A = true).
    { intros w I. apply filter_In in I as [I M]. unfold pw_mv in M. apply andb_true_iff in M as [M P1]. apply andb_true_iff in M as [D S].
      split; [exact I|]. split; [now apply DESC | auto]. }
    assert (KPP : forall w, In w KP -> In w wt /\ (In A (anc tab (m_plug w)) -> status_is_on s = true /\ parent_is w A = false)).
    { intros w I. apply filter_In in I as [I M]. split; [exact I|]. intros IA. apply (DESC w I) in IA. unfold pw_kp in M. rewrite IA in M. cbn [negb orb] in M.
      apply andb_true_iff in M as [S P1]. split; [exact S|]. now destruct (parent_is w A). }
    assert (DPA : forall w, In w wt -> In A (anc tab (m_plug w)) -> status_is_on s = true -> dp tab A = d).
    { intros w I IA S. destruct (SON S) as [E|NB]; [exact E | exfalso; eapply NB; eassumption]. }
    assert (NEW' : forall x, In x (new ++ MV ++ qs) -> wfm x /\ m_poll x = false /\ dp tab (m_plug x) = S d).
    { intros x I. apply in_app_or in I as [I|I]; [now apply NEW|]. apply in_app_or in I as [I|I].
      - destruct (MVP x I) as (Iw & IA & S & P1). destruct (WAIT x Iw) as (WX & _ & PX & _).
        split; [exact WX|]. split; [exact PX|]. destruct (GEO x Iw IA) as (ch & _ & _ & D & E & _). rewrite <- (E P1), D. f_equal. eapply DPA; eassumption.
      - destruct (Q x I) as (w & pd & Iw & CO & L & ->). destruct (KPP w Iw) as [Iw' H].
        assert (IA : In A (anc tab (m_plug w))) by (apply (DESC w Iw'); unfold is_desc; now rewrite CO).
        destruct (H IA) as [S P1]. destruct (GEO w Iw' IA) as (ch & CO' & OK & D & _). rewrite CO in CO'. inversion CO' as [E]. rewrite <- E in *.
        split; [now apply wfm_qmsg|]. split; [reflexivity|]. cbn [qmsg_of m_plug]. rewrite D. f_equal. eapply DPA; eassumption. }
    split.
    + exact CFG'.
    + destruct KS as (_&_&_&_&E). destruct K0 as (_&_&_&_&E0). congruence.
    + rewrite AS, A0, ACT. rewrite <- !app_assoc. reflexivity.
    + rewrite TS'. exact COV.
    + intros x I. apply OLD. rewrite <- app_assoc in I. exact I.
    + intros x I. apply TODO. now right.
    + exact NEW'.
    + rewrite DL'. exact DL.
    + rewrite DL', TS'. intros x I. apply POLL. now right.
    + rewrite W, DL'. intros w I. destruct (KPP w I) as [Iw H]. destruct (WAIT w Iw) as (WW & OW & PW & (h & Ih & IHA)).
      split; [exact WW|]. split; [exact OW|]. split; [exact PW|].
      destruct Ih as [<-|Ih].
      * (* the handler was m itself *)
        fold A in IHA. destruct (H IHA) as [S P1]. destruct (GEO w Iw IHA) as (ch & CO & _ & D & _ & E).
        pose proof (P S w ch I CO) as PAct. apply plugname_active_in in PAct as (x & Ix & Ex).
        exists x. split; [|rewrite Ex; now apply E].
        rewrite AS, A0, ACT in Ix.
        assert (NOld : ~ In x (stale ++ m :: todo)). { intros Io. destruct (OLD x Io) as [_ LE]. rewrite Ex, D, (DPA w Iw IHA S) in LE. lia. }
        clear - Ix NOld. inapp.
      * exists h. split; [|exact IHA]. clear - Ih. inapp.
    + rewrite W, DL'. intros EC x w Ix OX Iw. destruct (KPP w Iw) as [Iw' _]. apply (ON EC) with (m := x); [|exact OX | exact Iw'].
      assert (Iq : ~ In x qs). { intros Iq. destruct (Q x Iq) as (_ & pd & _ & _ & _ & ->). discriminate. }
      assert (Im : In x MV -> In x wt) by (intros Im; apply (MVP x Im)).
      assert (Ik : In x KP -> In x wt) by (intros Ik; apply (KPP x Ik)).
      clear - Ix Iq Im Ik. inapp.
    + rewrite W, DL', RS, R0. intros n. specialize (ACCT n). pose proof (cnt_classes tab A s n wt) as CL. fold MV AN KP in CL.
      assert (QS : pend qs = []).
      { clear - Q. induction qs as [|q r IH]; [reflexivity|]. rewrite pend_cons, IH by (intros; apply Q; now right).
        destruct (Q q (or_introl eq_refl)) as (_ & pd & _ & _ & _ & ->). reflexivity. }
      cbn [app] in ACCT. rewrite pend_cons in ACCT.
      repeat first [rewrite pend_app | rewrite cnt_app]. repeat first [rewrite pend_app in ACCT | rewrite cnt_app in ACCT]. rewrite QS, cnt_nil. lia.
    + rewrite US, U0. exact UNK.
    + rewrite TS'. exact TSC.
    + assert (s_log st' = s_log st) as -> by (destruct KS as (_&_&_&E&_); destruct K0 as (_&_&_&E0&_); congruence). exact LOG.
  - rewrite W, DL'. pose proof (wsum_classes tab A s wt) as WC. fold MV KP in WC.
    assert (QS : wsum qs = 0).
    { clear - Q. induction qs as [|q r IH]; [reflexivity|]. rewrite wsum_cons, IH by (intros; apply Q; now right).
      destruct (Q q (or_introl eq_refl)) as (_ & pd & _ & _ & _ & ->). reflexivity. }
    cbn [app]. rewrite wsum_cons, !wsum_app, QS. lia.
  - exact NOADD.
Qed.


(* ------------------------------------------------------------------ the simulated operation *)
Lemma status_cmd_cases s : status_is_cmd s c = true -> (c = COn /\ s = SOn) \/ (c = COff /\ s = SOff).
Proof. destruct s, c; vm_compute; intros H; try discriminate H; auto. Qed.

Lemma flip_lookup st m k : m_cmd m = c -> c <> CStat ->
  (k = m_plug m \/ exists s0, ts_lookup (s_tstat st) k = Some s0 /\ status_is_cmd s0 c = true) ->
  exists s1, ts_lookup (s_tstat (flip st m)) k = Some s1 /\ status_is_cmd s1 c = true.
Proof.
  intros EC NS H. unfold flip. rewrite EC. destruct c; [congruence| |].
  - change (cmd_is_on COn) with true. cbv iota. cbn [s_tstat set_tstat set_log].
    destruct (text_eq_dec k (m_plug m)) as [->|NE]; [rewrite ts_lookup_update_same; eauto|].
    rewrite ts_lookup_update_other by exact NE. destruct H as [H|H]; [congruence | exact H].
  - change (cmd_is_on COff) with false. cbv iota. cbn [s_tstat set_tstat set_log s_tab].
    rewrite (ts_lookup_map_off (fun n => is_desc (s_tab st) n (m_plug m))).
    destruct (text_eq_dec k (m_plug m)) as [->|NE].
    + rewrite ts_lookup_update_same. exists SOff. split; [now destruct (is_desc _ _ _) | reflexivity].
    + rewrite ts_lookup_update_other by exact NE. destruct H as [H|(s0 & L0 & C0)]; [congruence|]. rewrite L0.
      destruct s0; try (vm_compute in C0; discriminate C0). exists SOff. split; [now destruct (is_desc _ _ _) | reflexivity].
Qed.

Lemma flip_cov st m n : ts_lookup (s_tstat st) n <> None -> ts_lookup (s_tstat (flip st m)) n <> None.
Proof.
  intros H. unfold flip. destruct (cmd_is_on (m_cmd m)); cbn [s_tstat set_tstat set_log s_tab].
  - now apply ts_update_keeps.
  - rewrite (ts_lookup_map_off (fun k => is_desc (s_tab st) k (m_plug m))).
    pose proof (ts_update_keeps (s_tstat st) (m_plug m) SOff n H) as K0. destruct (ts_lookup (ts_update (s_tstat st) (m_plug m) SOff) n); [discriminate | contradiction].
Qed.

Lemma flip_frame st m : same_cfg (flip st m) st /\ s_active (flip st m) = s_active st /\ s_wait (flip st m) = s_wait st /\
  s_delayed (flip st m) = s_delayed st /\ s_out (flip st m) = s_out st /\ s_fault (flip st m) = s_fault st.
Proof. unfold flip. destruct (cmd_is_on (m_cmd m)); repeat split. Qed.

(* ------------------------------------------------------------------ one message of the pass copy *)
Lemma step_inv d stale m todo new st K U :
  minv d stale (m :: todo) new st K U ->
  exists add, minv d (stale ++ [m]) todo (new ++ add) (process_msg st m) K U /\
    wsum (todo ++ (new ++ add) ++ s_delayed (process_msg st m) ++ s_wait (process_msg st m)) + (if m_poll m then 1 else 0)
      <= wsum ((m :: todo) ++ new ++ s_delayed st ++ s_wait st) /\
    (m_poll m = true -> add = []).
Proof.
  intros INV. pose proof INV as [CFG FL ACT COV OLD TODO NEW DL POLL WAIT ON ACCT UNK TSC LOG].
  destruct (OLD m) as [WM DM]; [apply in_or_app; right; now left|].
  pose proof WM as [[CA PA] (pda & LA & EP & EH) WMO WMS WMP].
  assert (WG : (if m_poll m then 1 else 0) <= wgt m) by (unfold wgt; destruct (m_poll m); lia).
  assert (ETAB : s_tab st = tab) by (destruct CFG as (_&_&_&E&_); exact E).
  assert (NV : name_valid tab (m_plug m) = true) by (apply name_valid_lookup; eauto).
  assert (G0 : forall f a, grows st (if m_out m then emitf st (TResult (m_plug m)) f a else st) [] (pend [m]) /\
                           s_wait (if m_out m then emitf st (TResult (m_plug m)) f a else st) = s_wait st).
  { intros f a. rewrite pend_one. destruct (m_out m); split; try reflexivity; [apply grows_emit_result | apply grows_refl]. }
  unfold process_msg. destruct (mem (m_host m) (s_fail st)) eqn:FAIL.
  { (* the host fails *)
    destruct (G0 f_shell_error [m_plug m]) as [G W].
    destruct (pw_inv d stale m todo new st _ SErr K U INV G W) as (add & I' & WS & Z); [discriminate|].
    exists add. split; [exact I'|]. split; [lia|]. intros _. apply Z. now left. }
  destruct (cmd_is_stat (m_cmd m)) eqn:CS.
  { (* a query *)
    assert (EC : m_cmd m = CStat) by (destruct (m_cmd m); [reflexivity | discriminate CS | discriminate CS]).
    assert (NP : m_poll m = false).
    { destruct (m_poll m) eqn:E; [|reflexivity]. destruct (WMP eq_refl) as [NS O]. rewrite (WMO O) in EC. congruence. }
    unfold stat_process. destruct (ts_lookup (s_tstat st) (m_plug m)) as [s|] eqn:TL; [|exfalso; eapply COV; eassumption].
    destruct (G0 f_stat_result [m_plug m; status_text s]) as [G W].
    destruct (pw_inv d stale m todo new st _ s K U INV G W) as (add & I' & WS & Z).
    { intros _. left. apply TODO; [now left | exact NP]. }
    exists add. split; [exact I'|]. split; [lia|]. rewrite NP. discriminate. }
  assert (NS : m_cmd m <> CStat) by (intros E; rewrite E in CS; discriminate CS).
  assert (OM : m_out m = true). { destruct (m_out m) eqn:E; [reflexivity|]. destruct (WMS eq_refl). congruence. }
  assert (EC : m_cmd m = c) by auto.
  unfold on_off_process. destruct (m_poll m) eqn:PM.
  { (* the follow-up poll sees the status the operation set *)
    destruct (POLL m) as (s & TL & SC); [now left | exact PM|]. rewrite TL, EC, SC.
    assert (G : grows st (emitf st (TResult (m_plug m)) f_onoff_ok [m_plug m]) [] (pend [m])) by (rewrite pend_one, OM; apply grows_emit_result).
    assert (NB : status_is_on s = true -> forall w, In w (s_wait st) -> ~ In (m_plug m) (anc tab (m_plug w))).
    { intros S w Iw. destruct (status_cmd_cases _ SC) as [[E _]|[_ ->]]; [|discriminate S]. apply (ON E) with (m := m); [now left | exact OM | exact Iw]. }
    destruct (pw_inv d stale m todo new st _ s K U INV G eq_refl) as (add & I' & WS & Z); [intros S; right; now apply NB|].
    exists add. split; [exact I'|]. split; [unfold wgt in WS; rewrite PM in WS; exact WS|]. intros _. apply Z.
    destruct (status_is_on s) eqn:S; [right; now apply NB | now left]. }
  (* the operation itself: status flipped, follow-up poll queued *)
  unfold poll_or_fail, send_status_poll. rewrite ETAB, LA.
  assert (GP : exists lp, get_path st CStat pda = Some lp).
  { pose proof (PA (m_plug m) (or_introl eq_refl)) as HP. rewrite <- (same_cfg_has_path st _ CFG) in HP.
    destruct (has_path_get _ _ _ HP) as (pd' & lp & L' & GP'). rewrite ETAB, LA in L'. inversion L'; subst pd'. eauto. }
  destruct GP as [lp ->].
  set (pl := mkMsg (m_cmd m) (m_host m) (m_plug m) (m_parent m) true true).
  set (st1 := add_delayed st pl).
  destruct (flip_frame st1 m) as (FC & FA & FW & FD & FO & FF).
  assert (WPL : wfm pl).
  { split; cbn [pl m_plug m_parent m_host m_out m_cmd m_poll]; [split; assumption | eauto | auto | discriminate | intros _; split; [congruence | reflexivity]]. }
  assert (NSc : c <> CStat) by congruence.
  exists []. rewrite app_nil_r. split; [|split; [|reflexivity]].
  - split.
    + eapply same_cfg_trans; [exact FC | exact CFG].
    + rewrite FF. exact FL.
    + rewrite FA. cbn [st1 add_delayed set_delayed s_active]. rewrite ACT, <- app_assoc. reflexivity.
    + intros n V. apply flip_cov. now apply COV.
    + intros x I. apply OLD. rewrite <- app_assoc in I. exact I.
    + intros x I. apply TODO. now right.
    + exact NEW.
    + rewrite FD. cbn [st1 add_delayed set_delayed s_delayed]. intros x I. apply in_app_or in I as [I|[<-|[]]]; [now apply DL|].
      split; [exact WPL|]. split; [reflexivity | exact DM].
    + rewrite FD. cbn [st1 add_delayed set_delayed s_delayed]. intros x I PX. apply (flip_lookup st1 m (m_plug x) EC NSc).
      rewrite app_assoc in I. apply in_app_or in I as [I|[<-|[]]]; [|now left].
      right. apply POLL; [|exact PX]. clear - I. inapp.
    + rewrite FW, FD. cbn [st1 add_delayed set_delayed s_delayed s_wait]. intros w I. destruct (WAIT w I) as (WW & OW & PW & (h & Ih & IHA)).
      split; [exact WW|]. split; [exact OW|]. split; [exact PW|]. destruct Ih as [<-|Ih].
      * exists pl. split; [|exact IHA]. clear. inapp.
      * exists h. split; [|exact IHA]. clear - Ih. inapp.
    + rewrite FW, FD. cbn [st1 add_delayed set_delayed s_delayed s_wait]. intros E x w Ix OX Iw.
      assert (H : In x ((m :: todo) ++ new ++ s_delayed st ++ s_wait st) \/ pl = x) by (clear - Ix; inapp).
      destruct H as [H| <-]; [now apply (ON E) with (m := x)|]. apply (ON E) with (m := m); [now left | exact OM | exact Iw].
    + rewrite FW, FD, FO. cbn [st1 add_delayed set_delayed s_delayed s_wait s_out]. intros n. specialize (ACCT n).
      cbn [app] in ACCT. rewrite pend_cons in ACCT.
      repeat first [rewrite pend_app | rewrite cnt_app]. repeat first [rewrite pend_app in ACCT | rewrite cnt_app in ACCT].
      assert (pend [pl] = pend [m]) as -> by (rewrite !pend_one, OM; reflexivity). lia.
    + rewrite FO. exact UNK.
    + intros E. congruence.
    + assert (s_log (flip st1 m) = s_log st ++ [EvOp (m_cmd m) (m_plug m)]) as -> by (unfold flip; destruct (cmd_is_on (m_cmd m)); reflexivity).
      intros c' p I. apply in_app_or in I as [I|[I|[]]]; [now apply LOG|]. inversion I; subst c' p. split; [exact EC|]. split; [exact NSc|].
      apply (cnt_in (m_plug m)). specialize (ACCT (m_plug m)). cbn [app] in ACCT. rewrite pend_cons, cnt_app, pend_one, OM in ACCT.
      unfold cnt at 1 in ACCT. cbn [count_occ] in ACCT. destruct (text_eq_dec (m_plug m) (m_plug m)); [lia | congruence].
  - rewrite FW, FD. cbn [st1 add_delayed set_delayed s_delayed s_wait app]. rewrite wsum_cons, !wsum_app, wsum_cons, wsum_nil.
    assert (wgt pl = 1) as -> by reflexivity. assert (wgt m = 2) as -> by (unfold wgt; now rewrite PM, CS). lia.
Qed.

End Live.
