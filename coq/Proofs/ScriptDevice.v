(* C08: the round of the device loop IS the step of ScriptSim.run.
   Device.pa_step (one iteration of the while loop of _process_action), in its "connected, not timed out" branch,
   performs exactly ScriptSim.step1 on the head action of the queue: the same do..while round with the same fuel,
   the same advance, the same device / store / events afterwards.  So the histories R-DEV compares with the C are
   instances of the schedules C08_refines quantifies over (rounds at the same clock value with nothing fed in between). *)
From Coq Require Import List NArith ZArith Bool Lia.
From PM Require Import Base.Bytes Base.Outcome Base.Dec Gen.GenConsts Model.ScriptAst Model.Enqueue Model.Script Model.Device
  Spec.ScriptSem Proofs.ScriptRefine Proofs.ScriptSim.
Import ListNotations.
Local Open Scope Z_scope.

Lemma pa_step_is_step1 (rmatch : text -> text -> option pmatch) (compress : list text -> text) (sc : bool)
      now d store tmo plans act0 rest :
  dv_acts d = act0 :: rest -> a_exec act0 <> [] ->
  let stamp := match a_stamp act0 with Some t => t | None => now end in
  let act := set_stamp (Some stamp) act0 in
  (stamp + dv_timeout d <=? now) = false -> connected d = true ->
  match step1 rmatch compress sc now (dv d) act store with
  | Ok (Running, sd', a', store', o, evs) =>
      (exists d' tmo' pl', pa_step rmatch compress sc now d store tmo plans = Ok (PaDone d' store' tmo' pl' evs)
                           /\ dv d' = sd' /\ dv_acts d' = a' :: rest)                      (* the statement stalled *)
      \/ (exists d' tmo', pa_step rmatch compress sc now d store tmo plans = Ok (PaNext d' store' tmo' evs)
                          /\ dv d' = sd' /\ dv_acts d' = a' :: rest)                       (* it finished: next round *)
  | Ok (Completed, sd', a', store', o, evs) =>
      exists d' tmo' done, pa_step rmatch compress sc now d store tmo plans = Ok (PaNext d' store' tmo' (evs ++ done))
                           /\ dv d' = sd' /\ dv_acts d' = rest                              (* the action left the queue *)
  | Ok (Failed, sd', a', store', o, evs) =>
      exists tmo', pa_step rmatch compress sc now d store tmo plans
                   = fail_and_reconnect now (upd_sdev (fun _ => sd') d) a' rest store' tmo' plans evs
  | Exit c x => pa_step rmatch compress sc now d store tmo plans = Exit c x
  | Abort x => pa_step rmatch compress sc now d store tmo plans = Abort x
  | MemErr x => pa_step rmatch compress sc now d store tmo plans = MemErr x
  | Hang x => pa_step rmatch compress sc now d store tmo plans = Hang x
  end.
Proof.
  intros Hq Hne stamp act Hlim Hconn.
  unfold pa_step, step1. rewrite Hq. destruct (a_exec act0) as [|e0 r0] eqn:Ex0; [congruence|].
  fold stamp. fold act. rewrite Hlim, Hconn. cbn [negb].
  destruct (do_while rmatch compress sc 8 now (dv d) act store [] None) as [[[[[[fin sd'] act'] store'] evs] dt]| | | |]; try reflexivity.
  cbv zeta. destruct fin; cbn [negb].
  - destruct (Z.eqb (a_err act') ACT_ESUCCESS).
    + destruct (a_exec (advance act')) as [|e2 r2] eqn:Ea.
      * eexists _, _, _. split; [reflexivity|]. split; [|reflexivity].
        destruct (Z.eqb (a_com (advance act')) PM_LOG_IN); reflexivity.
      * right. eexists _, _. split; [reflexivity|]. split; reflexivity.
    + eexists. reflexivity.
  - left. eexists _, _, _. split; [reflexivity|]. split; reflexivity.
Qed.
