(* Which plugs a script can name (C01 at the level of the bytes sent): in every trace of the semantics Spec/ScriptSem.v the
   argument substituted for %s names only
     - plugs of the action's own plug list, or
     - for a script that is not one of the *_ranged ones and contains a foreach: plugs of the device (that is what
       foreachplug means there; C17 shows the shipped specifications use it only in whole-device and query scripts).
   Composed in Properties/C01.v with the selection theorems (the action's plug list holds only targeted plugs) and with
   C08_refines (the model's runs are traces of the semantics). *)
From Coq Require Import List NArith ZArith Bool.
From PM Require Import Base.Bytes Gen.GenConsts Model.ScriptAst Model.Enqueue Model.Script Spec.ScriptSem.
Import ListNotations.

Section Scope.
  Variable rmatch : text -> text -> option pmatch.
  Variable compress : list text -> text.
  Variable sc : bool.
  Variable ranged : bool.
  Variable devplugs : list plug.

  Definition plist (ps : option (list plug)) : list plug := match ps with Some l => l | None => [] end.

  (* an observation is in scope [allowed]: a send substitutes the argument of some plug list inside [allowed] *)
  Definition obs_in (allowed : list plug) (o : obs) : Prop :=
    match o with
    | OSend b => exists fmt qs, b = subst fmt (sem_arg compress qs) /\ incl (plist qs) allowed
    | _ => True
    end.

  (* the plugs a foreach may reach from a block with plugs ps *)
  Definition reach (ps : option (list plug)) : list plug := plist ps ++ (if ranged then [] else devplugs).

  Notation xstmt := (exec_stmt rmatch compress sc ranged devplugs).
  Notation xblock := (exec_block rmatch compress sc ranged devplugs).
  Notation xiter := (exec_iter rmatch compress sc ranged devplugs).

  Scheme xstmt_ind' := Induction for exec_stmt Sort Prop
    with xblock_ind' := Induction for exec_block Sort Prop
    with xiter_ind' := Induction for exec_iter Sort Prop.
  Combined Scheme x_mutind from xstmt_ind', xblock_ind', xiter_ind'.

  Lemma incl_sem_list ps allowed : incl (reach ps) allowed -> incl (sem_list ranged devplugs ps) allowed.
  Proof.
    unfold reach, sem_list, plist. intros H. destruct ranged.
    - rewrite app_nil_r in H. destruct ps; [exact H|intros x []].
    - intros x Hx. apply H. apply in_or_app. now right.
  Qed.

  Lemma reach_same ps : reach (same_plugs ps) = reach ps.
  Proof. unfold reach, same_plugs, plist. destruct ps; reflexivity. Qed.

  (* every observation of a statement / block / foreach stays inside what the enclosing block can reach *)
  Theorem sem_scope :
    (forall x ps s tr s' st, xstmt x ps s tr s' st -> forall allowed, incl (reach ps) allowed -> Forall (obs_in allowed) tr) /\
    (forall b ps s tr s' st, xblock b ps s tr s' st -> forall allowed, incl (reach ps) allowed -> Forall (obs_in allowed) tr) /\
    (forall b l s tr s' st, xiter b l s tr s' st -> forall allowed, incl l allowed -> incl (if ranged then [] else devplugs) allowed -> Forall (obs_in allowed) tr).
  Proof.
    apply x_mutind; intros; try (constructor; fail); try (constructor; [exact I|constructor]; fail).
    - (* send *) constructor; [|constructor]. cbn. exists fmt, ps. split; [reflexivity|].
      intros p Hp. apply H. unfold reach. apply in_or_app. now left.
    - (* foreachplug *) apply H; [apply incl_sem_list; assumption|].
      intros p Hp. apply H0. unfold reach. apply in_or_app. now right.
    - (* foreachnode *) apply H; [|intros p Hp; apply H0; unfold reach; apply in_or_app; now right].
      intros p Hp. apply filter_In in Hp as [Hp _]. revert p Hp. apply incl_sem_list. assumption.
    - (* ifon *) apply H. now rewrite reach_same.
    - (* ifoff *) apply H. now rewrite reach_same.
    - (* block cons *) apply Forall_app. split; [apply H|apply H0]; assumption.
    - (* block stop *) apply H; assumption.
    - (* iter cons *) apply Forall_app. split; [|apply H0; [intros q Hq; apply H1; now right|assumption]].
      apply H. unfold reach, plist. intros q Hq. apply in_app_or in Hq as [[<-|[]]|Hq]; [apply H1; now left|apply H2; exact Hq].
    - (* iter stop *) apply H. unfold reach, plist. intros q Hq. apply in_app_or in Hq as [[<-|[]]|Hq]; [apply H0; now left|apply H1; exact Hq].
  Qed.

  (* for a ranged script, and for any script without a foreach, only the action's own plugs are ever named *)
  Corollary script_names_own_plugs script ps s tr s' st :
    ranged = true -> xblock script ps s tr s' st -> Forall (obs_in (plist ps)) tr.
  Proof.
    intros Hr H. apply (proj1 (proj2 sem_scope) _ _ _ _ _ _ H). unfold reach. rewrite Hr, app_nil_r. apply incl_refl.
  Qed.

  (* scripts without foreach (what C17 establishes for the single-plug scripts of every shipped specification) *)
  Fixpoint nofor_stmt (x : stmt) : bool :=
    match x with
    | ForeachPlug _ | ForeachNode _ => false
    | IfOn b | IfOff b => (fix go (l : list stmt) : bool := match l with [] => true | y :: r => nofor_stmt y && go r end) b
    | _ => true
    end.
  Definition nofor (b : list stmt) : bool := forallb nofor_stmt b.
  Lemma nofor_unfold b : (fix go (l : list stmt) : bool := match l with [] => true | y :: r => nofor_stmt y && go r end) b = nofor b.
  Proof. induction b as [|y r IH]; cbn; [reflexivity|]. now rewrite IH. Qed.

  Theorem sem_scope_nofor :
    (forall x ps s tr s' st, xstmt x ps s tr s' st -> nofor_stmt x = true -> forall allowed, incl (plist ps) allowed -> Forall (obs_in allowed) tr) /\
    (forall b ps s tr s' st, xblock b ps s tr s' st -> nofor b = true -> forall allowed, incl (plist ps) allowed -> Forall (obs_in allowed) tr) /\
    (forall b l s tr s' st, xiter b l s tr s' st -> True).
  Proof.
    apply x_mutind; intros; try exact I; try (constructor; fail); try (constructor; [exact I|constructor]; fail); try discriminate.
    - constructor; [|constructor]. cbn. exists fmt, ps. split; [reflexivity|assumption].
    - cbn [nofor_stmt] in H0. rewrite nofor_unfold in H0. apply H; [exact H0|]. unfold same_plugs, plist in *. destruct ps; assumption.
    - cbn [nofor_stmt] in H0. rewrite nofor_unfold in H0. apply H; [exact H0|]. unfold same_plugs, plist in *. destruct ps; assumption.
    - unfold nofor in H1. cbn [forallb] in H1. apply andb_true_iff in H1 as [Hx Hr]. apply Forall_app. split; [apply H|apply H0]; assumption.
    - unfold nofor in H0. cbn [forallb] in H0. apply andb_true_iff in H0 as [Hx Hr]. apply H; assumption.
  Qed.

  Corollary script_names_own_plugs_nofor script ps s tr s' st :
    nofor script = true -> xblock script ps s tr s' st -> Forall (obs_in (plist ps)) tr.
  Proof. intros Hn H. apply (proj1 (proj2 sem_scope_nofor) _ _ _ _ _ _ H Hn). apply incl_refl. Qed.
End Scope.
