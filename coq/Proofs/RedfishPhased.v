(* C19: `on` over several targets among which one is an ancestor of another: every target is refused
   (phased_power_on_check), nothing is carried out, the helper is back at its prompt. *)
From Coq Require Import List NArith ZArith Bool Lia Permutation.
From PM Require Import Base.Bytes Base.Outcome Gen.GenRfp Model.Redfish Spec.RedfishSpec Model.RedfishView
  Proofs.RedfishBase Proofs.RedfishSteps Proofs.RedfishMgmt Proofs.RedfishRules.
Import ListNotations.

Definition tmsg_of (b : state) (c : cmd) (p : name) : pmsg :=
  match lookup (s_tab b) p with
  | Some pd => mkMsg c (p_host pd) p (p_parent pd) true false
  | None => mkMsg c [] p None true false
  end.
Definition is_root_msg (m : pmsg) : bool := match m_parent m with None => true | Some _ => false end.
Definition actives (b : state) (c : cmd) (ts : list name) : list pmsg := filter is_root_msg (map (tmsg_of b c) ts).
Definition waiters (b : state) (c : cmd) (ts : list name) : list pmsg := filter (fun m => negb (is_root_msg m)) (map (tmsg_of b c) ts).

Lemma m_plug_tmsg_of b c p : m_plug (tmsg_of b c p) = p.
Proof. unfold tmsg_of. destruct (lookup _ _); reflexivity. Qed.

Lemma target_one_known b tsx act wt out c p : has_path b c p = true ->
  exists out', target_one c (St b tsx act wt [] out []) p =
               (if is_root_msg (tmsg_of b c p) then St b tsx (act ++ [tmsg_of b c p]) wt [] out' [] else St b tsx act (wt ++ [tmsg_of b c p]) [] out' []) /\
               res out' = res out.
Proof.
  intros HP. destruct (has_path_get _ _ _ HP) as (pd & lp & L & GP).
  assert (NV : name_valid (s_tab b) p = true) by (apply name_valid_lookup; eauto).
  unfold target_one. stw. rewrite NV. unfold tmsg_of. rewrite L. unfold is_root_msg. cbn [m_parent].
  assert (E : exists out', (if cmd_is_stat c then stat_cmd_plug (St b tsx act wt [] out []) p true else power_cmd_plug (St b tsx act wt [] out []) p c) =
               (St b tsx act wt [] out' [], Some (mkMsg c (p_host pd) p (p_parent pd) true false)) /\ res out' = res out).
  { destruct c.
    - change (cmd_is_stat CStat) with true. cbv iota. unfold stat_cmd_plug. stw. rewrite L. stw. rewrite GP.
      destruct (s_verbose b); stw; eexists; (split; [reflexivity|]); [rewrite res_app; cbn; now rewrite app_nil_r | reflexivity].
    - change (cmd_is_stat COn) with false. cbv iota. unfold power_cmd_plug. stw. rewrite L. stw. rewrite GP.
      destruct (s_verbose b); stw; eexists; (split; [reflexivity|]); [rewrite res_app; cbn; now rewrite app_nil_r | reflexivity].
    - change (cmd_is_stat COff) with false. cbv iota. unfold power_cmd_plug. stw. rewrite L. stw. rewrite GP.
      destruct (s_verbose b); stw; eexists; (split; [reflexivity|]); [rewrite res_app; cbn; now rewrite app_nil_r | reflexivity]. }
  destruct E as [out' [E R]]. rewrite E. exists out'. split; [|exact R].
  unfold queue_target. cbn [m_parent]. destruct (p_parent pd); stw; reflexivity.
Qed.

Lemma fold_targets b tsx c ts : forall act wt out, forallb (has_path b c) ts = true ->
  exists out', fold_left (target_one c) ts (St b tsx act wt [] out []) = St b tsx (act ++ actives b c ts) (wt ++ waiters b c ts) [] out' [] /\ res out' = res out.
Proof.
  induction ts as [|p r IH]; intros act wt out H; cbn [fold_left forallb] in *.
  - exists out. unfold actives, waiters. cbn [map filter]. now rewrite !app_nil_r.
  - apply andb_true_iff in H as [H1 H2]. destruct (target_one_known b tsx act wt out c p H1) as [out1 [E R1]]. rewrite E.
    unfold actives, waiters. cbn [map filter]. destruct (is_root_msg (tmsg_of b c p)); cbn [negb].
    + destruct (IH (act ++ [tmsg_of b c p]) wt out1 H2) as [out' [E' R']]. exists out'. rewrite E'. split; [|congruence].
      unfold actives, waiters. now rewrite <- app_assoc.
    + destruct (IH act (wt ++ [tmsg_of b c p]) out1 H2) as [out' [E' R']]. exists out'. rewrite E'. split; [|congruence].
      unfold actives, waiters. now rewrite <- app_assoc.
Qed.

Lemma fold_emit b ts act wt dl log (tg : pmsg -> tag) (f : text) L : forall out,
  fold_left (fun s m => emitf s (tg m) f [m_plug m]) L (St b ts act wt dl out log) =
  St b ts act wt dl (out ++ map (fun m => (tg m, fmt f [m_plug m])) L) log.
Proof.
  induction L as [|m r IH]; intros out; cbn [fold_left map]; [now rewrite app_nil_r|].
  stw. rewrite IH, <- app_assoc. reflexivity.
Qed.

(* a root is nobody's descendant *)
Lemma is_desc_root tab p q pd : lookup tab p = Some pd -> p_parent pd = None -> is_desc tab p q = false.
Proof. intros L P. unfold is_desc, child_of_ancestor. rewrite L. destruct (length tab); cbn [coa_walk]; now rewrite P. Qed.

Lemma related_roots b c ts m : In m (actives b c ts) -> forall q, is_desc (s_tab b) (m_plug m) q = false.
Proof.
  unfold actives. intros I q. apply filter_In in I as [I R]. apply in_map_iff in I as [p [<- _]].
  unfold tmsg_of in *. destruct (lookup (s_tab b) p) as [pd|] eqn:L; cbn [m_plug].
  - unfold is_root_msg in R. cbn [m_parent] in R. destruct (p_parent pd) eqn:P; [discriminate|]. eapply is_desc_root; eassumption.
  - unfold is_desc, child_of_ancestor. now rewrite L.
Qed.

Lemma related_to_any_roots b c ts m l : (forall m', In m' (m :: l) -> In m' (actives b c ts)) -> related_to_any (s_tab b) m l = false.
Proof.
  induction l as [|m2 r IH]; intros H; cbn [related_to_any]; [reflexivity|].
  rewrite (related_roots b c ts m), (related_roots b c ts m2), IH; [reflexivity| | |]; try (apply H; cbn; auto).
  intros m' [<-|I]; apply H; cbn; auto.
Qed.

Lemma any_related_roots b c ts l : (forall m', In m' l -> In m' (actives b c ts)) -> any_related (s_tab b) l = false.
Proof.
  induction l as [|m r IH]; intros H; cbn [any_related]; [reflexivity|].
  rewrite (related_to_any_roots b c ts m r H), IH; [reflexivity|]. intros m' I. apply H. now right.
Qed.

Lemma related_to_any_in tab m m2 l : In m2 l -> is_desc tab (m_plug m) (m_plug m2) || is_desc tab (m_plug m2) (m_plug m) = true ->
  related_to_any tab m l = true.
Proof.
  induction l as [|x r IH]; intros I H; [destruct I|]. cbn [related_to_any]. destruct I as [->|I].
  - rewrite <- orb_assoc. rewrite orb_assoc, H. reflexivity.
  - rewrite (IH I H). now rewrite orb_true_r.
Qed.

Lemma any_related_split tab l1 m l2 : related_to_any tab m l2 = true -> any_related tab (l1 ++ m :: l2) = true.
Proof.
  induction l1 as [|x r IH]; intros H; cbn [app any_related]; [now rewrite H|]. rewrite (IH H). now rewrite orb_true_r.
Qed.

Lemma any_related_pair tab l mp mq : In mp l -> In mq l -> mp <> mq -> is_desc tab (m_plug mp) (m_plug mq) = true -> any_related tab l = true.
Proof.
  intros Ip Iq NE D. apply in_split in Ip as [l1 [l2 ->]]. apply in_app_or in Iq as [Iq|[Iq|Iq]]; [|congruence|].
  - apply in_split in Iq as [l1a [l1b ->]]. rewrite <- app_assoc. cbn [app]. apply any_related_split.
    apply (related_to_any_in _ _ mp); [apply in_or_app; right; now left | now rewrite D, orb_true_r].
  - apply any_related_split. apply (related_to_any_in _ _ mq _ Iq). now rewrite D.
Qed.

Lemma in_partition b c ts p : In p ts -> In (tmsg_of b c p) (actives b c ts ++ waiters b c ts).
Proof.
  intros I. apply in_or_app. unfold actives, waiters. destruct (is_root_msg (tmsg_of b c p)) eqn:R; [left|right];
    apply filter_In; (split; [apply in_map; exact I|]); [exact R | now rewrite R].
Qed.

Lemma partition_perm {A} (f : A -> bool) l : Permutation (filter f l ++ filter (fun x => negb (f x)) l) l.
Proof.
  induction l as [|a r IH]; cbn [filter app]; [constructor|]. destruct (f a); cbn [negb app].
  - now constructor.
  - eapply Permutation_trans; [apply Permutation_sym, Permutation_middle|]. now constructor.
Qed.

Section WithHostlist.
Variable hlc : text -> option (list text).

(* "requesting 'on' for an ancestor and its descendant together refuses all targets" -- any number of targets, any depth *)
Theorem on_parent_and_child_refused st ln sched w a rest ts p q :
  at_prompt st -> argv ln = w :: a :: rest -> cmd_of_word w = Some COn -> hlc a = Some ts -> cyclic (s_tab st) = false ->
  forallb (has_path st COn) ts = true ->
  In p ts -> In q ts -> p <> q -> is_desc (s_tab st) p q = true ->
  exists st' order, run_line hlc st ln sched = Ok (st', false) /\ at_prompt st' /\ same_cfg st' st /\ s_tstat st' = s_tstat st /\ s_log st' = [] /\
    Permutation order ts /\
    results st' = map (fun t => (TResult t, t ++ bs ": cannot turn on parent and child"%string ++ [LF])) order.
Proof.
  intros AP AV CW HL CY HP Ip Iq NE D.
  unfold run_line. rewrite AV, (process_cmd_power _ _ _ _ _ CW). cbn [first_arg]. unfold power_cmd. rewrite HL.
  rewrite (at_prompt_St _ AP). stw. rewrite CY.
  destruct (fold_targets st (s_tstat st) COn ts [] [] [] HP) as [out1 [E R1]]. rewrite E. cbn [app]. stw.
  set (A := actives st COn ts) in *. set (W := waiters st COn ts) in *.
  assert (REL : any_related (s_tab st) (A ++ W) = true).
  { apply (any_related_pair _ _ (tmsg_of st COn p) (tmsg_of st COn q)); try (apply in_partition; assumption).
    - intros EQ. apply (f_equal m_plug) in EQ. rewrite !m_plug_tmsg_of in EQ. contradiction.
    - now rewrite !m_plug_tmsg_of. }
  destruct W as [|w0 W'] eqn:EW.
  - exfalso. rewrite app_nil_r in REL. rewrite (any_related_roots st COn ts A) in REL; [discriminate | auto].
  - rewrite <- EW in *. change (cmd_is_stat COn) with false. cbv iota.
    unfold phased_power_on_check. change (cmd_is_on COn) with true. cbv iota. stw. rewrite REL.
    rewrite (fold_emit st (s_tstat st) A W [] [] (fun m => TResult (m_plug m)) f_phased_active A).
    rewrite (fold_emit st (s_tstat st) A W [] [] (fun m => TResult (m_plug m)) f_phased_wait W). stw.
    unfold send_initial_parent_queries, scan_fuel. stw. cbn [length Nat.mul Nat.add]. rewrite sipq_S. stw. cbn [nth_error].
    rewrite drain_done.
    eexists. exists (map m_plug (A ++ W)). split; [reflexivity|]. split; [repeat split|]. split; [apply same_cfg_St|].
    split; [reflexivity|]. split; [reflexivity|]. split.
    + subst A W. unfold actives, waiters.
      eapply Permutation_trans; [apply Permutation_map; apply partition_perm|].
      rewrite map_map. rewrite (map_ext _ (fun x => x)) by apply m_plug_tmsg_of. rewrite map_id. apply Permutation_refl.
    + unfold results. stw. rewrite !res_app, R1. cbn [res filter app].
      assert (K : forall L, res (map (fun m => (TResult (m_plug m), fmt f_phased_active [m_plug m])) L) =
                            map (fun t => (TResult t, t ++ bs ": cannot turn on parent and child"%string ++ [LF])) (map m_plug L)).
      { induction L as [|m r IH]; [reflexivity|]. cbn [map]. unfold res in *. cbn [filter keep fst]. now rewrite IH. }
      change f_phased_wait with f_phased_active. rewrite !K, map_app, map_app. reflexivity.
Qed.

End WithHostlist.
