(* C19: extraction of the redfishpower model and of the rule specification -> Extract/rfpmodel.ml *)
From Coq Require Import Extraction ExtrOcamlBasic.
From PM Require Import Base.Bytes Base.Outcome Base.ExtractBase Gen.GenRfp Model.Redfish Spec.RedfishSpec Model.RedfishView.
Cd "Extract".
Extraction "rfpmodel.ml" dlib_anchor init run_line spec_line table_status spec_table_status out_text s_out s_log s_tab s_tstat
  status_text word fuel_for.
Cd "..".
