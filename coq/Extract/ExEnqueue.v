From Coq Require Import Extraction ExtrOcamlBasic.
From PM Require Import Base.Bytes Base.Outcome Base.ExtractBase Model.Enqueue.
Cd "Extract".
Extraction "enqmodel.ml" dlib_anchor enqueue check_actions check_actions_any total needs targeted.
Cd "..".
