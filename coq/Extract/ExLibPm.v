(* extraction of the C16 model (module "libpmmodel") for driver/libpm_drv.ml *)
From Coq Require Import Extraction ExtrOcamlBasic.
From PM Require Import Base.Bytes Base.Outcome Base.ExtractBase Gen.GenConsts Gen.GenLibPm Model.LibPm.
Cd "Extract".
Extraction "libpmmodel.ml" dlib_anchor run_session cli recv node_status node_iter retcode parse_response zlen.
Cd "..".
