(* extraction of the C17 rule functions: used by props/C17.py to (a) annotate the independent reader's dump with
   RegexSyn.ngroups for the comparison with glibc's re_nsub (R-SPEC), (b) locate the offending statement when a
   shipped specification violates a rule, (c) predict the plug argument of every send (R-CTX) *)
From Coq Require Import Extraction ExtrOcamlBasic.
From PM Require Import Base.Bytes Base.Outcome Base.ExtractBase Gen.GenConsts Model.ScriptAst Model.RegexSyn Model.Fmt
  Model.SpecCheck.
Cd "Extract".
Extraction "specmodel.ml" dlib_anchor mkSpec Send ngroups ng conversions fmt_args conv_class spec_failures spec_ok
  script_sends kind_of top_arg spec_nstmts.
Cd "..".
