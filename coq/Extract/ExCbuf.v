(* extraction of the C09 models and specs for driver/cbuf_drv.ml (module Cbufmodel) *)
From Coq Require Import Extraction ExtrOcamlBasic.
From PM Require Import Base.Bytes Base.Outcome Base.ExtractBase Gen.GenConsts Gen.GenCbuf
  Model.Cbuf Model.Telnet Spec.Fifo Spec.TelnetSpec.
Cd "Extract".
Extraction "cbufmodel.ml" dlib_anchor
  Cbuf.create Cbuf.is_valid Cbuf.abs Cbuf.used Cbuf.free Cbuf.is_empty Cbuf.flush Cbuf.opt_set_overwrite
  Cbuf.write Cbuf.write_from_fd Cbuf.drop Cbuf.peek Cbuf.read Cbuf.read_to_fd Cbuf.peek_line Cbuf.read_line
  Cbuf.Z_of_mode Cbuf.step Cbuf.run Cbuf.fd_bytes
  Telnet.telnet_init Telnet.preprocess Telnet.dev_create Telnet.dev_preprocess Telnet.handle_read
  Telnet.handle_write Telnet.disconnect Telnet.connected Telnet.regex_subject Telnet.regex_consume
  Fifo.fifo_write Fifo.fifo_dropped Fifo.fifo_peek Fifo.fifo_drop Fifo.fifo_line_count Fifo.fifo_line_text
  Fifo.nul_to_ff Fifo.qlen
  TelnetSpec.parse TelnetSpec.data TelnetSpec.replies TelnetSpec.decode
  GenConsts.MIN_DEV_BUF GenConsts.MAX_DEV_BUF GenCbuf.CBUF_CHUNK.
Cd "..".
