From Coq Require Import Extraction ExtrOcamlBasic.
From PM Require Import Base.Bytes Base.Outcome Base.ExtractBase Model.ScriptAst Model.Enqueue Model.Script Model.Device Model.DevHarness Model.Client Model.Daemon.
Cd "Extract".
Extraction "daemonmodel.ml" dlib_anchor dstep dinit mk_device open_fds children shutdown_evs arg_find.
Cd "..".
