From Coq Require Import Extraction ExtrOcamlBasic.
From PM Require Import Base.Bytes Base.Outcome Base.ExtractBase Model.ScriptAst Model.Enqueue Model.Script Model.Device Model.DevHarness.
Cd "Extract".
Extraction "devmodel.ml" dlib_anchor hstep take_got mk_device peer0 memstr arg_find.
Cd "..".
