(* extraction of the hostlist model and its reference semantics -> Extract/hlmodel.ml *)
From Coq Require Import Extraction ExtrOcamlBasic.
From PM Require Import Base.Bytes Base.Outcome Base.ExtractBase Model.HL Spec.HLSpec.
Cd "Extract".
Extraction "hlmodel.ml" dlib_anchor HL.step HL.world0 HL.create HL.push HL.push_host HL.push_list HL.copy HL.count
  HL.nth HL.find HL.find_mut HL.delete_host HL.delete_nth HL.sort HL.ranged_string HL.ranged_string_n HL.iterate
  HL.width_equiv HL.zp HL.pad HL.hostname_create HLSpec.expand HLSpec.names HLSpec.index_of.
Cd "..".
