(* extraction of the C18 model (lexer token layer + recursive-descent load) -> Extract/lexmodel.ml *)
From Coq Require Import Extraction ExtrOcamlBasic.
From PM Require Import Base.Bytes Base.Outcome Base.ExtractBase Gen.GenLex Model.Lexer Spec.ConfSpec.
Cd "Extract".
Extraction "lexmodel.ml" dlib_anchor lex_run lex_all tokens load_stream load conf_init mandatory_ok site_hasline
  outcome_class GenLex.kw_name string_buf_size string_checked string_slack include_refuse_at max_include_depth
  time_check strtol0 num_rat map_of map_ok.
Cd "..".
