From Coq Require Import Extraction ExtrOcamlBasic.
From PM Require Import Base.ExtractBase Model.Xpoll.
Cd "Extract".
Extraction "xpollmodel.ml" dlib_anchor xpoll_timeouts.
Cd "..".
