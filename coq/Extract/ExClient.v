From Coq Require Import Extraction ExtrOcamlBasic.
From PM Require Import Base.Bytes Base.Outcome Base.ExtractBase Model.ScriptAst Model.Enqueue Model.Script Model.Client Model.CliWorld Spec.Proto.
Cd "Extract".
Extraction "climodel.ml" dlib_anchor parse_input act_finish telemetry diag new_client arg_find arg_update
  wstep wrun world0 find_client run1 events_ok
  Proto.ok Proto.ok_prefix Proto.ok_rest Proto.tokens Proto.terminals Proto.documented_codes.
Cd "..".
