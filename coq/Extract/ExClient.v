From Coq Require Import Extraction ExtrOcamlBasic.
From PM Require Import Base.Bytes Base.Outcome Base.ExtractBase Model.ScriptAst Model.Enqueue Model.Script Model.Client.
Cd "Extract".
Extraction "climodel.ml" dlib_anchor parse_input act_finish telemetry diag new_client arg_find arg_update.
Cd "..".
