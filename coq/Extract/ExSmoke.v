(* pipeline smoke test: extraction + dlib glue *)
From Coq Require Import Extraction ExtrOcamlBasic.
From PM Require Import Base.Bytes Base.Outcome Base.ExtractBase.
Definition smoke (t : text) : text := rev t.
Cd "Extract".
Extraction "smoke.ml" dlib_anchor smoke.
Cd "..".
