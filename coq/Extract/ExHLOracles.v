(* extraction of the host-list oracles of the client layer, as defined from the hostlist model -> Extract/hlomodel.ml
   (hlo_* : names that cannot clash with ReplyRanges.hl_ranged_sorted in the monolithic module) *)
From Coq Require Import Extraction ExtrOcamlBasic.
From PM Require Import Base.Bytes Base.Outcome Base.ExtractBase Model.HL Proofs.HLOracles.
Definition hlo_expand_str := HLOracles.hl_expand_str.
Definition hlo_ranged_sorted := HLOracles.hl_ranged_sorted.
Definition hlo_ranged_sorted_expr := HLOracles.hl_ranged_sorted_expr.
Definition hlo_ranged_plain := HLOracles.hl_ranged_plain.
Definition hlo_sorted := HLOracles.hl_sorted.
Cd "Extract".
Extraction "hlomodel.ml" dlib_anchor hlo_expand_str hlo_ranged_sorted hlo_ranged_sorted_expr hlo_ranged_plain hlo_sorted.
Cd "..".
