(* The world of the device-layer unit harness (harness/dev_h.c): devices with stubbed transports on real
   socket pairs, driven by explicit operations.  Mirrors what dev_h.c does around the real
   dev_initial_connect / dev_enqueue_actions / dev_pre_poll / poll / dev_post_poll.  No proofs. *)
From Coq Require Import List NArith ZArith Bool.
From PM Require Import Base.Bytes Base.Outcome Gen.GenConsts Model.ScriptAst Model.Enqueue Model.Script Model.Device.
Import ListNotations.
Local Open Scope Z_scope.

Record peer : Type := mkPeer {
  pe_pending : text;          (* written by the harness to the far end, not yet read by the daemon *)
  pe_closed : bool;           (* far end closed *)
  pe_plans : list cplan;      (* answers of the stub connect method *)
  pe_finish_ok : bool;        (* answer of the stub finish_connect method *)
  pe_got : text               (* bytes the daemon wrote to the descriptor since the last report *)
}.
Definition fresh_peer (p : peer) : peer := mkPeer [] false (pe_plans p) (pe_finish_ok p) (pe_got p).

Record hstate : Type := mkH { h_now : Z; h_devs : list (device * peer); h_store : list arglist }.

Inductive hop : Type :=
| HNow (t : Z)
| HPlan (i : nat) (pl : list cplan)
| HFinish (i : nat) (ok : bool)
| HFeed (i : nat) (b : text)
| HPeerClose (i : nat)
| HInit
| HNewArgs (nodes : list text)
| HEnq (com client : Z) (tele : bool) (args : nat) (tgts : list text)
| HPass.

Fixpoint upd_nth {A} (l : list A) (i : nat) (f : A -> A) : list A :=
  match l, i with
  | [], _ => []
  | x :: r, O => f x :: r
  | x :: r, S j => x :: upd_nth r j f
  end.

Definition edev_of (d : device) : edev := mkEdev (sd_name (dv d)) (sd_plugs (dv d)) (map fst (dv_scripts d)).

(* output of one operation: events tagged with the device index (None = not device specific) and,
   for HPass, the requested time-out; HEnq returns the action count *)
Record hout : Type := mkOut { o_evs : list (nat * ev); o_tmo : option Z; o_count : Z }.
Definition out0 : hout := mkOut [] None 0.

Section H.
  Variable rmatch : text -> text -> option pmatch.
  Variable compress : list text -> text.
  Variable short_circuit : bool.

  Definition passin_of (d : device) (p : peer) : passin :=
    let want_out := dv_has_fd d && ((connected d && negb (match sd_to (dv d) with [] => true | _ => false end))
                                    || Z.eqb (dv_cstate d) DEV_CONNECTING) in
    let readable := negb (match pe_pending p with [] => true | _ => false end) || pe_closed p in
    mkPassin (pe_closed p) false false want_out readable
             (match pe_pending p with [] => None | b => Some (firstn (Z.to_nat (read_len d)) b) end)
             (Some (length (sd_to (dv d)))) (pe_finish_ok p) (pe_plans p)
             None.                    (* the stub transports have no preprocess method *)

  Definition apply_evs (p : peer) (evs : list ev) : peer :=
    fold_left (fun p e =>
      match e with
      | EvRead n => mkPeer (skipn n (pe_pending p)) (pe_closed p) (pe_plans p) (pe_finish_ok p) (pe_got p)
      | EvWrote b => mkPeer (pe_pending p) (pe_closed p) (pe_plans p) (pe_finish_ok p) (pe_got p ++ b)
      | EvDisconnect => mkPeer [] false (pe_plans p) (pe_finish_ok p) (pe_got p)
      | EvConnect => mkPeer [] false (tl (pe_plans p)) (pe_finish_ok p) (pe_got p)   (* a new socket pair (if any) starts empty *)
      | _ => p
      end) evs p.

  Fixpoint pass_devs (now : Z) (i : nat) (l : list (device * peer)) (store : list arglist) (tmo : option Z)
    : outcome (list (device * peer) * list arglist * option Z * list (nat * ev)) :=
    match l with
    | [] => Ok ([], store, tmo, [])
    | (d, p) :: r =>
      match post_poll_one rmatch compress short_circuit now d store tmo (passin_of d p) with
      | Ok (d', store', tmo', evs) =>
        match pass_devs now (S i) r store' tmo' with
        | Ok (r', store'', tmo'', evs') => Ok ((d', apply_evs p evs) :: r', store'', tmo'', map (fun e => (i, e)) evs ++ evs')
        | Exit c s => Exit c s | Abort s => Abort s | MemErr s => MemErr s | Hang s => Hang s
        end
      | Exit c s => Exit c s | Abort s => Abort s | MemErr s => MemErr s | Hang s => Hang s
      end
    end.

  Fixpoint init_devs (now : Z) (i : nat) (l : list (device * peer)) : outcome (list (device * peer) * list (nat * ev)) :=
    match l with
    | [] => Ok ([], [])
    | (d, p) :: r =>
      match connect now d (pe_plans p) with
      | Ok (d', evs, _) =>
        match init_devs now (S i) r with
        | Ok (r', evs') => Ok ((d', apply_evs p evs) :: r', map (fun e => (i, e)) evs ++ evs')
        | Exit c s => Exit c s | Abort s => Abort s | MemErr s => MemErr s | Hang s => Hang s
        end
      | Exit c s => Exit c s | Abort s => Abort s | MemErr s => MemErr s | Hang s => Hang s
      end
    end.

  Fixpoint enq_devs (l : list (device * peer)) (com client : Z) (tele : bool) (args : nat) (tgts : list text)
    : outcome (list (device * peer) * Z) :=
    match l with
    | [] => Ok ([], 0)
    | (d, p) :: r =>
      let q := enqueue_dev (edev_of d) com tgts in
      let d1 := fold_left (fun od a => match od with Ok x => append_client_action x a client tele args | e => e end) q (Ok d) in
      match d1 with
      | Ok d1 =>
        let d2 := match q with [] => d1 | _ => expedite d1 end in
        match enq_devs r com client tele args tgts with
        | Ok (r', n) => Ok ((d2, p) :: r', Z.of_nat (length q) + n)
        | Exit c s => Exit c s | Abort s => Abort s | MemErr s => MemErr s | Hang s => Hang s
        end
      | Exit c s => Exit c s | Abort s => Abort s | MemErr s => MemErr s | Hang s => Hang s
      end
    end.

  Definition new_args (nodes : list text) : arglist :=
    (* arglist_create: hash_insert refuses a duplicate key, so only the first Arg of a node is reachable *)
    map (fun n => mkArg n ST_UNKNOWN RT_NONE None) nodes.

  Definition hstep (h : hstate) (op : hop) : outcome (hstate * hout) :=
    match op with
    | HNow t => Ok (mkH t (h_devs h) (h_store h), out0)
    | HPlan i pl => Ok (mkH (h_now h) (upd_nth (h_devs h) i (fun '(d, p) => (d, mkPeer (pe_pending p) (pe_closed p) (pe_plans p ++ pl) (pe_finish_ok p) (pe_got p)))) (h_store h), out0)
    | HFinish i ok => Ok (mkH (h_now h) (upd_nth (h_devs h) i (fun '(d, p) => (d, mkPeer (pe_pending p) (pe_closed p) (pe_plans p) ok (pe_got p)))) (h_store h), out0)
    | HFeed i b => Ok (mkH (h_now h) (upd_nth (h_devs h) i (fun '(d, p) => (d, if dv_has_fd d && negb (pe_closed p) then mkPeer (pe_pending p ++ b) (pe_closed p) (pe_plans p) (pe_finish_ok p) (pe_got p) else p))) (h_store h), out0)
    | HPeerClose i => Ok (mkH (h_now h) (upd_nth (h_devs h) i (fun '(d, p) => (d, if dv_has_fd d then mkPeer (pe_pending p) true (pe_plans p) (pe_finish_ok p) (pe_got p) else p))) (h_store h), out0)
    | HInit =>
        match init_devs (h_now h) O (h_devs h) with
        | Ok (l, evs) => Ok (mkH (h_now h) l (h_store h), mkOut evs None 0)
        | Exit c s => Exit c s | Abort s => Abort s | MemErr s => MemErr s | Hang s => Hang s
        end
    | HNewArgs nodes => Ok (mkH (h_now h) (h_devs h) (h_store h ++ [new_args nodes]), out0)
    | HEnq com client tele args tgts =>
        match enq_devs (h_devs h) com client tele args tgts with
        | Ok (l, n) => Ok (mkH (h_now h) l (h_store h), mkOut [] None n)
        | Exit c s => Exit c s | Abort s => Abort s | MemErr s => MemErr s | Hang s => Hang s
        end
    | HPass =>
        match pass_devs (h_now h) O (h_devs h) (h_store h) None with
        | Ok (l, store, tmo, evs) => Ok (mkH (h_now h) l store, mkOut evs tmo 0)
        | Exit c s => Exit c s | Abort s => Abort s | MemErr s => MemErr s | Hang s => Hang s
        end
    end.

  (* a whole history: the outputs of the operations, in order *)
  Fixpoint run (h : hstate) (ops : list hop) : outcome (hstate * list hout) :=
    match ops with
    | [] => Ok (h, [])
    | op :: r =>
      match hstep h op with
      | Ok (h', o) =>
        match run h' r with
        | Ok (h'', os) => Ok (h'', o :: os)
        | Exit c s => Exit c s | Abort s => Abort s | MemErr s => MemErr s | Hang s => Hang s
        end
      | Exit c s => Exit c s | Abort s => Abort s | MemErr s => MemErr s | Hang s => Hang s
      end
    end.

  (* report-and-clear of the bytes seen at the far ends *)
  Definition take_got (h : hstate) : hstate * list text :=
    (mkH (h_now h) (map (fun '(d, p) => (d, mkPeer (pe_pending p) (pe_closed p) (pe_plans p) (pe_finish_ok p) [])) (h_devs h)) (h_store h),
     map (fun '(_, p) => pe_got p) (h_devs h)).
End H.

Definition mk_device (name : text) (plugs : list plug) (scripts : list (Z * list stmt)) (timeout ping : Z) : device :=
  mkDevice (mkSdev name plugs [] [] None false) scripts timeout ping DEV_NOT_CONNECTED false false [] 0 0 0 0 0 MIN_DEV_BUF.
Definition peer0 : peer := mkPeer [] false [] true [].
