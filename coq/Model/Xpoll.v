(* xpoll() of libcommon/xpoll.c: the time-outs handed to successive poll() calls when poll is interrupted by signals
   (EINTR).  tv = requested time-out in microseconds (None = block), start = clock reading before the first call,
   intr = clock readings taken after each EINTR return.  Arithmetic as the C does it: timersub normalises to
   tv_usec in [0, 10^6), the millisecond value is tv_sec * 1000 + tv_usec / 1000.  No proofs in this file. *)
From Coq Require Import List ZArith Bool.
From PM Require Import Gen.GenConsts.
Import ListNotations.
Local Open Scope Z_scope.

Definition ms_of (t : Z) : Z := (t / 1000000) * 1000 + (t mod 1000000) / 1000.

(* remaining time after an interruption observed at clock reading e; since the repair of F39 a negative remainder
   (the deadline has passed) is clamped to zero instead of reaching poll() as a negative = infinite time-out *)
Definition remaining (tv start e : Z) : Z :=
  let r := tv - (e - start) in
  if XPOLL_CLAMPS_REMAINDER then (if r / 1000000 <? 0 then 0 else r) else r.

Definition xpoll_timeouts (tv : option Z) (start : Z) (intr : list Z) : list Z :=
  match tv with
  | None => (-1) :: map (fun _ => -1) intr
  | Some t => ms_of t :: map (fun e => ms_of (remaining t start e)) intr
  end.
