(* The directive grammar of printf format strings (glibc vfprintf / ISO C 7.21.6.1), as a scanner:
     %  [n$]  flags* ( - + space # 0 ' I )  width ( digits | * )  [ . precision ( digits | * ) ]
        length* ( h l q L j z Z t )  conversion-character
   [conversions fmt] lists the directives of [fmt] in order; [conv_args] says which variadic arguments a
   directive makes vsnprintf fetch.  device.c:_process_send calls hsprintf(fmt, arg) with exactly ONE variadic
   argument (a char * or NULL), so a format is safe iff the concatenated argument list is [] or [AStr]. *)
From Coq Require Import List NArith ZArith Bool.
From PM Require Import Base.Bytes.
Import ListNotations.
Local Open Scope N_scope.

Inductive wp : Type := WNone | WNum (digits : text) | WStar.

Record conv : Type := mkConv {
  c_pos : bool;               (* a positional n$ was seen *)
  c_flags : text;
  c_width : wp;
  c_prec : wp;
  c_len : text;
  c_conv : option byte        (* None: the format ends inside the directive *)
}.

Definition conv0 : conv := mkConv false [] WNone WNone [] None.

Definition mem_byte (b : byte) (l : text) : bool := existsb (N.eqb b) l.

Definition c_pct : byte := 37.
Definition c_star : byte := 42.
Definition c_dollar : byte := 36.
Definition c_period : byte := 46.
Definition flag_chars : text := [45; 43; 32; 35; 48; 39; 73].            (* - + space # 0 ' I *)
Definition len_chars : text := [104; 108; 113; 76; 106; 122; 90; 116].   (* h l q L j z Z t *)

Inductive phase : Type := PText | PFlags | PWidth | PWStar | PDot | PPrec | PPStar | PLen.
Inductive sres : Type := Cont (ph : phase) (c : conv) | Done (c : conv).

Definition set_conv (c : conv) (b : byte) : conv :=
  mkConv (c_pos c) (c_flags c) (c_width c) (c_prec c) (c_len c) (Some b).
Definition add_len (c : conv) (b : byte) : conv :=
  mkConv (c_pos c) (c_flags c) (c_width c) (c_prec c) (c_len c ++ [b]) (c_conv c).
Definition add_flag (c : conv) (b : byte) : conv :=
  mkConv (c_pos c) (c_flags c ++ [b]) (c_width c) (c_prec c) (c_len c) (c_conv c).
Definition set_width (c : conv) (w : wp) : conv :=
  mkConv (c_pos c) (c_flags c) w (c_prec c) (c_len c) (c_conv c).
Definition set_prec (c : conv) (w : wp) : conv :=
  mkConv (c_pos c) (c_flags c) (c_width c) w (c_len c) (c_conv c).
Definition set_pos (c : conv) : conv :=
  mkConv true (c_flags c) WNone (c_prec c) (c_len c) (c_conv c).
Definition wp_app (w : wp) (b : byte) : wp :=
  match w with WNum d => WNum (d ++ [b]) | _ => WNum [b] end.

Definition step_len (c : conv) (b : byte) : sres :=
  if mem_byte b len_chars then Cont PLen (add_len c b) else Done (set_conv c b).
Definition step_dot (c : conv) (b : byte) : sres :=
  if b =? c_period then Cont PDot c else step_len c b.
Definition step_prec (c : conv) (b : byte) : sres :=
  if is_digit b then Cont PPrec (set_prec c (wp_app (c_prec c) b)) else step_len c b.
Definition step_pdot (c : conv) (b : byte) : sres :=
  if is_digit b then Cont PPrec (set_prec c (WNum [b]))
  else if b =? c_star then Cont PPStar (set_prec c WStar)
  else step_len (set_prec c (WNum [])) b.
Definition step_width (c : conv) (b : byte) : sres :=
  if is_digit b then Cont PWidth (set_width c (wp_app (c_width c) b))
  else if b =? c_dollar then Cont PFlags (set_pos c)
  else step_dot c b.
Definition step_flags (c : conv) (b : byte) : sres :=
  if mem_byte b flag_chars then Cont PFlags (add_flag c b)
  else if is_digit b then Cont PWidth (set_width c (WNum [b]))
  else if b =? c_star then Cont PWStar (set_width c WStar)
  else step_dot c b.

Definition step (ph : phase) (c : conv) (b : byte) : sres :=
  match ph with
  | PText => Cont PText c
  | PFlags => step_flags c b
  | PWidth => step_width c b
  | PWStar => step_dot c b
  | PDot => step_pdot c b
  | PPrec => step_prec c b
  | PPStar => step_len c b
  | PLen => step_len c b
  end.

Fixpoint scan (ph : phase) (cur : conv) (t : text) : list conv :=
  match t with
  | [] => match ph with PText => [] | _ => [cur] end
  | b :: r =>
      match ph with
      | PText => if b =? c_pct then scan PFlags conv0 r else scan PText cur r
      | _ => match step ph cur b with
             | Cont ph' c' => scan ph' c' r
             | Done c' => c' :: scan PText conv0 r
             end
      end
  end.

Definition conversions (fmt : text) : list conv := scan PText conv0 fmt.

(* which variadic arguments a directive consumes *)
Inductive argty : Type := AInt | ADouble | AStr | AWStr | APtr | AWritePtr | ABad.

Definition wp_args (w : wp) : list argty := match w with WStar => [AInt] | _ => [] end.

Definition conv_char_args (len : text) (b : byte) : list argty :=
  if b =? c_pct then []
  else if b =? 115 (* s *) then match len with [] => [AStr] | _ => [AWStr] end
  else if mem_byte b [100; 105; 111; 117; 120; 88; 99; 67] (* d i o u x X c C *) then [AInt]
  else if mem_byte b [101; 69; 102; 70; 103; 71; 97; 65] (* e E f F g G a A *) then [ADouble]
  else if b =? 112 (* p *) then [APtr]
  else if b =? 110 (* n *) then [AWritePtr]
  else if b =? 83 (* S *) then [AWStr]
  else if b =? 109 (* m : glibc, strerror(errno), no argument *) then []
  else [ABad].

Definition conv_args (c : conv) : list argty :=
  (if c_pos c then [ABad] else []) ++ wp_args (c_width c) ++ wp_args (c_prec c) ++
  match c_conv c with None => [ABad] | Some b => conv_char_args (c_len c) b end.

Definition fmt_args (fmt : text) : list argty := flat_map conv_args (conversions fmt).

(* the syntactic classes the C17 rule speaks about *)
Inductive cclass : Type := CPercent | CString | COther.

Definition no_star (w : wp) : bool := match w with WStar => false | _ => true end.

Definition conv_class (c : conv) : cclass :=
  match c_conv c with
  | None => COther
  | Some b =>
      if b =? c_pct then
        match c_pos c, c_flags c, c_width c, c_prec c, c_len c with
        | false, [], WNone, WNone, [] => CPercent          (* exactly %% *)
        | _, _, _, _, _ => COther
        end
      else if b =? 115 then
        match c_pos c, c_len c with
        | false, [] => if no_star (c_width c) && no_star (c_prec c) then CString else COther
        | _, _ => COther
        end
      else COther
  end.
