(* Executable model of the telnet filter of src/powerman/device_tcp.c (_telnet_init, _telnet_preprocess,
   _telnet_recvopt, _telnet_sendopt) and of the few lines of device.c around it that C09 anchors
   (_handle_read -> preprocess, _handle_write, _disconnect's flush, _getregex_buf's peek / NUL translation /
   drop).  NO proofs here.  Tied to the code by R-TEL (harness/telnet_h.c vs driver/cbuf_drv.ml).

   The model follows the code WITH fixes/F13-telnet-refilter.diff applied: preprocess receives the number of
   bytes the last read appended and interprets only those.  The code before the fix ran the state machine over
   the whole unconsumed buffer after every read; see the remark on C09_telnet in Properties/C09.v for the two
   streams on which that corrupts what a script sees. *)
From Coq Require Import List ZArith NArith Bool Lia.
From PM Require Import Base.Bytes Gen.GenConsts Gen.GenCbuf Model.Cbuf.
Import ListNotations.
Local Open Scope Z_scope.

Inductive tstate := TELNET_NONE | TELNET_CMD | TELNET_OPT.

(* the part of TcpDev the filter uses *)
Record tcp := mkTcp { t_state : tstate; t_cmd : byte }.

(* _telnet_init, called when a connect completes *)
Definition telnet_init : tcp := mkTcp TELNET_NONE 0%N.

(* _telnet_recvopt: the (cmd, opt) it passes to _telnet_sendopt, if any *)
Definition recvopt (cmd opt : byte) : option (byte * byte) :=
  if N.eqb cmd T_DO then
    if N.eqb opt TELOPT_SGA || N.eqb opt TELOPT_TM then Some (T_WILL, opt)
    else if N.eqb opt TELOPT_TTYPE || N.eqb opt TELOPT_NAWS || N.eqb opt TELOPT_NEW_ENVIRON
            || N.eqb opt TELOPT_XDISPLOC || N.eqb opt TELOPT_TSPEED || N.eqb opt TELOPT_ECHO
            || N.eqb opt TELOPT_LFLOW || N.eqb opt TELOPT_BINARY then Some (T_WONT, opt)
    else None
  else None.

(* one trip through the switch for peek[i] = b: (state after, bytes appended to device[], sendopt calls) *)
Definition step (t : tcp) (b : byte) : tcp * list byte * list (byte * byte) :=
  match t_state t with
  | TELNET_NONE =>
      if N.eqb b T_IAC then (mkTcp TELNET_CMD (t_cmd t), [], []) else (t, [b], [])
  | TELNET_CMD =>
      if N.eqb b T_IAC then (mkTcp TELNET_NONE (t_cmd t), [b], [])
      else if N.eqb b T_DONT || N.eqb b T_DO || N.eqb b T_WILL || N.eqb b T_WONT
      then (mkTcp TELNET_OPT b, [], [])
      else (mkTcp TELNET_NONE (t_cmd t), [], [])
  | TELNET_OPT =>
      (mkTcp TELNET_NONE (t_cmd t), [],
       match recvopt (t_cmd t) b with Some r => [r] | None => [] end)
  end.

(* the second for-loop of _telnet_preprocess over the new bytes *)
Fixpoint filter (t : tcp) (bytes : list byte) : tcp * list byte * list (byte * byte) :=
  match bytes with
  | [] => (t, [], [])
  | b :: r =>
      match step t b with
      | (t1, d1, o1) => match filter t1 r with (t2, d2, o2) => (t2, d1 ++ d2, o1 ++ o2) end
      end
  end.

Definition sendopt_bytes (r : byte * byte) : list byte := [T_IAC; fst r; snd r].

(* _telnet_preprocess on the level of buffer contents: [content] is everything unconsumed in dev->from,
   of which the last [nread] bytes were appended by the read that just happened.
   Result: (state after, new buffer content, bytes queued for the device) *)
Definition preprocess (t : tcp) (content : list byte) (nread : Z) : tcp * list byte * list byte :=
  let len := zlen content in
  let old := ztake (len - nread) content in            (* for (i = 0; i < len - nread; i++) device[k++] = peek[i] *)
  match filter t (zdrop (len - nread) content) with
  | (t', d, opts) => (t', old ++ d, flat_map sendopt_bytes opts)
  end.

(* ---- the same on a Device with real circular buffers ---------------------------------------------------- *)
Record dev := mkDev {
  d_from : cbuf;          (* buffer <- device *)
  d_to : cbuf;            (* buffer -> device *)
  d_tcp : tcp;
  d_errs : Z              (* number of err() diagnostics so far (short cbuf_write / cbuf_drop) *)
}.

(* _telnet_sendopt for each reply, in order *)
Fixpoint sendopts (to : cbuf) (errs : Z) (opts : list (byte * byte)) : cbuf * Z :=
  match opts with
  | [] => (to, errs)
  | r :: rest =>
      match Cbuf.write to (sendopt_bytes r) with
      | (to', n, _) => sendopts to' (if n <? 3 then errs + 1 else errs) rest
      end
  end.

Definition dev_preprocess (d : dev) (nread : Z) : dev :=
  match Cbuf.peek (d_from d) MAX_DEV_BUF with
  | (len, pk) =>
      let old := ztake (len - nread) pk in
      match filter (d_tcp d) (zdrop (len - nread) pk) with
      | (t', dnew, opts) =>
          let device := old ++ dnew in
          let k := zlen device in
          match sendopts (d_to d) (d_errs d) opts with
          | (to', errs1) =>
              if k <? len then
                match Cbuf.drop (d_from d) len with
                | (from1, n1) =>
                    let errs2 := if n1 <? len then errs1 + 1 else errs1 in
                    match Cbuf.write from1 device with
                    | (from2, n2, _) => mkDev from2 to' t' (if n2 <? k then errs2 + 1 else errs2)
                    end
                end
              else mkDev (d_from d) to' t' errs1
          end
      end
  end.

(* device.c:_handle_read followed by dev->preprocess, as _handle_ready_device does on POLLIN:
   (device after, true = i/o error or EOF (the caller disconnects), bytes lost to buffer wrap, descriptor after) *)
Definition handle_read (d : dev) (fd : list fdres) : dev * bool * Z * list fdres :=
  match Cbuf.write_from_fd (d_from d) fd (-1) with
  | (from', n, dropped, fd') =>
      let d' := mkDev from' (d_to d) (d_tcp d) (d_errs d) in
      if n <=? 0 then (d', true, dropped, fd')
      else (dev_preprocess d' n, false, dropped, fd')
  end.

(* device.c:_handle_write: (device after, true = error, bytes the descriptor accepted, accept script after) *)
Definition handle_write (d : dev) (fd : list Z) : dev * bool * list byte * list Z :=
  match Cbuf.read_to_fd (d_to d) fd (-1) with
  | (to', n, bytes, fd') => (mkDev (d_from d) to' (d_tcp d) (d_errs d), n <=? 0, bytes, fd')
  end.

(* dev_create's buffers; the telnet state is set by tcp_create and again at every connect *)
Definition dev_create (minsize maxsize : Z) : option dev :=
  match Cbuf.create minsize maxsize, Cbuf.create minsize maxsize with
  | Some f, Some t => Some (mkDev f t telnet_init 0)
  | _, _ => None
  end.

(* device.c:_disconnect (the part that concerns the byte streams): both buffers are flushed *)
Definition disconnect (d : dev) : dev :=
  mkDev (Cbuf.flush (d_from d)) (Cbuf.flush (d_to d)) (d_tcp d) (d_errs d).
(* tcp_finish_connect_one -> _telnet_init *)
Definition connected (d : dev) : dev := mkDev (d_from d) (d_to d) telnet_init (d_errs d).

(* device.c:_getregex_buf: what the pattern is matched against (None = NULL return before matching), and the
   consumption of a match that ends at offset matchlen *)
Definition memtrans (bytes : list byte) : list byte := map (fun b => if N.eqb b 0 then 255%N else b) bytes.
Definition regex_subject (b : cbuf) : option (list byte) :=
  match Cbuf.peek b (Cbuf.used b) with
  | (n, bytes) => if n <=? 0 then None else Some (memtrans bytes)
  end.
Definition regex_consume (b : cbuf) (matchlen : Z) : cbuf * Z := Cbuf.drop b matchlen.
