(* C17: the static rules a device specification must satisfy (DESIGN §5 C17), as executable functions.

   [spec_failures s] lists every violated rule with the script index and the statement path (indices from the
   top of the script, outermost first); [spec_ok s] says the list is empty.  The same functions, extracted, locate
   the offending statement when a shipped file stops satisfying Properties/C17.v.

   Facts about device.c the rules encode (tied to the code by the translator tables of Gen/GenConsts.v and by
   relation R-CTX, which executes every shipped script through the real _process_action and logs hsprintf's
   arguments):
   * plug argument of a `send` (_process_send): the top execution context of an action has plugs = [p] for a
     singlet script, the non-empty target list for a _ranged script, NULL for _all / login / logout / ping
     (_enqueue_actions, _enqueue_targeted_actions); foreachplug / foreachnode push a context with one plug;
     ifon / ifoff copy the enclosing list and only ever run their block when that list is non-empty.
   * setplugstate / setresult read the match of the LAST executed expect (dev->xmatch): xregex_match_sub_strdup
     asserts that a match was attempted, and returns NULL for a group number above re_nsub or MAX_MATCH_POS.
   * setresult calls act->dpf_fun, NULL for the internally queued login / logout / ping actions. *)
From Coq Require Import List NArith ZArith Bool.
From PM Require Import Base.Bytes Gen.GenConsts Model.ScriptAst Model.RegexSyn Model.Fmt.
Import ListNotations.

(* ---------------------------------------------------------------- script kinds and plug context *)
Inductive kind : Type := KSinglet | KRanged | KAll | KPlain.

Definition zmem (x : Z) (l : list Z) : bool := existsb (Z.eqb x) l.

Definition kind_of (idx : Z) : kind :=
  if zmem idx (map snd ranged_table) then KRanged
  else if zmem idx (map snd all_table) then KAll
  else if zmem idx (map fst all_table) || zmem idx (map fst ranged_table) then KSinglet
  else KPlain.

(* does hsprintf get a non-NULL argument at the top level of a script of this kind? *)
Definition top_arg (k : kind) : bool :=
  match k with KSinglet | KRanged => true | KAll | KPlain => false end.

Definition is_query (idx : Z) : bool := zmem idx query_table.

Definition foreach_allowed (idx : Z) : bool :=
  match kind_of idx with KAll | KRanged => true | _ => is_query idx end.

(* scripts only ever run as internally queued actions: no diagnostic callback *)
Definition no_diag (idx : Z) : bool :=
  Z.eqb idx PM_LOG_IN || Z.eqb idx PM_LOG_OUT || Z.eqb idx PM_PING.

(* ---------------------------------------------------------------- send formats *)
Definition conv_ok (has_arg : bool) (c : conv) : bool :=
  match conv_class c with CPercent => true | CString => has_arg | COther => false end.

Definition count_strings (l : list conv) : nat :=
  length (filter (fun c => match conv_class c with CString => true | _ => false end) l).

Definition send_ok (has_arg : bool) (fmt : text) : bool :=
  let cs := conversions fmt in
  forallb (conv_ok has_arg) cs && Nat.leb (count_strings cs) 1.

(* ---------------------------------------------------------------- group numbers *)
(* what is known about dev->xmatch at a program point: None = possibly no expect has run in this script;
   Some n = an expect has run and every expect that can have been the last one has at least n groups *)
Definition xstate : Type := option nat.

Definition xjoin (a b : xstate) : xstate :=
  match a, b with Some n, Some m => Some (Nat.min n m) | _, _ => None end.

Definition xle (a b : xstate) : bool :=
  match a, b with
  | None, _ => true
  | Some n, Some m => Nat.leb n m
  | Some _, None => false
  end.

Definition ng (re : text) : nat := match ngroups re with Some n => n | None => 0%nat end.

Definition mp_ok (x : xstate) (n : Z) : bool :=
  match x with
  | None => false
  | Some g => Z.leb 0 n && Z.leb n (Z.of_nat g) && Z.leb n MAX_MATCH_POS
  end.

(* the optional first $N of setplugstate: -1 = omitted *)
Definition mp_opt_ok (x : xstate) (n : Z) : bool :=
  match x with None => false | Some _ => Z.eqb n (-1) || mp_ok x n end.

(* state after a statement / a block *)
Fixpoint xout_stmt (x : xstate) (s : stmt) {struct s} : xstate :=
  let blk := fix blk (x : xstate) (l : list stmt) {struct l} : xstate :=
               match l with [] => x | s' :: r => blk (xout_stmt x s') r end in
  match s with
  | Expect re => Some (ng re)
  | ForeachPlug b | ForeachNode b | IfOn b | IfOff b => xjoin x (blk x b)
  | _ => x
  end.

Fixpoint xout_block (x : xstate) (l : list stmt) {struct l} : xstate :=
  match l with [] => x | s :: r => xout_block (xout_stmt x s) r end.

(* ---------------------------------------------------------------- failures *)
Inductive rule : Type :=
| R_LOGIN            (* no login script *)
| R_TIMEOUT          (* timeout not positive *)
| R_SCRIPT_INDEX     (* script index outside 0 .. NUM_SCRIPTS-1 *)
| R_PATTERN          (* regex longer than 256 bytes *)
| R_SEND             (* conversion other than one %s / %%, or %s without a plug argument *)
| R_NOEXPECT         (* setplugstate / setresult not preceded by an expect *)
| R_GROUP            (* $N above the group count of the preceding expect or above MAX_MATCH_POS *)
| R_FOREACH_SCOPE    (* foreachplug / foreachnode in a script kind that must not iterate over all plugs *)
| R_IF_SCOPE         (* ifon / ifoff without a plug context *)
| R_SETRESULT_SCOPE  (* setresult in login / logout / ping *)
| R_LOOP             (* internal: the loop invariant computed for a foreach body is not stable *)
| R_EMPTY.           (* a script or block without statements (the grammar excludes it; _process_stmt would
                        dereference e->cur == NULL) *)

Record failure : Type := mkFail { f_rule : rule; f_script : Z; f_path : list nat }.

Section Script.
  Variable idx : Z.

  Definition fail_if (ok : bool) (r : rule) (path : list nat) : list failure :=
    if ok then [] else [mkFail r idx path].

  Definition pat_ok (re : text) : bool := match ngroups re with Some _ => true | None => false end.

  Definition interps_fail (path : list nat) (l : list (Z * text)) : list failure :=
    fail_if (forallb (fun p => pat_ok (snd p)) l) R_PATTERN path.

  Definition has_expect (x : xstate) : bool := match x with Some _ => true | None => false end.

  Definition nonempty (l : list stmt) : bool := match l with [] => false | _ :: _ => true end.

  Fixpoint check_stmt (arg : bool) (x : xstate) (path : list nat) (s : stmt) {struct s} : list failure :=
    let blk := fix blk (arg : bool) (x : xstate) (path : list nat) (i : nat) (l : list stmt) {struct l}
                 : list failure :=
                 match l with
                 | [] => []
                 | s' :: r => check_stmt arg x (path ++ [i]) s' ++ blk arg (xout_stmt x s') path (S i) r
                 end in
    match s with
    | Send fmt => fail_if (send_ok arg fmt) R_SEND path
    | Expect re => fail_if (pat_ok re) R_PATTERN path
    | SetPlugState lit p q interps =>
        fail_if (has_expect x) R_NOEXPECT path ++
        fail_if (match lit with Some _ => true | None => negb (has_expect x) || mp_opt_ok x p end) R_GROUP path ++
        fail_if (negb (has_expect x) || mp_ok x q) R_GROUP path ++
        interps_fail path interps
    | SetResult p q interps =>
        fail_if (negb (no_diag idx)) R_SETRESULT_SCOPE path ++
        fail_if (has_expect x) R_NOEXPECT path ++
        fail_if (negb (has_expect x) || mp_ok x p) R_GROUP path ++
        fail_if (negb (has_expect x) || mp_ok x q) R_GROUP path ++
        interps_fail path interps
    | Delay _ => []
    | ForeachPlug b | ForeachNode b =>
        let e := xjoin x (xout_block x b) in
        fail_if (nonempty b) R_EMPTY path ++
        fail_if (foreach_allowed idx) R_FOREACH_SCOPE path ++
        fail_if (xle e (xout_block e b)) R_LOOP path ++
        blk true e path 0%nat b
    | IfOn b | IfOff b =>
        fail_if (nonempty b) R_EMPTY path ++
        fail_if arg R_IF_SCOPE path ++
        blk arg x path 0%nat b
    end.

  Fixpoint check_block (arg : bool) (x : xstate) (path : list nat) (i : nat) (l : list stmt) {struct l}
    : list failure :=
    match l with
    | [] => []
    | s :: r => check_stmt arg x (path ++ [i]) s ++ check_block arg (xout_stmt x s) path (S i) r
    end.

  (* every `send` of a block with the plug-argument presence device.c gives it (R-CTX compares this list with
     the hsprintf calls of the real interpreter) *)
  Fixpoint sends_stmt (arg : bool) (path : list nat) (s : stmt) {struct s} : list (list nat * text * bool) :=
    let blk := fix blk (arg : bool) (path : list nat) (i : nat) (l : list stmt) {struct l}
                 : list (list nat * text * bool) :=
                 match l with
                 | [] => []
                 | s' :: r => sends_stmt arg (path ++ [i]) s' ++ blk arg path (S i) r
                 end in
    match s with
    | Send fmt => [(path, fmt, arg)]
    | ForeachPlug b | ForeachNode b => blk true path 0%nat b
    | IfOn b | IfOff b => blk arg path 0%nat b
    | _ => []
    end.

  Fixpoint sends_block (arg : bool) (path : list nat) (i : nat) (l : list stmt) {struct l}
    : list (list nat * text * bool) :=
    match l with
    | [] => []
    | s :: r => sends_stmt arg (path ++ [i]) s ++ sends_block arg path (S i) r
    end.
End Script.

Definition check_script (sc : Z * list stmt) : list failure :=
  let '(idx, body) := sc in
  fail_if idx (Z.leb 0 idx && Z.ltb idx NUM_SCRIPTS) R_SCRIPT_INDEX [] ++
  fail_if idx (nonempty body) R_EMPTY [] ++
  check_block idx (top_arg (kind_of idx)) None [] 0%nat body.

Definition script_sends (sc : Z * list stmt) : list (list nat * text * bool) :=
  let '(idx, body) := sc in sends_block (top_arg (kind_of idx)) [] 0%nat body.

Definition has_login (s : spec) : bool :=
  match assoc_script PM_LOG_IN (sp_scripts s) with Some _ => true | None => false end.

Definition spec_failures (s : spec) : list failure :=
  fail_if PM_LOG_IN (has_login s) R_LOGIN [] ++
  fail_if (-1)%Z (Z.ltb 0 (sp_timeout s)) R_TIMEOUT [] ++
  flat_map check_script (sp_scripts s).

Definition spec_ok (s : spec) : bool :=
  match spec_failures s with [] => true | _ :: _ => false end.

(* statistics for the evidence *)
Definition spec_nstmts (s : spec) : nat :=
  fold_right (fun sc acc => (fold_right (fun st a => stmt_size st + a) 0 (snd sc) + acc)%nat) 0%nat (sp_scripts s).
