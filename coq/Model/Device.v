(* The per-device state machine of device.c:
     _process_action (queue, time-outs, completion, abort of the queue), _act_completion,
     _enqueue_actions (login / ping / client actions), _rewind_action, _disconnect, _connect, _reconnect,
     _time_to_reconnect (back-off table from GenConsts), _enqueue_ping, _handle_ready_device,
     one iteration of dev_post_poll's loop body (post_poll_one).
   The fuel of _process_action's loop is computed from the queue handed to it (pa_fuel, Model/DeviceFuel.v): it always
   suffices (Proofs/DeviceHang.v), so `Hang 2` is unreachable; the do..while round keeps its constant fuel 8 = nesting depth.
   The transport (connect / finish_connect / disconnect methods, the descriptor) is abstract: its answers are
   inputs of the pass.  No proofs in this file. *)
From Coq Require Import List NArith ZArith Bool.
From PM Require Import Base.Bytes Base.Outcome Base.Dec Gen.GenConsts Gen.GenCbuf Model.ScriptAst Model.Enqueue Model.Script Model.DeviceFuel.
Import ListNotations.
Local Open Scope Z_scope.

Record device : Type := mkDevice {
  dv : sdev;                             (* name, plugs, from, to, xmatch *)
  dv_scripts : list (Z * list stmt);     (* defined scripts *)
  dv_timeout : Z;                        (* microseconds *)
  dv_ping_period : Z;
  dv_cstate : Z;                         (* DEV_NOT_CONNECTED / DEV_CONNECTING / DEV_CONNECTED *)
  dv_logged_in : bool;
  dv_has_fd : bool;                      (* dev->fd != NO_FD *)
  dv_acts : list action;                 (* head first *)
  dv_last_retry : Z;
  dv_retry_count : Z;
  dv_last_ping : Z;
  dv_succ_conn : Z;
  dv_succ_acts : Z;
  dv_from_size : Z                       (* dev->from->size: the circular buffer only ever grows (cbuf_shrink is a stub);
                                            it decides how many bytes one read() asks for *)
}.
Definition upd_sdev f d := mkDevice (f (dv d)) (dv_scripts d) (dv_timeout d) (dv_ping_period d) (dv_cstate d) (dv_logged_in d) (dv_has_fd d) (dv_acts d) (dv_last_retry d) (dv_retry_count d) (dv_last_ping d) (dv_succ_conn d) (dv_succ_acts d) (dv_from_size d).
Definition set_conn (cs : Z) (li fd : bool) d := mkDevice (dv d) (dv_scripts d) (dv_timeout d) (dv_ping_period d) cs li fd (dv_acts d) (dv_last_retry d) (dv_retry_count d) (dv_last_ping d) (dv_succ_conn d) (dv_succ_acts d) (dv_from_size d).
Definition set_acts x d := mkDevice (dv d) (dv_scripts d) (dv_timeout d) (dv_ping_period d) (dv_cstate d) (dv_logged_in d) (dv_has_fd d) x (dv_last_retry d) (dv_retry_count d) (dv_last_ping d) (dv_succ_conn d) (dv_succ_acts d) (dv_from_size d).
Definition set_retry (lr rc : Z) d := mkDevice (dv d) (dv_scripts d) (dv_timeout d) (dv_ping_period d) (dv_cstate d) (dv_logged_in d) (dv_has_fd d) (dv_acts d) lr rc (dv_last_ping d) (dv_succ_conn d) (dv_succ_acts d) (dv_from_size d).
Definition set_last_ping x d := mkDevice (dv d) (dv_scripts d) (dv_timeout d) (dv_ping_period d) (dv_cstate d) (dv_logged_in d) (dv_has_fd d) (dv_acts d) (dv_last_retry d) (dv_retry_count d) x (dv_succ_conn d) (dv_succ_acts d) (dv_from_size d).
Definition set_stats (c a : Z) d := mkDevice (dv d) (dv_scripts d) (dv_timeout d) (dv_ping_period d) (dv_cstate d) (dv_logged_in d) (dv_has_fd d) (dv_acts d) (dv_last_retry d) (dv_retry_count d) (dv_last_ping d) c a (dv_from_size d).
Definition set_from_size x d := mkDevice (dv d) (dv_scripts d) (dv_timeout d) (dv_ping_period d) (dv_cstate d) (dv_logged_in d) (dv_has_fd d) (dv_acts d) (dv_last_retry d) (dv_retry_count d) (dv_last_ping d) (dv_succ_conn d) (dv_succ_acts d) x.

(* cbuf_write_from_fd(dev->from, fd, -1): asks for all the free space, or for one chunk (growing the buffer first,
   up to MAX_DEV_BUF) when there is none; at the maximum size the oldest bytes are overwritten *)
Definition from_free (d : device) : Z := dv_from_size d - Z.of_nat (length (sd_from (dv d))).
Definition read_len (d : device) : Z := if from_free d <=? 0 then CBUF_CHUNK else from_free d.
Definition grow_size (size n : Z) : Z :=
  let m := size + CBUF_META + n in
  let m := m + (CBUF_CHUNK - m mod CBUF_CHUNK) in
  Z.min m (MAX_DEV_BUF + CBUF_META) - CBUF_META.
Definition after_read_size (d : device) : Z :=
  if (from_free d <=? 0) && (dv_from_size d <? MAX_DEV_BUF) then grow_size (dv_from_size d) CBUF_CHUNK else dv_from_size d.

Definition connected (d : device) : bool := Z.eqb (dv_cstate d) DEV_CONNECTED.

Definition SITE_LOGIN_NULL : nat := 20.      (* _create_exec_ctx on a NULL script: list_iterator_create(NULL) *)
Definition SITE_CB_NULL : nat := 21.         (* _act_completion: assert(complete_fun) -- guarded, unreachable *)
Definition SITE_READY_NOTCONN : nat := 22.   (* _handle_ready_device: assert(connect_state != NOT_CONNECTED) *)
Definition SITE_READY_NOFD : nat := 23.      (* _handle_ready_device: assert(fd != NO_FD) *)
Definition SITE_CONNECT_HASFD : nat := 24.   (* transport connect: assert(fd == NO_FD) / assert(NOT_CONNECTED) *)

(* answers of the transport / descriptor for one pass *)
Inductive cplan := ConnNow | ConnPending | ConnFail.
Record passin : Type := mkPassin {
  pi_hup : bool; pi_err : bool; pi_nval : bool; pi_out : bool; pi_in : bool;      (* revents *)
  pi_read : option text;                 (* what a read delivers (at most read_len bytes): None = error or EOF *)
  pi_wrote : option nat;                 (* how many bytes a write accepts: None = error *)
  pi_finish_ok : bool;                   (* finish_connect succeeds *)
  pi_plans : list cplan;                 (* answers of connect(), one per attempt in this pass *)
  pi_pre : option (text * text)          (* the transport's preprocess method applied to the bytes just read (telnet filter of
                                            device_tcp.c): (what stays in dev->from in place of the raw bytes, option replies
                                            appended to dev->to); None = no preprocess method, or nothing read *)
}.

(* _update_timeout on an optional time-out (None = timerclear) *)
Definition upd_tmo (t : option Z) (v : Z) : option Z :=
  match t with None => Some v | Some x => if v <? x then Some v else Some x end.

Definition completion_msg (d : device) (err : Z) : text :=
  let n := sd_name (dv d) in
  if Z.eqb err ACT_ECONNECTTIMEOUT then n ++ (bslit ": connect timeout")
  else if Z.eqb err ACT_ELOGINTIMEOUT then n ++ (bslit ": login timeout")
  else if Z.eqb err ACT_EEXPFAIL then n ++ (bslit ": action timed out waiting for expected response")
  else if Z.eqb err ACT_EABORT then n ++ (bslit ": action aborted due to previous action timeout")
  else [].
Definition complete (d : device) (a : action) : list ev :=
  if a_hascb a then [EvComplete (a_client a) (a_err a) (completion_msg d (a_err a))] else [].

Definition backoff (rc : Z) : Z :=       (* microseconds to wait after the rc-th attempt, rc >= 1 *)
  nth (Z.to_nat (rc - 1)) backoff_table (last backoff_table 0).

(* the potential of the queue (Model/DeviceFuel.v) with P := the number of plugs of the device, and the fuel process_action gets:
   every iteration of _process_action's loop that does not leave it lowers psi by at least one *)
Definition psi (d : device) : nat := Psi_l (length (sd_plugs (dv d))) (dv_acts d).
Definition pa_fuel (d : device) : nat := S (S (psi d)).

Section Dev.
  Variable rmatch : text -> text -> option pmatch.
  Variable compress : list text -> text.
  Variable short_circuit : bool.

  (* _enqueue_actions for PM_LOG_IN: rewind the head, prepend the login action *)
  Definition enqueue_login (d : device) : outcome device :=
    match assoc_script PM_LOG_IN (dv_scripts d) with
    | None => Abort SITE_LOGIN_NULL
    | Some s =>
        let acts := match dv_acts d with [] => [] | h :: r => rewind_action h :: r end in
        Ok (set_acts (create_action s PM_LOG_IN None 0 false false false None :: acts) d)
    end.

  (* _disconnect *)
  Definition disconnect (d : device) : device * list ev :=
    let d1 := upd_sdev (fun s => set_to [] (set_from [] s)) d in
    let d2 := set_conn DEV_NOT_CONNECTED false false d1 in
    let d3 := match dv_acts d2 with
              | h :: r => if Z.eqb (a_com h) PM_LOG_IN then set_acts r d2 else d2
              | [] => d2 end in
    (d3, [EvDisconnect]).

  (* _connect: the transport's connect method answers with the head of the plan list *)
  Definition connect (now : Z) (d : device) (plans : list cplan) : outcome (device * list ev * list cplan) :=
    if dv_has_fd d || negb (Z.eqb (dv_cstate d) DEV_NOT_CONNECTED) then Abort SITE_CONNECT_HASFD else
    let d1 := set_retry now (dv_retry_count d + 1) d in
    match plans with
    | ConnNow :: r =>
        let d2 := set_stats (dv_succ_conn d1 + 1) (dv_succ_acts d1) (set_conn DEV_CONNECTED false true d1) in
        match enqueue_login d2 with
        | Ok d3 => Ok (d3, [EvConnect], r)
        | Exit c s => Exit c s | Abort s => Abort s | MemErr s => MemErr s | Hang s => Hang s
        end
    | ConnPending :: r => Ok (set_conn DEV_CONNECTING false true d1, [EvConnect], r)
    | ConnFail :: r => Ok (d1, [EvConnect], r)
    | [] => Ok (d1, [EvConnect], [])                 (* exhausted plan list: treated as a refused attempt *)
    end.

  Definition time_to_reconnect (now : Z) (d : device) (tmo : option Z) : bool * option Z :=
    if 0 <? dv_retry_count d then
      let limit := dv_last_retry d + backoff (dv_retry_count d) in
      if limit <=? now then (true, tmo) else (false, upd_tmo tmo (limit - now))
    else (true, tmo).

  Definition reconnect (now : Z) (d : device) (tmo : option Z) (plans : list cplan)
    : outcome (device * list ev * option Z * list cplan) :=
    let '(d1, e1) := if Z.eqb (dv_cstate d) DEV_NOT_CONNECTED then (d, []) else disconnect d in
    let '(go, tmo1) := time_to_reconnect now d1 tmo in
    if go then
      match connect now d1 plans with
      | Ok (d2, e2, pl) => Ok (d2, e1 ++ e2, tmo1, pl)
      | Exit c s => Exit c s | Abort s => Abort s | MemErr s => MemErr s | Hang s => Hang s
      end
    else Ok (d1, e1, tmo1, plans).

  Definition enqueue_ping (now : Z) (d : device) (tmo : option Z) : device * option Z :=
    match assoc_script PM_PING (dv_scripts d) with
    | Some s =>
      if Z.eqb (dv_ping_period d) 0 then (d, tmo)
      else if dv_last_ping d + dv_ping_period d <=? now
           then (set_last_ping now (set_acts (dv_acts d ++ [create_action s PM_PING None 0 false false false None]) d), tmo)
           else (d, upd_tmo tmo (dv_last_ping d + dv_ping_period d - now))
    | None => (d, tmo)
    end.

  (* the error branch of _process_action: complete the head, abort the rest *)
  Definition fail_queue (d : device) (h : action) (rest : list action) : list ev :=
    let res := a_err h in
    complete d h ++
    flat_map (fun a => complete d (set_err (if Z.eqb res ACT_EEXPFAIL then ACT_EABORT else res) a)) rest.

  Definition timeout_err (d : device) : Z :=
    if negb (connected d) then ACT_ECONNECTTIMEOUT else if negb (dv_logged_in d) then ACT_ELOGINTIMEOUT else ACT_EEXPFAIL.
  Definition timeout_tele (d : device) (act : action) : list ev :=
    if a_tele act then
      [EvTele (a_client act)
         (if negb (connected d) then (bslit "connect(") ++ sd_name (dv d) ++ (bslit "): timeout")
          else msg_recv (dv d) (memstr (firstn (Z.to_nat MAX_DEV_BUF) (sd_from (dv d)))))]
    else [].

  (* result of one iteration of _process_action's while loop *)
  Inductive pa_res : Type :=
  | PaDone (d : device) (store : list arglist) (tmo : option Z) (plans : list cplan) (evs : list ev)   (* the loop ends *)
  | PaNext (d : device) (store : list arglist) (tmo : option Z) (evs : list ev).                       (* a statement finished: again *)

  (* the error branch: complete the head, abort the rest, and reconnect if the device was connected (then `break`) *)
  Definition fail_and_reconnect (now : Z) (d : device) (act : action) (rest : list action) (store : list arglist)
             (tmo : option Z) (plans : list cplan) (pre : list ev) : outcome pa_res :=
    let evs := pre ++ fail_queue d act rest in
    let d1 := set_acts [] d in
    if connected d1 then
      match reconnect now d1 tmo plans with
      | Ok (d2, e2, tmo2, pl) => Ok (PaDone d2 store tmo2 pl (evs ++ e2))
      | Exit c s => Exit c s | Abort s => Abort s | MemErr s => MemErr s | Hang s => Hang s
      end
    else Ok (PaDone d1 store tmo plans evs).

  Definition pa_step (now : Z) (d : device) (store : list arglist) (tmo : option Z) (plans : list cplan) : outcome pa_res :=
    match dv_acts d with
    | [] => Ok (PaDone d store tmo plans [])
    | act0 :: rest =>
      match a_exec act0 with
      | [] => Abort SITE_NO_CTX
      | _ =>
        let stamp := match a_stamp act0 with Some t => t | None => now end in
        let act := set_stamp (Some stamp) act0 in
        let limit := stamp + dv_timeout d in
        if limit <=? now then
          fail_and_reconnect now d (set_err (timeout_err d) act) rest store tmo plans (timeout_tele d act)       (* timed out *)
        else if negb (connected d) then
          Ok (PaDone (set_acts (act :: rest) d) store (upd_tmo tmo (limit - now)) plans [])                     (* stalled: not connected *)
        else
          match do_while rmatch compress short_circuit 8 now (dv d) act store [] None with
          | Ok ((fin, sd', act', store', evs), dt) =>
            let d1 := upd_sdev (fun _ => sd') d in
            let tmo1 := match dt with Some v => upd_tmo tmo v | None => tmo end in
            if negb fin then
              Ok (PaDone (set_acts (act' :: rest) d1) store' (upd_tmo tmo1 (limit - now)) plans evs)            (* stalled *)
            else if Z.eqb (a_err act') ACT_ESUCCESS then
              let act'' := advance act' in
              match a_exec act'' with
              | [] =>
                  let d2 := if Z.eqb (a_com act'') PM_LOG_IN then set_conn (dv_cstate d1) true (dv_has_fd d1) d1 else d1 in
                  let d3 := set_stats (dv_succ_conn d2) (dv_succ_acts d2 + 1) (set_acts rest d2) in
                  Ok (PaNext d3 store' tmo1 (evs ++ complete d2 act''))
              | _ => Ok (PaNext (set_acts (act'' :: rest) d1) store' tmo1 evs)
              end
            else fail_and_reconnect now d1 act' rest store' tmo1 plans evs
          | Exit c s => Exit c s | Abort s => Abort s | MemErr s => MemErr s | Hang s => Hang s
          end
      end
    end.

  Fixpoint process_action (fuel : nat) (now : Z) (d : device) (store : list arglist) (tmo : option Z) (plans : list cplan) (acc : list ev)
    : outcome (device * list arglist * option Z * list cplan * list ev) :=
    match fuel with
    | O => Hang 2
    | S f =>
      match pa_step now d store tmo plans with
      | Ok (PaDone d' store' tmo' pl' evs) => Ok (d', store', tmo', pl', acc ++ evs)
      | Ok (PaNext d' store' tmo' evs) => process_action f now d' store' tmo' plans (acc ++ evs)
      | Exit c s => Exit c s | Abort s => Abort s | MemErr s => MemErr s | Hang s => Hang s
      end
    end.

  (* _handle_ready_device: returns (ioerr, device, events) *)
  Definition handle_ready (d : device) (pin : passin) : outcome (bool * device * list ev) :=
    if Z.eqb (dv_cstate d) DEV_NOT_CONNECTED then Abort SITE_READY_NOTCONN
    else if negb (dv_has_fd d) then Abort SITE_READY_NOFD
    else if pi_hup pin || pi_err pin || pi_nval pin then Ok (true, d, [])
    else
      let after_out : outcome (bool * bool * device * list ev) :=      (* (ioerr, skip_read, ...) *)
        if pi_out pin then
          if Z.eqb (dv_cstate d) DEV_CONNECTING then
            if pi_finish_ok pin then
              let d1 := set_stats (dv_succ_conn d + 1) (dv_succ_acts d) (set_conn DEV_CONNECTED false true d) in
              match enqueue_login d1 with
              | Ok d2 => Ok (false, true, d2, [])
              | Exit c s => Exit c s | Abort s => Abort s | MemErr s => MemErr s | Hang s => Hang s
              end
            else Ok (true, true, set_conn DEV_NOT_CONNECTED false false d, [])   (* the transport closed the descriptor *)
          else
            match pi_wrote pin with
            | None | Some O => Ok (true, true, d, [])
            | Some n => Ok (false, false, upd_sdev (fun s => set_to (skipn n (sd_to s)) s) d, [EvWrote (firstn n (sd_to (dv d)))])
            end
        else Ok (false, false, d, []) in
      match after_out with
      | Ok (true, _, d1, e1) => Ok (true, d1, e1)
      | Ok (false, true, d1, e1) => Ok (false, d1, e1)
      | Ok (false, false, d1, e1) =>
          if pi_in pin then
            let d1g := set_from_size (after_read_size d1) d1 in      (* the buffer grows before read() is called *)
            match pi_read pin with
            | None | Some [] => Ok (true, d1g, e1)
            | Some b =>
                (* the raw bytes go through the circular buffer first (overwriting the oldest when full) ... *)
                let d2 := upd_sdev (fun s => set_from (lastn (Z.to_nat MAX_DEV_BUF) (sd_from s ++ b)) s) d1g in
                (* ... then dev->preprocess(dev, n) rewrites the last n bytes of the buffer and may queue replies *)
                let d3 := match pi_pre pin with
                          | None => d2
                          | Some (kept, reply) =>
                              (* _telnet_sendopt: cbuf_write into dev->to (CBUF_WRAP_MANY: the oldest unsent bytes are overwritten
                                 once the buffer holds MAX_DEV_BUF bytes) *)
                              upd_sdev (fun s => set_to (lastn (Z.to_nat MAX_DEV_BUF) (sd_to s ++ reply))
                                                   (set_from (firstn (length (sd_from s) - length b) (sd_from s) ++ kept) s)) d2
                          end in
                Ok (false, d3, e1 ++ [EvRead (length b)])
            end
          else Ok (false, d1, e1)
      | Exit c s => Exit c s | Abort s => Abort s | MemErr s => MemErr s | Hang s => Hang s
      end.

  Definition any_flag (pin : passin) : bool := pi_hup pin || pi_err pin || pi_nval pin || pi_out pin || pi_in pin.

  (* the body of dev_post_poll's loop for one device *)
  Definition post_poll_one (now : Z) (d : device) (store : list arglist) (tmo : option Z) (pin : passin)
    : outcome (device * list arglist * option Z * list ev) :=
    let r0 := if dv_has_fd d && any_flag pin then handle_ready d pin else Ok (false, d, []) in
    match r0 with
    | Ok (ioerr, d1, e1) =>
      let r1 := if ioerr || Z.eqb (dv_cstate d1) DEV_NOT_CONNECTED
                then reconnect now d1 tmo (pi_plans pin) else Ok (d1, [], tmo, pi_plans pin) in
      match r1 with
      | Ok (d2, e2, tmo2, pl) =>
        let '(d3, tmo3) := if connected d2 then enqueue_ping now d2 tmo2 else (d2, tmo2) in
        match process_action (pa_fuel d3) now d3 store tmo3 pl (e1 ++ e2) with
        | Ok (d4, store4, tmo4, _, evs) => Ok (d4, store4, tmo4, evs)
        | Exit c s => Exit c s | Abort s => Abort s | MemErr s => MemErr s | Hang s => Hang s
        end
      | Exit c s => Exit c s | Abort s => Abort s | MemErr s => MemErr s | Hang s => Hang s
      end
    | Exit c s => Exit c s | Abort s => Abort s | MemErr s => MemErr s | Hang s => Hang s
    end.

  (* client actions appended by dev_enqueue_actions (Model/Enqueue.v decides which) *)
  Definition append_client_action (d : device) (q : qact) (client : Z) (tele : bool) (args : nat) : outcome device :=
    match assoc_script (qa_com q) (dv_scripts d) with
    | None => Abort SITE_LOGIN_NULL
    | Some s => Ok (set_acts (dv_acts d ++ [create_action s (qa_com q) (qa_plugs q) client true tele true (Some args)]) d)
    end.
  (* "if (count > 0 && dev->connect_state != DEV_CONNECTED) dev->retry_count = 0" *)
  Definition expedite (d : device) : device :=
    if connected d then d else set_retry (dv_last_retry d) 0 d.
End Dev.
