(* Executable model of src/liblsd/cbuf.c (the part powerman uses), mirroring the C struct and the C control
   flow function by function.  NO proofs here (Proofs/Cbuf*.v).  Tied to the code by R-CBUF (harness/cbuf_h.c
   vs driver/cbuf_drv.ml: return values, bytes delivered, dropped counts and (size, used, i_in, i_out, i_rep,
   got_wrap) after every operation) and by Gen/GenCbuf.v (CBUF_CHUNK, allocation overhead, overwrite enum).

   Conventions: C `int` = Z; bytes = N; the data array is a list of size+1 slots (the C array has `alloc`
   bytes, of which size+1 are addressable through the indices; the magic cookies around it are not modelled,
   an index outside 0..size is what the invariant excludes).  realloc() is assumed to succeed; the bytes it
   adds are unspecified in C and 0 here (they are never read before being written: grow_spec in Proofs/CbufWrite.v).
   WITH_PTHREADS is off in powerman's build: the mutex macros are empty. *)
From Coq Require Import List ZArith Bool Lia.
From PM Require Import Base.Bytes Gen.GenCbuf.
Import ListNotations.
Local Open Scope Z_scope.

(* ---- Z-indexed list helpers ------------------------------------------------------------------------- *)
Definition zlen {A} (l : list A) : Z := Z.of_nat (length l).
Definition ztake {A} (n : Z) (l : list A) : list A := firstn (Z.to_nat n) l.
Definition zdrop {A} (n : Z) (l : list A) : list A := skipn (Z.to_nat n) l.
Definition zeros (n : Z) : list byte := repeat 0%N (Z.to_nat n).
(* memcpy (data + i, bytes, |bytes|) *)
Definition splice (data : list byte) (i : Z) (bytes : list byte) : list byte :=
  ztake i data ++ bytes ++ zdrop (i + zlen bytes) data.

(* ---- struct cbuf ------------------------------------------------------------------------------------ *)
Inductive mode := NO_DROP | WRAP_ONCE | WRAP_MANY.

Definition mode_of_Z (v : Z) : option mode :=
  if v =? CBUF_NO_DROP then Some NO_DROP
  else if v =? CBUF_WRAP_ONCE then Some WRAP_ONCE
  else if v =? CBUF_WRAP_MANY then Some WRAP_MANY
  else None.

Definition Z_of_mode (m : mode) : Z :=
  match m with NO_DROP => CBUF_NO_DROP | WRAP_ONCE => CBUF_WRAP_ONCE | WRAP_MANY => CBUF_WRAP_MANY end.

Record cbuf := mk {
  cb_alloc : Z;            (* num bytes malloc'd/realloc'd      *)
  cb_minsize : Z;          (* min bytes of data to allocate     *)
  cb_maxsize : Z;          (* max bytes of data to allocate     *)
  cb_size : Z;             (* num bytes of data allocated       *)
  cb_used : Z;             (* num bytes of unread data          *)
  cb_overwrite : mode;     (* overwrite option behavior         *)
  cb_got_wrap : bool;      (* true if data has wrapped          *)
  cb_i_in : Z;             (* index to where data is written in *)
  cb_i_out : Z;            (* index to where data is read out   *)
  cb_i_rep : Z;            (* index to where data is replayable *)
  cb_data : list byte      (* size+1 slots                      *)
}.

Definition default_mode : mode :=
  match mode_of_Z CBUF_DEFAULT_OVERWRITE with Some m => m | None => WRAP_MANY end.

(* cbuf_create: NULL (None) when minsize <= 0 *)
Definition create (minsize maxsize : Z) : option cbuf :=
  if minsize <=? 0 then None
  else Some {| cb_alloc := minsize + CBUF_META;
               cb_minsize := minsize;
               cb_maxsize := if maxsize >? minsize then maxsize else minsize;
               cb_size := minsize; cb_used := 0; cb_overwrite := default_mode; cb_got_wrap := false;
               cb_i_in := 0; cb_i_out := 0; cb_i_rep := 0;
               cb_data := zeros (minsize + 1) |}.

(* cbuf_is_valid: every assert of the C predicate except the pointer / cookie / mutex ones *)
Definition is_valid (cb : cbuf) : bool :=
  let S := cb_size cb + 1 in
  (0 <? cb_alloc cb) && (cb_size cb <? cb_alloc cb) && (0 <? cb_size cb)
  && (cb_minsize cb <=? cb_size cb) && (cb_size cb <=? cb_maxsize cb)
  && (0 <? cb_minsize cb) && (0 <? cb_maxsize cb)
  && (0 <=? cb_used cb) && (cb_used cb <=? cb_size cb)
  && (cb_got_wrap cb || (cb_i_rep cb =? 0))
  && (0 <=? cb_i_in cb) && (cb_i_in cb <=? cb_size cb)
  && (0 <=? cb_i_out cb) && (cb_i_out cb <=? cb_size cb)
  && (0 <=? cb_i_rep cb) && (cb_i_rep cb <=? cb_size cb)
  && (if cb_i_out cb <=? cb_i_in cb
      then (cb_i_in cb <? cb_i_rep cb) || (cb_i_rep cb <=? cb_i_out cb)
      else (cb_i_in cb <? cb_i_rep cb) && (cb_i_rep cb <=? cb_i_out cb))
  && (cb_size cb - cb_used cb =? (cb_i_out cb - cb_i_in cb - 1 + S) mod S).

(* the FIFO view: unread bytes in order *)
Definition abs (cb : cbuf) : list byte :=
  ztake (cb_used cb) (zdrop (cb_i_out cb) (cb_data cb) ++ ztake (cb_i_out cb) (cb_data cb)).

Definition used (cb : cbuf) : Z := cb_used cb.
Definition free (cb : cbuf) : Z := cb_maxsize cb - cb_used cb.
Definition is_empty (cb : cbuf) : bool := cb_used cb =? 0.

Definition flush (cb : cbuf) : cbuf :=
  mk (cb_alloc cb) (cb_minsize cb) (cb_maxsize cb) (cb_size cb) 0 (cb_overwrite cb) false 0 0 0 (cb_data cb).

(* cbuf_opt_set (cb, CBUF_OPT_OVERWRITE, value): -1 (EINVAL) for a value outside the enum *)
Definition opt_set_overwrite (cb : cbuf) (value : Z) : cbuf * Z :=
  match mode_of_Z value with
  | Some m => (mk (cb_alloc cb) (cb_minsize cb) (cb_maxsize cb) (cb_size cb) (cb_used cb) m (cb_got_wrap cb)
                  (cb_i_in cb) (cb_i_out cb) (cb_i_rep cb) (cb_data cb), 0)
  | None => (cb, -1)
  end.

(* ---- cbuf_grow -------------------------------------------------------------------------------------- *)
(* returns the new buffer and the number of bytes by which it has grown *)
Definition grow (cb : cbuf) (n : Z) : cbuf * Z :=
  if cb_size cb =? cb_maxsize cb then (cb, 0)
  else
    let size_old := cb_size cb in
    let size_meta := cb_alloc cb - cb_size cb in
    let m := cb_alloc cb + n in
    let m := m + (CBUF_CHUNK - m mod CBUF_CHUNK) in
    let m := Z.min m (cb_maxsize cb + size_meta) in
    let size' := m - size_meta in
    let data_ext := cb_data cb ++ zeros (m - cb_alloc cb) in
    if cb_i_in cb <? cb_i_rep cb then
      (* replay (and maybe unread) data wraps around the old end: move [i_rep, size_old] to the new end *)
      let n := size_old + 1 - cb_i_rep cb in
      let mm := size' + 1 - n in
      let data' := ztake mm data_ext ++ zdrop (cb_i_rep cb) (cb_data cb) in
      let i_out' := if cb_i_rep cb <=? cb_i_out cb then cb_i_out cb + (mm - cb_i_rep cb) else cb_i_out cb in
      (mk m (cb_minsize cb) (cb_maxsize cb) size' (cb_used cb) (cb_overwrite cb) (cb_got_wrap cb)
          (cb_i_in cb) i_out' mm data', size' - size_old)
    else
      (mk m (cb_minsize cb) (cb_maxsize cb) size' (cb_used cb) (cb_overwrite cb) (cb_got_wrap cb)
          (cb_i_in cb) (cb_i_out cb) (cb_i_rep cb) data_ext, size' - size_old).

(* ---- sources (getf) --------------------------------------------------------------------------------- *)
(* what successive read() calls on the descriptor find: data available (a read of n bytes takes
   min n |bs| of them, the rest stays for the next read), end of file (0), or an error such as EAGAIN (-1) *)
Inductive fdres := FdData (bs : list byte) | FdEof | FdAgain.
Inductive source := SrcMem (bs : list byte) | SrcFd (script : list fdres).

Definition getf (s : source) (n : Z) : Z * list byte * source :=
  match s with
  | SrcMem bs => (n, ztake n bs, SrcMem (zdrop n bs))
  | SrcFd [] => (-1, [], SrcFd [])
  | SrcFd (FdData bs :: r) =>
      let c := ztake n bs in
      let rest := zdrop n bs in
      (zlen c, c, SrcFd (match rest with [] => r | _ => FdData rest :: r end))
  | SrcFd (FdEof :: r) => (0, [], SrcFd r)
  | SrcFd (FdAgain :: r) => (-1, [], SrcFd r)
  end.

(* the copy loop of cbuf_writer; S = size+1.  Returns (data, i_dst, nleft, src, m) at loop exit *)
Fixpoint wloop (fuel : nat) (S : Z) (data : list byte) (i_dst nleft : Z) (src : source) (m_last : Z)
  : list byte * Z * Z * source * Z :=
  match fuel with
  | O => (data, i_dst, nleft, src, m_last)
  | Datatypes.S f =>
      if nleft <=? 0 then (data, i_dst, nleft, src, m_last)
      else
        let n := Z.min nleft (S - i_dst) in
        match getf src n with
        | (m, bytes, src') =>
            if 0 <? m then
              if n =? m then wloop f S (splice data i_dst bytes) ((i_dst + m) mod S) (nleft - m) src' m
              else (splice data i_dst bytes, (i_dst + m) mod S, nleft - m, src', m)
            else (data, i_dst, nleft, src', m)       (* n > 0 so n <> m: break *)
        end
  end.

(* grow if needed; returns the buffer and nfree as the C computes it *)
Definition writer_prep (cb : cbuf) (len : Z) : cbuf * Z :=
  let nfree := cb_size cb - cb_used cb in
  if (nfree <? len) && (cb_size cb <? cb_maxsize cb)
  then match grow cb (len - nfree) with (cb', g) => (cb', nfree + g) end
  else (cb, nfree).

(* number of bytes to write; None = ENOSPC *)
Definition writer_len (cb : cbuf) (len : Z) : option Z :=
  match cb_overwrite cb with
  | NO_DROP => let l := Z.min len (cb_size cb - cb_used cb) in if l =? 0 then None else Some l
  | WRAP_ONCE => Some (Z.min len (cb_size cb))
  | WRAP_MANY => Some len
  end.

(* metadata update after n > 0 bytes were copied and the write index reached i_dst *)
Definition writer_commit (cb : cbuf) (nfree n i_dst : Z) (data : list byte) : cbuf :=
  let S := cb_size cb + 1 in
  let nrepl := (cb_i_out cb - cb_i_rep cb + S) mod S in
  let used' := Z.min (cb_used cb + n) (cb_size cb) in
  let wrap := nfree - nrepl <? n in
  let got_wrap' := if wrap then true else cb_got_wrap cb in
  let i_rep' := if wrap then (i_dst + 1) mod S else cb_i_rep cb in
  let i_out' := if nfree <? n then i_rep' else cb_i_out cb in
  mk (cb_alloc cb) (cb_minsize cb) (cb_maxsize cb) (cb_size cb) used' (cb_overwrite cb) got_wrap'
     i_dst i_out' i_rep' data.

(* cbuf_writer (len > 0): (buffer, return value, *ndropped, source after) *)
Definition writer (cb : cbuf) (len : Z) (src : source) : cbuf * Z * Z * source :=
  match writer_prep cb len with
  | (cb1, nfree) =>
      match writer_len cb1 len with
      | None => (cb1, -1, 0, src)
      | Some len' =>
          match wloop (Z.to_nat len') (cb_size cb1 + 1) (cb_data cb1) (cb_i_in cb1) len' src 0 with
          | (data', i_dst, nleft, src', m) =>
              let n := len' - nleft in
              if n =? 0 then (cb1, m, 0, src')
              else (writer_commit cb1 nfree n i_dst data', n, Z.max 0 (n - nfree), src')
          end
      end
  end.

(* cbuf_write (cb, bs, |bs|, &dropped) -> (cb', written, dropped) *)
Definition write (cb : cbuf) (bs : list byte) : cbuf * Z * Z :=
  if zlen bs =? 0 then (cb, 0, 0)
  else match writer cb (zlen bs) (SrcMem bs) with (cb', n, d, _) => (cb', n, d) end.

(* cbuf_write_from_fd (cb, fd, len, &dropped) -> (cb', return value, dropped, descriptor script after) *)
Definition write_from_fd (cb : cbuf) (fd : list fdres) (len : Z) : cbuf * Z * Z * list fdres :=
  if len <? -1 then (cb, -1, 0, fd)
  else
    let len := if len =? -1
               then (let l := cb_size cb - cb_used cb in if l =? 0 then CBUF_CHUNK else l)
               else len in
    if 0 <? len then
      match writer cb len (SrcFd fd) with
      | (cb', n, d, SrcFd fd') => (cb', n, d, fd')
      | (cb', n, d, SrcMem _) => (cb', n, d, fd)
      end
    else (cb, 0, 0, fd).

(* ---- sinks (putf), cbuf_reader, cbuf_dropper ---------------------------------------------------------- *)
(* per write() call on the descriptor: the largest count it accepts (short write), negative = error (-1);
   an exhausted script accepts everything *)
Inductive sink := SinkMem | SinkFd (script : list Z).

Definition putf (s : sink) (bytes : list byte) : Z * list byte * sink :=
  match s with
  | SinkMem => (zlen bytes, bytes, SinkMem)
  | SinkFd [] => (zlen bytes, bytes, SinkFd [])
  | SinkFd (a :: r) => if a <? 0 then (-1, [], SinkFd r)
                       else let d := ztake a bytes in (zlen d, d, SinkFd r)
  end.

(* the copy loop of cbuf_reader: (delivered so far, nleft, sink, m) *)
Fixpoint rloop (fuel : nat) (S : Z) (data : list byte) (i_src nleft : Z) (snk : sink) (acc : list byte) (m_last : Z)
  : list byte * Z * sink * Z :=
  match fuel with
  | O => (acc, nleft, snk, m_last)
  | Datatypes.S f =>
      if nleft <=? 0 then (acc, nleft, snk, m_last)
      else
        let n := Z.min nleft (S - i_src) in
        match putf snk (ztake n (zdrop i_src data)) with
        | (m, deliv, snk') =>
            if 0 <? m then
              if n =? m then rloop f S data ((i_src + m) mod S) (nleft - m) snk' (acc ++ deliv) m
              else (acc ++ deliv, nleft - m, snk', m)
            else (acc, nleft, snk', m)
        end
  end.

(* cbuf_reader (len > 0): (return value, bytes delivered, sink after) *)
Definition reader (cb : cbuf) (len : Z) (snk : sink) : Z * list byte * sink :=
  let len := Z.min len (cb_used cb) in
  if len =? 0 then (0, [], snk)
  else
    match rloop (Z.to_nat len) (cb_size cb + 1) (cb_data cb) (cb_i_out cb) len snk [] 0 with
    | (deliv, nleft, snk', m) =>
        let n := len - nleft in
        if n =? 0 then (m, deliv, snk') else (n, deliv, snk')
    end.

(* cbuf_dropper (0 < len <= used); cbuf_shrink is not implemented in the C (returns 0) *)
Definition dropper (cb : cbuf) (len : Z) : cbuf :=
  mk (cb_alloc cb) (cb_minsize cb) (cb_maxsize cb) (cb_size cb) (cb_used cb - len) (cb_overwrite cb)
     (cb_got_wrap cb) (cb_i_in cb) ((cb_i_out cb + len) mod (cb_size cb + 1)) (cb_i_rep cb) (cb_data cb).

(* cbuf_drop (cb, len) -> (cb', return value); len = -1 drops everything *)
Definition drop (cb : cbuf) (len : Z) : cbuf * Z :=
  if len <? -1 then (cb, -1)
  else if len =? 0 then (cb, 0)
  else
    let len := if len =? -1 then cb_used cb else Z.min len (cb_used cb) in
    if 0 <? len then (dropper cb len, len) else (cb, len).

(* cbuf_peek (cb, dst, len) -> (return value, bytes copied to dst) *)
Definition peek (cb : cbuf) (len : Z) : Z * list byte :=
  if len <? 0 then (-1, [])
  else if len =? 0 then (0, [])
  else match reader cb len SinkMem with (n, bytes, _) => (n, bytes) end.

(* cbuf_read (cb, dst, len) -> (cb', return value, bytes copied to dst) *)
Definition read (cb : cbuf) (len : Z) : cbuf * Z * list byte :=
  if len <? 0 then (cb, -1, [])
  else if len =? 0 then (cb, 0, [])
  else match reader cb len SinkMem with
       | (n, bytes, _) => (if 0 <? n then dropper cb n else cb, n, bytes)
       end.

(* cbuf_read_to_fd (cb, fd, len) -> (cb', return value, bytes the descriptor accepted, accept script after) *)
Definition read_to_fd (cb : cbuf) (fd : list Z) (len : Z) : cbuf * Z * list byte * list Z :=
  if len <? -1 then (cb, -1, [], fd)
  else
    let len := if len =? -1 then cb_used cb else len in
    if 0 <? len then
      match reader cb len (SinkFd fd) with
      | (n, bytes, SinkFd fd') => (if 0 <? n then dropper cb n else cb, n, bytes, fd')
      | (n, bytes, SinkMem) => (if 0 <? n then dropper cb n else cb, n, bytes, fd)
      end
    else (cb, 0, [], fd).

(* ---- lines -------------------------------------------------------------------------------------------- *)
(* loop of cbuf_find_unread_line over the unread bytes i_out .. i_in (that is [abs cb]) : (m, l, lines) *)
Fixpoint line_scan (bytes : list byte) (n m l chars lines : Z) : Z * Z * Z :=
  match bytes with
  | [] => (m, l, lines)
  | b :: r =>
      let n := n + 1 in
      let chars := if 0 <? chars then chars - 1 else chars in
      let nl := N.eqb b 10 in
      let lines := if nl && (0 <? lines) then lines - 1 else lines in
      let m := if nl then n else m in
      let l := if nl then l + 1 else l in
      if (chars =? 0) || (lines =? 0) then (m, l, lines) else line_scan r n m l chars lines
  end.

(* cbuf_find_unread_line (cb, chars, &lines) -> (bytes comprising the lines, lines found) *)
Definition find_unread_line (cb : cbuf) (chars lines : Z) : Z * Z :=
  if (lines =? 0) || ((lines <=? -1) && (chars <=? 0)) then (0, 0)
  else if cb_used cb =? 0 then (0, 0)
  else
    let chars := if 0 <? lines then -1 else chars in
    match line_scan (abs cb) 0 0 0 chars lines with
    | (m, l, lines') => if 0 <? lines' then (0, 0) else (m, l)
    end.

(* cbuf_peek_line (cb, dst, len, lines) -> (return value, string placed in dst without its NUL) *)
Definition peek_line (cb : cbuf) (len lines : Z) : Z * list byte :=
  if (len <? 0) || (lines <? -1) then (-1, [])
  else if lines =? 0 then (0, [])
  else
    match find_unread_line cb (len - 1) lines with
    | (n, _) =>
        if (0 <? n) && (0 <? len) then
          let m := Z.min n (len - 1) in
          if 0 <? m then match reader cb m SinkMem with (_, bytes, _) => (n, bytes) end else (n, [])
        else (n, [])
    end.

(* cbuf_read_line (cb, dst, len, lines) -> (cb', return value, string placed in dst without its NUL) *)
Definition read_line (cb : cbuf) (len lines : Z) : cbuf * Z * list byte :=
  match peek_line cb len lines with
  | (n, bytes) => (if 0 <? n then dropper cb n else cb, n, bytes)
  end.

(* ---- the API as one step function (what R-CBUF drives, one op per harness line) ------------------------ *)
(* every data byte the descriptor script still holds, in order *)
Definition fd_bytes (scr : list fdres) : list byte :=
  flat_map (fun r => match r with FdData b => b | _ => [] end) scr.

Inductive op :=
| OWrite (bs : list byte)                 (* cbuf_write (cb, bs, |bs|, &dropped)            *)
| OWriteFd (fd : list fdres) (len : Z)    (* cbuf_write_from_fd (cb, fd, len, &dropped)     *)
| OPeek (len : Z)                         (* cbuf_peek (cb, dst, len)                       *)
| ODrop (len : Z)                         (* cbuf_drop (cb, len)                            *)
| ORead (len : Z)                         (* cbuf_read (cb, dst, len)                       *)
| OPeekLine (len lines : Z)               (* cbuf_peek_line (cb, dst, len, lines)           *)
| OReadLine (len lines : Z)               (* cbuf_read_line (cb, dst, len, lines)           *)
| OReadFd (script : list Z) (len : Z)     (* cbuf_read_to_fd (cb, fd, len)                  *)
| OFlush                                  (* cbuf_flush (cb)                                *)
| OUsed.                                  (* cbuf_used (cb)                                 *)

(* what the caller observes: return value, bytes that reached dst / the descriptor, *ndropped, and what is left
   in the descriptor the op read from (for ops without such an output the field is 0 / [] ) *)
Record out := mkOut { o_ret : Z; o_bytes : list byte; o_dropped : Z; o_fd : list fdres }.

Definition step (cb : cbuf) (o : op) : cbuf * out :=
  match o with
  | OWrite bs => match write cb bs with (cb', n, d) => (cb', mkOut n [] d []) end
  | OWriteFd fd len => match write_from_fd cb fd len with (cb', n, d, fd') => (cb', mkOut n [] d fd') end
  | OPeek len => match peek cb len with (n, b) => (cb, mkOut n b 0 []) end
  | ODrop len => match drop cb len with (cb', n) => (cb', mkOut n [] 0 []) end
  | ORead len => match read cb len with (cb', n, b) => (cb', mkOut n b 0 []) end
  | OPeekLine len lines => match peek_line cb len lines with (n, b) => (cb, mkOut n b 0 []) end
  | OReadLine len lines => match read_line cb len lines with (cb', n, b) => (cb', mkOut n b 0 []) end
  | OReadFd script len => match read_to_fd cb script len with (cb', n, b, _) => (cb', mkOut n b 0 []) end
  | OFlush => (flush cb, mkOut 0 [] 0 [])
  | OUsed => (cb, mkOut (used cb) [] 0 [])
  end.

Fixpoint run (cb : cbuf) (ops : list op) : cbuf * list out :=
  match ops with
  | [] => (cb, [])
  | o :: rest => match step cb o with (cb1, r) => match run cb1 rest with (cb2, rs) => (cb2, r :: rs) end end
  end.
