(* The fuel of _process_action's loop (Model/Device.v: process_action), computed from the state.
   The C loop `while ((act = list_peek(dev->acts)))` has no bound; it ends because every iteration that stays in the loop
   FINISHES one statement, and a script is a finite tree walked over finite plug lists.  The model's loop is a structural
   recursion on a fuel; instead of a constant the fuel is this potential of the queue, which provably suffices
   (Proofs/DeviceFuel.v: every iteration that stays in the loop lowers it; Proofs/DeviceHang.v: Hang 2 is unreachable):

     cost P s     what statement s costs at most: 1, plus the body for an if-block, plus P times the body for a foreach
                  (P = an upper bound of the length of every plug list a foreach walks = the number of plugs of the device)
     hc P e       what the exec context e still owes: its current statement (a foreach counts the plugs it has NOT visited yet,
                  an if-block whose body is in progress only its closing round) and the statements behind it
     Phi P a      sum over the exec stack of the action a
     Psi_l P l    sum over the queue l
     depth(s)     nesting of blocks (the do..while round of _process_action descends one level per iteration: its fuel is 8)

   Everything is over actions (Model/Script.v); Model/Device.v instantiates P with the device's plug count.  No proofs. *)
From Coq Require Import List NArith ZArith Bool.
From PM Require Import Base.Bytes Base.Outcome Gen.GenConsts Model.ScriptAst Model.Enqueue Model.Script.
Import ListNotations.

Fixpoint depth (s : stmt) : nat :=
  match s with
  | ForeachPlug b | ForeachNode b | IfOn b | IfOff b => S ((fix go (l : list stmt) : nat := match l with [] => O | x :: r => Nat.max (depth x) (go r) end) b)
  | _ => O
  end.
Fixpoint depths (b : list stmt) : nat := match b with [] => O | x :: r => Nat.max (depth x) (depths r) end.

Definition itr (e : ctx) : nat := match c_plugitr e with Some i => i | None => O end.

Section Potential.
  Variable P : nat.

  Fixpoint cost (s : stmt) : nat :=
    match s with
    | ForeachPlug b | ForeachNode b => S (P * (fix go (l : list stmt) : nat := match l with [] => O | x :: r => cost x + go r end) b)
    | IfOn b | IfOff b => S ((fix go (l : list stmt) : nat := match l with [] => O | x :: r => cost x + go r end) b)
    | _ => 1%nat
    end.
  Fixpoint costs (b : list stmt) : nat := match b with [] => O | x :: r => (cost x + costs r)%nat end.

  Definition hc (e : ctx) : nat :=
    match cur e with
    | None => O
    | Some s =>
        (match s with
         | ForeachPlug b | ForeachNode b => S ((P - itr e) * costs b)
         | IfOn b | IfOff b => S (if c_processing e then O else costs b)
         | _ => 1
         end + costs (skipn (S (c_pos e)) (c_block e)))%nat
    end.
  Fixpoint hcs (l : list ctx) : nat := match l with [] => O | e :: r => (hc e + hcs r)%nat end.
  Definition Phi (a : action) : nat := hcs (a_exec a).
  Fixpoint Psi_l (l : list action) : nat := match l with [] => O | a :: r => (Phi a + Psi_l r)%nat end.
End Potential.
