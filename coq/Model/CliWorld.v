(* Worlds around Model/Client.v.

   1. One client and the events that reach it (single-client stream theorems: C04 C06 C15):
        a complete input line, a completion callback, a telemetry / diagnostic callback, a write of
        setplugstate / setresult into the arglist of the command in progress.
   2. Several clients, the shared configuration and arglist store, and the queue of device actions
      (C11, C02 pending count): every queued action carries the id of the client that caused it and the store
      slot of that command's arglist; callbacks look the client up by id (_find_client) and do nothing when it
      is gone; client ids come from _next_cli_id().
   No proofs in this file. *)
From Coq Require Import List NArith ZArith Bool.
From PM Require Import Base.Bytes Base.Outcome Gen.GenConsts Gen.GenClient Model.ScriptAst Model.Enqueue Model.Script Model.Client.
Import ListNotations.
Local Open Scope Z_scope.

Section W.
  Variable expand_str : text -> option (list text).
  Variable ranged_sorted : list text -> text.
  Variable ranged_plain : list text -> text.
  Variable sorted : list text -> list text.

  Definition busy (c : client) : bool := match cl_cmd c with Some _ => true | None => false end.

  (* what _process_setplugstate / _process_setresult write into an Arg *)
  Definition set_state (st : Z) (val : text) (x : arg) : arg := mkArg (ar_node x) st (ar_result x) (Some val).
  Definition set_result (res : Z) (val : text) (x : arg) : arg := mkArg (ar_node x) (ar_state x) res (Some val).
  Definition write_slot (store : list arglist) (slot : nat) (node : text) (f : arg -> arg) : list arglist :=
    store_set store slot (arg_update (nth slot store []) node f).

  (* ------------------------------------------------------------------ one client *)
  Inductive event : Type :=
  | ELine (line : text)                                  (* one line delivered by cbuf_read_line *)
  | EComplete (err : Z) (msg : text)                     (* _act_finish(id, err, msg) *)
  | ETele (msg : text)                                   (* _telemetry_printf(id, msg) *)
  | EDiag (msg : text)                                   (* _diag_printf(id, msg) *)
  | ESetState (node : text) (st : Z) (val : text)        (* setplugstate of an action of the command in progress *)
  | ESetResult (node : text) (res : Z) (val : text).     (* setresult ... *)

  Record cstate : Type := mkCstate { s_cf : cconf; s_store : list arglist; s_cl : client }.

  Definition cur_slot (c : client) : option nat := match cl_cmd c with Some k => Some (k_args k) | None => None end.

  Definition step1 (s : cstate) (e : event) : outcome cstate :=
    match e with
    | ELine l =>
        let '(cf, st, c, _) := parse_input expand_str ranged_sorted ranged_plain sorted (s_cf s) (s_store s) (s_cl s) l in
        Ok (mkCstate cf st c)
    | EComplete err msg =>
        match act_finish ranged_sorted (s_cl s) (s_store s) err msg with
        | Ok c => Ok (mkCstate (s_cf s) (s_store s) c)
        | Exit a b => Exit a b | Abort x => Abort x | MemErr x => MemErr x | Hang x => Hang x
        end
    | ETele m => Ok (mkCstate (s_cf s) (s_store s) (telemetry (s_cl s) m))
    | EDiag m => Ok (mkCstate (s_cf s) (s_store s) (diag (s_cl s) m))
    | ESetState n st v =>
        Ok (mkCstate (s_cf s) (match cur_slot (s_cl s) with Some i => write_slot (s_store s) i n (set_state st v) | None => s_store s end) (s_cl s))
    | ESetResult n r v =>
        Ok (mkCstate (s_cf s) (match cur_slot (s_cl s) with Some i => write_slot (s_store s) i n (set_result r v) | None => s_store s end) (s_cl s))
    end.

  Fixpoint run1 (s : cstate) (evs : list event) : outcome cstate :=
    match evs with
    | [] => Ok s
    | e :: r => match step1 s e with
                | Ok s' => run1 s' r
                | Exit a b => Exit a b | Abort x => Abort x | MemErr x => MemErr x | Hang x => Hang x
                end
    end.

  (* callbacks reach the client only from actions of its command in progress (the device layer's side of the
     contract: C02 pending count, proved for the multi-client world below as winv) *)
  Definition event_ok (s : cstate) (e : event) : bool :=
    match e with ELine _ => true | _ => busy (s_cl s) end.
  Fixpoint events_ok (s : cstate) (evs : list event) : bool :=
    match evs with
    | [] => true
    | e :: r => event_ok s e && match step1 s e with Ok s' => events_ok s' r | _ => true end
    end.

  Definition is_line (e : event) : bool := match e with ELine _ => true | _ => false end.
  Definition lines_of (evs : list event) : nat := length (filter is_line evs).

  (* ------------------------------------------------------------------ several clients *)
  Record qentry : Type := mkQentry {
    qe_client : Z;        (* act->client_id *)
    qe_dev : text;        (* the device whose queue holds it *)
    qe_act : qact;
    qe_slot : nat         (* act->arglist: store slot of the command's arglist *)
  }.

  Record world : Type := mkWorld {
    w_cf : cconf;
    w_store : list arglist;
    w_clients : list client;      (* cli_clients, in list order *)
    w_queue : list qentry;        (* all device queues *)
    w_next : Z                    (* cli_id_seq *)
  }.

  Inductive wevent : Type :=
  | WConnect (version : text)
  | WLine (id : Z) (line : text)
  | WComplete (i : nat) (err : Z) (msg : text)       (* the i-th queued action completes (and is destroyed) *)
  | WTele (i : nat) (msg : text)                     (* callbacks of the i-th queued action *)
  | WDiag (i : nat) (msg : text)
  | WSetState (i : nat) (node : text) (st : Z) (val : text)
  | WSetResult (i : nat) (node : text) (res : Z) (val : text)
  | WDrop (id : Z).                                  (* _destroy_client: EOF / error / quit with no command *)

  (* _find_client: first record with that id *)
  Fixpoint find_client (cs : list client) (id : Z) : option client :=
    match cs with
    | [] => None
    | c :: r => if Z.eqb (cl_id c) id then Some c else find_client r id
    end.
  (* the record found by _find_client is updated in place *)
  Fixpoint put_client (cs : list client) (c' : client) : list client :=
    match cs with
    | [] => []
    | c :: r => if Z.eqb (cl_id c) (cl_id c') then c' :: r else c :: put_client r c'
    end.
  Fixpoint drop_client (cs : list client) (id : Z) : list client :=
    match cs with
    | [] => []
    | c :: r => if Z.eqb (cl_id c) id then r else c :: drop_client r id
    end.
  Fixpoint remove_nth {A} (i : nat) (l : list A) : list A :=
    match l, i with
    | [], _ => []
    | _ :: r, O => r
    | x :: r, S j => x :: remove_nth j r
    end.

  Definition tag_actions (id : Z) (slot : nat) (q : list (text * list qact)) : list qentry :=
    flat_map (fun da => map (fun a => mkQentry id (fst da) a slot) (snd da)) q.

  (* _next_cli_id() *)
  Definition next_id (seq : Z) : Z := if seq <? CLI_ID_MAX then seq + 1 else 1.

  Definition set_clients (cs : list client) (w : world) : world := mkWorld (w_cf w) (w_store w) cs (w_queue w) (w_next w).
  Definition set_store (st : list arglist) (w : world) : world := mkWorld (w_cf w) st (w_clients w) (w_queue w) (w_next w).

  Definition wstep (w : world) (e : wevent) : outcome world :=
    match e with
    | WConnect v => Ok (mkWorld (w_cf w) (w_store w) (w_clients w ++ [new_client (w_next w) v]) (w_queue w) (next_id (w_next w)))
    | WLine id l =>
        match find_client (w_clients w) id with
        | None => Ok w
        | Some c =>
          let '(cf, st, c', q) := parse_input expand_str ranged_sorted ranged_plain sorted (w_cf w) (w_store w) c l in
          Ok (mkWorld cf st (put_client (w_clients w) c') (w_queue w ++ tag_actions (cl_id c) (length (w_store w)) q) (w_next w))
        end
    | WComplete i err msg =>
        match nth_error (w_queue w) i with
        | None => Ok w
        | Some e =>
          let w1 := mkWorld (w_cf w) (w_store w) (w_clients w) (remove_nth i (w_queue w)) (w_next w) in
          match find_client (w_clients w) (qe_client e) with
          | None => Ok w1                                      (* "if client has gone away do nothing" *)
          | Some c =>
            match act_finish ranged_sorted c (w_store w) err msg with
            | Ok c' => Ok (set_clients (put_client (w_clients w) c') w1)
            | Exit a b => Exit a b | Abort x => Abort x | MemErr x => MemErr x | Hang x => Hang x
            end
          end
        end
    | WTele i m =>
        match nth_error (w_queue w) i with
        | None => Ok w
        | Some e => match find_client (w_clients w) (qe_client e) with
                    | None => Ok w
                    | Some c => Ok (set_clients (put_client (w_clients w) (telemetry c m)) w)
                    end
        end
    | WDiag i m =>
        match nth_error (w_queue w) i with
        | None => Ok w
        | Some e => match find_client (w_clients w) (qe_client e) with
                    | None => Ok w
                    | Some c => Ok (set_clients (put_client (w_clients w) (diag c m)) w)
                    end
        end
    | WSetState i n st v =>
        match nth_error (w_queue w) i with
        | None => Ok w
        | Some e => Ok (set_store (write_slot (w_store w) (qe_slot e) n (set_state st v)) w)
        end
    | WSetResult i n r v =>
        match nth_error (w_queue w) i with
        | None => Ok w
        | Some e => Ok (set_store (write_slot (w_store w) (qe_slot e) n (set_result r v)) w)
        end
    | WDrop id => Ok (set_clients (drop_client (w_clients w) id) w)
    end.

  Fixpoint wrun (w : world) (evs : list wevent) : outcome world :=
    match evs with
    | [] => Ok w
    | e :: r => match wstep w e with
                | Ok w' => wrun w' r
                | Exit a b => Exit a b | Abort x => Abort x | MemErr x => MemErr x | Hang x => Hang x
                end
    end.

  Definition is_connect (e : wevent) : bool := match e with WConnect _ => true | _ => false end.
  Definition connects (evs : list wevent) : nat := length (filter is_connect evs).
  Definition count_for (id : Z) (q : list qentry) : nat := length (filter (fun e => Z.eqb (qe_client e) id) q).

  Definition world0 (cf : cconf) : world := mkWorld cf [] [] [] CLI_ID_FIRST.
End W.
