(* Executable model of the reply handling of src/powerman/libpowerman.c (client library) and of the reply loop of
   src/powerman/powerman.c + src/libcommon/xread.c (CLI).   DESIGN §5 C16.   NO proofs in this file.

   The model follows the code WITH the repairs fixes/F12a..F12d applied:
     F12a  _strncmpend: "no match" when fewer bytes than the suffix have arrived (no read before the buffer)
     F12b  pm_node_iterator_create: response lines of CP_LINEMAX bytes or more are not handed to sscanf("%s")
     F12c  powerman: exit status 1 instead of 0 when the failure code is a multiple of 256
     F12d  powerman: _expect() exits 1 ("EOF on read") at end of stream instead of spinning
   The objects whose indices are computed by the C (receive buffer, node[], xreadstr's string) stay CHECKED: an
   access outside them is the outcome MemErr, and Properties/C16.v proves MemErr unreachable. *)
From Coq Require Import List NArith ZArith Bool Lia.
From PM Require Import Base.Bytes Base.Outcome Gen.GenConsts Gen.GenLibPm.
Import ListNotations.
Local Open Scope Z_scope.
Local Open Scope outcome_scope.

(* ------------------------------------------------------------------ sites *)
Definition site_recv_before : nat := 1601.   (* _strncmpend: read at a negative offset of the receive buffer *)
Definition site_recv_after  : nat := 1602.   (* read at or beyond buflen *)
Definition site_recv_uninit : nat := 1603.   (* read inside the buffer but beyond count *)
Definition site_recv_write  : nat := 1604.   (* read() asked to store beyond buflen *)
Definition site_node_buf    : nat := 1605.   (* sscanf %s stores beyond node[CP_LINEMAX] *)
Definition site_xreadstr    : nat := 1606.   (* str[len] = 0 beyond the xreadstr allocation *)
(* err_exit sites of the CLI (all exit status 1) *)
Definition fatal_eof_line   : nat := 1611.   (* xreadstr: "EOF on read" *)
Definition fatal_short_line : nat := 1612.   (* _process_line: strlen(buf) <= 4, "unexpected response from server" *)
Definition fatal_version    : nat := 1613.   (* _process_version: sscanf != 1 *)
Definition fatal_expect     : nat := 1614.   (* _expect: text differs *)
Definition fatal_eof_expect : nat := 1615.   (* _expect: EOF (F12d) *)

(* ------------------------------------------------------------------ C strings and the libc pieces used *)
Definition beq (a b : byte) : bool := N.eqb a b.
(* linear-time reversal (List.rev is quadratic once extracted); rev_alt: rev l = rev_append l [] *)
Definition frev {A} (l : list A) : list A := rev_append l [].
Definition MINUS : byte := 45%N.
Definition PLUS : byte := 43%N.
Definition PCT : byte := 37%N.     (* '%' *)
Definition LOW_S : byte := 115%N.  (* 's' *)

(* the C string stored in an array holding these bytes followed by a terminator *)
Fixpoint cstr (t : text) : text :=
  match t with
  | [] => []
  | c :: r => if beq c NUL then [] else c :: cstr r
  end.

Fixpoint skip_ws (t : text) : text :=
  match t with
  | c :: r => if is_space c then skip_ws r else t
  | [] => []
  end.

(* maximal run of decimal digits: value (unbounded) and the rest *)
Fixpoint digits_val (acc : Z) (t : text) : Z * text :=
  match t with
  | c :: r => if is_digit c then digits_val (acc * 10 + (Z.of_N c - 48)) r else (acc, t)
  | [] => (acc, [])
  end.

(* white space, optional sign, at least one digit: what both strtol(base 10) and scanf's %d accept *)
Definition scan_int (t : text) : option (Z * text) :=
  let t1 := skip_ws t in
  let '(neg, t2) := match t1 with
                    | c :: r => if beq c MINUS then (true, r) else if beq c PLUS then (false, r) else (false, t1)
                    | [] => (false, [])
                    end in
  match t2 with
  | d :: _ => if is_digit d then let '(v, rest) := digits_val 0 t2 in Some (if neg then - v else v, rest) else None
  | [] => None
  end.

Definition LONG_MAX : Z := 9223372036854775807.
Definition LONG_MIN : Z := -9223372036854775808.
Definition clamp_long (v : Z) : Z := Z.max LONG_MIN (Z.min LONG_MAX v).      (* strtol saturates *)
Definition to_int32 (v : Z) : Z :=                                            (* conversion long -> int *)
  let m := v mod 4294967296 in if m <? 2147483648 then m else m - 4294967296.

(* sscanf(line, "%d ", &code): Some code iff it returns 1.  glibc converts with strtol and stores (int) of it *)
Definition sscanf_d (line : text) : option Z :=
  match scan_int line with
  | Some (v, _) => Some (to_int32 (clamp_long v))
  | None => None
  end.

(* strtol(buf, NULL, 10) *)
Definition strtol10 (buf : text) : Z :=
  match scan_int buf with
  | Some (v, _) => clamp_long v
  | None => 0
  end.

Fixpoint scan_token (t : text) : text :=          (* scanf %s: maximal run of non-space bytes *)
  match t with
  | c :: r => if is_space c then [] else c :: scan_token r
  | [] => []
  end.

(* sscanf(input, fmt, out) == 1 for a format made of literal bytes, white space and one %s: Some token.
   (what follows the %s in the format cannot change the return value) *)
Fixpoint sscanf_s (fmt input : text) : option text :=
  match fmt with
  | [] => None
  | f :: fr =>
      if is_space f then sscanf_s fr (skip_ws input)
      else if beq f PCT then
        match fr with
        | s :: _ => if beq s LOW_S then
                      match scan_token (skip_ws input) with
                      | [] => None
                      | tok => Some tok
                      end
                    else None
        | [] => None
        end
      else match input with
           | c :: ir => if beq c f then sscanf_s fr ir else None
           | [] => None
           end
  end.

(* the text printf produces for a format whose only conversions are %s *)
Fixpoint fmt_subst (fmt : text) (args : list text) : text :=
  match fmt with
  | [] => []
  | c :: r =>
      if beq c PCT then
        match r with
        | d :: r' => if beq d LOW_S then
                       match args with
                       | a :: args' => a ++ fmt_subst r' args'
                       | [] => fmt_subst r' []
                       end
                     else c :: fmt_subst r args
        | [] => [c]
        end
      else c :: fmt_subst r args
  end.

Fixpoint take (n : Z) (t : text) : text :=          (* at most n leading bytes *)
  match t with
  | [] => []
  | c :: r => if n <=? 0 then [] else c :: take (n - 1) r
  end.

(* snprintf(dst, cap, fmt, args...) leaves this C string in dst *)
Definition snprintf_s (cap : Z) (fmt : text) (args : list text) : text := take (cap - 1) (fmt_subst fmt args).

Fixpoint zlen (t : text) : Z := match t with [] => 0 | _ :: r => 1 + zlen r end.

Fixpoint assoc (k : Z) (l : list (Z * Z)) : option Z :=
  match l with
  | [] => None
  | (a, b) :: r => if a =? k then Some b else assoc k r
  end.

Fixpoint memz (k : Z) (l : list Z) : bool :=
  match l with
  | [] => false
  | a :: r => (a =? k) || memz k r
  end.

(* ================================================================== libpowerman.c *)

(* receive buffer of _server_recv_response: rb_count bytes received so far, kept newest first *)
Record rbuf := { rb_rev : text; rb_count : Z; rb_cap : Z }.
Definition rb_empty : rbuf := {| rb_rev := []; rb_count := 0; rb_cap := 0 |}.

(* buf[i] *)
Definition rb_get (b : rbuf) (i : Z) : outcome byte :=
  if i <? 0 then MemErr site_recv_before
  else if rb_cap b <=? i then MemErr site_recv_after
  else if rb_count b <=? i then MemErr site_recv_uninit
  else match nth_error (rb_rev b) (Z.to_nat (rb_count b - 1 - i)) with
       | Some x => Ok x
       | None => MemErr site_recv_uninit
       end.

(* buf[count++] = x, as the kernel does on behalf of read(fd, buf + count, buflen - count) *)
Definition rb_push (b : rbuf) (x : byte) : outcome rbuf :=
  if rb_cap b <=? rb_count b then MemErr site_recv_write
  else Ok {| rb_rev := x :: rb_rev b; rb_count := rb_count b + 1; rb_cap := rb_cap b |}.

(* if (buflen - count == 0) buflen += CP_LINEMAX, realloc *)
Definition rb_grow (b : rbuf) : rbuf :=
  if rb_cap b - rb_count b =? 0 then {| rb_rev := rb_rev b; rb_count := rb_count b; rb_cap := rb_cap b + CP_LINEMAX |} else b.

(* strncmp(buf + off, s2, strlen s2) == 0, reading buf[off], buf[off+1], ... until the first difference *)
Fixpoint strncmp_eq (b : rbuf) (off : Z) (s2 : text) : outcome bool :=
  match s2 with
  | [] => Ok true
  | c :: s2' =>
      x <- rb_get b off ;;
      if beq x c then (if beq x NUL then Ok true else strncmp_eq b (off + 1) s2') else Ok false
  end.

(* _strncmpend(buf, s2, count) == 0, with the F12a guard *)
Definition strncmpend (b : rbuf) (s2 : text) : outcome bool :=
  let l := zlen s2 in
  if rb_count b <? l then Ok false
  else strncmp_eq b (rb_count b - l) s2.

(* one chunk handed out by the kernel: read() takes what fits (buflen - count); after every read() the loop tests
   for the prompt; what has not been taken stays queued.  Result: (prompt seen, buffer, bytes of the chunk not taken) *)
Fixpoint feed (b : rbuf) (c : text) : outcome (bool * rbuf * text) :=
  match c with
  | [] => Ok (false, b, [])
  | x :: c' =>
      b1 <- rb_push b x ;;
      match c' with
      | [] => m <- strncmpend b1 CP_PROMPT ;; Ok (m, b1, [])
      | _ :: _ =>
          if rb_cap b1 - rb_count b1 =? 0 then
            m <- strncmpend b1 CP_PROMPT ;;
            if m then Ok (true, b1, c') else feed (rb_grow b1) c'
          else feed b1 c'
      end
  end.

(* the do/while of _server_recv_response.  chunks: what successive read()s have to offer; [] (or the end of the
   list) is end of file.  Result: (err, buffer, chunks left) *)
Fixpoint recv_loop (b : rbuf) (chunks : list text) : outcome (Z * rbuf * list text) :=
  match chunks with
  | [] => Ok (PM_ESERVEREOF, b, [])
  | [] :: rest => Ok (PM_ESERVEREOF, rb_grow b, rest)
  | c :: rest =>
      r <- feed (rb_grow b) c ;;
      let '(m, b', rem) := r in
      if m then Ok (PM_ESUCCESS, b', match rem with [] => rest | _ => rem :: rest end)
      else recv_loop b' rest
  end.

(* _parse_response: for (i = 0; i < len - 2; i++) if buf[i..i+1] == CRLF: line = buf[p .. i+2), p = i + 2.
   Scanning the bytes in order: a CRLF counts only when at least one byte follows it; the list is built by
   prepending, so the LAST line of the reply is the head.  Lines are stored with _strndup and only ever used as C
   strings: [parse_raw] keeps the bytes, [parse_response] the strings. *)
Fixpoint parse_raw (cur_rev : text) (s : text) (acc : list text) : list text :=
  match s with
  | [] => acc
  | c :: s' =>
      match s' with
      | d :: ((_ :: _) as s'') =>
          if beq c CR && beq d LF then parse_raw [] s'' (frev (d :: c :: cur_rev) :: acc)
          else parse_raw (c :: cur_rev) s' acc
      | _ => acc
      end
  end.

Definition parse_response (buf : text) : list text := map cstr (parse_raw [] buf []).

(* _server_retcode: the list is walked head first (= last line first); every line whose leading integer is in the
   table assigns err *)
Definition classify (code : Z) : option Z := assoc code retcode_table.
Definition retcode_step (err : Z) (line : text) : Z :=
  match sscanf_d line with
  | Some c => match classify c with Some e => e | None => err end
  | None => err
  end.
Definition retcode (resp : list text) : Z := fold_left retcode_step resp retcode_default.

(* _server_recv_response(pmh, &resp): (err, resp (head = last line; [] unless err = PM_ESUCCESS), chunks left) *)
Definition recv (chunks : list text) : outcome (Z * list text * list text) :=
  r <- recv_loop rb_empty chunks ;;
  let '(err, b, rest) := r in
  if err =? PM_ESUCCESS then
    let resp := parse_response (frev (rb_rev b)) in
    let err' := retcode resp in
    Ok (err', (if err' =? PM_ESUCCESS then resp else []), rest)
  else Ok (err, [], rest).

(* _server_send_command: the bytes written *)
Definition send_command (fmt : text) (args : list text) : text :=
  take (CP_LINEMAX - 1) (snprintf_s CP_LINEMAX fmt args ++ CP_EOL).

(* pm_node_status after a successful exchange *)
Definition list_search (resp : list text) (s : text) : bool := existsb (fun l => text_eqb l s) resp.
Definition node_status (node : text) (resp : list text) : Z :=
  let offstr := snprintf_s CP_LINEMAX CP_INFO_XSTATUS [node; bs "off"%string] in
  let onstr := snprintf_s CP_LINEMAX CP_INFO_XSTATUS [node; bs "on"%string] in
  if list_search resp offstr then PM_OFF
  else if list_search resp onstr then PM_ON
  else PM_UNKNOWN.

(* the loop of pm_node_iterator_create: resp is walked head first, every name is prepended *)
Fixpoint node_iter_go (resp : list text) (acc : list text) : outcome (list text) :=
  match resp with
  | [] => Ok acc
  | l :: r =>
      if zlen l <? CP_LINEMAX then                                   (* F12b guard *)
        match sscanf_s CP_INFO_XNODES l with
        | Some tok => if CP_LINEMAX <? zlen tok + 1 then MemErr site_node_buf   (* node[CP_LINEMAX] *)
                      else node_iter_go r (tok :: acc)
        | None => node_iter_go r acc
        end
      else node_iter_go r acc
  end.
Definition node_iter (resp : list text) : outcome (list text) := node_iter_go resp [].

(* ------------------------------------------------------------------ API call sequences *)
Inductive op :=
| OpConnect | OpStatus (node : text) | OpOn (node : text) | OpOff (node : text) | OpCycle (node : text)
| OpNodes | OpRecv | OpDisconnect.

Inductive payload :=
| PNone
| PState (st : Z)                 (* 77 = *statep not written *)
| PNodes (l : list text)
| PLines (l : list text).

Record result := { r_rc : Z; r_sent : text; r_pay : payload; r_left : list text }.

Record session := { s_handle : bool; s_chunks : list text }.

Definition command (fmt : text) (args : list text) (chunks : list text) : outcome (Z * list text * list text * text) :=
  r <- recv chunks ;;
  let '(rc, resp, rest) := r in Ok (rc, resp, rest, send_command fmt args).

Definition simple (s : session) (fmt : text) (args : list text) : outcome (session * result) :=
  if s_handle s then
    r <- command fmt args (s_chunks s) ;;
    let '(rc, _, rest, sent) := r in
    Ok ({| s_handle := true; s_chunks := rest |}, {| r_rc := rc; r_sent := sent; r_pay := PNone; r_left := rest |})
  else Ok (s, {| r_rc := PM_EBADHAND; r_sent := []; r_pay := PNone; r_left := s_chunks s |}).

Definition step (s : session) (o : op) : outcome (session * result) :=
  match o with
  | OpConnect =>
      (* pm_connect: banner + prompt, then "exprange"; the harness replaces its handle only on success *)
      r <- recv (s_chunks s) ;;
      let '(rc, _, rest) := r in
      if rc =? PM_ESUCCESS then
        r2 <- command CP_EXPRANGE [] rest ;;
        let '(rc2, _, rest2, sent) := r2 in
        Ok ({| s_handle := s_handle s || (rc2 =? PM_ESUCCESS); s_chunks := rest2 |},
            {| r_rc := rc2; r_sent := sent; r_pay := PNone; r_left := rest2 |})
      else Ok ({| s_handle := s_handle s; s_chunks := rest |}, {| r_rc := rc; r_sent := []; r_pay := PNone; r_left := rest |})
  | OpStatus node =>
      if s_handle s then
        r <- command CP_STATUS [node] (s_chunks s) ;;
        let '(rc, resp, rest, sent) := r in
        Ok ({| s_handle := true; s_chunks := rest |},
            {| r_rc := rc; r_sent := sent; r_pay := PState (if rc =? PM_ESUCCESS then node_status node resp else 77); r_left := rest |})
      else Ok (s, {| r_rc := PM_EBADHAND; r_sent := []; r_pay := PState 77; r_left := s_chunks s |})
  | OpOn node => simple s CP_ON [node]
  | OpOff node => simple s CP_OFF [node]
  | OpCycle node => simple s CP_CYCLE [node]
  | OpNodes =>
      if s_handle s then
        r <- command CP_NODES [] (s_chunks s) ;;
        let '(rc, resp, rest, sent) := r in
        if rc =? PM_ESUCCESS then
          l <- node_iter resp ;;
          Ok ({| s_handle := true; s_chunks := rest |}, {| r_rc := rc; r_sent := sent; r_pay := PNodes l; r_left := rest |})
        else Ok ({| s_handle := true; s_chunks := rest |}, {| r_rc := rc; r_sent := sent; r_pay := PNone; r_left := rest |})
      else Ok (s, {| r_rc := PM_EBADHAND; r_sent := []; r_pay := PNone; r_left := s_chunks s |})
  | OpRecv =>
      r <- recv (s_chunks s) ;;
      let '(rc, resp, rest) := r in
      Ok ({| s_handle := s_handle s; s_chunks := rest |},
          {| r_rc := rc; r_sent := []; r_pay := (if rc =? PM_ESUCCESS then PLines resp else PNone); r_left := rest |})
  | OpDisconnect =>
      if s_handle s then
        r <- command CP_QUIT [] (s_chunks s) ;;
        let '(_, _, rest, sent) := r in
        Ok ({| s_handle := false; s_chunks := rest |}, {| r_rc := 0; r_sent := sent; r_pay := PNone; r_left := rest |})
      else Ok (s, {| r_rc := 0; r_sent := []; r_pay := PNone; r_left := s_chunks s |})
  end.

(* results of the calls made before the first memory error (if any) *)
Fixpoint run_ops (s : session) (ops : list op) : list result * option nat :=
  match ops with
  | [] => ([], None)
  | o :: r =>
      match step s o with
      | Ok (s', res) => let '(l, e) := run_ops s' r in (res :: l, e)
      | MemErr site => ([], Some site)
      | _ => ([], Some 0%nat)
      end
  end.

Definition run_session (ops : list op) (chunks : list text) : list result * option nat :=
  run_ops {| s_handle := false; s_chunks := chunks |} ops.

(* ================================================================== powerman.c (CLI) + xread.c *)

Inductive ev := EDiag (t : text) | EWarn (vers : text).      (* a 309 line; the version warning *)

(* what has been printed so far; stdout as pieces, newest first *)
Record couts := { o_out : list text; o_err : list ev; o_terms : list Z }.
Definition o_empty : couts := {| o_out := []; o_err := []; o_terms := [] |}.
Definition put_out (o : couts) (t : text) : couts := {| o_out := t :: o_out o; o_err := o_err o; o_terms := o_terms o |}.
Definition put_err (o : couts) (e : ev) : couts := {| o_out := o_out o; o_err := e :: o_err o; o_terms := o_terms o |}.
Definition put_term (o : couts) (k : Z) : couts := {| o_out := o_out o; o_err := o_err o; o_terms := k :: o_terms o |}.

Inductive cres (A : Type) :=
| CRet (a : A)
| CFatal (site : nat)        (* err_exit(...): message on stderr, exit(1) *)
| CMem (site : nat).
Arguments CRet {A} a.
Arguments CFatal {A} site.
Arguments CMem {A} site.

(* xreadstr: one byte per read() until the last two bytes are CRLF; str[] grows by CHUNKSIZE when
   size - len - 1 <= 0; after every byte str[len] = 0 is stored (checked).  Returns the bytes before the CRLF. *)
Fixpoint xreadstr_go (size len : Z) (prev : byte) (acc_rev : text) (s : text) : cres (text * text) :=
  match s with
  | [] => CFatal fatal_eof_line
  | c :: s' =>
      let size' := if size - len - 1 <=? 0 then size + XREAD_CHUNKSIZE else size in
      let len' := len + 1 in
      if size' <=? len' then CMem site_xreadstr
      else if (2 <=? len') && beq prev CR && beq c LF then CRet (frev (tl acc_rev), s')
      else xreadstr_go size' len' c (c :: acc_rev) s'
  end.
Definition xreadstr (s : text) : cres (text * text) := xreadstr_go 0 0 NUL [] s.

Definition cp_alldone (k : Z) : bool := (cp_success_lo <=? k) && (k <=? cp_failure_hi).
Definition cp_failure (k : Z) : bool := (cp_failure_lo <=? k) && (k <=? cp_failure_hi).
Definition cp_success (k : Z) : bool := (cp_success_lo <=? k) && (k <=? cp_success_hi).

(* the part of _process_line after xreadstr: buf is the line without CRLF *)
Definition process_line_text (o : couts) (raw : text) : couts * cres Z :=
  let buf := cstr raw in
  let num := strtol10 buf in
  let num := if (num =? LONG_MIN) || (num =? LONG_MAX) then -1 else num in
  let inum := to_int32 num in                         (* int parameters / int return value *)
  if 4 <? zlen buf then
    let text := skipn 4 buf ++ [LF] in
    let o' := if memz inum cli_suppress then o
              else if memz inum cli_stderr then put_err o (EDiag text) else put_out o text in
    (o', CRet inum)
  else (o, CFatal fatal_short_line).

(* _process_response: lines until the first CP_IS_ALLDONE code.  One structural pass over the stream: the xreadstr
   state is threaded through, and a completed line either ends the response or starts the next xreadstr *)
Fixpoint process_response_go (o : couts) (size len : Z) (prev : byte) (acc_rev : text) (s : text) : couts * cres (Z * text) :=
  match s with
  | [] => (o, CFatal fatal_eof_line)
  | c :: s' =>
      let size' := if size - len - 1 <=? 0 then size + XREAD_CHUNKSIZE else size in
      let len' := len + 1 in
      if size' <=? len' then (o, CMem site_xreadstr)
      else if (2 <=? len') && beq prev CR && beq c LF then
        match process_line_text o (frev (tl acc_rev)) with
        | (o', CRet num) =>
            if cp_alldone num then (put_term o' num, CRet ((if cp_failure num then num else 0), s'))
            else process_response_go o' 0 0 NUL [] s'
        | (o', CFatal site) => (o', CFatal site)
        | (o', CMem site) => (o', CMem site)
        end
      else process_response_go o size' len' c (c :: acc_rev) s'
  end.
Definition process_response (o : couts) (s : text) : couts * cres (Z * text) := process_response_go o 0 0 NUL [] s.

(* _expect(fd, str): strlen(str) bytes are read (in however many pieces), then compared *)
Fixpoint split_exact (n : nat) (s : text) : option (text * text) :=
  match n with
  | O => Some ([], s)
  | S n' => match s with
            | [] => None
            | c :: s' => match split_exact n' s' with Some (a, r) => Some (c :: a, r) | None => None end
            end
  end.
Definition expect (str : text) (s : text) : cres text :=
  match split_exact (length str) s with
  | None => CFatal fatal_eof_expect
  | Some (got, rest) => if text_eqb (cstr got) str then CRet rest else CFatal fatal_expect
  end.

(* _process_version *)
Definition process_version (o : couts) (s : text) : couts * cres text :=
  match xreadstr s with
  | CRet (raw, rest) =>
      match sscanf_s CP_VERSION (cstr raw) with
      | Some vers => ((if text_eqb vers PACKAGE_VERSION then o else put_err o (EWarn vers)), CRet rest)
      | None => (o, CFatal fatal_version)
      end
  | CFatal site => (o, CFatal site)
  | CMem site => (o, CMem site)
  end.

Definition cbind {A B} (x : couts * cres A) (f : couts -> A -> couts * cres B) : couts * cres B :=
  match x with
  | (o, CRet a) => f o a
  | (o, CFatal s) => (o, CFatal s)
  | (o, CMem s) => (o, CMem s)
  end.
Definition clift {A} (o : couts) (x : cres A) : couts * cres A := (o, x).

(* one request: response, then the prompt *)
Definition request (o : couts) (s : text) : couts * cres (Z * text) :=
  cbind (process_response o s) (fun o '(res, s1) =>
  cbind (clift o (expect CP_PROMPT s1)) (fun o s2 => (o, CRet (res, s2)))).

(* the option commands (-T, -x) sent before the main command: a failing one skips the rest (goto done) *)
Fixpoint requests (n : nat) (o : couts) (s : text) : couts * cres (Z * text) :=
  match n with
  | O => request o s
  | S n' => cbind (request o s) (fun o '(res, s1) => if res =? 0 then requests n' o s1 else (o, CRet (res, s1)))
  end.

(* exit((res != 0 && (res & 0xff) == 0) ? 1 : res) as seen by the parent process (F12c) *)
Definition exit_status (res : Z) : Z :=
  if negb (res =? 0) && (res mod 256 =? 0) then 1 else res mod 256.

(* c_fatal = Some site: the run ended in err_exit at that site (one more message on stderr, exit status 1) *)
Record cli_result := { c_stdout : text; c_stderr : list ev; c_terms : list Z; c_status : Z; c_fatal : option nat }.

Definition finish (x : couts * cres Z) : outcome cli_result :=
  match x with
  | (o, CRet st) => Ok {| c_stdout := concat (frev (o_out o)); c_stderr := frev (o_err o); c_terms := frev (o_terms o); c_status := st; c_fatal := None |}
  | (o, CFatal site) => Ok {| c_stdout := concat (frev (o_out o)); c_stderr := frev (o_err o); c_terms := frev (o_terms o); c_status := 1; c_fatal := Some site |}
  | (o, CMem site) => MemErr site
  end.

(* main() from the connection on.  npre = number of option commands (0..2); stream = everything the server sends,
   followed by end of file *)
Definition cli (npre : nat) (stream : text) : outcome cli_result :=
  finish (
    cbind (process_version o_empty stream) (fun o s0 =>
    cbind (clift o (expect CP_PROMPT s0)) (fun o s1 =>
    cbind (requests npre o s1) (fun o '(res, s2) =>
    cbind (clift o (expect CP_RSP_QUIT s2)) (fun o _ => (o, CRet (exit_status res))))))).
