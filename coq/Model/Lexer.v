(* Property C18: executable model of the hand-written parts of powermand's configuration reader.

   TOKEN LAYER  ([tokens], [lex_all]): the actions of src/powerman/parse_lex.l -- the three start conditions
   (INITIAL, lex_incl, lex_str), the quoted-string state writing into the static string_buf (capacity, presence
   of the bound check and its slack come from Gen/GenLex.v, i.e. from the CURRENT source), every escape rule,
   numbers, keywords (table from GenLex), comments, the include stack with its depth test, EOF inside each state,
   unknown characters.  flex's pattern matching itself (longest match, first rule on ties, the default ECHO rule,
   <<EOF>> in every start condition) is written out by hand for this rule set; the generated DFA is not modelled.

   SEMANTIC LAYER  ([load_stream], [load], [conf_init]): a recursive-descent reading of parse_tab.y that runs the
   hand-written semantic actions (makePreStmt, makeScript, makeSpec, makeDevice/_parse_hoststr, makeNode/pluglist_map,
   makeAlias, conf_set_*, _strtolong, _strtodouble+_doubletotv range behaviour, _validate_config) at the moment
   bison runs them: a rule that the LALR automaton reduces by default without a look-ahead runs before the next
   token is scanned, the others (tcpwrappers, device with 3 strings, node with 2 strings, every setplugstate /
   setresult form) after it.  The LALR automaton itself is NOT modelled (trusted base); the differential tie R-LEX
   compares this reading with the real bison parser.

   Environment oracles (Section variables): host-range expansion (hostlist.c: property C14), regcomp, getaddrinfo,
   stat, and whether errno holds a stale ERANGE at a strtol conversion (F30, not applied).  No proofs in this file. *)
From Coq Require Import List NArith ZArith Bool.
From PM Require Import Base.Bytes Base.Outcome Gen.GenLex.
Import ListNotations.
Local Open Scope N_scope.

(* ------------------------------------------------------------------------------------------------ sites *)
(* Exit sites; [site_hasline] says whether the diagnostic carries file::line (_errormsg / yyerror) *)
Definition S_STR_NEWLINE : nat := 1.     (* newline inside a quoted string: yyerror() *)
Definition S_STR_TOOLONG : nat := 2.     (* string_buf_add: "string too long" *)
Definition S_INCL_SHORT : nat := 3.      (* include name shorter than 2 bytes: yyerror() *)
Definition S_PARSE : nat := 4.           (* bison syntax error -> yyerror() *)
Definition S_DBL_OVERFLOW : nat := 5.    (* _strtodouble: HUGE_VAL *)
Definition S_TIME_LARGE : nat := 6.      (* _strtodouble: time value too large *)
Definition S_LONG_PARSE : nat := 7.      (* _strtolong: no conversion *)
Definition S_LONG_RANGE : nat := 8.      (* _strtolong: ERANGE *)
Definition S_DUP_PLUGLIST : nat := 9.
Definition S_DUP_SCRIPT : nat := 10.
Definition S_NO_LOGIN : nat := 11.       (* makeSpec: specification has no login script *)
Definition S_NO_SPEC : nat := 12.        (* makeDevice: device specification not found *)
Definition S_NOT_CHARDEV : nat := 13.
Definition S_NO_PORT : nat := 14.
Definition S_PORT_RANGE : nat := 15.
Definition S_NO_DEVICE : nat := 16.      (* makeNode: unknown device *)
Definition S_BAD_NODELIST : nat := 17.
Definition S_BAD_PLUGLIST : nat := 18.
Definition S_UNKPLUG : nat := 19.
Definition S_DUPPLUG : nat := 20.
Definition S_NOPLUGS : nat := 21.
Definition S_NONODES : nat := 22.
Definition S_DUP_NODE : nat := 23.
Definition S_BAD_ALIAS : nat := 24.
Definition S_TCPWRAP_BARE : nat := 25.   (* warning with file::line, then err_exit without *)
Definition S_DUP_PLUGNAME : nat := 26.   (* string_list: a plug name listed twice in `plug name { .. }` (F34) *)
(* without file::line *)
Definition S_INCL_DEPTH : nat := 40.     (* Includes nested too deeply *)
Definition S_INCL_OPEN : nat := 41.      (* fopen of an include file failed *)
Definition S_LOGLEVEL : nat := 42.
Definition S_TCPWRAP : nat := 43.
Definition S_BAD_OPTION : nat := 44.     (* tcp device flags other than "quiet" *)
Definition S_GAI : nat := 45.            (* getaddrinfo failed *)
Definition S_REGEX : nat := 46.          (* regex > 256 bytes or regcomp failure *)
Definition S_INVALID : nat := 47.        (* _validate_config *)
Definition S_PIPE_EMPTY : nat := 48.     (* pipe_create: empty command line *)
(* MemErr / Hang sites *)
Definition S_MEM_STRBUF : nat := 60.     (* store outside string_buf *)
Definition S_MEM_INCLSTACK : nat := 61.  (* include_stack / linenum / filename index out of range *)
Definition S_MEM_INCLNAME : nat := 62.   (* yytext[len - 1] with len = 0 *)
Definition S_MEM_SERIAL_NULL : nat := 63.  (* xstrdup(NULL) in serial_create *)
Definition S_UB_FLOATCAST : nat := 64.   (* double -> time_t conversion out of range in _doubletotv *)
Definition S_HANG_FUEL : nat := 70.
Definition S_HANG_DEPTH : nat := 71.
Definition WARNED : nat := 100.          (* added to an Exit site when a warning with file::line was printed before *)

Definition site_hasline (s : nat) : bool := Nat.ltb s 40 || Nat.leb WARNED s.

(* ------------------------------------------------------------------------------------------------ helpers *)
Fixpoint span (p : byte -> bool) (l : text) : text * text :=
  match l with
  | [] => ([], [])
  | c :: r => if p c then let '(a, b) := span p r in (c :: a, b) else ([], l)
  end.

Definition until_nul (l : text) : text := fst (span (fun b => negb (N.eqb b 0)) l).

Fixpoint after_lf (l : text) : option text :=      (* rest of the input after the first newline *)
  match l with
  | [] => None
  | c :: r => if N.eqb c 10 then Some r else after_lf r
  end.

Fixpoint assoc_byte (x : byte) (l : list (byte * byte)) : option byte :=
  match l with
  | [] => None
  | (k, v) :: r => if N.eqb k x then Some v else assoc_byte x r
  end.

Definition is_blank (c : byte) : bool := N.eqb c 32 || N.eqb c 9.

(* ------------------------------------------------------------------------------------------------ tokens *)
Inductive token : Type :=
| TKw (k : kw)
| TPlugName
| TStr (s : text)
| TNum (s : text)
| TMatchpos
| TBegin
| TEnd
| TEquals
| TUnrec.

Inductive lex_end : Type :=
| EndEOF
| EndExit (site : nat)
| EndMem (site : nat)
| EndHang (site : nat).

Inductive scond : Type := SInit | SIncl | SStr.

Record lstate : Type := mkL {
  l_sc : scond;
  l_buf : list byte;          (* bytes stored in string_buf since the opening quote, most recent first *)
  l_idx : N;                  (* string_buf_ptr - string_buf *)
  l_maxidx : N;               (* largest index of string_buf written so far (instrumentation for C18_string_bound) *)
  l_out : list token          (* tokens returned so far, most recent first *)
}.

Definition set_sc (st : lstate) (sc : scond) : lstate := mkL sc (l_buf st) (l_idx st) (l_maxidx st) (l_out st).
Definition emit (st : lstate) (t : token) : lstate := mkL (l_sc st) (l_buf st) (l_idx st) (l_maxidx st) (t :: l_out st).

(* one store through string_buf_ptr (string_buf_add of the fixed source; a bare `*string_buf_ptr++ = c` when
   GenLex.string_checked = false).  The array bound itself is checked independently of the program's test. *)
Definition sb_add (st : lstate) (b : byte) : lstate + lex_end :=
  if string_checked && (string_buf_size - string_slack <=? l_idx st) then inr (EndExit S_STR_TOOLONG)
  else if string_buf_size <=? l_idx st then inr (EndMem S_MEM_STRBUF)
  else inl (mkL (l_sc st) (b :: l_buf st) (l_idx st + 1) (N.max (l_maxidx st) (l_idx st)) (l_out st)).

Fixpoint sb_add_list (st : lstate) (l : text) : lstate + lex_end :=
  match l with
  | [] => inl st
  | b :: r => match sb_add st b with inl st' => sb_add_list st' r | inr e => inr e end
  end.

(* closing quote: `*string_buf_ptr = '\0'; yylval = xstrdup(string_buf)` *)
Definition sb_finish (st : lstate) : lstate + lex_end :=
  if string_buf_size <=? l_idx st then inr (EndMem S_MEM_STRBUF)
  else inl (mkL SInit [] 0 (N.max (l_maxidx st) (l_idx st)) (TStr (until_nul (rev (l_buf st))) :: l_out st)).

(* keywords: longest lexeme of the table that is a prefix of the input *)
Inductive word : Type := WKw (k : kw) | WInclude | WPlugName.

Fixpoint best_kw (tbl : list (text * kw)) (inp : text) (best : option (nat * word)) : option (nat * word) :=
  match tbl with
  | [] => best
  | (w, k) :: r =>
      let best' := if is_prefix w inp
                   then match best with
                        | Some (n, _) => if Nat.ltb n (length w) then Some (length w, WKw k) else best
                        | None => Some (length w, WKw k)
                        end
                   else best in
      best_kw r inp best'
  end.

Definition kw_include : text := [105; 110; 99; 108; 117; 100; 101].   (* "include" *)
Definition kw_plug : text := [112; 108; 117; 103].                      (* "plug" *)
Definition kw_name_lit : text := [110; 97; 109; 101].                       (* "name" *)

Definition match_plug_name (inp : text) : option nat :=               (* plug[ \t]+name *)
  if is_prefix kw_plug inp then
    let '(bl, r) := span is_blank (skipn 4 inp) in
    match bl with
    | [] => None
    | _ => if is_prefix kw_name_lit r then Some (4 + length bl + 4)%nat else None
    end
  else None.

Definition longest_word (inp : text) : option (nat * word) :=
  let b0 := best_kw keyword_table inp None in
  let b1 := if is_prefix kw_include inp
            then match b0 with Some (n, _) => if Nat.ltb n 7 then Some (7%nat, WInclude) else b0 | None => Some (7%nat, WInclude) end
            else b0 in
  match match_plug_name inp with
  | Some n => match b1 with Some (m, _) => if Nat.ltb m n then Some (n, WPlugName) else b1 | None => Some (n, WPlugName) end
  | None => b1
  end.

Inductive step_res : Type :=
| StCont (st : lstate) (rest : text)                      (* one flex match consumed, rest is strictly shorter *)
| StInclude (st : lstate) (name : text) (rest : text)     (* include rule with a file name *)
| StEnd (st : lstate) (e : lex_end).

Definition step_init (st : lstate) (c : byte) (rest : text) : step_res :=
  if N.eqb c 35 then                                                   (* #[^\n]*\n *)
    match after_lf rest with
    | Some r => StCont st r
    | None => StCont (emit st TUnrec) rest                             (* no newline before EOF: only `.` matches *)
    end
  else if is_blank c || N.eqb c 13 || N.eqb c 10 then StCont st rest
  else if is_digit c then
    let '(ds, r1) := span is_digit rest in
    match r1 with
    | dot :: r2 => if N.eqb dot 46 then let '(fs, r3) := span is_digit r2 in StCont (emit st (TNum (c :: ds ++ 46 :: fs))) r3
                   else StCont (emit st (TNum (c :: ds))) r1
    | [] => StCont (emit st (TNum (c :: ds))) r1
    end
  else if N.eqb c 46 then
    match rest with
    | d :: _ => if is_digit d then let '(fs, r) := span is_digit rest in StCont (emit st (TNum (46 :: fs))) r
                else StCont (emit st TUnrec) rest
    | [] => StCont (emit st TUnrec) rest
    end
  else if N.eqb c 36 then StCont (emit st TMatchpos) rest
  else if N.eqb c 34 then StCont (mkL SStr [] 0 (l_maxidx st) (l_out st)) rest
  else if N.eqb c 123 then StCont (emit st TBegin) rest
  else if N.eqb c 125 then StCont (emit st TEnd) rest
  else if N.eqb c 61 then StCont (emit st TEquals) rest
  else
    match longest_word (c :: rest) with
    | Some (S n, WKw k) => StCont (emit st (TKw k)) (skipn n rest)
    | Some (S n, WInclude) => StCont (set_sc st SIncl) (skipn n rest)
    | Some (S n, WPlugName) => StCont (emit st TPlugName) (skipn n rest)
    | _ => StCont (emit st TUnrec) rest
    end.

Definition not_incl_sep (b : byte) : bool := negb (N.eqb b 32 || N.eqb b 9 || N.eqb b 10).

Definition step_incl (st : lstate) (c : byte) (rest : text) : step_res :=
  if N.eqb c 32 || N.eqb c 9 || N.eqb c 10 then StCont st rest
  else
    let '(tok, r) := span not_incl_sep (c :: rest) in
    let t := until_nul tok in                        (* what strlen(yytext) sees *)
    match t with
    | [] => if include_len_checked then StEnd st (EndExit S_INCL_SHORT)
            else StEnd st (EndMem S_MEM_INCLNAME)    (* yytext[-1] = '\0' *)
    | [_] => if include_len_checked then StEnd st (EndExit S_INCL_SHORT)
             else StInclude st [] r                  (* yytext[0] = '\0'; name = "" *)
    | _ :: t' => StInclude st (removelast t') r      (* strip one byte on each side *)
    end.

Definition is_odigit (c : byte) : bool := (48 <=? c) && (c <=? 55).

(* strtol(&yytext[1], NULL, 8) on three decimal digits, then conversion to char *)
Definition octal3 (x y z : byte) : byte :=
  if is_odigit x then
    if is_odigit y then
      if is_odigit z then (((x - 48) * 64 + (y - 48) * 8 + (z - 48)) mod 256)
      else ((x - 48) * 8 + (y - 48))
    else (x - 48)
  else 0.

Definition str_plain (b : byte) : bool := negb (N.eqb b 92 || N.eqb b 10 || N.eqb b 34).

Definition cont_add (st : lstate) (bytes : text) (rest : text) : step_res :=
  match sb_add_list st bytes with
  | inl st' => StCont st' rest
  | inr e => StEnd st e
  end.

Definition step_str (st : lstate) (c : byte) (rest : text) : step_res :=
  if N.eqb c 34 then
    match sb_finish st with inl st' => StCont st' rest | inr e => StEnd st e end
  else if N.eqb c 10 then StEnd st (EndExit S_STR_NEWLINE)
  else if N.eqb c 92 then
    match rest with
    | [] => StCont st rest                           (* `\` is the last byte of this file: flex's default rule (ECHO) *)
    | x :: r1 =>
        match r1 with
        | y :: z :: r3 =>
            if is_digit x && is_digit y && is_digit z then cont_add st [octal3 x y z] r3
            else cont_add st [match assoc_byte x escape_table with Some v => v | None => x end] r1
        | _ => cont_add st [match assoc_byte x escape_table with Some v => v | None => x end] r1
        end
    end
  else
    let '(run, r) := span str_plain rest in
    cont_add st (until_nul (c :: run)) r.             (* `while ( *yptr )`: stops at the first NUL of the run *)

Definition step (st : lstate) (c : byte) (rest : text) : step_res :=
  match l_sc st with
  | SInit => step_init st c rest
  | SIncl => step_incl st c rest
  | SStr => step_str st c rest
  end.

(* the scanning loop over one input file; [rec] lexes an included file one level deeper.
   [ptr] = include_stack_ptr, [n] bounds the number of flex matches (each consumes at least one byte) *)
Fixpoint lex_loop (rec : N -> lstate -> text -> lstate * option lex_end) (files : text -> option text) (ptr : N)
                  (n : nat) (st : lstate) (bs : text) {struct n} : lstate * option lex_end :=
  match n with
  | O => (st, Some (EndHang S_HANG_FUEL))
  | S n' =>
      match bs with
      | [] => (st, None)                                      (* <<EOF>> of this file *)
      | c :: rest =>
          match step st c rest with
          | StCont st' rest' => lex_loop rec files ptr n' st' rest'
          | StEnd st' e => (st', Some e)
          | StInclude st' name rest' =>
              if include_refuse_at <=? ptr then (st', Some (EndExit S_INCL_DEPTH))
              else if (max_include_depth <=? ptr) || (max_include_depth <=? ptr + 1)
              then (st', Some (EndMem S_MEM_INCLSTACK))       (* include_stack[ptr], linenum[ptr+1], filename[ptr+1] *)
              else
                match files name with
                | None => (st', Some (EndExit S_INCL_OPEN))
                | Some content =>
                    match rec (ptr + 1) (set_sc st' SInit) content with
                    | (st'', Some e) => (st'', Some e)
                    | (st'', None) => lex_loop rec files ptr n' st'' rest'   (* popped: same start condition goes on *)
                    end
                end
          end
      end
  end.

(* one input file: [d] bounds the include nesting still available *)
Fixpoint lex_file (d : nat) (files : text -> option text) (ptr : N) (st : lstate) (bs : text) {struct d}
  : lstate * option lex_end :=
  match d with
  | O => (st, Some (EndHang S_HANG_DEPTH))
  | S d' => lex_loop (lex_file d' files) files ptr (S (length bs)) st bs
  end.

Definition lex_init : lstate := mkL SInit [] 0 0 [].
Definition lex_depth : nat := S (N.to_nat include_refuse_at).

Definition lex_run (files : text -> option text) (main : text) : lstate * lex_end :=
  let '(st, e) := lex_file lex_depth files 0 lex_init main in
  (st, match e with None => EndEOF | Some e => e end).

Definition lex_all (files : text -> option text) (main : text) : list token * lex_end :=
  let '(st, e) := lex_run files main in (rev (l_out st), e).

Definition tokens (files : text -> option text) (main : text) : outcome (list token) :=
  match lex_all files main with
  | (t, EndEOF) => Ok t
  | (_, EndExit s) => Exit 1 s
  | (_, EndMem s) => MemErr s
  | (_, EndHang s) => Hang s
  end.

(* ------------------------------------------------------------------------------------------------ numbers *)
Local Open Scope Z_scope.

Fixpoint dec_val (acc : Z) (l : text) : Z :=
  match l with
  | [] => acc
  | c :: r => dec_val (acc * 10 + (Z.of_N c - 48)) r
  end.

(* a number token ([0-9]+ | [0-9]+.[0-9]* | .[0-9]+) as the exact rational m / 10^k *)
Definition num_rat (tok : text) : Z * Z :=
  let '(ip, r) := span is_digit tok in
  match r with
  | dot :: fp => if N.eqb dot 46 then let fp' := fst (span is_digit fp) in (dec_val 0 (ip ++ fp'), Z.of_nat (length fp'))
                 else (dec_val 0 ip, 0)
  | [] => (dec_val 0 ip, 0)
  end.

Inductive time_res : Type := TimeOk | TimeExit (site : nat) | TimeUB.

(* _strtodouble followed by _doubletotv, on a number token.  strtod rounds to nearest-even:
   HUGE_VAL iff q >= 2^1024 - 2^970;  (double)q > L iff q > L + ulp(L)/2;  (double)q >= 2^63 iff q >= 2^63 - 2^9 *)
Definition time_check (tok : text) : time_res :=
  let '(m, k) := num_rat tok in
  let p := 10 ^ k in
  if (2 ^ 1024 - 2 ^ 970) * p <=? m then TimeExit S_DBL_OVERFLOW
  else if time_bounded then
    let hd := 2 ^ (53 - Z.log2 time_limit) in
    if (time_limit * hd + 1) * p <? m * hd then TimeExit S_TIME_LARGE else TimeOk
  else if (2 ^ 63 - 2 ^ 9) * p <=? m then TimeUB
  else TimeOk.

Inductive strtol_res : Type := LNoConv | LRange | LVal (v : Z).

Definition digit_val (c : byte) : option Z :=
  if is_digit c then Some (Z.of_N c - 48)
  else if ((97 <=? c) && (c <=? 122))%N then Some (Z.of_N c - 87)
  else if ((65 <=? c) && (c <=? 90))%N then Some (Z.of_N c - 55)
  else None.

Fixpoint acc_digits (base acc : Z) (any : bool) (l : text) : Z * bool :=
  match l with
  | [] => (acc, any)
  | c :: r => match digit_val c with
              | Some v => if v <? base then acc_digits base (acc * base + v) true r else (acc, any)
              | None => (acc, any)
              end
  end.

Fixpoint skip_space (l : text) : text :=
  match l with
  | c :: r => if is_space c then skip_space r else l
  | [] => []
  end.

Definition is_x (c : byte) : bool := N.eqb c 120 || N.eqb c 88.
Definition is_hex (c : byte) : bool := match digit_val c with Some v => v <? 16 | None => false end.

(* strtol(str, &endptr, 0) of glibc 2.36 on a NUL-free string *)
Definition strtol0 (s : text) : strtol_res :=
  let s1 := skip_space s in
  let '(neg, s2) := match s1 with
                    | sg :: r => if N.eqb sg 45 then (true, r) else if N.eqb sg 43 then (false, r) else (false, s1)
                    | [] => (false, s1)
                    end in
  let '(base, s3) := match s2 with
                     | z :: r0 =>
                         if N.eqb z 48 then
                           match r0 with
                           | x :: h :: r => if is_x x && is_hex h then (16, h :: r) else (8, s2)
                           | _ => (8, s2)
                           end
                         else (10, s2)
                     | [] => (10, s2)
                     end in
  let '(v, any) := acc_digits base 0 false s3 in
  if negb any then LNoConv
  else let v' := if neg then - v else v in
       if (2 ^ 63 - 1 <? v') || (v' <? - 2 ^ 63) then LRange else LVal v'.

Definition wrap32 (v : Z) : Z := (v + 2 ^ 31) mod 2 ^ 32 - 2 ^ 31.      (* long -> int on this ABI *)

(* ------------------------------------------------------------------------------------------------ configuration *)
Inductive pstmt : Type :=
| PSend (s : text)
| PExpect (re : text)
| PDelay (tok : text)
| PSetPlugState (lit : option text) (mp1 mp2 : Z) (interps : list (bool * text))   (* true = on *)
| PSetResult (mp1 mp2 : Z) (interps : list text)
| PBlock (k : kw) (body : list pstmt).                (* foreachnode / foreachplug / ifoff / ifon *)

(* regexes xregex_compile sees when a device instantiates the script: (withsub, source) *)
Fixpoint stmt_regexes (s : pstmt) : list (bool * text) :=
  match s with
  | PExpect re => [(true, re)]
  | PSetPlugState _ _ _ il => map (fun p => (false, snd p)) il
  | PSetResult _ _ il => map (fun r => (false, r)) il
  | PBlock _ b => (fix go (l : list pstmt) : list (bool * text) :=
                     match l with [] => [] | x :: r => stmt_regexes x ++ go r end) b
  | _ => []
  end.

Record spec_s : Type := mkSpecS {
  ss_name : text;
  ss_timeout_set : bool;
  ss_plugs : option (list text);
  ss_scripts : list (Z * list pstmt)           (* (index into dev->scripts, statements), most recent first *)
}.

Inductive transport : Type := TrPipe | TrSerial (flags : option text) | TrTcp.

Record dev_s : Type := mkDev {
  d_name : text;
  d_spec : text;
  d_transport : transport;
  d_hardwired : bool;
  d_plugs : list (text * option text);          (* (plug name, node), in List order *)
  d_login : bool;                               (* dev->scripts[PM_LOG_IN] != NULL *)
  d_internal_args : bool                        (* the login or ping script contains a statement that consults the
                                                   action's arglist (ifon/ifoff/setplugstate/setresult) *)
}.

Record cfg : Type := mkCfg {
  c_specs : list spec_s;                        (* device_specs, in list order *)
  c_devs : list dev_s;                          (* dev_devices, in list order *)
  c_nodes : list text;                          (* conf_nodes, expanded *)
  c_aliases : list (text * list text);
  c_listen : list text;
  c_warned : bool                               (* a warning with file::line has been printed *)
}.

Definition cfg_empty : cfg := mkCfg [] [] [] [] [] false.

(* statements that call arglist_find(act->arglist, ...) *)
Fixpoint stmt_uses_arglist (s : pstmt) : bool :=
  match s with
  | PSetPlugState _ _ _ _ | PSetResult _ _ _ => true
  | PBlock k b =>
      N.eqb (kw_code k) (kw_code TOK_IFON) || N.eqb (kw_code k) (kw_code TOK_IFOFF) ||
      (fix go (l : list pstmt) : bool := match l with [] => false | x :: r => stmt_uses_arglist x || go r end) b
  | _ => false
  end.

Fixpoint script_uses_arglist (i : Z) (l : list (Z * list pstmt)) : bool :=
  match l with
  | [] => false
  | (j, b) :: r => (Z.eqb i j && existsb stmt_uses_arglist b) || script_uses_arglist i r
  end.

Fixpoint has_script (i : Z) (l : list (Z * list pstmt)) : bool :=
  match l with
  | [] => false
  | (j, _) :: r => Z.eqb i j || has_script i r
  end.

(* "every element the daemon dereferences unconditionally at run time is present":
   - _connect -> _enqueue_login -> _create_exec_ctx: list_iterator_create(dev->scripts[PM_LOG_IN])       (F14)
   - serial_connect: sscanf(ser->flags, ...) must not return EOF unless the assert is gone               (F24)
   - xregex_match_sub_strdup: a $N statement may run before any expect only if !xm_used is tolerated     (F26)
   - login and ping actions have no arglist: statements consulting it need arglist_find to tolerate NULL    (F28) *)
Definition dev_mandatory_ok (d : dev_s) : bool :=
  d_login d &&
  match d_transport d with
  | TrSerial None => serial_flags_optional
  | TrSerial (Some f) => serial_flags_optional || negb (forallb is_space f)
  | _ => true
  end &&
  matchpos_unused_ok &&
  (arglist_null_ok || negb (d_internal_args d)).

Definition mandatory_ok (c : cfg) : bool := forallb dev_mandatory_ok (c_devs c).

Section Load.
  Variable hl_expand : text -> option (list text).      (* hostlist_create + iteration; None = refused *)
  Variable regcomp_ok : bool -> text -> bool.           (* regcomp after xregex_compile's \r \n substitution *)
  Variable resolves : text -> text -> bool.             (* getaddrinfo(host, port) succeeds *)
  Variable is_chardev : text -> bool.                   (* stat() ok and st_mode & S_IFCHR *)
  Variable stale_erange : text -> bool.                 (* errno already holds ERANGE when this text is handed to
                                                           _strtolong: environment non-determinism, see do_strtolong *)
  Variable lend : lex_end.                              (* how the token stream ends *)

  Definition fail {A} (c : cfg) (s : nat) : outcome A := Exit 1 (if c_warned c then s + WARNED else s)%nat.

  (* fetch the next token (yylex): None = end of input *)
  Definition next (toks : list token) : outcome (option token * list token) :=
    match toks with
    | t :: r => Ok (Some t, r)
    | [] => match lend with
            | EndEOF => Ok (None, [])
            | EndExit s => Exit 1 s
            | EndMem s => MemErr s
            | EndHang s => Hang s
            end
    end.

  Definition expect_str (c : cfg) (toks : list token) : outcome (text * list token) :=
    match next toks with
    | Ok (Some (TStr s), r) => Ok (s, r)
    | Ok _ => fail c S_PARSE
    | Exit a b => Exit a b | Abort s => Abort s | MemErr s => MemErr s | Hang s => Hang s
    end.

  Definition expect_num (c : cfg) (toks : list token) : outcome (text * list token) :=
    match next toks with
    | Ok (Some (TNum s), r) => Ok (s, r)
    | Ok _ => fail c S_PARSE
    | Exit a b => Exit a b | Abort s => Abort s | MemErr s => MemErr s | Hang s => Hang s
    end.

  Definition expect_tok (c : cfg) (want : token -> bool) (toks : list token) : outcome (list token) :=
    match next toks with
    | Ok (Some t, r) => if want t then Ok r else fail c S_PARSE
    | Ok (None, _) => fail c S_PARSE
    | Exit a b => Exit a b | Abort s => Abort s | MemErr s => MemErr s | Hang s => Hang s
    end.

  Definition is_begin (t : token) : bool := match t with TBegin => true | _ => false end.
  Definition is_equals (t : token) : bool := match t with TEquals => true | _ => false end.

  Definition do_time (c : cfg) (tok : text) : outcome unit :=
    match time_check tok with
    | TimeOk => Ok tt
    | TimeExit s => fail c s
    | TimeUB => MemErr S_UB_FLOATCAST
    end.

  (* _strtolong: `(val == LONG_MIN || val == LONG_MAX) && errno == ERANGE` is evaluated WITHOUT clearing errno before
     strtol() unless GenLex.errno_cleared_strtol (fix F30, not applied).  errno may still hold ERANGE from an earlier
     strtod() underflow (a time value below the smallest double) and every successful libc call in between is free
     to keep or overwrite it; so for the two exact values the refusal depends on the environment: oracle
     [stale_erange].  (_strtodouble has the same shape, but strtod returns +-HUGE_VAL only when it sets ERANGE itself:
     number tokens are digits and dots, never "inf"; a stale errno cannot change its answer.) *)
  Definition do_strtolong (c : cfg) (s : text) : outcome Z :=
    match strtol0 s with
    | LNoConv => fail c S_LONG_PARSE
    | LRange => fail c S_LONG_RANGE
    | LVal v =>
        if negb errno_cleared_strtol && stale_erange s && ((v =? 2 ^ 63 - 1) || (v =? - 2 ^ 63))
        then fail c S_LONG_RANGE else Ok v
    end.

  Local Open Scope outcome_scope.

  (* regmatch : TOK_MATCHPOS TOK_NUMERIC_VAL   (reduced at once; the text is converted later) *)
  Definition parse_regmatch_tail (c : cfg) (toks : list token) : outcome (text * list token) := expect_num c toks.

  (* state_interp* : (on|off) = "re"; returns the list and the first token that does not continue it, unconsumed *)
  Fixpoint parse_state_interps (n : nat) (c : cfg) (toks : list token) (acc : list (bool * text))
    : outcome (list (bool * text) * list token) :=
    match n with
    | O => Hang S_HANG_FUEL
    | S n' =>
        ' (t, r) <- next toks ;;
        match t with
        | Some (TKw TOK_ON) => r1 <- expect_tok c is_equals r ;; ' (s, r2) <- expect_str c r1 ;; parse_state_interps n' c r2 (acc ++ [(true, s)])
        | Some (TKw TOK_OFF) => r1 <- expect_tok c is_equals r ;; ' (s, r2) <- expect_str c r1 ;; parse_state_interps n' c r2 (acc ++ [(false, s)])
        | _ => Ok (acc, toks)
        end
    end.

  Fixpoint parse_result_interps (n : nat) (c : cfg) (toks : list token) (acc : list text)
    : outcome (list text * list token) :=
    match n with
    | O => Hang S_HANG_FUEL
    | S n' =>
        ' (t, r) <- next toks ;;
        match t with
        | Some (TKw TOK_SUCCESS) => r1 <- expect_tok c is_equals r ;; ' (s, r2) <- expect_str c r1 ;; parse_result_interps n' c r2 (acc ++ [s])
        | _ => Ok (acc, toks)
        end
    end.

  Definition conv_mp (c : cfg) (o : option text) : outcome Z :=
    match o with
    | None => Ok (-1)%Z
    | Some s => v <- do_strtolong c s ;; Ok (wrap32 v)
    end.

  Definition is_matchpos (t : token) : bool := match t with TMatchpos => true | _ => false end.

  (* the statements without a sub-block, entered after their keyword [k] has been shifted; [n] is fuel for the
     interpretation lists.  Forms that bison reduces only after a look-ahead fetch that token (via [next] inside
     parse_*_interps) BEFORE the conversions of makePreStmt run. *)
  Definition parse_simple (n : nat) (c : cfg) (k : kw) (r : list token) : outcome (pstmt * list token) :=
    match k with
    | TOK_EXPECT => ' (s, r1) <- expect_str c r ;; Ok (PExpect s, r1)
    | TOK_SEND => ' (s, r1) <- expect_str c r ;; Ok (PSend s, r1)
    | TOK_DELAY => ' (s, r1) <- expect_num c r ;; _ <- do_time c s ;; Ok (PDelay s, r1)
    | TOK_SETPLUGSTATE =>
        ' (t1, r1) <- next r ;;
        match t1 with
        | Some (TStr lit) =>
            r2 <- expect_tok c is_matchpos r1 ;;
            ' (m2, r3) <- expect_num c r2 ;;
            ' (il, r4) <- parse_state_interps n c r3 [] ;;
            mp2 <- conv_mp c (Some m2) ;;
            Ok (PSetPlugState (Some lit) (-1) mp2 il, r4)
        | Some TMatchpos =>
            ' (ma, r2) <- expect_num c r1 ;;
            ' (t2, r3) <- next r2 ;;
            match t2 with
            | Some TMatchpos =>
                ' (mb, r4) <- expect_num c r3 ;;
                ' (il, r5) <- parse_state_interps n c r4 [] ;;
                mp1 <- conv_mp c (Some ma) ;; mp2 <- conv_mp c (Some mb) ;;
                Ok (PSetPlugState None mp1 mp2 il, r5)
            | _ =>
                ' (il, r4) <- parse_state_interps n c r2 [] ;;
                mp2 <- conv_mp c (Some ma) ;;
                Ok (PSetPlugState None (-1) mp2 il, r4)
            end
        | _ => fail c S_PARSE
        end
    | TOK_SETRESULT =>
        r1 <- expect_tok c is_matchpos r ;;
        ' (ma, r2) <- expect_num c r1 ;;
        r3 <- expect_tok c is_matchpos r2 ;;
        ' (mb, r4) <- expect_num c r3 ;;
        ' (il, r5) <- parse_result_interps n c r4 [] ;;
        match il with
        | [] => fail c S_PARSE
        | _ => mp1 <- conv_mp c (Some ma) ;; mp2 <- conv_mp c (Some mb) ;; Ok (PSetResult mp1 mp2 il, r5)
        end
    | _ => fail c S_PARSE
    end.

  Definition is_block_kw (k : kw) : bool :=
    match k with TOK_FOREACHNODE | TOK_FOREACHPLUG | TOK_IFOFF | TOK_IFON => true | _ => false end.

  (* stmt_list up to and including the closing brace (at least one statement) *)
  Fixpoint parse_stmts (n : nat) (c : cfg) (toks : list token) (acc : list pstmt) {struct n}
    : outcome (list pstmt * list token) :=
    match n with
    | O => Hang S_HANG_FUEL
    | S n' =>
        ' (t, r) <- next toks ;;
        match t with
        | Some TEnd => match acc with [] => fail c S_PARSE | _ => Ok (acc, r) end
        | Some (TKw k) =>
            if is_block_kw k then
              r1 <- expect_tok c is_begin r ;; ' (b, r2) <- parse_stmts n' c r1 [] ;; parse_stmts n' c r2 (acc ++ [PBlock k b])
            else
              ' (s, r1) <- parse_simple n' c k r ;; parse_stmts n' c r1 (acc ++ [s])
        | _ => fail c S_PARSE
        end
    end.

  Fixpoint assoc_kw (k : kw) (l : list (kw * Z)) : option Z :=
    match l with
    | [] => None
    | (j, v) :: r => if N.eqb (kw_code j) (kw_code k) then Some v else assoc_kw k r
    end.

  Fixpoint mem_text (x : text) (l : list text) : bool :=
    match l with [] => false | y :: r => text_eqb x y || mem_text x r end.

  Fixpoint parse_strings (n : nat) (c : cfg) (toks : list token) (acc : list text) : outcome (list text * list token) :=
    match n with
    | O => Hang S_HANG_FUEL
    | S n' =>
        ' (t, r) <- next toks ;;
        match t with
        | Some (TStr s) =>
            (* reduced at once (no look-ahead): the duplicate test of F34 runs when the string is read *)
            if plugnames_checked && mem_text s acc then fail c S_DUP_PLUGNAME else parse_strings n' c r (acc ++ [s])
        | Some TEnd => match acc with [] => fail c S_PARSE | _ => Ok (acc, r) end
        | _ => fail c S_PARSE
        end
    end.

  (* spec_item_list up to and including the closing brace *)
  Fixpoint parse_spec_items (n : nat) (c : cfg) (toks : list token) (sp : spec_s) (nitems : nat) {struct n}
    : outcome (spec_s * list token) :=
    match n with
    | O => Hang S_HANG_FUEL
    | S n' =>
        ' (t, r) <- next toks ;;
        match t with
        | Some TEnd => match nitems with O => fail c S_PARSE | _ => Ok (sp, r) end
        | Some (TKw TOK_DEV_TIMEOUT) =>
            ' (s, r1) <- expect_num c r ;; _ <- do_time c s ;;
            parse_spec_items n' c r1 (mkSpecS (ss_name sp) true (ss_plugs sp) (ss_scripts sp)) (S nitems)
        | Some (TKw TOK_PING_PERIOD) =>
            ' (s, r1) <- expect_num c r ;; _ <- do_time c s ;; parse_spec_items n' c r1 sp (S nitems)
        | Some TPlugName =>
            r1 <- expect_tok c is_begin r ;;
            ' (l, r2) <- parse_strings n' c r1 [] ;;
            match ss_plugs sp with
            | Some _ => fail c S_DUP_PLUGLIST
            | None => parse_spec_items n' c r2 (mkSpecS (ss_name sp) (ss_timeout_set sp) (Some l) (ss_scripts sp)) (S nitems)
            end
        | Some (TKw TOK_SCRIPT) =>
            ' (t1, r1) <- next r ;;
            match t1 with
            | Some (TKw k) =>
                match assoc_kw k script_table with
                | None => fail c S_PARSE
                | Some i =>
                    r2 <- expect_tok c is_begin r1 ;;
                    ' (b, r3) <- parse_stmts n' c r2 [] ;;
                    if has_script i (ss_scripts sp) then fail c S_DUP_SCRIPT
                    else parse_spec_items n' c r3 (mkSpecS (ss_name sp) (ss_timeout_set sp) (ss_plugs sp) ((i, b) :: ss_scripts sp)) (S nitems)
                end
            | _ => fail c S_PARSE
            end
        | _ => fail c S_PARSE
        end
    end.

  (* ---- makeDevice *)
  Fixpoint find_spec (name : text) (l : list spec_s) : option spec_s :=
    match l with
    | [] => None
    | s :: r => if text_eqb (ss_name s) name then Some s else find_spec name r
    end.

  Fixpoint contains_pipe (l : text) : bool :=          (* strstr(hoststr, "|&") *)
    match l with
    | a :: r => (N.eqb a 124 && match r with b :: _ => N.eqb b 38 | [] => false end) || contains_pipe r
    | [] => false
    end.

  Fixpoint split_on (sep : byte) (l : text) (cur : text) : list text :=
    match l with
    | [] => [rev cur]
    | c :: r => if N.eqb c sep then rev cur :: split_on sep r [] else split_on sep r (c :: cur)
    end.

  Definition quiet : text := [113; 117; 105; 101; 116]%N.

  (* _parse_options: strtok(flags, ","): empty pieces are skipped, every other piece must be "quiet" *)
  Definition tcp_options_ok (flags : option text) : bool :=
    match flags with
    | None => true
    | Some f => forallb (fun p => match p with [] => true | _ => text_eqb p quiet end) (split_on 44%N f [])
    end.

  Definition parse_hoststr (c : cfg) (host : text) (flags : option text) : outcome transport :=
    if contains_pipe host then
      (* argv_create(cmdline, "|&"): no word at all *)
      if pipe_empty_refused && forallb (fun b => is_space b || N.eqb b 124 || N.eqb b 38) host then fail c S_PIPE_EMPTY
      else Ok TrPipe
    else if match host with sl :: _ => N.eqb sl 47 | [] => false end then
             if is_chardev host then
               match flags with
               | None => if serial_flags_optional then Ok (TrSerial None) else MemErr S_MEM_SERIAL_NULL
               | Some f => Ok (TrSerial (Some f))
               end
             else fail c S_NOT_CHARDEV
         else
             let '(h, rest) := span (fun b => negb (N.eqb b 58%N)) host in
             match rest with
             | [] => fail c S_NO_PORT
             | _ :: port =>
                 v <- do_strtolong c port ;;
                 let n := wrap32 v in
                 if ((n <? 1) || (65535 <? n))%Z then fail c S_PORT_RANGE
                 else if negb (tcp_options_ok flags) then fail c S_BAD_OPTION
                 else if resolves h port then Ok TrTcp else fail c S_GAI
             end.

  Definition regex_ok (p : bool * text) : bool :=
    Nat.leb (length (snd p)) 256 && regcomp_ok (fst p) (snd p).

  Definition scripts_regexes (l : list (Z * list pstmt)) : list (bool * text) :=
    flat_map (fun e => flat_map stmt_regexes (snd e)) l.

  Definition make_device (c : cfg) (name spec host : text) (flags : option text) : outcome cfg :=
    match find_spec spec (c_specs c) with
    | None => fail c S_NO_SPEC
    | Some sp =>
        tr <- parse_hoststr c host flags ;;
        if forallb regex_ok (scripts_regexes (ss_scripts sp)) then
          let plugs := match ss_plugs sp with Some l => map (fun p => (p, None)) l | None => [] end in
          let d := mkDev name spec tr (match ss_plugs sp with Some _ => true | None => false end) plugs
                         (has_script pm_log_in (ss_scripts sp))
                         (script_uses_arglist pm_log_in (ss_scripts sp) || script_uses_arglist pm_ping (ss_scripts sp)) in
          Ok (mkCfg (c_specs c) (c_devs c ++ [d]) (c_nodes c) (c_aliases c) (c_listen c) (c_warned c))
        else fail c S_REGEX
    end.

  (* ---- makeNode: pluglist_map + conf_addnodes *)
  Fixpoint plug_find (name : text) (l : list (text * option text)) : option (option text) :=
    match l with
    | [] => None
    | (p, nd) :: r => if text_eqb p name then Some nd else plug_find name r
    end.

  Fixpoint plug_set (name node : text) (l : list (text * option text)) : list (text * option text) :=
    match l with
    | [] => []
    | (p, nd) :: r => if text_eqb p name then (p, Some node) :: r else (p, nd) :: plug_set name node r
    end.

  (* _pluglist_map_one *)
  Definition map_one (hard : bool) (pl : list (text * option text)) (node name : text)
    : nat + list (text * option text) :=
    match plug_find name pl with
    | None => if hard then inl S_UNKPLUG else inr ((name, Some node) :: pl)      (* list_push: prepended *)
    | Some (Some _) => inl S_DUPPLUG
    | Some None => inr (plug_set name node pl)
    end.

  (* _pluglist_map_next *)
  Fixpoint map_next (pl : list (text * option text)) (node : text) : option (list (text * option text)) :=
    match pl with
    | [] => None
    | (p, None) :: r => Some ((p, Some node) :: r)
    | e :: r => match map_next r node with Some r' => Some (e :: r') | None => None end
    end.

  Fixpoint map_nodes_noplugs (hard : bool) (pl : list (text * option text)) (nodes : list text)
    : nat + list (text * option text) :=
    match nodes with
    | [] => inr pl
    | nd :: r =>
        if hard then match map_next pl nd with
                     | None => inl S_NOPLUGS
                     | Some pl' => map_nodes_noplugs hard pl' r
                     end
        else match map_one hard pl nd nd with
             | inl e => inl e
             | inr pl' => map_nodes_noplugs hard pl' r
             end
    end.

  Fixpoint map_nodes_plugs (hard : bool) (pl : list (text * option text)) (nodes plugs : list text)
    : nat + list (text * option text) :=
    match nodes with
    | [] => match plugs with [] => inr pl | _ => inl S_NONODES end
    | nd :: r =>
        match plugs with
        | [] => inl S_NOPLUGS
        | p :: pr => match map_one hard pl nd p with
                     | inl e => inl e
                     | inr pl' => map_nodes_plugs hard pl' r pr
                     end
        end
    end.

  Fixpoint add_nodes (have : list text) (nodes : list text) : option (list text) :=
    match nodes with
    | [] => Some have
    | nd :: r => if mem_text nd have then None else add_nodes (have ++ [nd]) r
    end.

  Fixpoint update_dev (name : text) (f : dev_s -> nat + dev_s) (l : list dev_s) : option (nat + list dev_s) :=
    match l with
    | [] => None
    | d :: r =>
        if text_eqb (d_name d) name
        then Some (match f d with inl e => inl e | inr d' => inr (d' :: r) end)
        else match update_dev name f r with
             | None => None
             | Some (inl e) => Some (inl e)
             | Some (inr r') => Some (inr (d :: r'))
             end
    end.

  Definition make_node (c : cfg) (nodestr devstr : text) (plugstr : option text) : outcome cfg :=
    let upd (nodes : list text) (plugs : option (list text)) (d : dev_s) : nat + dev_s :=
      match match plugs with
            | None => map_nodes_noplugs (d_hardwired d) (d_plugs d) nodes
            | Some ps => map_nodes_plugs (d_hardwired d) (d_plugs d) nodes ps
            end with
      | inl e => inl e
      | inr pl => inr (mkDev (d_name d) (d_spec d) (d_transport d) (d_hardwired d) pl (d_login d) (d_internal_args d))
      end in
    (* dev_findbyname first, then the two _validHostlist tests, then pluglist_map, then conf_addnodes *)
    match update_dev devstr (fun d => inr d) (c_devs c) with
    | None => fail c S_NO_DEVICE
    | Some _ =>
        match hl_expand nodestr with
        | None => fail c S_BAD_NODELIST
        | Some nodes =>
            match match plugstr with
                  | None => Some None
                  | Some p => match hl_expand p with None => None | Some l => Some (Some l) end
                  end with
            | None => fail c S_BAD_PLUGLIST
            | Some plugs =>
                match update_dev devstr (upd nodes plugs) (c_devs c) with
                | None => fail c S_NO_DEVICE
                | Some (inl e) => fail c e
                | Some (inr devs) =>
                    match add_nodes (c_nodes c) nodes with
                    | None => fail c S_DUP_NODE
                    | Some all => Ok (mkCfg (c_specs c) devs all (c_aliases c) (c_listen c) (c_warned c))
                    end
                end
            end
        end
    end.

  Fixpoint alias_find (name : text) (l : list (text * list text)) : bool :=
    match l with [] => false | (n, _) :: r => text_eqb n name || alias_find name r end.

  Definition make_alias (c : cfg) (name hosts : text) : outcome cfg :=
    if alias_find name (c_aliases c) then fail c S_BAD_ALIAS
    else match hl_expand hosts with
         | None => fail c S_BAD_ALIAS
         | Some l => Ok (mkCfg (c_specs c) (c_devs c) (c_nodes c) ((name, l) :: c_aliases c) (c_listen c) (c_warned c))
         end.

  (* <syslog.h> prioritynames *)
  Definition level_names : list text :=
    [ [97;108;101;114;116]; [99;114;105;116]; [100;101;98;117;103]; [101;109;101;114;103]; [101;114;114];
      [101;114;114;111;114]; [105;110;102;111]; [110;111;110;101]; [110;111;116;105;99;101]; [112;97;110;105;99];
      [119;97;114;110]; [119;97;114;110;105;110;103] ]%N.

  Definition set_tcpwrap (c : cfg) (val : bool) : outcome cfg :=
    if val && negb have_tcp_wrappers then fail c S_TCPWRAP else Ok c.

  (* _validate_config *)
  Definition validate (c : cfg) : outcome cfg :=
    if forallb (fun a => forallb (fun h => mem_text h (c_nodes c)) (snd a)) (c_aliases c)
       && match c_nodes c with [] => false | _ => true end
    then Ok c else fail c S_INVALID.

  (* config_list up to the end of input *)
  Fixpoint parse_items (n : nat) (c : cfg) (toks : list token) {struct n} : outcome cfg :=
    match n with
    | O => Hang S_HANG_FUEL
    | S n' =>
        ' (t, r) <- next toks ;;
        match t with
        | None => validate c
        | Some (TKw TOK_LISTEN) =>
            ' (s, r1) <- expect_str c r ;;
            parse_items n' (mkCfg (c_specs c) (c_devs c) (c_nodes c) (c_aliases c) (c_listen c ++ [s]) (c_warned c)) r1
        | Some (TKw TOK_PLUG_LOG_LEVEL) =>
            ' (s, r1) <- expect_str c r ;;
            if mem_text s level_names then parse_items n' c r1 else fail c S_LOGLEVEL
        | Some (TKw TOK_TCP_WRAPPERS) =>
            ' (t1, r1) <- next r ;;
            match t1 with
            | Some (TKw TOK_YES) => c' <- set_tcpwrap c true ;; parse_items n' c' r1
            | Some (TKw TOK_NO) => c' <- set_tcpwrap c false ;; parse_items n' c' r1
            | _ =>
                (* _warnmsg prints file::line, then conf_set_use_tcp_wrappers(true) *)
                let cw := mkCfg (c_specs c) (c_devs c) (c_nodes c) (c_aliases c) (c_listen c) true in
                c' <- set_tcpwrap cw true ;; parse_items n' c' r
            end
        | Some (TKw TOK_DEVICE) =>
            ' (s1, r1) <- expect_str c r ;; ' (s2, r2) <- expect_str c r1 ;; ' (s3, r3) <- expect_str c r2 ;;
            ' (t4, r4) <- next r3 ;;
            match t4 with
            | Some (TStr s4) => c' <- make_device c s1 s2 s3 (Some s4) ;; parse_items n' c' r4
            | _ => c' <- make_device c s1 s2 s3 None ;; parse_items n' c' r3
            end
        | Some (TKw TOK_NODE) =>
            ' (s1, r1) <- expect_str c r ;; ' (s2, r2) <- expect_str c r1 ;;
            ' (t3, r3) <- next r2 ;;
            match t3 with
            | Some (TStr s3) => c' <- make_node c s1 s2 (Some s3) ;; parse_items n' c' r3
            | _ => c' <- make_node c s1 s2 None ;; parse_items n' c' r2
            end
        | Some (TKw TOK_ALIAS) =>
            ' (s1, r1) <- expect_str c r ;; ' (s2, r2) <- expect_str c r1 ;;
            c' <- make_alias c s1 s2 ;; parse_items n' c' r2
        | Some (TKw TOK_SPEC) =>
            ' (name, r1) <- expect_str c r ;;
            r2 <- expect_tok c is_begin r1 ;;
            ' (sp, r3) <- parse_spec_items n' c r2 (mkSpecS name false None []) O ;;
            (* makeSpec *)
            if login_required && negb (has_script pm_log_in (ss_scripts sp)) then fail c S_NO_LOGIN
            else parse_items n' (mkCfg (c_specs c ++ [sp]) (c_devs c) (c_nodes c) (c_aliases c) (c_listen c) (c_warned c)) r3
        | _ => fail c S_PARSE
        end
    end.

  Definition load_stream (toks : list token) : outcome cfg :=
    parse_items (S (length toks)) cfg_empty toks.

End Load.

(* a complete token list (the lexer reached the end of the main file) *)
Definition load hl_expand regcomp_ok resolves is_chardev stale_erange (toks : list token) : outcome cfg :=
  load_stream hl_expand regcomp_ok resolves is_chardev stale_erange EndEOF toks.

(* conf_init(file): lexer and parser interleaved as in the C (the parser may exit before the lexer's error) *)
Definition conf_init hl_expand regcomp_ok resolves is_chardev stale_erange (files : text -> option text) (main : text)
  : outcome cfg :=
  let '(toks, e) := lex_all files main in
  load_stream hl_expand regcomp_ok resolves is_chardev stale_erange e toks.

(* summary used by the driver *)
Definition outcome_class {A} (o : outcome A) : N * nat :=
  match o with
  | Ok _ => (0%N, O)
  | Exit _ s => (1%N, s)
  | Abort s => (2%N, s)
  | MemErr s => (3%N, s)
  | Hang s => (4%N, s)
  end.
