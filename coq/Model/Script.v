(* The script interpreter of device.c, statement level:
     _create_exec_ctx, _rewind_action, _process_stmt, _process_expect (+ _getregex_buf), _process_send,
     _process_delay, _process_foreach, _process_ifonoff, _process_setplugstate, _process_setresult,
     xregex_match_sub_strdup, dbg_memstr, hsprintf as used by send.
   The queue/time-out/completion loop (_process_action) and the connection state machine are in Model/Device.v.
   glibc regexec is a Section variable (DESIGN §3.4).  No proofs in this file. *)
From Coq Require Import List NArith ZArith Bool.
From PM Require Import Base.Bytes Base.Outcome Base.Dec Gen.GenConsts Model.ScriptAst Model.Enqueue.
Import ListNotations.
Local Open Scope Z_scope.

(* ---------- arguments (arglist.c): one Arg per target node of a command ---------- *)
Record arg : Type := mkArg { ar_node : text; ar_state : Z; ar_result : Z; ar_val : option text }.
Definition arglist := list arg.

Fixpoint arg_find (al : arglist) (node : text) : option arg :=
  match al with
  | [] => None
  | a :: r => if text_eqb (ar_node a) node then Some a else arg_find r node
  end.
(* hash_find returns the FIRST inserted Arg for a key (duplicates are refused by hash_insert) *)
Fixpoint arg_update (al : arglist) (node : text) (f : arg -> arg) : arglist :=
  match al with
  | [] => []
  | a :: r => if text_eqb (ar_node a) node then f a :: r else a :: arg_update r node f
  end.

(* ---------- execution contexts and actions ---------- *)
Record ctx : Type := mkCtx {
  c_plugs : option (list plug);        (* e->plugs: NULL vs list (argument of send) *)
  c_block : list stmt;
  c_pos : nat;                         (* cur = nth c_pos c_block; past the end = NULL *)
  c_plugitr : option nat;              (* foreach iterator: index of the next plug; None = NULL *)
  c_pluglist : option (list plug);     (* copy made by a ranged foreach *)
  c_processing : bool
}.
Definition new_ctx (block : list stmt) (plugs : option (list plug)) : ctx :=
  mkCtx plugs block 0 None None false.
Definition cur (e : ctx) : option stmt := nth_error (c_block e) (c_pos e).
Definition set_processing (b : bool) (e : ctx) : ctx :=
  mkCtx (c_plugs e) (c_block e) (c_pos e) (c_plugitr e) (c_pluglist e) b.
Definition set_plugitr (i : option nat) (e : ctx) : ctx :=
  mkCtx (c_plugs e) (c_block e) (c_pos e) i (c_pluglist e) (c_processing e).
Definition set_pluglist (l : option (list plug)) (e : ctx) : ctx :=
  mkCtx (c_plugs e) (c_block e) (c_pos e) (c_plugitr e) l (c_processing e).
Definition set_pos (n : nat) (e : ctx) : ctx :=
  mkCtx (c_plugs e) (c_block e) n (c_plugitr e) (c_pluglist e) (c_processing e).

Record action : Type := mkAction {
  a_com : Z;
  a_exec : list ctx;                   (* stack, top first; the outer block is last *)
  a_client : Z;
  a_hascb : bool;                      (* complete_fun != NULL (false for login / ping) *)
  a_tele : bool;                       (* vpf_fun != NULL *)
  a_hasdiag : bool;                    (* dpf_fun != NULL *)
  a_err : Z;                           (* ACT_E* *)
  a_stamp : option Z;                  (* time_stamp; None = timerclear *)
  a_delay_start : Z;
  a_args : option nat                  (* index of the shared ArgList in the store; None = NULL *)
}.
Definition set_exec (x : list ctx) (a : action) : action :=
  mkAction (a_com a) x (a_client a) (a_hascb a) (a_tele a) (a_hasdiag a) (a_err a) (a_stamp a) (a_delay_start a) (a_args a).
Definition set_err (x : Z) (a : action) : action :=
  mkAction (a_com a) (a_exec a) (a_client a) (a_hascb a) (a_tele a) (a_hasdiag a) x (a_stamp a) (a_delay_start a) (a_args a).
Definition set_stamp (x : option Z) (a : action) : action :=
  mkAction (a_com a) (a_exec a) (a_client a) (a_hascb a) (a_tele a) (a_hasdiag a) (a_err a) x (a_delay_start a) (a_args a).
Definition set_delay_start (x : Z) (a : action) : action :=
  mkAction (a_com a) (a_exec a) (a_client a) (a_hascb a) (a_tele a) (a_hasdiag a) (a_err a) (a_stamp a) x (a_args a).

Definition create_action (script : list stmt) (com : Z) (plugs : option (list plug)) (client : Z)
           (hascb tele hasdiag : bool) (args : option nat) : action :=
  mkAction com [new_ctx script plugs] client hascb tele hasdiag ACT_ESUCCESS None 0 args.

(* _rewind_action: back to the outer block, iterator and cur reset to the first statement, and (after the
   repair of F9) the per-statement flags of the outer context cleared as well *)
Definition rewind_action (a : action) : action :=
  match rev (a_exec a) with
  | [] => a
  | outer :: _ => set_exec [set_processing false (set_plugitr None (set_pos 0 outer))] a
  end.

(* ---------- the part of a Device the interpreter touches ---------- *)
Definition pmatch := list (option (nat * nat)).        (* regmatch_t[MAX_MATCH_POS+1]; None = rm_so == -1 *)
Record sdev : Type := mkSdev {
  sd_name : text;
  sd_plugs : list plug;
  sd_from : text;                      (* unread device bytes, oldest first *)
  sd_to : text;                        (* bytes queued for the device *)
  sd_xm : option (text * pmatch);      (* xm_str and pmatch when xm_result == 0 *)
  sd_xm_used : bool
}.
Definition set_from x d := mkSdev (sd_name d) (sd_plugs d) x (sd_to d) (sd_xm d) (sd_xm_used d).
Definition set_to x d := mkSdev (sd_name d) (sd_plugs d) (sd_from d) x (sd_xm d) (sd_xm_used d).
Definition set_xm x u d := mkSdev (sd_name d) (sd_plugs d) (sd_from d) (sd_to d) x u.

(* observable effects, in order *)
Inductive ev : Type :=
| EvSent (b : text)                              (* bytes appended to dev->to by a send *)
| EvWrote (b : text)                             (* bytes written from dev->to to the descriptor *)
| EvRead (n : nat)                               (* bytes read from the descriptor into dev->from *)
| EvTele (client : Z) (msg : text)               (* vpf_fun(client, msg) *)
| EvDiag (client : Z) (msg : text)               (* dpf_fun(client, msg) *)
| EvComplete (client : Z) (err : Z) (msg : text) (* complete_fun; msg = [] for success *)
| EvMatched (consumed : nat)                     (* an expect matched and dropped this many bytes *)
| EvDisconnect | EvConnect.

(* assertion / UB sites (the `site` of an Abort outcome) *)
Definition SITE_SUB_NOT_USED : nat := 1.     (* xregex.c assert(xm->xm_used) *)
Definition SITE_SUB_EMPTY : nat := 2.        (* xregex.c assert(m.rm_so < m.rm_eo)  -- gone after the repair of F7 *)
Definition SITE_FMT_UB : nat := 3.           (* hsprintf with a conversion other than one %s / %% *)
Definition SITE_NO_CUR : nat := 4.           (* e->cur == NULL dereferenced (empty block) *)
Definition SITE_DIAG_NULL : nat := 5.        (* act->dpf_fun NULL called by setresult *)
Definition SITE_SEND_ASSERT : nat := 6.      (* device.c assert(dropped == strlen(str) - written) *)
Definition SITE_NO_CTX : nat := 7.           (* assert(e != NULL) *)
Definition SITE_ARGS_NULL : nat := 8.        (* arglist_find(NULL, ...) *)
Definition SITE_RANGED_NOPLUGS : nat := 9.   (* assert(e->plugs) in a ranged foreach *)

(* ---------- dbg_memstr (after the repair of F6: bytes are unsigned) ---------- *)
Definition octal3 (b : byte) : text :=
  [48 + (b / 64) mod 8; 48 + (b / 8) mod 8; 48 + b mod 8]%N.
Definition is_print (b : byte) : bool := (32 <=? b)%N && (b <=? 126)%N.
Definition memstr_byte (b : byte) : text :=
  if N.eqb b 13 then [92; 114]%N
  else if N.eqb b 10 then [92; 110]%N
  else if N.eqb b 9 then [92; 116]%N
  else if is_print b then [b]
  else (92 :: octal3 b)%N.
Definition memstr (t : text) : text := flat_map memstr_byte t.

(* ---------- hsprintf(fmt, arg) as send uses it ---------- *)
Definition null_text : text := [40; 110; 117; 108; 108; 41]%N.   (* "(null)" *)
Fixpoint fmt_subst (fuel : nat) (fmt : text) (a : option text) : option text :=   (* None = undefined behaviour *)
  match fuel with
  | O => Some []
  | S f =>
    match fmt with
    | [] => Some []
    | 37%N :: 115%N :: r =>            (* %s *)
        match fmt_subst f r a with
        | Some x => Some ((match a with Some s => s | None => null_text end) ++ x)
        | None => None end
    | 37%N :: 37%N :: r =>             (* %% *)
        match fmt_subst f r a with Some x => Some (37%N :: x) | None => None end
    | 37%N :: _ => None
    | c :: r => match fmt_subst f r a with Some x => Some (c :: x) | None => None end
    end
  end.
(* more than one %s consumes a second (absent) vararg: undefined *)
Fixpoint count_pct_s (fmt : text) : nat :=
  match fmt with
  | 37%N :: 115%N :: r => S (count_pct_s r)
  | 37%N :: 37%N :: r => count_pct_s r
  | _ :: r => count_pct_s r
  | [] => O
  end.
Definition hsprintf1 (fmt : text) (a : option text) : option text :=
  if Nat.ltb 1 (count_pct_s fmt) then None else fmt_subst (S (length fmt)) fmt a.

Definition lastn {A} (n : nat) (l : list A) : list A := skipn (length l - n) l.

Section Interp.
  (* xregex_compile + regexec: regex source text (as in the file) and a NUL-free subject -> pmatch array *)
  Variable rmatch : text -> text -> option pmatch.
  (* hostlist_push each name; hostlist_sort; ranged string *)
  Variable compress : list text -> text.
  Variable short_circuit : bool.

  Definition rtest (re s : text) : bool := match rmatch re s with Some _ => true | None => false end.

  Definition nul_to_ff (t : text) : text := map (fun b => if N.eqb b 0 then 255%N else b) t.

  (* xregex_match_sub_strdup(dev->xmatch, i) *)
  Definition sub_strdup (d : sdev) (i : Z) : outcome (option text) :=
    if negb (sd_xm_used d) then Ok None                       (* after the repair of F26: no match tried yet = no match *)
    else match sd_xm d with
         | None => Ok None                                   (* xm_result != 0 *)
         | Some (s, pm) =>
           if (i <? 0) || (MAX_MATCH_POS + 1 <=? i) then Ok None
           else match nth_error pm (Z.to_nat i) with
                | Some (Some (so, eo)) =>
                    Ok (Some (firstn (eo - so) (skipn so s)))  (* after the repair of F7: so <= eo is accepted *)
                | _ => Ok None
                end
         end.

  Definition ctx_first_plug (e : ctx) : option plug :=
    match c_plugs e with Some (p :: _) => Some p | _ => None end.

  (* pluglist_find: by name among all plugs; only a mapped plug counts *)
  Fixpoint find_plug_any (l : list plug) (name : text) : option plug :=
    match l with
    | [] => None
    | p :: r => if text_eqb (pl_name p) name then Some p else find_plug_any r name
    end.
  Definition find_plug (d : sdev) (name : text) : option (plug * text) :=
    match find_plug_any (sd_plugs d) name with
    | Some p => match pl_node p with Some n => Some (p, n) | None => None end
    | None => None
    end.

  Fixpoint first_interp (interps : list (Z * text)) (str : text) (dflt : Z) : Z :=
    match interps with
    | [] => dflt
    | (code, re) :: r => if rtest re str then code else first_interp r str dflt
    end.

  Definition cut_crlf (t : text) : text :=             (* snprintf(1024) then strcspn "\r\n" *)
    let t := firstn 1023 t in
    (fix go (l : text) : text := match l with [] => [] | c :: r => if N.eqb c 13 || N.eqb c 10 then [] else c :: go r end) t.

  Definition is_ranged_com (com : Z) : bool := existsb (Z.eqb com) (map snd ranged_table).

  (* one statement of the context on top of the stack.
     result: (finished?, device, action (with the top context possibly changed / a context pushed), arg store, events) *)
  Definition sres := (bool * sdev * action * list arglist * list ev)%type.

  Definition put_top (e : ctx) (rest : list ctx) (a : action) : action := set_exec (e :: rest) a.

  Definition get_args (store : list arglist) (a : action) : option arglist :=
    match a_args a with Some i => nth_error store i | None => None end.
  Fixpoint store_set (store : list arglist) (i : nat) (al : arglist) : list arglist :=
    match store, i with
    | [], _ => []
    | _ :: r, O => al :: r
    | x :: r, S j => x :: store_set r j al
    end.

  Definition tele (a : action) (msg : text) : list ev := if a_tele a then [EvTele (a_client a) msg] else [].

  Definition q1 : text := [39]%N.                            (* ' *)
  Definition msg_recv (d : sdev) (m : text) : text := (bslit "recv(") ++ sd_name d ++ (bslit "): '") ++ m ++ q1.
  Definition msg_send (d : sdev) (m : text) : text := (bslit "send(") ++ sd_name d ++ (bslit "): '") ++ m ++ q1.

  Definition process_expect (now : Z) (d : sdev) (a : action) (store : list arglist) (re : text) : outcome sres :=
    (* xregex_match_recycle *)
    let d := set_xm None false d in
    match sd_from d with
    | [] => Ok (false, d, a, store, [])                       (* cbuf_peek returned 0: regexec not run *)
    | _ =>
      let subj := nul_to_ff (sd_from d) in
      match rmatch re subj with
      | None => Ok (false, set_xm None true d, a, store, [])
      | Some pm =>
        match nth_error pm 0 with
        | Some (Some (_, eo)) =>
            let d' := set_xm (Some (subj, pm)) true (set_from (skipn eo (sd_from d)) d) in
            Ok (true, d', a, store, EvMatched eo :: tele a (msg_recv d (memstr (firstn eo subj))))
        | _ => Ok (false, set_xm None true d, a, store, [])  (* cannot happen: group 0 always set *)
        end
      end
    end.

  Definition send_arg (e : ctx) : option text :=
    match c_plugs e with
    | Some [] | None => None
    | Some [p] => Some (pl_name p)
    | Some ps => Some (compress (map pl_name ps))
    end.

  Definition process_send (now : Z) (d : sdev) (a : action) (store : list arglist) (e : ctx) (rest : list ctx) (fmt : text)
    : outcome sres :=
    let first_time :=
      if c_processing e then Ok (d, [])
      else match hsprintf1 fmt (send_arg e) with
           | None => Abort SITE_FMT_UB
           | Some str =>
             let room := (Z.to_nat MAX_DEV_BUF - length (sd_to d))%nat in
             (* cbuf_write (WRAP_MANY): old bytes are overwritten when the string does not fit; the C then
                asserts dropped == strlen(str) - written, i.e. dropped == 0 *)
             if Nat.ltb room (length str) then
               (* overrun: before the repair of F38 the assert fired; now the oldest unsent bytes are overwritten and the
                  overrun is only logged (no telemetry line in that branch) *)
               if SEND_OVERRUN_ASSERT then Abort SITE_SEND_ASSERT
               else Ok (set_to (lastn (Z.to_nat MAX_DEV_BUF) (sd_to d ++ str)) d, [EvSent str])
             else Ok (set_to (sd_to d ++ str) d, EvSent str :: tele a (msg_send d (memstr str)))
           end in
    match first_time with
    | Ok (d', evs) =>
        match sd_to d' with
        | [] => Ok (true, d', put_top (set_processing false e) rest a, store, evs)
        | _ => Ok (false, d', put_top (set_processing true e) rest a, store, evs)
        end
    | Exit c s => Exit c s | Abort s => Abort s | MemErr s => MemErr s | Hang s => Hang s
    end.

  Definition process_delay (now : Z) (d : sdev) (a : action) (store : list arglist) (e : ctx) (rest : list ctx) (usec : Z)
    : outcome (sres * option Z) :=                           (* + requested time-out update *)
    let '(a1, e1, evs) :=
      if c_processing e then (a, e, [])
      else (set_delay_start now a, set_processing true e,
            tele a ((bslit "delay(") ++ sd_name d ++ (bslit "): ") ++ dec_z (usec / 1000000) ++ [46%N] ++ dec_pad 6 (Z.to_N (usec mod 1000000)))) in
    if short_circuit || (a_delay_start a1 + usec <=? now)
    then Ok ((true, d, put_top (set_processing false e1) rest a1, store, evs), None)
    else Ok ((false, d, put_top e1 rest a1, store, evs), Some (a_delay_start a1 + usec - now)).

  (* pluglist_next from index i, skipping unmapped plugs for foreachnode *)
  Definition unmapped (p : plug) : bool := match pl_node p with None => true | Some _ => false end.
  Fixpoint next_plug_from (onlynodes : bool) (l : list plug) (i : nat) : option (plug * nat) :=
    match l with
    | [] => None
    | p :: r => if onlynodes && unmapped p then next_plug_from onlynodes r (S i) else Some (p, S i)
    end.
  Definition next_plug (onlynodes : bool) (l : list plug) (i : nat) : option (plug * nat) :=
    next_plug_from onlynodes (skipn i l) i.

  Definition process_foreach (d : sdev) (a : action) (store : list arglist) (e : ctx) (rest : list ctx)
             (onlynodes : bool) (body : list stmt) : outcome sres :=
    let init :=
      match c_plugitr e with
      | Some _ => Ok e
      | None =>
        if is_ranged_com (a_com a) then
          match c_plugs e with
          | None => Abort SITE_RANGED_NOPLUGS
          | Some ps =>
              let e1 := match c_pluglist e with Some _ => e | None => set_pluglist (Some ps) e end in
              Ok (set_plugitr (Some O) e1)
          end
        else Ok (set_plugitr (Some O) e)
      end in
    match init with
    | Ok e0 =>
      let lst := if is_ranged_com (a_com a) then match c_pluglist e0 with Some l => l | None => [] end else sd_plugs d in
      let i := match c_plugitr e0 with Some i => i | None => O end in
      match next_plug onlynodes lst i with
      | Some (p, i') => Ok (true, d, set_exec (new_ctx body (Some [p]) :: set_plugitr (Some i') e0 :: rest) a, store, [])
      | None => Ok (true, d, put_top (set_plugitr None e0) rest a, store, [])
      end
    | Exit c s => Exit c s | Abort s => Abort s | MemErr s => MemErr s | Hang s => Hang s
    end.

  Definition process_ifonoff (d : sdev) (a : action) (store : list arglist) (e : ctx) (rest : list ctx)
             (want_on : bool) (body : list stmt) : outcome sres :=
    if c_processing e then Ok (true, d, put_top (set_processing false e) rest a, store, [])
    else
      let st_out :=
        match c_plugs e with
        | Some (p :: _) =>
            match pl_node p with
            | None => Ok ST_UNKNOWN                          (* arglist_find(al, NULL) = NULL *)
            | Some n =>
              Ok (match get_args store a with                  (* NULL arglist = Arg not found (after the repair of F32) *)
                  | Some al => match arg_find al n with Some x => ar_state x | None => ST_UNKNOWN end
                  | None => ST_UNKNOWN end)
            end
        | _ => Ok ST_UNKNOWN
        end in
      match st_out with
      | Ok st =>
        let cond := (want_on && Z.eqb st ST_ON) || (negb want_on && Z.eqb st ST_OFF) in
        let a1 := if negb cond && Z.eqb st ST_UNKNOWN then set_err ACT_EEXPFAIL a else a in
        if cond then
          Ok (true, d, set_exec (new_ctx body (match c_plugs e with Some ps => Some ps | None => Some [] end)
                                  :: set_processing true e :: rest) a1, store, [])
        else Ok (true, d, a1, store, [])
      | Exit c s => Exit c s | Abort s => Abort s | MemErr s => MemErr s | Hang s => Hang s
      end.

  Definition process_setplugstate (d : sdev) (a : action) (store : list arglist) (e : ctx)
             (lit : option text) (plug_mp stat_mp : Z) (interps : list (Z * text)) : outcome sres :=
    let name_out : outcome (option text) :=
      match lit with
      | Some l => Ok (Some l)
      | None =>
        match sub_strdup d plug_mp with
        | Ok (Some n) => Ok (Some n)
        | Ok None => Ok (match ctx_first_plug e with Some p => Some (pl_name p) | None => None end)
        | Exit c s => Exit c s | Abort s => Abort s | MemErr s => MemErr s | Hang s => Hang s
        end
      end in
    match name_out with
    | Ok None => Ok (true, d, a, store, [])
    | Ok (Some pn) =>
      match sub_strdup d stat_mp with
      | Ok ostr =>
        match ostr, find_plug d pn with
        | Some str, Some (_, node) =>
            let st := first_interp interps str ST_UNKNOWN in
            match a_args a, get_args store a with
            | Some i, Some al =>
                let al' := arg_update al node (fun x => mkArg (ar_node x) st (ar_result x) (Some str)) in
                Ok (true, d, a, store_set store i al', [])
            | _, _ => Ok (true, d, a, store, [])
            end
        | _, _ => Ok (true, d, a, store, [])
        end
      | Exit c s => Exit c s | Abort s => Abort s | MemErr s => MemErr s | Hang s => Hang s
      end
    | Exit c s => Exit c s | Abort s => Abort s | MemErr s => MemErr s | Hang s => Hang s
    end.

  Definition process_setresult (d : sdev) (a : action) (store : list arglist) (e : ctx)
             (plug_mp stat_mp : Z) (interps : list (Z * text)) : outcome sres :=
    match sub_strdup d plug_mp with
    | Ok None => Ok (true, d, a, store, [])
    | Ok (Some pn) =>
      match sub_strdup d stat_mp with
      | Ok ostr =>
        match ostr, find_plug d pn with
        | Some str, Some (_, node) =>
            let res := first_interp interps str RT_UNKNOWN in
            match a_args a, get_args store a with
            | Some i, Some al =>
                match arg_find al node with
                | Some _ =>
                    let al' := arg_update al node (fun x => mkArg (ar_node x) (ar_state x) res (Some str)) in
                    if Z.eqb res RT_SUCCESS then Ok (true, d, a, store_set store i al', [])
                    else if a_hasdiag a
                         then Ok (true, d, a, store_set store i al', [EvDiag (a_client a) (node ++ (bslit ": ") ++ cut_crlf str)])
                         else Abort SITE_DIAG_NULL       (* unreachable: actions with an arglist have a diag callback *)
                | None => Ok (true, d, a, store, [])
                end
            | _, _ => Ok (true, d, a, store, [])
            end
        | _, _ => Ok (true, d, a, store, [])
        end
      | Exit c s => Exit c s | Abort s => Abort s | MemErr s => MemErr s | Hang s => Hang s
      end
    | Exit c s => Exit c s | Abort s => Abort s | MemErr s => MemErr s | Hang s => Hang s
    end.

  (* _process_stmt on the top context; the second component is the time-out a delay asks for *)
  Definition process_stmt (now : Z) (d : sdev) (a : action) (store : list arglist) : outcome (sres * option Z) :=
    match a_exec a with
    | [] => Abort SITE_NO_CTX
    | e :: rest =>
      match cur e with
      | None => Abort SITE_NO_CUR
      | Some s =>
        match s with
        | Expect re => omap (fun r => (r, None)) (process_expect now d a store re)
        | Send fmt => omap (fun r => (r, None)) (process_send now d a store e rest fmt)
        | Delay us => process_delay now d a store e rest us
        | SetPlugState lit pmp smp ints => omap (fun r => (r, None)) (process_setplugstate d a store e lit pmp smp ints)
        | SetResult pmp smp ints => omap (fun r => (r, None)) (process_setresult d a store e pmp smp ints)
        | ForeachPlug b => omap (fun r => (r, None)) (process_foreach d a store e rest false b)
        | ForeachNode b => omap (fun r => (r, None)) (process_foreach d a store e rest true b)
        | IfOn b => omap (fun r => (r, None)) (process_ifonoff d a store e rest true b)
        | IfOff b => omap (fun r => (r, None)) (process_ifonoff d a store e rest false b)
        end
      end
    end.

  Definition min_tmo (a b : option Z) : option Z :=
    match a, b with
    | None, x | x, None => x
    | Some x, Some y => Some (Z.min x y)
    end.

  (* do { e = top; stalled = !_process_stmt } while (e != top): repeat while a context was pushed *)
  Fixpoint do_while (fuel : nat) (now : Z) (d : sdev) (a : action) (store : list arglist) (acc : list ev) (tmo : option Z)
    : outcome (sres * option Z) :=
    match fuel with
    | O => Hang 1
    | S f =>
      match process_stmt now d a store with
      | Ok ((fin, d', a', store', evs), t) =>
          if Nat.ltb (length (a_exec a)) (length (a_exec a'))
          then do_while f now d' a' store' (acc ++ evs) (min_tmo tmo t)
          else Ok ((fin, d', a', store', acc ++ evs), min_tmo tmo t)
      | Exit c s => Exit c s | Abort s => Abort s | MemErr s => MemErr s | Hang s => Hang s
      end
    end.

  (* after a finished statement without error: e->cur = next; pop the context when the block is exhausted *)
  Definition advance (a : action) : action :=
    match a_exec a with
    | [] => a
    | e :: rest =>
        let e' := set_pos (S (c_pos e)) e in
        match cur e' with
        | Some _ => set_exec (e' :: rest) a
        | None => set_exec rest a
        end
    end.
End Interp.
