(* Model of the request -> device-action translation of device.c:
     _command_needs_device, dev_check_actions, dev_enqueue_actions, _enqueue_actions (targeted commands),
     _enqueue_targeted_actions, _get_all_script, _get_ranged_script, _is_query_action.
   The variant tables come from Gen/GenConsts.v (evaluated from the current source on every run).
   Targets are the list of node names the host list denotes (membership = exact name equality, which is
   what hostlist_find computes: C14_find).  No proofs in this file. *)
From Coq Require Import List NArith ZArith Bool.
From PM Require Import Base.Bytes Gen.GenConsts.
Import ListNotations.
Local Open Scope Z_scope.

Record plug : Type := mkPlug { pl_name : text; pl_node : option text }.

Record edev : Type := mkEdev {
  ed_name : text;
  ed_plugs : list plug;          (* dev->plugs in list order *)
  ed_scripts : list Z            (* indices i with dev->scripts[i] != NULL *)
}.

Definition has (d : edev) (i : Z) : bool := existsb (Z.eqb i) (ed_scripts d).

Fixpoint lookup (t : list (Z * Z)) (i : Z) : option Z :=
  match t with
  | [] => None
  | (a, b) :: r => if Z.eqb a i then Some b else lookup r i
  end.

(* _get_all_script / _get_ranged_script: the variant index if the table has one AND the device defines it *)
Definition all_script (d : edev) (com : Z) : option Z :=
  match lookup all_table com with
  | Some n => if has d n then Some n else None
  | None => None
  end.
Definition ranged_script (d : edev) (com : Z) : option Z :=
  match lookup ranged_table com with
  | Some n => if has d n then Some n else None
  | None => None
  end.
Definition is_query (com : Z) : bool := existsb (Z.eqb com) query_table.

Definition node_in (tgts : list text) (n : text) : bool := existsb (text_eqb n) tgts.

(* plug->node != NULL && hostlist_find(hl, plug->node) != -1 *)
Definition plug_targeted (tgts : list text) (p : plug) : bool :=
  match pl_node p with
  | Some n => node_in tgts n
  | None => false
  end.

Definition needs (d : edev) (tgts : list text) : bool := existsb (plug_targeted tgts) (ed_plugs d).
Definition targeted (d : edev) (tgts : list text) : list plug := filter (plug_targeted tgts) (ed_plugs d).
Definition all_flag (d : edev) (tgts : list text) : bool := forallb (plug_targeted tgts) (ed_plugs d).

(* one queued Action: script index + the `plugs` argument of _create_action (None = NULL) *)
Record qact : Type := mkQact { qa_com : Z; qa_plugs : option (list plug) }.

Definition enqueue_targeted (d : edev) (com : Z) (tgts : list text) : list qact :=
  let rp := targeted d tgts in
  let singles := if has d com then map (fun p => mkQact com (Some [p])) rp else [] in
  if has d com && Nat.eqb (length singles) 1 then singles
  else
    match (if all_flag d tgts || (is_query com && negb (has d com)) then all_script d com else None) with
    | Some n => [mkQact n None]
    | None =>
        match ranged_script d com with
        | Some n => [mkQact n (Some rp)]
        | None => singles
        end
    end.

Definition implements (d : edev) (com : Z) : bool :=
  has d com || (match all_script d com with Some _ => true | None => false end)
            || (match ranged_script d com with Some _ => true | None => false end).

(* dev_check_actions, as the code stands after the fix for F4 (see will_act below) *)
Definition will_act (d : edev) (com : Z) (tgts : list text) : bool :=
  has d com
  || (match ranged_script d com with Some _ => true | None => false end)
  || ((match all_script d com with Some _ => true | None => false end)
      && (is_query com || all_flag d tgts)).

(* the check of the unrepaired code: some variant exists *)
Definition check_actions_any (devs : list edev) (com : Z) (tgts : list text) : bool :=
  forallb (fun d => negb (needs d tgts) || implements d com) devs.

(* the check after the repair: the chosen variant will really produce an action *)
Definition check_actions (devs : list edev) (com : Z) (tgts : list text) : bool :=
  forallb (fun d => negb (needs d tgts) || will_act d com tgts) devs.

(* dev_enqueue_actions: per device in configuration order *)
Definition enqueue_dev (d : edev) (com : Z) (tgts : list text) : list qact :=
  if negb (implements d com) then []
  else if negb (needs d tgts) then []
  else enqueue_targeted d com tgts.

Definition enqueue (devs : list edev) (com : Z) (tgts : list text) : list (text * list qact) :=
  map (fun d => (ed_name d, enqueue_dev d com tgts)) devs.

Definition total (q : list (text * list qact)) : nat :=
  fold_right (fun x n => (length (snd x) + n)%nat) O q.

(* the targeted commands a client can issue *)
Definition power_coms : list Z :=
  [PM_POWER_ON; PM_POWER_OFF; PM_POWER_CYCLE; PM_RESET; PM_BEACON_ON; PM_BEACON_OFF].
Definition query_coms : list Z := [PM_STATUS_PLUGS; PM_STATUS_TEMP; PM_STATUS_BEACON].
