(* C19: how a model state is read by the specification (Spec/RedfishSpec.v), and the conditions under which
   the documented rules are claimed ("paths set, parents known, no cycle").  Executable, no proofs. *)
From Coq Require Import List NArith Bool.
From PM Require Import Base.Bytes Gen.GenRfp Model.Redfish Spec.RedfishSpec.
Import ListNotations.

Definition forest_of (tab : list plug) : forest :=
  map (fun p => mkNode (p_name p) (p_host p) (p_parent p)) tab.
Definition sstat_of (s : status) : sstat := match s with SOn => StOn | SOff => StOff | SErr => StErr end.
Definition statmap_of (ts : list (name * status)) : statmap := map (fun e => (fst e, sstat_of (snd e))) ts.
Definition scmd_of (c : cmd) : scmd := match c with CStat => SpStat | COn => SpOn | COff => SpOff end.

Definition has_path (st : state) (c : cmd) (p : name) : bool :=
  match lookup (s_tab st) p with
  | Some pd => match get_path st c pd with Some _ => true | None => false end
  | None => false
  end.

(* every ancestor is a defined plug with a stat path, the target has the path of the command and a stat path *)
Definition target_ok (st : state) (c : cmd) (p : name) : bool :=
  has_path st c p && has_path st CStat p &&
  (match find_root (s_tab st) p with WFound _ => true | _ => false end) &&
  forallb (fun a => has_path st CStat a) (ancestors (forest_of (s_tab st)) p).

Definition in_domain (st : state) (c : cmd) (targets : list name) : bool :=
  negb (cyclic (s_tab st)) &&
  forallb (fun p => negb (name_valid (s_tab st) p) || target_ok st c p) targets.

Definition expected_of (st : state) (c : cmd) (targets : list name) : list text * statmap :=
  expected (forest_of (s_tab st)) (s_fail st) (statmap_of (s_tstat st)) (scmd_of c) targets.

(* status of the plugs of the table as the model / the specification see it after a command *)
Definition table_status (st : state) : list (name * status) :=
  map (fun p => (p_name p, match ts_lookup (s_tstat st) (p_name p) with Some s => s | None => SOff end)) (s_tab st).
Definition spec_table_status (st : state) (m : statmap) : list (name * sstat) :=
  map (fun p => (p_name p, st_get m (p_name p))) (s_tab st).

Section WithHostlist.
Variable hlc : text -> option (list text).
(* the targets of a stat/on/off line, when it is one and its argument is a legal host list *)
Definition power_line (st : state) (line : text) : option (cmd * list name) :=
  match argv line with
  | w :: args =>
    match cmd_of_word w with
    | Some c => match first_arg args with
                | Some a => match hlc a with Some ts => Some (c, ts) | None => None end
                | None => Some (c, map p_name (s_tab st))
                end
    | None => None
    end
  | [] => None
  end.
(* Some (lines, status map) when the line is a stat/on/off command inside the domain of the rules *)
Definition spec_line (st : state) (line : text) : option (list text * statmap) :=
  match power_line st line with
  | Some (c, ts) => if in_domain st c ts then Some (expected_of st c ts) else None
  | None => None
  end.
End WithHostlist.
