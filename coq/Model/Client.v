(* The request/reply layer of client.c:
     _strip_whitespace, _parse_input (keyword dispatch incl. sscanf("%s") semantics), _create_command,
     _hostlist_create_validated, conf_exp_aliases (parse_util.c), arglist_create, dev_check_actions /
     dev_enqueue_actions (through Model/Enqueue.v), _act_finish, the four reply formatters, _telemetry_printf,
     _diag_printf, _client_printf with the CP_* formats regenerated from client_proto.h.
   Host lists are handled at the level of their expansion (list of names); the four host-list services the
   code uses are Section variables whose contract is C14's theorems.  No proofs in this file. *)
From Coq Require Import List NArith ZArith Bool.
From PM Require Import Base.Bytes Base.Outcome Base.Dec Gen.GenConsts Model.ScriptAst Model.Enqueue Model.Script.
Import ListNotations.
Local Open Scope Z_scope.

(* ---------- printf with the CP_* formats: every conversion consumes the next pre-rendered argument ---------- *)
Fixpoint skip_directive (fmt : text) : text :=          (* after '%': flags / width / precision up to the conversion letter *)
  match fmt with
  | [] => []
  | c :: r => if (N.eqb c 115 || N.eqb c 100)%bool then r else skip_directive r     (* s d *)
  end.
Fixpoint fmt_args (fuel : nat) (fmt : text) (args : list text) : text :=
  match fuel with
  | O => []
  | S f =>
    match fmt with
    | [] => []
    | 37%N :: 37%N :: r => 37%N :: fmt_args f r args
    | 37%N :: r =>
        match args with
        | a :: args' => a ++ fmt_args f (skip_directive r) args'
        | [] => null_text ++ fmt_args f (skip_directive r) []
        end
    | c :: r => c :: fmt_args f r args
    end
  end.
Definition cprintf (fmt : text) (args : list text) : text := fmt_args (S (length fmt)) fmt args.

(* ---------- configuration as the client layer sees it ---------- *)
Record cdev : Type := mkCdev {
  cd_edev : edev;             (* name, plugs, defined scripts *)
  cd_spec : text;
  cd_state : Z;               (* DEV_* *)
  cd_conn : Z;                (* stat_successful_connects *)
  cd_acts : Z                 (* stat_successful_actions *)
}.
Record cconf : Type := mkCconf {
  cf_nodes : list text;                    (* conf_nodes, in its current order *)
  cf_aliases : list (text * list text);    (* alias name -> member names (conf_aliases, list order) *)
  cf_devs : list cdev
}.

Record command : Type := mkCommand {
  k_com : Z; k_targets : list text; k_pending : Z; k_error : bool; k_args : nat }.
Record client : Type := mkClient {
  cl_id : Z; cl_cmd : option command; cl_tele : bool; cl_exp : bool; cl_quit : bool;
  cl_out : text                            (* everything written to c->to so far *)
}.
Definition new_client (id : Z) (version : text) : client :=
  mkClient id None false false false (cprintf CP_VERSION [version] ++ CP_PROMPT).
Definition emit (t : text) (c : client) : client :=
  mkClient (cl_id c) (cl_cmd c) (cl_tele c) (cl_exp c) (cl_quit c) (cl_out c ++ t).
Definition set_cmd (k : option command) (c : client) : client :=
  mkClient (cl_id c) k (cl_tele c) (cl_exp c) (cl_quit c) (cl_out c).

Definition SITE_ACT_FINISH_NOCMD : nat := 30.      (* client.c assert(c->cmd != NULL) in _act_finish *)

(* ---------- lexical helpers ---------- *)
Fixpoint cstr (s : text) : text :=               (* a C string ends at the first NUL *)
  match s with [] => [] | c :: r => if N.eqb c 0 then [] else c :: cstr r end.
Fixpoint drop_space (s : text) : text :=
  match s with c :: r => if is_space c then drop_space r else s | [] => [] end.
(* rev' (= rev, List.rev_alt) is the linear-time reversal: the extracted model meets lines of CP_LINEMAX bytes *)
Definition strip (s : text) : text := rev' (drop_space (rev' (drop_space s))).
Definition lower (c : byte) : byte := if ((65 <=? c) && (c <=? 90))%N then (c + 32)%N else c.
Fixpoint ci_prefix (kw s : text) : bool :=       (* strncasecmp(s, kw, strlen kw) == 0 *)
  match kw, s with
  | [], _ => true
  | k :: kw', c :: s' => N.eqb (lower k) (lower c) && ci_prefix kw' s'
  | _ :: _, [] => false
  end.
Fixpoint take_word (s : text) : text :=
  match s with c :: r => if is_space c then [] else c :: take_word r | [] => [] end.
(* sscanf(str, "<kw> %s", arg) == 1 where the regenerated format is kw ++ " %s": literal match of kw, then the
   white space of the format and of %s skip any amount of input white space, then a non-empty word *)
Definition kw_of (fmt : text) : text := firstn (length fmt - 3) fmt.
Definition scan_kw (fmt s : text) : option text :=
  let kw := kw_of fmt in
  if is_prefix kw s then
    match take_word (drop_space (skipn (length kw) s)) with
    | [] => None
    | w => Some w
    end
  else None.

(* val[strcspn(val, "\r\n")] = '\0' *)
Fixpoint cut_eol (t : text) : text :=
  match t with
  | [] => []
  | c :: r => if (N.eqb c 13 || N.eqb c 10)%bool then [] else c :: cut_eol r
  end.

Inductive request : Type :=
| RTooLong | RHelp | RNodes | RTelemetry | RExprange | RQuit
| RCommand (com : Z) (arg : option text)
| RDevice (arg : option text)
| RUnknown.

(* the dispatch of _parse_input after the busy test, in source order *)
Definition classify (str : text) : request :=
  if CP_LINEMAX <=? Z.of_nat (length str) then RTooLong
  else if ci_prefix CP_HELP str then RHelp
  else if ci_prefix CP_NODES str then RNodes
  else if ci_prefix CP_TELEMETRY str then RTelemetry
  else if ci_prefix CP_EXPRANGE str then RExprange
  else if ci_prefix CP_QUIT str then RQuit
  else match scan_kw CP_ON str with Some a => RCommand PM_POWER_ON (Some a) | None =>
       match scan_kw CP_OFF str with Some a => RCommand PM_POWER_OFF (Some a) | None =>
       match scan_kw CP_CYCLE str with Some a => RCommand PM_POWER_CYCLE (Some a) | None =>
       match scan_kw CP_RESET str with Some a => RCommand PM_RESET (Some a) | None =>
       match scan_kw CP_BEACON_ON str with Some a => RCommand PM_BEACON_ON (Some a) | None =>
       match scan_kw CP_BEACON_OFF str with Some a => RCommand PM_BEACON_OFF (Some a) | None =>
       match scan_kw CP_STATUS str with Some a => RCommand PM_STATUS_PLUGS (Some a) | None =>
       if ci_prefix CP_STATUS_ALL str then RCommand PM_STATUS_PLUGS None else
       match scan_kw CP_TEMP str with Some a => RCommand PM_STATUS_TEMP (Some a) | None =>
       if ci_prefix CP_TEMP_ALL str then RCommand PM_STATUS_TEMP None else
       match scan_kw CP_BEACON str with Some a => RCommand PM_STATUS_BEACON (Some a) | None =>
       if ci_prefix CP_BEACON_ALL str then RCommand PM_STATUS_BEACON None else
       match scan_kw CP_DEVICE str with Some a => RDevice (Some a) | None =>
       if ci_prefix CP_DEVICE_ALL str then RDevice None else RUnknown
       end end end end end end end end end end.

Section C.
  (* host-list services (contract: C14) *)
  Variable expand_str : text -> option (list text).     (* hostlist_create(str) then iterate; None = NULL *)
  Variable ranged_sorted : list text -> text.           (* push each, hostlist_sort, ranged string *)
  Variable ranged_plain : list text -> text.            (* push_host each in order, ranged string (no sort) *)
  Variable sorted : list text -> list text.             (* push_host each, hostlist_sort, iterate *)

  Definition is_alias (cf : cconf) (n : text) : option (list text) :=
    (fix go (l : list (text * list text)) := match l with [] => None | (a, m) :: r => if text_eqb a n then Some m else go r end) (cf_aliases cf).

  (* conf_exp_aliases on the expansion: every occurrence of an alias name is removed and its members are appended,
     in order of occurrence, behind the remaining names *)
  Definition exp_aliases (cf : cconf) (names : list text) : list text :=
    filter (fun n => match is_alias cf n with Some _ => false | None => true end) names
    ++ flat_map (fun n => match is_alias cf n with Some m => m | None => [] end) names.

  Definition node_exists (cf : cconf) (n : text) : bool := existsb (text_eqb n) (cf_nodes cf).

  Definition new_arglist (names : list text) : arglist := map (fun n => mkArg n ST_UNKNOWN RT_NONE None) names.
  (* arglist_next: for each name of the host list (duplicates included) the Arg the hash holds for it *)
  Definition args_iter (al : arglist) : list arg :=
    flat_map (fun a => match arg_find al (ar_node a) with Some x => [x] | None => [] end) al.

  Definition state_word (st : Z) : text :=
    if Z.eqb st ST_ON then bslit "on" else if Z.eqb st ST_OFF then bslit "off" else bslit "unknown".
  Definition conn_word (cs : Z) : text :=
    if Z.eqb cs DEV_CONNECTED then bslit "connected" else if Z.eqb cs DEV_CONNECTING then bslit "connecting" else bslit "disconnected".

  Definition reply_status (c : client) (al : arglist) (error : bool) : text :=
    let it := args_iter al in
    (if cl_exp c
     then flat_map (fun a => cprintf CP_INFO_XSTATUS [ar_node a; state_word (ar_state a)]) it
     else let pick st := map ar_node (filter (fun a => Z.eqb (ar_state a) st) it) in
          let unk := map ar_node (filter (fun a => negb (Z.eqb (ar_state a) ST_ON) && negb (Z.eqb (ar_state a) ST_OFF)) it) in
          cprintf CP_INFO_STATUS [ranged_sorted (pick ST_ON); ranged_sorted (pick ST_OFF); ranged_sorted unk])
    ++ (if error then CP_ERR_QRY_COMPLETE else CP_RSP_QRY_COMPLETE).

  (* temperature (after the repair of F5: a node without value is listed once, as unknown; after the repair of
     F19: the value is cut at its first CR or LF, val[strcspn(val, "\r\n")] = 0) *)
  Definition reply_nointerp (c : client) (al : arglist) (error : bool) : text :=
    let it := args_iter al in
    flat_map (fun a => match ar_val a with Some v => cprintf CP_INFO_XSTATUS [ar_node a; cut_eol v] | None => [] end) it
    ++ (match map ar_node (filter (fun a => match ar_val a with None => true | Some _ => false end) it) with
        | [] => []
        | l => cprintf CP_INFO_XSTATUS [ranged_sorted l; bslit "unknown"]
        end)
    ++ (if error then CP_ERR_QRY_COMPLETE else CP_RSP_QRY_COMPLETE).

  (* the same reply as the code stood BEFORE the repair of F19 (raw `%s` of arg->val); kept only so that the
     defect can be stated as a refuted theorem (Properties/C15.v) *)
  Definition reply_nointerp_unrepaired (c : client) (al : arglist) (error : bool) : text :=
    let it := args_iter al in
    flat_map (fun a => match ar_val a with Some v => cprintf CP_INFO_XSTATUS [ar_node a; v] | None => [] end) it
    ++ (match map ar_node (filter (fun a => match ar_val a with None => true | Some _ => false end) it) with
        | [] => []
        | l => cprintf CP_INFO_XSTATUS [ranged_sorted l; bslit "unknown"]
        end)
    ++ (if error then CP_ERR_QRY_COMPLETE else CP_RSP_QRY_COMPLETE).

  Definition reply_power (al : arglist) (error : bool) : text :=
    if error || existsb (fun a => Z.eqb (ar_result a) RT_UNKNOWN) (args_iter al)
    then CP_ERR_COM_COMPLETE else CP_RSP_COM_COMPLETE.

  Definition final_reply (c : client) (k : command) (al : arglist) : outcome text :=
    let com := k_com k in
    if Z.eqb com PM_STATUS_PLUGS || Z.eqb com PM_STATUS_BEACON then Ok (reply_status c al (k_error k))
    else if Z.eqb com PM_STATUS_TEMP then Ok (reply_nointerp c al (k_error k))
    else if existsb (Z.eqb com) power_coms then Ok (reply_power al (k_error k))
    else Abort 31.                                   (* assert(false) in _act_finish *)

  (* _act_finish *)
  Definition act_finish (c : client) (store : list arglist) (err : Z) (msg : text) : outcome client :=
    match cl_cmd c with
    | None => Abort SITE_ACT_FINISH_NOCMD
    | Some k =>
      let c1 := if Z.eqb err ACT_ESUCCESS then c else emit (cprintf CP_INFO_ACTERROR [msg]) c in
      let k1 := mkCommand (k_com k) (k_targets k) (k_pending k - 1) (k_error k || negb (Z.eqb err ACT_ESUCCESS)) (k_args k) in
      if Z.eqb (k_pending k1) 0 then
        match final_reply c1 k1 (nth (k_args k1) store []) with
        | Ok t => Ok (emit CP_PROMPT (set_cmd None (emit t c1)))
        | Exit a b => Exit a b | Abort s => Abort s | MemErr s => MemErr s | Hang s => Hang s
        end
      else Ok (set_cmd (Some k1) c1)
    end.

  Definition telemetry (c : client) (msg : text) : client := emit (cprintf CP_INFO_TELEMETRY [msg]) c.
  Definition diag (c : client) (msg : text) : client := emit (cprintf CP_INFO_DIAG [msg]) c.

  Definition reply_nodes (cf : cconf) (c : client) : cconf * text :=
    let ns := sorted (cf_nodes cf) in                       (* hostlist_sort(conf_nodes) in place *)
    (mkCconf ns (cf_aliases cf) (cf_devs cf),
     (if cl_exp c then flat_map (fun n => cprintf CP_INFO_XNODES [n]) ns else cprintf CP_INFO_NODES [ranged_plain ns])
     ++ CP_RSP_QRY_COMPLETE).

  Definition dev_nodes (d : cdev) : list text :=
    flat_map (fun p => match pl_node p with Some n => [n] | None => [] end) (ed_plugs (cd_edev d)).
  Definition reply_device (cf : cconf) (arg : option text) : text :=
    flat_map (fun d =>
      let show := match arg with
                  | None => true
                  | Some a => match expand_str a with
                              | Some t => existsb (fun n => existsb (text_eqb n) t) (dev_nodes d)
                              | None => false end
                  end in
      if show then cprintf CP_INFO_DEVICE [ed_name (cd_edev d); conn_word (cd_state d);
                                           dec_pad 3 (Z.to_N (if 0 <? cd_conn d then cd_conn d - 1 else 0));
                                           dec_pad 3 (Z.to_N (cd_acts d)); cd_spec d; ranged_sorted (dev_nodes d)]
      else []) (cf_devs cf)
    ++ CP_RSP_QRY_COMPLETE.

  (* _create_command + the enqueue step of _parse_input.
     result: reply text (for refusals) or the new command together with the actions to append per device *)
  Inductive cmd_result : Type :=
  | CRefused (reply : text)
  | CQueued (k : command) (al : arglist) (acts : list (text * list qact)).

  Definition create_command (cf : cconf) (store_len : nat) (com : Z) (arg : option text) : cmd_result :=
    let targets : option (list text) + text :=
      match arg with
      | None => inl (Some (cf_nodes cf))
      | Some a =>
        match expand_str a with
        | None => inr (cprintf CP_ERR_HOSTLIST [bslit "invalid range"])
        | Some names =>
            let names := exp_aliases cf names in
            match filter (fun n => negb (node_exists cf n)) names with
            | [] => inl (Some names)
            | bad => inr (cprintf CP_ERR_NOSUCHNODES [ranged_plain bad])
            end
        end
      end in
    match targets with
    | inr t => CRefused t
    | inl None => CRefused []
    | inl (Some tg) =>
      let devs := map cd_edev (cf_devs cf) in
      if negb (check_actions devs com tg) then CRefused CP_ERR_UNIMPL
      else
        let q := enqueue devs com tg in
        if Nat.eqb (total q) 0 then CRefused CP_ERR_UNIMPL
        else CQueued (mkCommand com tg (Z.of_nat (total q)) false store_len) (new_arglist tg) q
    end.

  (* _parse_input on one line as delivered by cbuf_read_line *)
  Definition parse_input (cf : cconf) (store : list arglist) (c : client) (line : text)
    : cconf * list arglist * client * list (text * list qact) :=
    let str := strip (cstr line) in
    let prompt (c : client) := if cl_quit c then c else emit CP_PROMPT c in
    if CP_LINEMAX <=? Z.of_nat (length str) then (cf, store, prompt (emit CP_ERR_TOOLONG c), [])
    else match cl_cmd c with
    | Some _ => (cf, store, emit CP_ERR_CLIBUSY c, [])
    | None =>
      match classify str with
      | RTooLong => (cf, store, prompt (emit CP_ERR_TOOLONG c), [])
      | RHelp => (cf, store, prompt (emit (CP_INFO_HELP ++ CP_RSP_QRY_COMPLETE) c), [])
      | RNodes => let '(cf', t) := reply_nodes cf c in (cf', store, prompt (emit t c), [])
      | RTelemetry =>
          let c1 := mkClient (cl_id c) (cl_cmd c) (negb (cl_tele c)) (cl_exp c) (cl_quit c) (cl_out c) in
          (cf, store, prompt (emit (cprintf CP_RSP_TELEMETRY [if cl_tele c1 then bslit "ON" else bslit "OFF"]) c1), [])
      | RExprange =>
          let c1 := mkClient (cl_id c) (cl_cmd c) (cl_tele c) (negb (cl_exp c)) (cl_quit c) (cl_out c) in
          (cf, store, prompt (emit (cprintf CP_RSP_EXPRANGE [if cl_exp c1 then bslit "ON" else bslit "OFF"]) c1), [])
      | RQuit =>
          let c1 := mkClient (cl_id c) (cl_cmd c) (cl_tele c) (cl_exp c) true (cl_out c) in
          (cf, store, emit CP_RSP_QUIT c1, [])
      | RDevice a => (cf, store, prompt (emit (reply_device cf a) c), [])
      | RUnknown => (cf, store, prompt (emit CP_ERR_UNKNOWN c), [])
      | RCommand com a =>
          match create_command cf (length store) com a with
          | CRefused t => (cf, store, prompt (emit t c), [])
          | CQueued k al q => (cf, store ++ [al], set_cmd (Some k) c, q)
          end
      end
    end.
End C.
