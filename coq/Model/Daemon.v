(* The whole daemon as one transducer per pass of powermand.c:_select_loop:

       poll returns  ->  cli_post_poll  ->  dev_post_poll  ->  (next poll is entered with the time-out computed)

   composed from the client layer (Model/Client.v: _parse_input, _act_finish, reply formatters), the request ->
   action translation (Model/Enqueue.v) and the per-device state machine (Model/Device.v: post_poll_one).
   What the operating system answered during the pass (revents per descriptor, bytes delivered by read(), bytes
   accepted by write(), results of connect()/finish_connect, the clock) is the INPUT of the pass (`round`); what
   the daemon did (bytes written per client and per device, clients accepted / destroyed, device connects and
   disconnects, the time-out requested from the next poll, descriptor and child ledger) is its OUTPUT (`dout`).
   R-SIM replays the rounds recorded from the real powermand under the virtual OS (harness/pmsim.c) through
   `dstep` and compares the outputs pass by pass (props/C04.py).  No proofs in this file. *)
From Coq Require Import List NArith ZArith Bool.
From PM Require Import Base.Bytes Base.Outcome Gen.GenConsts Model.ScriptAst Model.Enqueue Model.Script Model.Device Model.Client.
From PM Require Model.Telnet.
Import ListNotations.
Local Open Scope Z_scope.

(* a client record of client.c together with its two circular buffers *)
Record dcli : Type := mkDcli {
  dc : client;              (* id, command in progress, telemetry / exprange / quit flags, everything emitted so far *)
  dc_from : text;           (* c->from: input not yet cut into lines *)
  dc_to : text;             (* c->to: output not yet written to the descriptor *)
  (* history variables (not part of the C state; used by the theorems only) *)
  dc_nl : nat;              (* number of LF bytes received from the client so far = complete lines received *)
  dc_lines : nat;           (* lines handed to _parse_input so far *)
  dc_eof : bool;            (* a read has returned end-of-file (or an error) on this descriptor *)
  dc_bad : bool;            (* the stream to this client is no longer the formatted output: a write failed (queued output
                               was dropped), bytes arrived after end-of-file, or more than MAX_CLIENT_BUF bytes were owed
                               to a client that does not read (the oldest were overwritten); nothing is claimed about
                               the stream of such a client afterwards *)
  dc_sent : text            (* every byte written to the descriptor so far *)
}.
Fixpoint count_lf (s : text) : nat := match s with [] => O | c :: r => ((if N.eqb c LF then 1 else 0) + count_lf r)%nat end.

Record daemon : Type := mkDaemon {
  dm_nodes : list text;                      (* conf_nodes in its current order (the `nodes` query sorts it in place) *)
  dm_aliases : list (text * list text);
  dm_specs : list text;                      (* specification name of each device (for the `device` query) *)
  dm_pipe : list bool;                       (* transport of each device: true = coprocess (fork + socketpair) *)
  dm_devs : list device;
  dm_clients : list dcli;                    (* cli_clients, list order *)
  dm_seq : Z;                                (* cli_id_seq *)
  dm_store : list arglist;                   (* the ArgLists ever created; a command / action refers to its slot *)
  dm_version : text;
  dm_tel : list Telnet.tcp                          (* telnet filter state of each device (used by tcp transports only) *)
}.

(* what poll and the system calls answered for one client during the pass *)
Record cin : Type := mkCin {
  ci_bad : bool;                 (* POLLERR | POLLNVAL *)
  ci_in : bool;                  (* POLLIN | POLLHUP *)
  ci_out : bool;                 (* POLLOUT *)
  ci_read : option text;         (* read(): Some [] = end of file, None = error *)
  ci_wrote : option nat          (* write(): bytes accepted, None = error *)
}.
Definition cin0 : cin := mkCin false false false None None.

Record round : Type := mkRound {
  r_now : Z;                     (* gettimeofday during the pass (microseconds) *)
  r_accept : bool;               (* the listener is readable and accept() delivers a connection *)
  r_cli : list cin;              (* one per client of dm_clients, in list order (missing = no event) *)
  r_dev : list passin            (* one per device (missing = no event, no connect plan) *)
}.

Inductive sysev : Type :=
| SysAccept (id : Z)             (* accept(): a descriptor for client id *)
| SysCloseCli (id : Z)           (* _destroy_client closes it *)
| SysCliWrote (id : Z) (b : text)
| SysDev (i : nat) (e : ev).     (* connects, disconnects, reads, writes, callbacks of device i *)

Record dout : Type := mkDout { do_evs : list sysev; do_tmo : option Z }.

(* cbuf_write into a client buffer (cbuf_create(MIN_CLIENT_BUF, MAX_CLIENT_BUF), default policy CBUF_WRAP_MANY): the buffer
   grows up to MAX_CLIENT_BUF; beyond that the OLDEST unconsumed bytes are overwritten.  Returns the new content and
   whether anything was dropped *)
Definition cbuf_put (buf new : text) : text * bool :=
  let t := buf ++ new in
  if MAX_CLIENT_BUF <? Z.of_nat (length t) then (lastn (Z.to_nat MAX_CLIENT_BUF) t, true) else (t, false).
(* _client_printf: whatever the client layer appended to cl_out goes through cbuf_write into c->to *)
Definition set_dc (c : client) (x : dcli) : dcli :=
  let r := cbuf_put (dc_to x) (skipn (length (cl_out (dc x))) (cl_out c)) in
  mkDcli c (dc_from x) (fst r) (dc_nl x) (dc_lines x) (dc_eof x) (dc_bad x || snd r) (dc_sent x).
Definition set_quit (x : dcli) : dcli :=
  let c := dc x in mkDcli (mkClient (cl_id c) (cl_cmd c) (cl_tele c) (cl_exp c) true (cl_out c)) (dc_from x) (dc_to x) (dc_nl x) (dc_lines x)
                          (dc_eof x) (dc_bad x) (dc_sent x).
Definition set_eof (x : dcli) : dcli := mkDcli (dc x) (dc_from x) (dc_to x) (dc_nl x) (dc_lines x) true (dc_bad x) (dc_sent x).
Definition set_bad (x : dcli) : dcli := mkDcli (dc x) (dc_from x) (dc_to x) (dc_nl x) (dc_lines x) (dc_eof x) true (dc_sent x).

(* cbuf_read_line(c->from, buf, sizeof buf, 1): the bytes up to and including the first LF (valid while the line is
   shorter than the 1 MiB line buffer: `line_fits`) *)
Fixpoint take_line (acc s : text) : option (text * text) :=
  match s with
  | [] => None
  | c :: r => if N.eqb c LF then Some (rev_append (c :: acc) [], r) else take_line (c :: acc) r
  end.

Definition cdev_of (spec : text) (d : device) : cdev :=
  mkCdev (mkEdev (sd_name (dv d)) (sd_plugs (dv d)) (map fst (dv_scripts d))) spec (dv_cstate d) (dv_succ_conn d) (dv_succ_acts d).
Fixpoint zip_cdevs (specs : list text) (devs : list device) : list cdev :=
  match devs with
  | [] => []
  | d :: r => cdev_of (hd [] specs) d :: zip_cdevs (tl specs) r
  end.
Definition cconf_of (st : daemon) : cconf := mkCconf (dm_nodes st) (dm_aliases st) (zip_cdevs (dm_specs st) (dm_devs st)).

Fixpoint upd_nth {A} (l : list A) (i : nat) (f : A -> A) : list A :=
  match l, i with
  | [], _ => []
  | x :: r, O => f x :: r
  | x :: r, S j => x :: upd_nth r j f
  end.

Section D.
  Variable expand_str : text -> option (list text).
  Variable ranged_sorted : list text -> text.
  Variable ranged_plain : list text -> text.
  Variable sorted : list text -> list text.
  Variable rmatch : text -> text -> option pmatch.
  Variable compress : list text -> text.
  Variable short_circuit : bool.

  (* dev_enqueue_actions: the actions the client layer selected (one entry per device, configuration order) are
     appended to the device queues; a device that gets work while not connected has its back-off reset *)
  Fixpoint enq_all (devs : list device) (q : list (text * list qact)) (client : Z) (tele : bool) (args : nat)
    : outcome (list device) :=
    match devs, q with
    | d :: r, (_, acts) :: qr =>
      let d1 := fold_left (fun od a => match od with Ok x => append_client_action x a client tele args | e => e end) acts (Ok d) in
      match d1 with
      | Ok d1 =>
        let d2 := match acts with [] => d1 | _ => expedite d1 end in
        match enq_all r qr client tele args with
        | Ok r' => Ok (d2 :: r')
        | Exit c s => Exit c s | Abort s => Abort s | MemErr s => MemErr s | Hang s => Hang s
        end
      | Exit c s => Exit c s | Abort s => Abort s | MemErr s => MemErr s | Hang s => Hang s
      end
    | _, _ => Ok devs
    end.

  (* _handle_input: every complete line of c->from goes through _parse_input *)
  Fixpoint handle_input (fuel : nat) (st : daemon) (i : nat) (acc : list sysev) : outcome (daemon * list sysev) :=
    match fuel with
    | O => Ok (st, acc)
    | S f =>
      match nth_error (dm_clients st) i with
      | None => Ok (st, acc)
      | Some x =>
        match take_line [] (dc_from x) with
        | None => Ok (st, acc)
        | Some (line, rest) =>
          let '(cf', store', c', q) := parse_input expand_str ranged_sorted ranged_plain sorted (cconf_of st) (dm_store st) (dc x) line in
          (* (since the repair of F37 `quit` no longer writes at once on a descriptor made blocking: the 101 line is
             queued like any other output) *)
          let x' := set_dc c' (mkDcli (dc x) rest (dc_to x) (dc_nl x) (S (dc_lines x)) (dc_eof x) (dc_bad x) (dc_sent x)) in
          let tele := cl_tele (dc x) in
          let args := length (dm_store st) in
          match (match q with [] => Ok (dm_devs st) | _ => enq_all (dm_devs st) q (cl_id (dc x)) tele args end) with
          | Ok devs' =>
            handle_input f (mkDaemon (cf_nodes cf') (dm_aliases st) (dm_specs st) (dm_pipe st) devs'
                                     (upd_nth (dm_clients st) i (fun _ => x')) (dm_seq st) store' (dm_version st) (dm_tel st)) i
                         acc
          | Exit c s => Exit c s | Abort s => Abort s | MemErr s => MemErr s | Hang s => Hang s
          end
        end
      end
    end.

  (* the body of cli_post_poll's loop for client number i: returns the events and whether the client is destroyed *)
  Definition cli_one (st : daemon) (i : nat) (ci : cin) : outcome (daemon * list sysev * bool) :=
    match nth_error (dm_clients st) i with
    | None => Ok (st, [], false)
    | Some x =>
      if ci_bad ci then Ok (st, [], true)
      else
        let x1 := if ci_in ci then
                    match ci_read ci with
                    | None | Some [] => set_eof (set_quit x)
                    | Some b => mkDcli (dc x) (fst (cbuf_put (dc_from x) b)) (dc_to x) (dc_nl x + count_lf b) (dc_lines x)
                                       (dc_eof x) (dc_bad x || dc_eof x) (dc_sent x)      (* cbuf_write_from_fd(c->from) *)
                    end
                  else x in
        let '(x2, w) := if ci_out ci then
                          match ci_wrote ci with
                          | None => (let y := set_quit x1 in mkDcli (dc y) (dc_from y) [] (dc_nl y) (dc_lines y) (dc_eof y) true (dc_sent y), [])   (* cbuf_flush(c->to) *)
                          | Some n => (mkDcli (dc x1) (dc_from x1) (skipn n (dc_to x1)) (dc_nl x1) (dc_lines x1) (dc_eof x1) (dc_bad x1)
                                              (dc_sent x1 ++ firstn n (dc_to x1)), firstn n (dc_to x1))
                          end
                        else (x1, []) in
        let st1 := mkDaemon (dm_nodes st) (dm_aliases st) (dm_specs st) (dm_pipe st) (dm_devs st)
                            (upd_nth (dm_clients st) i (fun _ => x2)) (dm_seq st) (dm_store st) (dm_version st) (dm_tel st) in
        match handle_input (S (length (dc_from x2))) st1 i (match w with [] => [] | _ => [SysCliWrote (cl_id (dc x)) w] end) with
        | Ok (st2, evs) =>
          let dead := match nth_error (dm_clients st2) i with
                      | Some y => cl_quit (dc y) && (match cl_cmd (dc y) with None => true | Some _ => false end)
                                 && (match dc_to y with [] => true | _ => false end)
                      | None => false end in
          Ok (st2, evs, dead)
        | Exit c s => Exit c s | Abort s => Abort s | MemErr s => MemErr s | Hang s => Hang s
        end
    end.

  Fixpoint remove_nth {A} (l : list A) (i : nat) : list A :=
    match l, i with
    | [], _ => []
    | _ :: r, O => r
    | x :: r, S j => x :: remove_nth r j
    end.

  (* the loop over cli_clients: [i] = position in the CURRENT list, [cins] = the events of the clients not yet visited *)
  Fixpoint cli_loop (st : daemon) (i : nat) (cins : list cin) (acc : list sysev) : outcome (daemon * list sysev) :=
    match cins with
    | [] => Ok (st, acc)
    | ci :: r =>
      match cli_one st i ci with
      | Ok (st1, evs, dead) =>
        if dead then
          let id := match nth_error (dm_clients st1) i with Some y => cl_id (dc y) | None => 0 end in
          let st2 := mkDaemon (dm_nodes st1) (dm_aliases st1) (dm_specs st1) (dm_pipe st1) (dm_devs st1)
                              (remove_nth (dm_clients st1) i) (dm_seq st1) (dm_store st1) (dm_version st1) (dm_tel st1) in
          cli_loop st2 i r (acc ++ evs ++ [SysCloseCli id])
        else cli_loop st1 (S i) r (acc ++ evs)
      | Exit c s => Exit c s | Abort s => Abort s | MemErr s => MemErr s | Hang s => Hang s
      end
    end.

  Definition next_id (seq : Z) : Z * Z :=          (* _next_cli_id *)
    if seq <? 2147483647 then (seq, seq + 1) else (2147483647, 1).

  Fixpoint pad_cins (n : nat) (l : list cin) : list cin :=
    match n with
    | O => []
    | S k => match l with [] => cin0 :: pad_cins k [] | c :: r => c :: pad_cins k r end
    end.

  Definition cli_post_poll (st : daemon) (r : round) : outcome (daemon * list sysev) :=
    let '(st1, e1) :=
      if r_accept r then
        let '(id, seq') := next_id (dm_seq st) in
        let c := new_client id (dm_version st) in
        (mkDaemon (dm_nodes st) (dm_aliases st) (dm_specs st) (dm_pipe st) (dm_devs st)
                  (dm_clients st ++ [mkDcli c [] (cl_out c) O O false false []]) seq' (dm_store st) (dm_version st) (dm_tel st), [SysAccept id])
      else (st, []) in
    cli_loop st1 O (pad_cins (length (dm_clients st1)) (r_cli r)) e1.

  (* the callbacks of the device layer: _act_finish / _telemetry_printf / _diag_printf look the client up by id;
     a client that is gone is ignored *)
  Fixpoint find_cli (l : list dcli) (id : Z) (i : nat) : option (nat * dcli) :=
    match l with
    | [] => None
    | x :: r => if Z.eqb (cl_id (dc x)) id then Some (i, x) else find_cli r id (S i)
    end.

  Definition route (st : daemon) (e : ev) : outcome daemon :=
    let upd i x c := mkDaemon (dm_nodes st) (dm_aliases st) (dm_specs st) (dm_pipe st) (dm_devs st)
                              (upd_nth (dm_clients st) i (fun _ => set_dc c x)) (dm_seq st) (dm_store st) (dm_version st) (dm_tel st) in
    match e with
    | EvComplete id err msg =>
      match find_cli (dm_clients st) id O with
      | None => Ok st
      | Some (i, x) =>
        match act_finish ranged_sorted (dc x) (dm_store st) err msg with
        | Ok c => Ok (upd i x c)
        | Exit a b => Exit a b | Abort s => Abort s | MemErr s => MemErr s | Hang s => Hang s
        end
      end
    | EvTele id msg =>
      match find_cli (dm_clients st) id O with
      | None => Ok st
      | Some (i, x) => Ok (upd i x (telemetry (dc x) msg))
      end
    | EvDiag id msg =>
      match find_cli (dm_clients st) id O with
      | None => Ok st
      | Some (i, x) => Ok (upd i x (diag (dc x) msg))
      end
    | _ => Ok st
    end.

  Fixpoint route_all (st : daemon) (evs : list ev) : outcome daemon :=
    match evs with
    | [] => Ok st
    | e :: r => match route st e with
                | Ok st1 => route_all st1 r
                | Exit a b => Exit a b | Abort s => Abort s | MemErr s => MemErr s | Hang s => Hang s
                end
    end.

  Definition passin0 : passin := mkPassin false false false false false None None true [] None.

  (* the preprocess method of the transport (device_tcp.c: the telnet filter) on the bytes this pass reads *)
  Definition with_pre (pipe : bool) (t : Telnet.tcp) (pin : passin) : passin * Telnet.tcp :=
    if pipe then (pin, t)
    else match pi_read pin with
         | Some (b0 :: br) =>
             match Telnet.filter t (b0 :: br) with
             | (t', kept, opts) =>
                 (mkPassin (pi_hup pin) (pi_err pin) (pi_nval pin) (pi_out pin) (pi_in pin) (pi_read pin) (pi_wrote pin)
                           (pi_finish_ok pin) (pi_plans pin) (Some (kept, flat_map Telnet.sendopt_bytes opts)), t')
             end
         | _ => (pin, t)
         end.
  Definition did_read (evs : list ev) : bool := existsb (fun e => match e with EvRead _ => true | _ => false end) evs.
  Definition did_connect (evs : list ev) : bool := existsb (fun e => match e with EvConnect => true | _ => false end) evs.

  (* dev_post_poll: every device in configuration order; the callbacks run while the device is being processed.
     [n] = devices still to visit, [i] = index of the next one *)
  Fixpoint dev_loop (n : nat) (now : Z) (st : daemon) (i : nat) (pins : list passin) (tmo : option Z) (acc : list sysev)
    : outcome (daemon * option Z * list sysev) :=
    match n with
    | O => Ok (st, tmo, acc)
    | S n' =>
      match nth_error (dm_devs st) i with
      | None => Ok (st, tmo, acc)
      | Some d =>
        let t0 := nth i (dm_tel st) Telnet.telnet_init in
        let '(pin, t1) := with_pre (nth i (dm_pipe st) true) t0 (hd passin0 pins) in
        match post_poll_one rmatch compress short_circuit now d (dm_store st) tmo pin with
        | Ok (d', store', tmo', evs) =>
          (* _Telnet.telnet_init runs when a connect completes; otherwise the state moves only if the read took place *)
          let t2 := if connected d' && (negb (connected d) || did_connect evs) then Telnet.telnet_init
                    else if did_read evs then t1 else t0 in
          let st1 := mkDaemon (dm_nodes st) (dm_aliases st) (dm_specs st) (dm_pipe st) (upd_nth (dm_devs st) i (fun _ => d'))
                              (dm_clients st) (dm_seq st) store' (dm_version st)
                              (if Nat.ltb i (length (dm_tel st)) then upd_nth (dm_tel st) i (fun _ => t2) else dm_tel st) in
          match route_all st1 evs with
          | Ok st2 => dev_loop n' now st2 (S i) (tl pins) tmo' (acc ++ map (SysDev i) evs)
          | Exit a b => Exit a b | Abort s => Abort s | MemErr s => MemErr s | Hang s => Hang s
          end
        | Exit a b => Exit a b | Abort s => Abort s | MemErr s => MemErr s | Hang s => Hang s
        end
      end
    end.

  (* one pass of the select loop after poll returned *)
  Definition dstep (st : daemon) (r : round) : outcome (daemon * dout) :=
    match cli_post_poll st r with
    | Ok (st1, e1) =>
      match dev_loop (length (dm_devs st1)) (r_now r) st1 O (r_dev r) None [] with
      | Ok (st2, tmo, e2) => Ok (st2, mkDout (e1 ++ e2) tmo)
      | Exit a b => Exit a b | Abort s => Abort s | MemErr s => MemErr s | Hang s => Hang s
      end
    | Exit a b => Exit a b | Abort s => Abort s | MemErr s => MemErr s | Hang s => Hang s
    end.

  (* dev_initial_connect (before the first poll) *)
  Fixpoint init_loop (now : Z) (devs : list device) (plans : list (list cplan)) (i : nat) : outcome (list device * list sysev) :=
    match devs with
    | [] => Ok ([], [])
    | d :: r =>
      match connect now d (hd [] plans) with
      | Ok (d', evs, _) =>
        match init_loop now r (tl plans) (S i) with
        | Ok (r', evs') => Ok (d' :: r', map (SysDev i) evs ++ evs')
        | Exit a b => Exit a b | Abort s => Abort s | MemErr s => MemErr s | Hang s => Hang s
        end
      | Exit a b => Exit a b | Abort s => Abort s | MemErr s => MemErr s | Hang s => Hang s
      end
    end.
  Definition dinit (st : daemon) (now : Z) (plans : list (list cplan)) : outcome (daemon * dout) :=
    match init_loop now (dm_devs st) plans O with
    | Ok (devs, evs) =>
      Ok (mkDaemon (dm_nodes st) (dm_aliases st) (dm_specs st) (dm_pipe st) devs (dm_clients st) (dm_seq st) (dm_store st) (dm_version st) (dm_tel st),
          mkDout evs None)
    | Exit a b => Exit a b | Abort s => Abort s | MemErr s => MemErr s | Hang s => Hang s
    end.

  (* the whole run: every pass of every history *)
  Fixpoint drun (st : daemon) (rs : list round) (acc : list dout) : outcome (daemon * list dout) :=
    match rs with
    | [] => Ok (st, acc)
    | r :: rest =>
      match dstep st r with
      | Ok (st1, o) => drun st1 rest (acc ++ [o])
      | Exit a b => Exit a b | Abort s => Abort s | MemErr s => MemErr s | Hang s => Hang s
      end
    end.
End D.

(* ---------- the resource ledger (C20): what the daemon holds, as a function of its state ---------- *)
Definition dev_fds (st : daemon) : nat := length (filter dv_has_fd (dm_devs st)).
Fixpoint kids_of (pipes : list bool) (devs : list device) : nat :=
  match devs with
  | [] => O
  | d :: r => ((if hd true pipes && dv_has_fd d then 1 else 0) + kids_of (tl pipes) r)%nat
  end.
Definition children (st : daemon) : nat := kids_of (dm_pipe st) (dm_devs st).
(* descriptors beyond the listeners *)
Definition open_fds (st : daemon) : nat := (length (dm_clients st) + dev_fds st)%nat.

(* cli_fini + dev_fini at shutdown: every client is destroyed, every device with a descriptor is disconnected *)
Definition shutdown_evs (st : daemon) : list sysev :=
  map (fun x => SysCloseCli (cl_id (dc x))) (dm_clients st).
