(* A fingerprint of a specification value, computed inside Coq over the term Gen/GenSpecs.v defines.
   gen/gen_specs.py writes the fingerprint of the tree it translated (computed in python from the reader's tree) next
   to the term, Proofs/SpecCheckShipped.v proves by computation that the two agree, and props/C17.py recomputes the
   same fingerprint from the dump of the REAL parser.  So a slip of the Coq-term printer (a dropped statement, a
   wrong nesting, a byte lost in a string) cannot go unnoticed: the theorem would be about a value whose
   fingerprint differs from that of the trees the real parser builds.  (Collisions: a 61-bit multiplicative hash; it guards against slips, not adversaries.) *)
From Coq Require Import List NArith ZArith.
From PM Require Import Base.Bytes Model.ScriptAst.
Import ListNotations.
Local Open Scope N_scope.

Definition dg_mask : N := 2305843009213693951.   (* 2^61 - 1, used as a bit mask: cheap inside vm_compute *)
Definition dg_mul : N := 1000003.

Definition dg_fold (l : list N) : N := fold_left (fun acc x => N.land (acc * dg_mul + x + 7) dg_mask) l 0.

Definition ser_text (t : text) : list N := N.of_nat (length t) :: t.
Definition ser_z (z : Z) : list N :=
  match z with Z0 => [0; 0] | Zpos p => [1; Npos p] | Zneg p => [2; Npos p] end.
Definition ser_interps (il : list (Z * text)) : list N :=
  N.of_nat (length il) :: flat_map (fun i => ser_z (fst i) ++ ser_text (snd i)) il.

Fixpoint ser_stmt (s : stmt) : list N :=
  let blk := fix blk (l : list stmt) : list N := match l with [] => [] | x :: r => ser_stmt x ++ blk r end in
  match s with
  | Send f => 1 :: ser_text f
  | Expect r => 2 :: ser_text r
  | SetPlugState lit p q il =>
      3 :: (match lit with None => [0] | Some t => 1 :: ser_text t end) ++ ser_z p ++ ser_z q ++ ser_interps il
  | SetResult p q il => 4 :: ser_z p ++ ser_z q ++ ser_interps il
  | Delay u => 5 :: ser_z u
  | ForeachPlug b => 6 :: N.of_nat (length b) :: blk b
  | ForeachNode b => 7 :: N.of_nat (length b) :: blk b
  | IfOn b => 8 :: N.of_nat (length b) :: blk b
  | IfOff b => 9 :: N.of_nat (length b) :: blk b
  end.

Definition ser_script (sc : Z * list stmt) : list N :=
  ser_z (fst sc) ++ N.of_nat (length (snd sc)) :: flat_map ser_stmt (snd sc).

Definition ser_header (s : spec) : list N :=
  ser_text (sp_name s) ++ ser_z (sp_timeout s) ++ ser_z (sp_ping s) ++
  match sp_plugs s with
  | None => [0]
  | Some l => 1 :: N.of_nat (length l) :: flat_map ser_text l
  end.

(* scripts are combined by addition so that the order (file order in GenSpecs.v, index order in the dumps) is
   immaterial *)
Definition spec_digest (s : spec) : N :=
  fold_left (fun acc sc => N.land (acc + dg_fold (ser_script sc)) dg_mask) (sp_scripts s) (dg_fold (ser_header s)).
