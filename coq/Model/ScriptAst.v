(* Abstract syntax of device specifications as the parser (parse_tab.y makeStmt/makeScript/makeSpec)
   builds them.  Shared by the script interpreter model (C08, C01, C10, C12), the shipped-spec sweep
   (C17: Gen/GenSpecs.v is a value of type [list (text * spec)]) and the parser model (C18). *)
From Coq Require Import List NArith ZArith.
From PM Require Import Base.Bytes.
Import ListNotations.

Inductive stmt : Type :=
| Send (fmt : text)                                   (* printf-style format, at most one %s *)
| Expect (re : text)                                  (* POSIX ERE source text as written in the file
                                                         (before the \r \n substitution of xregex_compile) *)
| SetPlugState (lit : option text)                    (* literal plug name, if given *)
               (plug_mp : Z)                          (* $N of the plug name; -1 when omitted; 0 when lit is given *)
               (stat_mp : Z)                          (* $N of the status text *)
               (interps : list (Z * text))            (* (ST_ON | ST_OFF code from GenConsts, regex) in file order *)
| SetResult (plug_mp stat_mp : Z)
            (interps : list (Z * text))               (* (RT_SUCCESS code, regex) in file order *)
| Delay (usec : Z)                                    (* _doubletotv of the value, in microseconds *)
| ForeachPlug (body : list stmt)
| ForeachNode (body : list stmt)
| IfOn (body : list stmt)
| IfOff (body : list stmt).

Record spec : Type := mkSpec {
  sp_name : text;
  sp_timeout : Z;                        (* microseconds; 0 when the spec has no `timeout` line *)
  sp_ping : Z;                           (* ping period in microseconds, 0 = none *)
  sp_plugs : option (list text);         (* `plug name { ... }` hard-wired names, None if absent *)
  sp_scripts : list (Z * list stmt)      (* (script index PM_* from GenConsts, statements), file order *)
}.

Fixpoint assoc_script (i : Z) (l : list (Z * list stmt)) : option (list stmt) :=
  match l with
  | [] => None
  | (j, b) :: r => if Z.eqb i j then Some b else assoc_script i r
  end.

(* number of statements, all nesting levels: the measure every structural recursion over scripts uses *)
Fixpoint stmt_size (s : stmt) : nat :=
  match s with
  | ForeachPlug b | ForeachNode b | IfOn b | IfOff b =>
      S ((fix go (l : list stmt) : nat := match l with [] => O | x :: r => stmt_size x + go r end) b)
  | _ => 1%nat
  end.
