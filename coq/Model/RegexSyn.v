(* Syntactic facts about the POSIX extended regular expressions of device specifications, as far as the
   C17 rules need them: the number of capture groups glibc's regcomp(REG_EXTENDED) reports in re_nsub.

   xregex.c:xregex_compile refuses sources longer than 256 bytes, then replaces the two-character sequences
   backslash-r and backslash-n by CR and LF (textually, before regcomp sees the pattern), then compiles.
   In an ERE a capture group is opened by every `(` that is neither escaped by a backslash nor inside a
   bracket expression.  Inside a bracket expression a backslash is an ordinary character, `]` is ordinary when
   it is the first member (after an optional `^`), and `[:` `[.` `[=` open a class / collating / equivalence
   name that runs to the matching `:]` `.]` `=]`.

   Tied to glibc on every run by relation R-SPEC: re_nsub of every pattern compiled by the real parser
   (shipped files and mutated copies, including patterns with brackets, escapes and parentheses inserted at
   random) must equal [ngroups]. *)
From Coq Require Import List NArith ZArith Bool.
From PM Require Import Base.Bytes.
Import ListNotations.
Local Open Scope N_scope.

Definition c_bsl : byte := 92.     (* \ *)
Definition c_lpar : byte := 40.    (* ( *)
Definition c_lbrk : byte := 91.    (* [ *)
Definition c_rbrk : byte := 93.    (* ] *)
Definition c_caret : byte := 94.   (* ^ *)
Definition c_dot : byte := 46.
Definition c_colon : byte := 58.
Definition c_equal : byte := 61.
Definition c_r : byte := 114.
Definition c_n : byte := 110.

(* _str_subst(s, "\\x", "<r>"): repeated strstr-from-the-start + memmove; since the replacement byte is neither
   a backslash nor the letter, no new occurrence can arise and one left-to-right pass computes the same string *)
Fixpoint subst_esc (c r : byte) (t : text) : text :=
  match t with
  | a :: ((b :: t') as rest) =>
      if (a =? c_bsl) && (b =? c) then r :: subst_esc c r t' else a :: subst_esc c r rest
  | _ => t
  end.

Definition subst_crlf (t : text) : text := subst_esc c_n LF (subst_esc c_r CR t).

Inductive rstate : Type :=
| RNorm                      (* outside brackets *)
| REsc                       (* after a backslash outside brackets *)
| RBrk0                      (* just after the opening [ *)
| RBrk1                      (* just after [^ *)
| RBrk                       (* inside a bracket expression; ] closes *)
| RBrkOpen                   (* inside, just saw [ *)
| RSym (d : byte)            (* inside [d ... , d one of . : = *)
| RSymEnd (d : byte).        (* inside [d ... , just saw d *)

Definition rstep (st : rstate) (c : byte) : rstate * bool (* opens a group *) :=
  match st with
  | RNorm => if c =? c_bsl then (REsc, false)
             else if c =? c_lbrk then (RBrk0, false)
             else if c =? c_lpar then (RNorm, true)
             else (RNorm, false)
  | REsc => (RNorm, false)
  | RBrk0 => if c =? c_caret then (RBrk1, false)
             else if c =? c_lbrk then (RBrkOpen, false)
             else (RBrk, false)                      (* a leading ] is an ordinary member *)
  | RBrk1 => if c =? c_lbrk then (RBrkOpen, false) else (RBrk, false)
  | RBrk => if c =? c_rbrk then (RNorm, false)
            else if c =? c_lbrk then (RBrkOpen, false)
            else (RBrk, false)
  | RBrkOpen => if (c =? c_dot) || (c =? c_colon) || (c =? c_equal) then (RSym c, false)
                else if c =? c_rbrk then (RNorm, false)
                else if c =? c_lbrk then (RBrkOpen, false)
                else (RBrk, false)
  | RSym d => if c =? d then (RSymEnd d, false) else (RSym d, false)
  | RSymEnd d => if c =? c_rbrk then (RBrk, false)
                 else if c =? d then (RSymEnd d, false)
                 else (RSym d, false)
  end.

Fixpoint count_groups (st : rstate) (acc : nat) (t : text) : nat :=
  match t with
  | [] => acc
  | c :: r => let '(st', g) := rstep st c in count_groups st' (if g then S acc else acc) r
  end.

Definition MAX_REGEX_LEN : nat := 256.        (* xregex_compile: strlen(regex) > 256 -> err_exit *)

Definition ngroups (re : text) : option nat :=
  if Nat.ltb MAX_REGEX_LEN (length re) then None
  else Some (count_groups RNorm 0 (subst_crlf re)).
