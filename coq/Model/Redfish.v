(* C19: executable model of redfishpower's test mode (src/redfishpower/redfishpower.c, plugs.c).
   No proofs here.  One [state] = the helper's globals; [run_line] = one command line read at the prompt
   followed by shell-loop passes until the three command lists are empty again (= the next prompt).

   What is modelled as it is in the C:
     * the command dispatch of process_cmd(), the management commands as far as test mode observes them
       (setplugs incl. remove_initial_plugs / host index parsing / partial effect on error, setpath,
       setstatpath/setonpath/setoffpath, settimeout, auth, setheader, help, quit, unknown words);
     * stat/on/off: one powermsg per valid target, waitcmds for targets with a parent, activecmds otherwise,
       phased_power_on_check, send_initial_parent_queries (de-duplicated through plugname_active);
     * the shell loop: delayed polls released in list order, the test-mode pass over a COPY of activecmds,
       process_waiters (two passes), stat_process, on_off_process (status flip + descendants off), the
       follow-up status poll;
     * every stdout line, printed through the format strings of the CURRENT source (Gen/GenRfp.v).
   Deliberate abstractions (stated in the evidence):
     * hostlist_create() on an argument is an oracle [hlc] (None = NULL): the hostlist library is C14's subject;
       hostlist_find on the plug list / the failing hosts is exact name membership;
     * time: a delayed poll carries no clock; which prefix of delayedcmds is due in an iteration is the
       schedule argument (when activecmds is empty the helper sleeps until the first one is due, so at least
       one is released); the 60 s command time-out of a poll that does not see its status is not modelled
       (the poll is re-queued, the run ends in Hang when the fuel is gone);
     * a plug table with a parent cycle is out of scope (the C walks loop forever, "assumption, user does not
       introduce loops"): stat/on/off on such a table end in Hang site_cycle without looking further;
     * postdata, auth, header, message time-out are not observable in test mode and not kept;
     * input lines are shorter than fgets' 255 bytes and contain no NUL. *)
From Coq Require Import List NArith ZArith Bool Lia.
From PM Require Import Base.Bytes Base.Outcome Gen.GenRfp.
Import ListNotations.

Definition name := text.

Inductive cmd := CStat | COn | COff.
Inductive status := SOn | SOff | SErr.

Definition cmd_text (c : cmd) : text :=
  match c with CStat => CMD_STAT | COn => CMD_ON | COff => CMD_OFF end.
Definition status_text (s : status) : text :=
  match s with SOn => STATUS_ON | SOff => STATUS_OFF | SErr => STATUS_ERROR end.

(* the string comparisons the C makes, on the strings of the current source *)
Definition status_is_on (s : status) : bool := text_eqb (status_text s) STATUS_ON.     (* strcmp(status_str, STATUS_ON) == 0 *)
Definition status_is_off (s : status) : bool := text_eqb (status_text s) STATUS_OFF.
Definition status_is_cmd (s : status) (c : cmd) : bool := text_eqb (status_text s) (cmd_text c).
Definition cmd_is_stat (c : cmd) : bool := text_eqb (cmd_text c) CMD_STAT.
Definition cmd_is_on (c : cmd) : bool := text_eqb (cmd_text c) CMD_ON.
Definition cmd_is_off (c : cmd) : bool := text_eqb (cmd_text c) CMD_OFF.
Definition cmd_of_word (w : text) : option cmd :=
  if text_eqb w CMD_STAT then Some CStat else if text_eqb w CMD_ON then Some COn
  else if text_eqb w CMD_OFF then Some COff else None.

Record plug := mkPlug {
  p_name : name; p_host : text; p_parent : option name;
  p_stat : option text; p_on : option text; p_off : option text }.

Record pmsg := mkMsg {
  m_cmd : cmd; m_host : text; m_plug : name; m_parent : option name;
  m_out : bool;          (* output_result *)
  m_poll : bool }.       (* state == STATE_WAIT_UNTIL_ON_OFF *)

Inductive fault := FHang (site : nat) | FAbort (site : nat) | FExit (site : nat) | FMem (site : nat).

(* fault sites *)
Definition site_fuel : nat := 1.          (* run_line: fuel exhausted (never under the theorem's hypotheses) *)
Definition site_lost_waiter : nat := 2.   (* shell(): waitcmds non-empty, nothing active or delayed: select() without fds, forever *)
Definition site_cycle : nat := 3.         (* parent cycle in the plug table *)
Definition site_root_assert : nat := 4.   (* send_initial_parent_queries: assert(root_plugname) *)
Definition site_test_status : nat := 5.   (* parse_onoff: zhashx_lookup on test status failed -> err_exit *)
Definition site_scan_fuel : nat := 6.     (* a rescanning list loop ran out of fuel (never) *)
Definition site_ancestor_data : nat := 7. (* process_waiters: plugs_get_data(ancestor) == NULL dereferenced *)

(* who a printed line is for (instrumentation; the text alone is what the helper prints) *)
Inductive tag :=
| TResult (p : name)     (* the one answer a target gets *)
| TUnknown (p : name)    (* "unknown plug specified" for a target that is no plug *)
| TDiag.                 (* anything else: DEBUG lines, "path not set" of a silent ancestor query, management messages *)

Inductive event := EvOp (c : cmd) (p : name).     (* the power operation was carried out on p (test status flipped) *)

Record state := mkState {
  s_hosts : list text;                 (* -h, expanded *)
  s_fail : list text;                  (* --test-fail-power-cmd-hosts, expanded *)
  s_verbose : bool;                    (* verbose > 1 *)
  s_tab : list plug;                   (* struct plugs: hostlist order; names are unique *)
  s_initial : bool;                    (* initial_plugs_setup *)
  s_tstat : list (name * status);      (* test_power_status *)
  s_statpath : option text; s_onpath : option text; s_offpath : option text;
  s_active : list pmsg; s_wait : list pmsg; s_delayed : list pmsg;
  s_out : list (tag * text);           (* stdout of the current command, one element per printf *)
  s_log : list event;
  s_fault : option fault }.

Definition set_tab st v := mkState (s_hosts st) (s_fail st) (s_verbose st) v (s_initial st) (s_tstat st) (s_statpath st) (s_onpath st) (s_offpath st) (s_active st) (s_wait st) (s_delayed st) (s_out st) (s_log st) (s_fault st).
Definition set_initial st v := mkState (s_hosts st) (s_fail st) (s_verbose st) (s_tab st) v (s_tstat st) (s_statpath st) (s_onpath st) (s_offpath st) (s_active st) (s_wait st) (s_delayed st) (s_out st) (s_log st) (s_fault st).
Definition set_tstat st v := mkState (s_hosts st) (s_fail st) (s_verbose st) (s_tab st) (s_initial st) v (s_statpath st) (s_onpath st) (s_offpath st) (s_active st) (s_wait st) (s_delayed st) (s_out st) (s_log st) (s_fault st).
Definition set_statpath st v := mkState (s_hosts st) (s_fail st) (s_verbose st) (s_tab st) (s_initial st) (s_tstat st) v (s_onpath st) (s_offpath st) (s_active st) (s_wait st) (s_delayed st) (s_out st) (s_log st) (s_fault st).
Definition set_onpath st v := mkState (s_hosts st) (s_fail st) (s_verbose st) (s_tab st) (s_initial st) (s_tstat st) (s_statpath st) v (s_offpath st) (s_active st) (s_wait st) (s_delayed st) (s_out st) (s_log st) (s_fault st).
Definition set_offpath st v := mkState (s_hosts st) (s_fail st) (s_verbose st) (s_tab st) (s_initial st) (s_tstat st) (s_statpath st) (s_onpath st) v (s_active st) (s_wait st) (s_delayed st) (s_out st) (s_log st) (s_fault st).
Definition set_active st v := mkState (s_hosts st) (s_fail st) (s_verbose st) (s_tab st) (s_initial st) (s_tstat st) (s_statpath st) (s_onpath st) (s_offpath st) v (s_wait st) (s_delayed st) (s_out st) (s_log st) (s_fault st).
Definition set_wait st v := mkState (s_hosts st) (s_fail st) (s_verbose st) (s_tab st) (s_initial st) (s_tstat st) (s_statpath st) (s_onpath st) (s_offpath st) (s_active st) v (s_delayed st) (s_out st) (s_log st) (s_fault st).
Definition set_delayed st v := mkState (s_hosts st) (s_fail st) (s_verbose st) (s_tab st) (s_initial st) (s_tstat st) (s_statpath st) (s_onpath st) (s_offpath st) (s_active st) (s_wait st) v (s_out st) (s_log st) (s_fault st).
Definition set_out st v := mkState (s_hosts st) (s_fail st) (s_verbose st) (s_tab st) (s_initial st) (s_tstat st) (s_statpath st) (s_onpath st) (s_offpath st) (s_active st) (s_wait st) (s_delayed st) v (s_log st) (s_fault st).
Definition set_log st v := mkState (s_hosts st) (s_fail st) (s_verbose st) (s_tab st) (s_initial st) (s_tstat st) (s_statpath st) (s_onpath st) (s_offpath st) (s_active st) (s_wait st) (s_delayed st) (s_out st) v (s_fault st).
Definition set_fault st v := mkState (s_hosts st) (s_fail st) (s_verbose st) (s_tab st) (s_initial st) (s_tstat st) (s_statpath st) (s_onpath st) (s_offpath st) (s_active st) (s_wait st) (s_delayed st) (s_out st) (s_log st) v.

(* the first fault sticks: the C stops there *)
Definition raise (st : state) (f : fault) : state :=
  match s_fault st with Some _ => st | None => set_fault st (Some f) end.

(* ------------------------------------------------------------------ printf *)
(* formats of GenRfp carry %s and %d only (arguments already rendered), %% for a literal percent sign *)
Fixpoint fmt (f : text) (args : list text) : text :=
  match f with
  | [] => []
  | c :: r =>
    if N.eqb c 37 then
      match r with
      | [] => [c]
      | d :: r' =>
        if N.eqb d 115 || N.eqb d 100 then
          match args with
          | a :: args' => a ++ fmt r' args'
          | [] => fmt r' []
          end
        else if N.eqb d 37 then 37%N :: fmt r' args
        else c :: fmt r args
      end
    else c :: fmt r args
  end.

Definition emit (st : state) (t : tag) (l : text) : state := set_out st (s_out st ++ [(t, l)]).
Definition emitf (st : state) (t : tag) (f : text) (args : list text) : state := emit st t (fmt f args).
Definition out_text (st : state) : list text := map snd (s_out st).

(* %d of an int *)
Fixpoint dec_go (fuel : nat) (n : N) (acc : text) : text :=
  match fuel with
  | O => acc
  | S f => let (q, r) := N.div_eucl n 10 in
           let acc' := (48 + r)%N :: acc in
           if N.eqb q 0 then acc' else dec_go f q acc'
  end.
Definition dec_of_N (n : N) : text := dec_go (S (N.size_nat n)) n [].
Definition dec_of_Z (z : Z) : text :=
  match z with
  | Zneg p => 45%N :: dec_of_N (Npos p)
  | _ => dec_of_N (Z.to_N z)
  end.

(* ------------------------------------------------------------------ argv_create(buf, "") *)
Fixpoint split_ws (s : text) (cur : text) : list text :=
  match s with
  | [] => match cur with [] => [] | _ => [rev cur] end
  | c :: r => if is_space c
              then match cur with [] => split_ws r [] | _ => rev cur :: split_ws r [] end
              else split_ws r (c :: cur)
  end.
Definition argv (line : text) : list text := split_ws line [].

(* ------------------------------------------------------------------ strtol(s, &end, 10) *)
Definition LONG_MAX : Z := 9223372036854775807%Z.
Definition LONG_MIN : Z := (-9223372036854775808)%Z.
Fixpoint digits_go (s : text) (acc : Z) (n : nat) : Z * nat * text :=    (* value, digits consumed, rest *)
  match s with
  | c :: r => if is_digit c then digits_go r (acc * 10 + Z.of_N (c - 48))%Z (S n) else (acc, n, s)
  | [] => (acc, n, s)
  end.
Fixpoint skip_ws (s : text) : text :=
  match s with c :: r => if is_space c then skip_ws r else s | [] => [] end.
(* returns (value, ERANGE, rest); no digits: value 0 and rest = the whole string *)
Definition strtol10 (s : text) : Z * bool * text :=
  let s1 := skip_ws s in
  let '(neg, s2) := match s1 with
                    | c :: r => if N.eqb c 45 then (true, r) else if N.eqb c 43 then (false, r) else (false, s1)
                    | [] => (false, s1) end in
  let '(v, n, rest) := digits_go s2 0%Z O in
  match n with
  | O => (0%Z, false, s)
  | _ => let v' := if neg then (- v)%Z else v in
         if (LONG_MAX <? v')%Z then (LONG_MAX, true, rest)
         else if (v' <? LONG_MIN)%Z then (LONG_MIN, true, rest)
         else (v', false, rest)
  end.
(* (int) of a long, gcc: modulo 2^32, two's complement *)
Definition int_of_long (v : Z) : Z :=
  let m := (v mod 4294967296)%Z in if (m <? 2147483648)%Z then m else (m - 4294967296)%Z.

(* ------------------------------------------------------------------ struct plugs *)
Definition lookup (tab : list plug) (n : name) : option plug :=
  find (fun p => text_eqb (p_name p) n) tab.
Definition name_valid (tab : list plug) (n : name) : bool :=             (* plugs_name_valid *)
  existsb (fun p => text_eqb (p_name p) n) tab.
Definition mem (n : text) (l : list text) : bool := existsb (text_eqb n) l.

(* plugs_add: position in the host list is kept when the name exists; the plug_data is new (paths forgotten) *)
Fixpoint tab_add (tab : list plug) (p : plug) : list plug :=
  match tab with
  | [] => [p]
  | q :: r => if text_eqb (p_name q) (p_name p) then p :: r else q :: tab_add r p
  end.
Definition tab_remove (tab : list plug) (n : name) : list plug :=
  filter (fun p => negb (text_eqb (p_name p) n)) tab.
Fixpoint tab_update (tab : list plug) (n : name) (f : plug -> plug) : list plug :=
  match tab with
  | [] => []
  | q :: r => if text_eqb (p_name q) n then f q :: r else q :: tab_update r n f
  end.

Inductive walk := WFound (n : name) | WNone | WLoop.

(* plugs_child_of_ancestor, loop entered with pd *)
Fixpoint coa_walk (fuel : nat) (tab : list plug) (pd : plug) (a : name) : walk :=
  match p_parent pd with
  | None => WNone
  | Some par =>
    if text_eqb par a then WFound (p_name pd)
    else match lookup tab par with
         | None => WNone
         | Some pd' => match fuel with O => WLoop | S f => coa_walk f tab pd' a end
         end
  end.
Definition child_of_ancestor (tab : list plug) (x a : name) : walk :=
  match lookup tab x with None => WNone | Some pd => coa_walk (length tab) tab pd a end.
Definition is_desc (tab : list plug) (x a : name) : bool :=              (* plugs_is_descendant *)
  match child_of_ancestor tab x a with WFound _ => true | _ => false end.

(* plugs_find_root_parent *)
Fixpoint root_walk (fuel : nat) (tab : list plug) (pd : plug) : walk :=
  match p_parent pd with
  | None => WFound (p_name pd)
  | Some par => match lookup tab par with
                | None => WNone
                | Some pd' => match fuel with O => WLoop | S f => root_walk f tab pd' end
                end
  end.
Definition find_root (tab : list plug) (x : name) : walk :=
  match lookup tab x with None => WNone | Some pd => root_walk (length tab) tab pd end.

(* a walk that needs more steps than there are plugs has entered a cycle *)
Definition cyclic (tab : list plug) : bool :=
  existsb (fun p => match root_walk (length tab) tab p with WLoop => true | _ => false end) tab.

(* ------------------------------------------------------------------ test_power_status *)
Definition ts_lookup (ts : list (name * status)) (n : name) : option status :=
  match find (fun e => text_eqb (fst e) n) ts with Some e => Some (snd e) | None => None end.
Fixpoint ts_update (ts : list (name * status)) (n : name) (s : status) : list (name * status) :=   (* zhashx_update *)
  match ts with
  | [] => [(n, s)]
  | e :: r => if text_eqb (fst e) n then (n, s) :: r else e :: ts_update r n s
  end.
Definition ts_insert (ts : list (name * status)) (n : name) (s : status) : list (name * status) :=  (* zhashx_insert: keeps an existing entry *)
  match ts_lookup ts n with Some _ => ts | None => ts ++ [(n, s)] end.

(* ------------------------------------------------------------------ paths *)
Definition PLUGVAR : text := bs "{{plug}}"%string.
Fixpoint calc_path (lpath plugname : text) : text :=                    (* first {{plug}} replaced *)
  match lpath with
  | [] => []
  | c :: r => if is_prefix PLUGVAR lpath then plugname ++ skipn 8 lpath else c :: calc_path r plugname
  end.

Definition or_else {A} (a b : option A) : option A := match a with Some _ => a | None => b end.
Definition get_path (st : state) (c : cmd) (pd : plug) : option text :=
  match c with
  | CStat => or_else (p_stat pd) (s_statpath st)
  | COn => or_else (p_on pd) (s_onpath st)
  | COff => or_else (p_off pd) (s_offpath st)
  end.

(* stat_cmd_plug *)
Definition stat_cmd_plug (st : state) (plugname : name) (out : bool) : state * option pmsg :=
  match lookup (s_tab st) plugname with
  | None => (emitf st (if out then TResult plugname else TDiag) f_stat_not_mapped [plugname], None)
  | Some pd =>
    match get_path st CStat pd with
    | None => (emitf st (if out then TResult plugname else TDiag) f_stat_path_not_set [plugname], None)
    | Some lp =>
      let st' := if s_verbose st then emitf st TDiag f_stat_debug [p_host pd; plugname; calc_path lp plugname] else st in
      (st', Some (mkMsg CStat (p_host pd) plugname (p_parent pd) out false))
    end
  end.

(* power_cmd_plug *)
Definition power_cmd_plug (st : state) (plugname : name) (c : cmd) : state * option pmsg :=
  match lookup (s_tab st) plugname with
  | None => (emitf st (TResult plugname) f_power_not_mapped [plugname], None)
  | Some pd =>
    match get_path st c pd with
    | None => (emitf st (TResult plugname) f_power_path_not_set [plugname; cmd_text c], None)
    | Some lp =>
      let st' := if s_verbose st then emitf st TDiag f_power_debug [cmd_text c; p_host pd; plugname; calc_path lp plugname] else st in
      (st', Some (mkMsg c (p_host pd) plugname (p_parent pd) true false))
    end
  end.

(* plugname_active: scans the live activecmds *)
Definition plugname_active (act : list pmsg) (plugname : name) (c : cmd) : bool :=
  existsb (fun m => text_eqb (m_plug m) plugname && (cmd_is_stat (m_cmd m) || (cmd_is_off c && cmd_is_off (m_cmd m)))) act.

Definition add_active (st : state) (m : pmsg) : state := set_active st (s_active st ++ [m]).
Definition add_wait (st : state) (m : pmsg) : state := set_wait st (s_wait st ++ [m]).
Definition add_delayed (st : state) (m : pmsg) : state := set_delayed st (s_delayed st ++ [m]).

(* ------------------------------------------------------------------ process_waiters *)
(* what a waiter is told when an ancestor is not on *)
Definition pw_answer (st : state) (w : pmsg) (anc : name) (s : status) : state :=
  if m_out w then
    if cmd_is_stat (m_cmd w) then emitf st (TResult (m_plug w)) f_pw_stat [m_plug w; status_text s]
    else if cmd_is_off (m_cmd w) && status_is_off s then emitf st (TResult (m_plug w)) f_pw_off_ok [m_plug w]
    else match lookup (s_tab st) anc with
         | Some pd => emitf st (TResult (m_plug w)) f_pw_dependency [m_plug w; cmd_text (m_cmd w); status_text s; p_host pd; p_name pd]
         | None => raise st (FMem site_ancestor_data)
         end
  else st.

Definition parent_is (w : pmsg) (anc : name) : bool :=
  match m_parent w with Some p => text_eqb p anc | None => false end.

(* first pass over waitcmds; returns the state (output, activecmds grown) and the waiters that stay *)
Fixpoint pw_first_go (st : state) (anc : name) (s : status) (ws : list pmsg) : state * list pmsg :=
  match ws with
  | [] => (st, [])
  | w :: r =>
    if is_desc (s_tab st) (m_plug w) anc then
      if status_is_on s then
        if parent_is w anc then pw_first_go (add_active st w) anc s r
        else let (st', k) := pw_first_go st anc s r in (st', w :: k)
      else pw_first_go (pw_answer st w anc s) anc s r
    else let (st', k) := pw_first_go st anc s r in (st', w :: k)
  end.
Definition pw_first (st : state) (anc : name) (s : status) : state :=
  let (st', k) := pw_first_go st anc s (s_wait st) in set_wait st' k.

(* second pass (ancestor on): every remaining descendant gets the next level queried, unless that is active.
   k = cursor position in waitcmds.  A query that cannot be created: unrepaired code skips the waiter
   (F20, lost), repaired code fails the descendants of that child and rescans from the head. *)
Fixpoint pw_second (fuel : nat) (st : state) (anc : name) (k : nat) : state :=
  match fuel with
  | O => raise st (FHang site_scan_fuel)
  | S f =>
    match nth_error (s_wait st) k with
    | None => st
    | Some w =>
      match child_of_ancestor (s_tab st) (m_plug w) anc with
      | WFound child =>
        if plugname_active (s_active st) child (m_cmd w) then pw_second f st anc (S k)
        else match stat_cmd_plug st child false with
             | (st', Some q) => pw_second f (add_active st' q) anc (S k)
             | (st', None) =>
               if fail_waiters_second_pass then pw_second f (pw_first st' child SErr) anc O
               else pw_second f st' anc (S k)
             end
      | _ => pw_second f st anc (S k)
      end
    end
  end.

Definition scan_fuel (st : state) : nat := S ((S (length (s_wait st))) * (S (length (s_wait st)))).

Definition process_waiters (st : state) (anc : name) (s : status) : state :=
  let st1 := pw_first st anc s in
  if status_is_on s then pw_second (scan_fuel st1) st1 anc O else st1.

(* ------------------------------------------------------------------ send_initial_parent_queries *)
Fixpoint remove_nth {A} (k : nat) (l : list A) : list A :=
  match l, k with
  | [], _ => []
  | _ :: r, O => r
  | x :: r, S k' => x :: remove_nth k' r
  end.

Fixpoint sipq (fuel : nat) (st : state) (k : nat) : state :=
  match fuel with
  | O => raise st (FHang site_scan_fuel)
  | S f =>
    match nth_error (s_wait st) k with
    | None => st
    | Some w =>
      match find_root (s_tab st) (m_plug w) with
      | WFound root =>
        if plugname_active (s_active st) root (m_cmd w) then sipq f st (S k)
        else match stat_cmd_plug st root false with
             | (st', Some q) => sipq f (add_active st' q) (S k)
             | (st', None) =>
               if fail_waiters_initial then sipq f (process_waiters st' root SErr) O
               else sipq f st' (S k)
             end
      | _ =>
        (* no root: a parent named in setplugs is not defined *)
        match f_dangling_parent with
        | Some fm => sipq f (set_wait (emitf st (if m_out w then TResult (m_plug w) else TDiag) fm [m_plug w]) (remove_nth k (s_wait st))) k
        | None => raise st (FAbort site_root_assert)
        end
      end
    end
  end.
Definition send_initial_parent_queries (st : state) : state := sipq (scan_fuel st) st O.

(* ------------------------------------------------------------------ phased_power_on_check *)
Fixpoint related_to_any (tab : list plug) (m : pmsg) (l : list pmsg) : bool :=
  match l with
  | [] => false
  | m2 :: r => is_desc tab (m_plug m) (m_plug m2) || is_desc tab (m_plug m2) (m_plug m) || related_to_any tab m r
  end.
Fixpoint any_related (tab : list plug) (l : list pmsg) : bool :=
  match l with
  | [] => false
  | m :: r => related_to_any tab m r || any_related tab r
  end.
Definition phased_power_on_check (st : state) (c : cmd) : state :=
  if cmd_is_on c then
    let all := s_active st ++ s_wait st in
    if any_related (s_tab st) all then
      let st1 := fold_left (fun s m => emitf s (TResult (m_plug m)) f_phased_active [m_plug m]) (s_active st) st in
      let st2 := fold_left (fun s m => emitf s (TResult (m_plug m)) f_phased_wait [m_plug m]) (s_wait st) st1 in
      set_wait (set_active st2 []) []
    else st
  else st.

(* ------------------------------------------------------------------ stat_cmd / power_cmd *)
Section WithHostlist.
(* hostlist_create on a command argument: None = NULL, Some names = the expansion in iteration order *)
Variable hlc : text -> option (list text).

Definition queue_target (st : state) (m : pmsg) : state :=
  match m_parent m with Some _ => add_wait st m | None => add_active st m end.

Definition target_one (c : cmd) (st : state) (plugname : name) : state :=
  if name_valid (s_tab st) plugname then
    match (if cmd_is_stat c then stat_cmd_plug st plugname true else power_cmd_plug st plugname c) with
    | (st', Some m) => queue_target st' m
    | (st', None) => st'
    end
  else emitf st (TUnknown plugname) (if cmd_is_stat c then f_stat_unknown_plug else f_power_unknown_plug) [plugname].

Definition power_cmd (st : state) (c : cmd) (arg : option text) : state :=
  let targets := match arg with
                 | Some a => hlc a
                 | None => Some (map p_name (s_tab st))
                 end in
  match targets with
  | None => emitf st TDiag (if cmd_is_stat c then f_stat_illegal_hosts else f_power_illegal_hosts) []
  | Some ts =>
    if cyclic (s_tab st) then raise st (FHang site_cycle) else
    let st1 := fold_left (target_one c) ts st in
    match s_wait st1 with
    | [] => st1
    | _ => send_initial_parent_queries (if cmd_is_stat c then st1 else phased_power_on_check st1 c)
    end
  end.

(* ------------------------------------------------------------------ management commands *)
Definition remove_initial_plugs (st : state) : state :=
  if s_initial st
  then set_initial (set_tab st (fold_left tab_remove (s_hosts st) (s_tab st))) false
  else st.

(* setup_plug: Some st' = 0, None-with-state = -1 *)
Definition setup_plug (st : state) (plugname idx : text) (parent : option text) : state * bool :=
  let '(v, erange, rest) := strtol10 idx in
  let hi := int_of_long v in
  if erange || (match rest with [] => false | _ => true end) || (hi <? 0)%Z
  then (emitf st TDiag f_setplugs_bad_index [idx], false)
  else match nth_error (s_hosts st) (Z.to_nat hi) with
       | None => (emitf st TDiag f_setplugs_index_range [dec_of_Z hi], false)
       | Some host =>
         let st1 := set_tab st (tab_add (s_tab st) (mkPlug plugname host parent None None None)) in
         (set_tstat st1 (ts_insert (s_tstat st1) plugname SOff), true)
       end.

Fixpoint setup_plugs_same (st : state) (ps : list text) (idx : text) (parent : option text) : state :=
  match ps with
  | [] => st
  | p :: r => let (st', ok) := setup_plug st p idx parent in if ok then setup_plugs_same st' r idx parent else st'
  end.
Fixpoint setup_plugs_pair (st : state) (ps is : list text) (parent : option text) : state :=
  match ps, is with
  | p :: r, i :: ri => let (st', ok) := setup_plug st p i parent in if ok then setup_plugs_pair st' r ri parent else st'
  | _, _ => st
  end.

Definition setplugs (st : state) (av : list text) : state :=
  match av with
  | a0 :: a1 :: rest =>
    match hlc a0 with
    | None => emitf st TDiag f_setplugs_illegal_plugs []
    | Some ps =>
      match hlc a1 with
      | None => emitf st TDiag f_setplugs_illegal_indices []
      | Some is =>
        let parent := match rest with p :: _ => Some p | [] => None end in
        let st1 := remove_initial_plugs st in
        if Nat.eqb (length ps) (length is) then setup_plugs_pair st1 ps is parent
        else if Nat.ltb 1 (length ps) && Nat.eqb (length is) 1
             then match is with i :: _ => setup_plugs_same st1 ps i parent | [] => st1 end
             else emitf st1 TDiag f_setplugs_count []
      end
    end
  | _ => emitf st TDiag f_setplugs_usage []
  end.

Fixpoint setpath_go (st : state) (ps : list text) (c : cmd) (path : text) : state :=
  match ps with
  | [] => st
  | p :: r =>
    if name_valid (s_tab st) p then
      let upd := fun q => match c with
                          | CStat => mkPlug (p_name q) (p_host q) (p_parent q) (Some path) (p_on q) (p_off q)
                          | COn => mkPlug (p_name q) (p_host q) (p_parent q) (p_stat q) (Some path) (p_off q)
                          | COff => mkPlug (p_name q) (p_host q) (p_parent q) (p_stat q) (p_on q) (Some path)
                          end in
      setpath_go (set_tab st (tab_update (s_tab st) p upd)) r c path
    else emitf st TDiag f_setpath_unknown_plug [p]
  end.
Definition setpath (st : state) (av : list text) : state :=
  match av with
  | a0 :: a1 :: a2 :: _ =>
    match cmd_of_word a1 with
    | None => emitf st TDiag f_setpath_bad_cmd []
    | Some c => match hlc a0 with
                | None => emitf st TDiag f_setpath_illegal_hosts []
                | Some ps => setpath_go st ps c a2
                end
    end
  | _ => emitf st TDiag f_setpath_usage []
  end.

Definition settimeout (st : state) (av : list text) : state :=
  match av with
  | a :: _ => let '(v, erange, rest) := strtol10 a in
              if erange || (match rest with [] => false | _ => true end) || (v <=? 0)%Z
              then emitf st TDiag f_settimeout_invalid [] else st
  | [] => st
  end.

Definition first_arg (av : list text) : option text := match av with a :: _ => Some a | [] => None end.

(* process_cmd; the bool is exitflag *)
Definition process_cmd (st : state) (av : list text) : state * bool :=
  match av with
  | [] => (st, false)
  | w :: args =>
    if text_eqb w (bs "help"%string) then (fold_left (fun s l => emit s TDiag l) f_help st, false)
    else if text_eqb w (bs "quit"%string) then (st, true)
    else if text_eqb w (bs "auth"%string) then ((match args with [] => emitf st TDiag f_auth_usage [] | _ => st end), false)
    else if text_eqb w (bs "setheader"%string) then (st, false)
    else if text_eqb w (bs "setstatpath"%string) then (set_statpath st (first_arg args), false)
    else if text_eqb w (bs "setonpath"%string) then (set_onpath st (first_arg args), false)
    else if text_eqb w (bs "setoffpath"%string) then (set_offpath st (first_arg args), false)
    else if text_eqb w (bs "setplugs"%string) then (setplugs st args, false)
    else if text_eqb w (bs "setpath"%string) then (setpath st args, false)
    else if text_eqb w (bs "settimeout"%string) then (settimeout st args, false)
    else match cmd_of_word w with
         | Some c => (power_cmd st c (first_arg args), false)
         | None => (emitf st TDiag f_unknown_command [], false)
         end
  end.

(* ------------------------------------------------------------------ the shell loop in test mode *)
(* send_status_poll; false = the poll could not be created *)
Definition send_status_poll (st : state) (m : pmsg) : state * bool :=
  match (match lookup (s_tab st) (m_plug m) with
         | Some pd => get_path st CStat pd
         | None => s_statpath st end) with
  | None => (emitf st (TResult (m_plug m)) f_poll_path_not_set [m_plug m], false)
  | Some _ => (add_delayed st (mkMsg (m_cmd m) (m_host m) (m_plug m) (m_parent m) true true), true)
  end.

Definition poll_or_fail (st : state) (m : pmsg) : state :=
  let (st1, ok) := send_status_poll st m in
  if ok then st1 else if fail_waiters_poll then process_waiters st1 (m_plug m) SErr else st1.

(* on_off_process in test mode: the operation completes at once; off takes the descendants along *)
Definition flip (st : state) (m : pmsg) : state :=
  let st1 := set_log st (s_log st ++ [EvOp (m_cmd m) (m_plug m)]) in
  if cmd_is_on (m_cmd m) then set_tstat st1 (ts_update (s_tstat st1) (m_plug m) SOn)
  else
    let ts1 := ts_update (s_tstat st1) (m_plug m) SOff in
    set_tstat st1 (map (fun e => if is_desc (s_tab st1) (fst e) (m_plug m) then (fst e, SOff) else e) ts1).

Definition on_off_process (st : state) (m : pmsg) : state :=
  if m_poll m then
    match ts_lookup (s_tstat st) (m_plug m) with
    | None => raise st (FExit site_test_status)
    | Some s =>
      if status_is_cmd s (m_cmd m)
      then process_waiters (emitf st (TResult (m_plug m)) f_onoff_ok [m_plug m]) (m_plug m) s
      else poll_or_fail st m                       (* not yet: poll again (the 60 s time-out is not modelled) *)
    end
  else flip (poll_or_fail st m) m.

Definition stat_process (st : state) (m : pmsg) : state :=
  match ts_lookup (s_tstat st) (m_plug m) with
  | None => raise st (FExit site_test_status)
  | Some s =>
    let st1 := if m_out m then emitf st (TResult (m_plug m)) f_stat_result [m_plug m; status_text s] else st in
    process_waiters st1 (m_plug m) s
  end.

Definition process_msg (st : state) (m : pmsg) : state :=
  if mem (m_host m) (s_fail st) then
    process_waiters (if m_out m then emitf st (TResult (m_plug m)) f_shell_error [m_plug m] else st) (m_plug m) SErr
  else if cmd_is_stat (m_cmd m) then stat_process st m
  else on_off_process st m.

(* one test-mode pass: a copy of activecmds is processed in order, then exactly those are deleted *)
Definition pass (st : state) : state :=
  let cpy := s_active st in
  let st' := fold_left process_msg cpy st in
  set_active st' (skipn (length cpy) (s_active st')).

(* delayed polls that are due: a prefix of the list, appended to activecmds *)
Definition release (r : nat) (st : state) : state :=
  set_delayed (set_active st (s_active st ++ firstn r (s_delayed st))) (skipn r (s_delayed st)).

Definition idle (st : state) : bool :=
  match s_active st, s_delayed st, s_wait st with [], [], [] => true | _, _, _ => false end.

Definition outcome_of_fault {A} (f : fault) : outcome A :=
  match f with FHang s => Hang s | FAbort s => Abort s | FExit s => Exit 1%Z s | FMem s => MemErr s end.

(* shell-loop iterations until the prompt; sched = number of due delayed polls per iteration
   (exhausted: all of them) *)
Fixpoint drain (fuel : nat) (sched : list nat) (st : state) : outcome state :=
  match s_fault st with
  | Some f => outcome_of_fault f
  | None =>
    if idle st then Ok st
    else match fuel with
         | O => Hang site_fuel
         | S f =>
           match s_active st, s_delayed st with
           | [], [] => Hang site_lost_waiter
           | _, _ =>
             let r := match sched with r :: _ => r | [] => length (s_delayed st) end in
             let r' := match s_active st with [] => Nat.max r 1 | _ => r end in
             drain f (tl sched) (pass (release r' st))
           end
         end
  end.

Definition fuel_for (st : state) : nat :=
  S ((length (s_active st) + length (s_wait st) + length (s_delayed st)) * (length (s_tab st) + 3)).

(* one line typed at the prompt.  Ok (state at the next prompt, exitflag) *)
Definition run_line (st : state) (line : text) (sched : list nat) : outcome (state * bool) :=
  let st0 := set_log (set_out st []) [] in
  let (st1, quit) := process_cmd st0 (argv line) in
  if quit then Ok (st1, true)
  else match drain (fuel_for st1) sched st1 with
       | Ok st2 => Ok (st2, false)
       | Exit c s => Exit c s | Abort s => Abort s | MemErr s => MemErr s | Hang s => Hang s
       end.

End WithHostlist.

(* init_redfishpower + setup_hosts + the test-mode part of main() *)
Definition init (hosts fail : list text) (verbose : bool) : state :=
  let tab := fold_left (fun t h => tab_add t (mkPlug h h None None None None)) hosts [] in
  mkState hosts fail verbose tab true (map (fun p => (p_name p, SOff)) tab) None None None [] [] [] [] [] None.
