(* Executable model of src/liblsd/hostlist.c (as built by powerman: bracketed parser only, no pthreads,
   assert() compiled in).  One Gallina function per C function, mutation made explicit (every C function that
   may rewrite a `width` field through _width_equiv returns the rewritten ranges).  NO proofs here.
   unsigned long = N with the 2^64 wrap written out, int = Z through [to_int].                              *)
From Coq Require Import List NArith ZArith Bool.
From PM Require Import Base.Bytes Base.Outcome Gen.GenHL.
Import ListNotations.
Local Open Scope N_scope.

(* ------------------------------------------------------------------ sites of non-Ok outcomes *)
Definition site_cur_tok : nat := 1491.          (* F3: strncpy leaves cur_tok unterminated, strlen over-reads *)
Definition site_ranges_oob : nat := 1429.       (* ranges[count++] beyond the array *)
Definition site_host_buf : nat := 1457.         (* snprintf(host, limit) with limit > sizeof host *)
Definition site_suffix_hang : nat := 1454.      (* for (j = lo; j <= hi; j++) with hi = ULONG_MAX and no break after j == hi (F33) *)
Definition site_hrstr : nat := 1818.            (* _hostrange_string: snprintf(buf+len, 79-len) with len >= 80 *)
Definition site_delete_nth_assert : nat := 1851.
Definition site_intersect_assert : nat := 856.       (* assert(hostrange_cmp(h1, h2) <= 0); F36: now `return NULL` *)
Definition site_coalesce_uaf : nat := 2001.     (* hostlist_delete_range(hl,i) frees hnext, which is then read *)
Definition site_coalesce_hang : nat := 2003.
Definition site_iter_null : nat := 2258.        (* i->hr is NULL while idx < nranges *)
Definition site_next_suffix : nat := 2308.
Definition site_parse_fuel : nat := 1490.       (* unreachable: fuel of the token loop *)

(* ------------------------------------------------------------------ machine arithmetic *)
Definition W64 : N := 18446744073709551616.
Definition ULONG_MAX : N := 18446744073709551615.
Definition add64 (a b : N) : N := (a + b) mod W64.
Definition sub64 (a b : N) : N := (a + W64 - b) mod W64.          (* a, b < 2^64 *)
Definition wrap64 (z : Z) : N := Z.to_N (z mod Z.of_N W64).      (* int -> unsigned long *)
Definition to_int (z : Z) : Z := ((z + 2147483648) mod 4294967296 - 2147483648)%Z.
Definition int_of_ulong (n : N) : Z := to_int (Z.of_N n).
Definition b2z (b : bool) : Z := if b then 1%Z else 0%Z.

(* ------------------------------------------------------------------ printf("%0*lu") *)
Fixpoint ndig_fuel (f : nat) (n : N) : nat :=
  match f with
  | O => 1%nat
  | S f' => if n <? 10 then 1%nat else S (ndig_fuel f' (n / 10))
  end.
Definition FUEL : nat := 20.                       (* 2^64 < 10^20 *)
Definition ndigits (n : N) : nat := ndig_fuel FUEL n.
(* _zero_padded(num, width) = width > n ? width - n : 0 *)
Definition zp (n : N) (w : nat) : nat := (w - ndigits n)%nat.
Fixpoint dec_fuel (f : nat) (n : N) : text :=
  match f with
  | O => [48 + n mod 10]
  | S f' => if n <? 10 then [48 + n] else dec_fuel f' (n / 10) ++ [48 + n mod 10]
  end.
Definition dec (n : N) : text := dec_fuel FUEL n.
Definition pad (w : nat) (n : N) : text := repeat 48 (zp n w) ++ dec n.

(* _width_equiv(n, &wn, m, &wm): None = return 0 (nothing written); Some (wn', wm') = return 1 *)
Definition width_equiv (n : N) (wn : nat) (m : N) (wm : nat) : option (nat * nat) :=
  let npad := zp n wn in let nmpad := zp n wm in
  let mpad := zp m wm in let mnpad := zp m wn in
  if negb (Nat.eqb npad nmpad) && negb (Nat.eqb mpad mnpad) then None
  else if negb (Nat.eqb npad nmpad) then
         (if Nat.eqb mpad mnpad then Some (wn, wn) else None)
       else (if Nat.eqb npad nmpad then Some (wm, wm) else None).

(* ------------------------------------------------------------------ strings *)
Fixpoint span (p : byte -> bool) (s : text) : text * text :=
  match s with
  | b :: s' => if p b then let (a, r) := span p s' in (b :: a, r) else ([], s)
  | [] => ([], [])
  end.

(* strchr: text before the first occurrence of c, text after it *)
Fixpoint split_first (c : byte) (s : text) : option (text * text) :=
  match s with
  | [] => None
  | b :: s' => if b =? c then Some ([], s')
               else match split_first c s' with Some (a, r) => Some (b :: a, r) | None => None end
  end.

Fixpoint text_cmp (a b : text) : comparison :=       (* sign of strcmp *)
  match a, b with
  | [], [] => Eq
  | [], _ :: _ => Lt
  | _ :: _, [] => Gt
  | x :: a', y :: b' => match N.compare x y with Eq => text_cmp a' b' | c => c end
  end.

Definition digit_val (ds : text) : N := fold_left (fun a d => 10 * a + (d - 48)) ds 0.

(* optional sign of strtoul: (negative, bytes consumed, rest) *)
Definition strip_sign (r1 : text) : bool * nat * text :=
  match r1 with
  | 43 :: r => (false, 1%nat, r)
  | 45 :: r => (true, 1%nat, r)
  | _ => (false, 0%nat, r1)
  end.

(* strtoul(s, &q, 10): (value, number of bytes consumed); 0 consumed = no conversion (q == s) *)
Definition strtoul (s : text) : N * nat :=
  let (ws, r1) := span is_space s in
  let '(neg, sl, r2) := strip_sign r1 in
  let (ds, _) := span is_digit r2 in
  match ds with
  | [] => (0, 0%nat)
  | _ => let v := digit_val ds in
         let v' := if ULONG_MAX <? v then ULONG_MAX else if neg then sub64 0 v else v in
         (v', (length ws + sl + length ds)%nat)
  end.

(* ------------------------------------------------------------------ hostname_t *)
Record hostname := { hn_name : text; hn_prefix : text; hn_num : N; hn_suffix : option text }.

(* hostname_create_with_suffix(hostname, idx) with k = idx + 1 = length of the prefix *)
Definition hostname_create_at (name : text) (k : nat) : hostname :=
  if Nat.eqb k (length name) then
    {| hn_name := name; hn_prefix := name; hn_num := 0; hn_suffix := None |}
  else
    let suf := skipn k name in
    let (v, used) := strtoul suf in
    if Nat.eqb used (length suf) && (v <=? GenHL.MAX_HOST_SUFFIX) then
      {| hn_name := name; hn_prefix := firstn k name; hn_num := v; hn_suffix := Some suf |}
    else
      {| hn_name := name; hn_prefix := name; hn_num := v; hn_suffix := None |}.

(* host_prefix_end + 1 *)
Definition prefix_len (name : text) : nat := (length name - length (fst (span is_digit (rev name))))%nat.
Definition hostname_create (name : text) : hostname := hostname_create_at name (prefix_len name).

(* ------------------------------------------------------------------ hostrange_t *)
Record hrange := { hr_prefix : text; hr_lo : N; hr_hi : N; hr_width : nat; hr_single : bool }.
Definition hostlist := list hrange.

Definition with_width (r : hrange) (w : nat) : hrange :=
  {| hr_prefix := hr_prefix r; hr_lo := hr_lo r; hr_hi := hr_hi r; hr_width := w; hr_single := hr_single r |}.
Definition with_hi (r : hrange) (hi : N) : hrange :=
  {| hr_prefix := hr_prefix r; hr_lo := hr_lo r; hr_hi := hi; hr_width := hr_width r; hr_single := hr_single r |}.
Definition with_lo (r : hrange) (lo : N) : hrange :=
  {| hr_prefix := hr_prefix r; hr_lo := lo; hr_hi := hr_hi r; hr_width := hr_width r; hr_single := hr_single r |}.
Definition mk_single (name : text) : hrange :=
  {| hr_prefix := name; hr_lo := 0; hr_hi := 0; hr_width := 0; hr_single := true |}.
Definition mk_range (pfx : text) (lo hi : N) (w : nat) : hrange :=
  {| hr_prefix := pfx; hr_lo := lo; hr_hi := hi; hr_width := w; hr_single := false |}.

Definition hr_count (r : hrange) : N := if hr_single r then 1 else add64 (sub64 (hr_hi r) (hr_lo r)) 1.
Definition hr_empty (r : hrange) : bool := (hr_hi r <? hr_lo r) || (hr_hi r =? ULONG_MAX).

Definition prefix_cmp (h1 h2 : hrange) : Z :=
  match text_cmp (hr_prefix h1) (hr_prefix h2) with
  | Eq => (b2z (hr_single h2) - b2z (hr_single h1))%Z
  | Lt => (-1)%Z
  | Gt => 1%Z
  end.

Definition within_range (h1 h2 : hrange) : bool :=
  (prefix_cmp h1 h2 =? 0)%Z && negb (hr_single h1 || hr_single h2).

Definition width_combine (h0 h1 : hrange) : option (hrange * hrange) :=
  match width_equiv (hr_lo h0) (hr_width h0) (hr_lo h1) (hr_width h1) with
  | Some (a, b) => Some (with_width h0 a, with_width h1 b)
  | None => None
  end.

(* hostrange_cmp: (result, h1 after, h2 after).  strcmp is modelled by its sign. *)
Definition hostrange_cmp (h1 h2 : hrange) : Z * hrange * hrange :=
  let pc := prefix_cmp h1 h2 in
  if (pc =? 0)%Z then
    match width_combine h1 h2 with
    | Some (h1', h2') => (int_of_ulong (sub64 (hr_lo h1') (hr_lo h2')), h1', h2')
    | None => (to_int (Z.of_nat (hr_width h1) - Z.of_nat (hr_width h2)), h1, h2)
    end
  else (pc, h1, h2).

(* the test shared by hostlist_push_range and hostlist_collapse:
   prefix_cmp(tail, hr) == 0 && tail->hi == hr->lo - 1 && hostrange_width_combine(tail, hr)  ->  tail->hi = hr->hi *)
Definition try_join (tail r : hrange) : option (hrange * hrange) :=
  if (prefix_cmp tail r =? 0)%Z && (hr_hi tail =? sub64 (hr_lo r) 1) then
    match width_combine tail r with
    | Some (t', r') => Some (with_hi t' (hr_hi r'), r')
    | None => None
    end
  else None.

(* hostlist_push_range: (list after, hr after, true iff a new array slot was used) *)
Fixpoint push_range (h : hostlist) (r : hrange) : hostlist * hrange * bool :=
  match h with
  | [] => ([r], r, true)
  | [t] => match try_join t r with
           | Some (t', r') => ([t'], r', false)
           | None => ([t; r], r, true)
           end
  | x :: h' => let '(h'', r', a) := push_range h' r in (x :: h'', r', a)
  end.

Definition range_of_name (name : text) : hrange :=
  let hn := hostname_create name in
  match hn_suffix hn with
  | Some suf => mk_range (hn_prefix hn) (hn_num hn) (hn_num hn) (length suf)
  | None => mk_single name
  end.

Definition push_host (h : hostlist) (name : text) : hostlist :=
  fst (fst (push_range h (range_of_name name))).

(* hostlist_push_list(h1, h2): (h1 after, h2 after (widths may be rewritten)) *)
Fixpoint push_list_mut (h1 h2 : hostlist) : hostlist * hostlist :=
  match h2 with
  | [] => (h1, [])
  | r :: rest => let '(h1', r', _) := push_range h1 r in
                 let (h1'', rest') := push_list_mut h1' rest in (h1'', r' :: rest')
  end.
Definition push_list (h1 h2 : hostlist) : hostlist := fst (push_list_mut h1 h2).

Definition copy (h : hostlist) : hostlist := h.

Definition count (h : hostlist) : Z :=
  fold_left (fun c r => to_int (c + Z.of_N (hr_count r))%Z) h 0%Z.

(* ------------------------------------------------------------------ find *)
(* hostrange_hn_within: (offset or -1, hr after) *)
Fixpoint hn_within (fuel : nat) (r : hrange) (hn : hostname) : Z * hrange :=
  if hr_single r then ((if text_eqb (hn_name hn) (hr_prefix r) then 0 else -1)%Z, r)
  else match hn_suffix hn with
  | None => ((-1)%Z, r)
  | Some suf =>
    let len_hn := length (hn_prefix hn) in
    let len_hr := length (hr_prefix r) in
    if negb (text_eqb (firstn len_hn (hr_prefix r)) (hn_prefix hn)) then ((-1)%Z, r)
    else
      if (len_hn <? len_hr)%nat && (1 <? length suf)%nat
         && is_digit (List.nth (len_hr - 1) (hr_prefix r) 0)
         && (List.nth len_hn (hr_prefix r) 0 =? List.nth 0 suf 0)
      then match fuel with
           | O => ((-1)%Z, r)
           | S f => hn_within f r (hostname_create_at (hn_name hn) (S len_hn))
           end
      else if Nat.eqb len_hr len_hn && text_eqb (hn_prefix hn) (hr_prefix r)
              && (hn_num hn <=? hr_hi r) && (hr_lo r <=? hn_num hn)
      then match width_equiv (hr_lo r) (hr_width r) (hn_num hn) (length suf) with
           | None => ((-1)%Z, r)
           | Some (w', _) => (int_of_ulong (sub64 (hn_num hn) (hr_lo r)), with_width r w')
           end
      else ((-1)%Z, r)
  end.

Fixpoint find_loop (h : hostlist) (hn : hostname) (cnt : Z) : Z * hostlist :=
  match h with
  | [] => ((-1)%Z, [])
  | r :: rest =>
    let (off, r') := hn_within (S (length (hr_prefix r))) r hn in
    if (0 <=? off)%Z then (to_int (cnt + off), r' :: rest)
    else let (res, rest') := find_loop rest hn (to_int (cnt + Z.of_N (hr_count r'))) in (res, r' :: rest')
  end.

(* hostlist_find: (index or -1, list after) *)
Definition find_mut (h : hostlist) (name : text) : Z * hostlist := find_loop h (hostname_create name) 0%Z.
Definition find (h : hostlist) (name : text) : Z := fst (find_mut h name).

(* ------------------------------------------------------------------ nth *)
Definition hostrange_string (r : hrange) (depth : Z) : outcome text :=
  let lim := N.to_nat GenHL.HRSTR_LIMIT in
  let len := length (hr_prefix r) in
  if GenHL.HRSTR_BUF_SIZE <? GenHL.HRSTR_LIMIT then MemErr site_hrstr
  else if hr_single r then Ok (firstn (lim - 1) (hr_prefix r))
  else if (lim <? len)%nat then MemErr site_hrstr
  else if Nat.eqb len lim then Ok (firstn (lim - 1) (hr_prefix r))
  else Ok (hr_prefix r ++ firstn (lim - len - 1) (pad (hr_width r) (add64 (hr_lo r) (wrap64 depth)))).

Fixpoint nth_loop (h : hostlist) (n cnt : Z) : outcome (option text) :=
  match h with
  | [] => Ok None
  | r :: rest =>
    let nir := int_of_ulong (hr_count r) in
    if (n <=? nir - 1 + cnt)%Z then bind (hostrange_string r (n - cnt)) (fun s => Ok (Some s))
    else nth_loop rest n (to_int (cnt + nir))
  end.
Definition nth (h : hostlist) (n : Z) : outcome (option text) := nth_loop h n 0%Z.

(* ------------------------------------------------------------------ delete *)
Inductive shift_ev := EvNone | EvDel (n : Z) | EvIns (n : Z).

Definition site_delete_host_assert : nat := 651.   (* hostrange_delete_host: assert(n >= hr->lo && n <= hr->hi) *)

(* the non-singlehost branch of hostlist_delete_nth: hostrange_delete_host + insert / delete of array slots *)
Definition delete_in_range (r : hrange) (num : N) (rest : hostlist) (i : Z) : outcome (hostlist * shift_ev) :=
  if (GenHL.NDEBUG =? 0) && ((num <? hr_lo r) || (hr_hi r <? num)) then Abort site_delete_host_assert
  else if num =? hr_lo r then
         let r' := with_lo r (add64 (hr_lo r) 1) in
         if hr_empty r' then Ok (rest, EvDel i) else Ok (r' :: rest, EvNone)
  else if num =? hr_hi r then
         let r' := with_hi r (sub64 (hr_hi r) 1) in
         if hr_empty r' then Ok (rest, EvDel i) else Ok (r' :: rest, EvNone)
  else Ok (with_hi r (sub64 num 1) :: with_lo r (add64 num 1) :: rest, EvIns (i + 1)).

Fixpoint delete_loop (h : hostlist) (n cnt : Z) (i : Z) : outcome (hostlist * shift_ev) :=
  match h with
  | [] => Ok ([], EvNone)
  | r :: rest =>
    let nir := int_of_ulong (hr_count r) in
    if (n <=? nir - 1 + cnt)%Z then
      if hr_single r then Ok (rest, EvDel i)
      else delete_in_range r (add64 (hr_lo r) (wrap64 (n - cnt))) rest i
    else bind (delete_loop rest n (to_int (cnt + nir)) (i + 1)) (fun p => Ok (r :: fst p, snd p))
  end.

(* hostlist_delete_nth; [bound] is hl->nhosts of the assert *)
Definition delete_nth_ev (bound : Z) (h : hostlist) (n : Z) : outcome (hostlist * shift_ev) :=
  if (GenHL.NDEBUG =? 0) && ((n <? 0)%Z || (bound <? n)%Z) then Abort site_delete_nth_assert
  else delete_loop h n 0%Z 0%Z.
Definition delete_nth (h : hostlist) (n : Z) : outcome hostlist :=
  bind (delete_nth_ev (count h) h n) (fun p => Ok (fst p)).

(* hostlist_delete_host: (1 or 0, list after) *)
Definition delete_host_ev (bound : Z) (h : hostlist) (name : text) : outcome (Z * hostlist * shift_ev) :=
  let (n, h1) := find_mut h name in
  if (0 <=? n)%Z then bind (delete_nth_ev bound h1 n) (fun p => Ok (1%Z, fst p, snd p))
  else Ok (0%Z, h1, EvNone).
Definition delete_host (h : hostlist) (name : text) : outcome (Z * hostlist) :=
  bind (delete_host_ev (count h) h name) (fun p => Ok (fst p)).

(* ------------------------------------------------------------------ sort *)
(* qsort is modelled as the stable insertion sort
     for (i = 1; i < n; i++) for (j = i; j > 0 && cmp(&a[j-1], &a[j]) > 0; j--) swap(a[j-1], a[j]);
   (the comparator rewrites widths, so the comparison sequence is part of the model; the harness
   substitutes exactly this loop for libc's qsort and checks the libc one separately) *)
Fixpoint ins_rev (x : hrange) (revp : list hrange) : list hrange :=
  match revp with
  | [] => [x]
  | y :: rest => let '(c, y', x') := hostrange_cmp y x in
                 if (0 <? c)%Z then y' :: ins_rev x' rest else x' :: y' :: rest
  end.
Definition isort (l : hostlist) : hostlist := rev (fold_left (fun acc x => ins_rev x acc) l []).

Fixpoint collapse (h : hostlist) : hostlist :=
  match h with
  | [] => []
  | x :: rest => match collapse rest with
                 | [] => [x]
                 | y :: rest' => match try_join x y with
                                 | Some (x', _) => x' :: rest'
                                 | None => x :: y :: rest'
                                 end
                 end
  end.

(* hostrange_intersect: (new or NULL, h1 after, h2 after) *)
Definition intersect (h1 h2 : hrange) : outcome (option hrange * hrange * hrange) :=
  if hr_single h1 || hr_single h2 then Ok (None, h1, h2)
  else
    let '(c, h1a, h2a) := if (GenHL.INTERSECT_ORDER_CHECK =? 1) || (GenHL.NDEBUG =? 0) then hostrange_cmp h1 h2 else (0%Z, h1, h2) in
    if (0 <? c)%Z then (if GenHL.INTERSECT_ORDER_CHECK =? 1 then Ok (None, h1a, h2a) else Abort site_intersect_assert)
    else if (prefix_cmp h1a h2a =? 0)%Z && (hr_lo h2a <? hr_hi h1a) then
           match width_combine h1a h2a with
           | Some (h1b, h2b) =>
             let nw := with_hi (with_lo h1b (hr_lo h2b)) (if hr_hi h2b <? hr_hi h1b then hr_hi h2b else hr_hi h1b) in
             Ok (Some nw, h1b, h2b)
           | None => Ok (None, h1a, h2a)
           end
         else Ok (None, h1a, h2a).

Fixpoint nseq (lo : N) (n : nat) : list N :=
  match n with O => [] | S n' => lo :: nseq (lo + 1) n' end.

(* hostlist_coalesce main loop.  One trip of `for (i = nranges - 1; i > 0; i--)`: state = (array, i);
   inl = next state, inr = loop finished *)
Definition coalesce_step (st : hostlist * nat) : outcome (hostlist * nat + hostlist) :=
  let (h, i) := st in
  match i with
  | O => Ok (inr h)
  | S i1 =>
    match nth_error h i1, nth_error h i with
    | Some hprev, Some hnext =>
      bind (intersect hprev hnext) (fun t =>
        let '(nw, hp, hx) := t in
        match nw with
        | None => Ok (inl (firstn i1 h ++ hp :: hx :: skipn (S i) h, i1))
        | Some nw =>
          let hx1 := if hr_hi nw <? hr_hi hp then with_hi hx (hr_hi hp) else hx in
          let hp1 := with_hi hp (hr_lo nw) in
          let hx2 := with_lo hx1 (hr_hi nw) in
          if hr_empty hp1 then MemErr site_coalesce_uaf
          else if (hr_hi nw =? ULONG_MAX) || (1099511627776 <=? sub64 (hr_hi nw) (hr_lo nw)) then Hang site_coalesce_hang
          else
            let ks := nseq (hr_lo nw) (N.to_nat (hr_hi nw + 1 - hr_lo nw)) in
            let one k := with_hi (with_lo nw k) k in
            let ins := flat_map (fun k => (if hr_hi hp1 <? k then [one k] else []) ++
                                          (if k <? hr_lo hx2 then [one k] else [])) ks in
            let h' := firstn i1 h ++ hp1 :: ins ++ hx2 :: skipn (S i) h in
            Ok (inl (h', (length h' - 1)%nat))
        end)
    | _, _ => Ok (inr h)           (* unreachable: i < nranges *)
    end
  end.

(* up to 2^k trips *)
Fixpoint coalesce_pow (k : nat) (st : hostlist * nat) : outcome (hostlist * nat + hostlist) :=
  match k with
  | O => coalesce_step st
  | S k' => bind (coalesce_pow k' st) (fun r =>
              match r with
              | inl st' => coalesce_pow k' st'
              | inr h => Ok (inr h)
              end)
  end.

Definition COALESCE_LOG_FUEL : nat := 40.        (* DESIGN 4.1: more than 2^40 trips = Hang *)

Definition coalesce (h : hostlist) : outcome hostlist :=
  bind (coalesce_pow COALESCE_LOG_FUEL (h, (length h - 1)%nat)) (fun r =>
    match r with
    | inl _ => Hang site_coalesce_hang
    | inr h' => Ok (collapse h')
    end).

Definition sort (h : hostlist) : outcome hostlist :=
  if (length h <=? 1)%nat then Ok h else coalesce (isort h).

(* ------------------------------------------------------------------ ranged string *)
Definition numstr (r : hrange) : text :=
  if hr_single r then []
  else pad (hr_width r) (hr_lo r) ++ (if hr_lo r <? hr_hi r then 45 :: pad (hr_width r) (hr_hi r) else []).

Fixpoint take_group (prev : hrange) (rest : hostlist) : hostlist * hostlist :=
  match rest with
  | r :: rest' => if within_range r prev then let (g, o) := take_group r rest' in (r :: g, o) else ([], rest)
  | [] => ([], [])
  end.

Definition bracket_needed (h1 : hrange) (next : option hrange) : bool :=
  (1 <? hr_count h1) || match next with Some h2 => within_range h1 h2 | None => false end.

Fixpoint join_commas (l : list text) : text :=
  match l with
  | [] => []
  | [x] => x
  | x :: l' => x ++ 44 :: join_commas l'
  end.

(* _get_bracketed_list with an unbounded buffer *)
Definition bracketed (r : hrange) (g : hostlist) (next : option hrange) : text :=
  if bracket_needed r next then hr_prefix r ++ 91 :: join_commas (map numstr (r :: g)) ++ [93]
  else hr_prefix r ++ numstr r.

Fixpoint ranged_acc (fuel : nat) (h : hostlist) (acc : text) : text :=
  match fuel, h with
  | _, [] => acc
  | O, _ => acc
  | S f, r :: rest =>
    let (g, o) := take_group r rest in
    let acc1 := acc ++ bracketed r g (hd_error rest) in
    match o with
    | [] => acc1
    | _ => ranged_acc f o (if (0 <? length acc1)%nat then acc1 ++ [44] else acc1)
    end
  end.

(* hostlist_ranged_string with a buffer that is large enough (what _xhostlist_ranged_string returns) *)
Definition ranged_string (h : hostlist) : text := ranged_acc (length h) h [].

(* hostlist_ranged_string(hl, n, buf) return value: -1 iff the text does not fit with its terminator *)
Definition ranged_string_n (h : hostlist) (n : N) : Z * text :=
  let s := ranged_string h in
  if N.of_nat (length s) <? n then (Z.of_nat (length s), s) else ((-1)%Z, firstn (N.to_nat n - 1) s).

(* ------------------------------------------------------------------ hostlist_create *)
Definition is_sep (b : byte) : bool := existsb (N.eqb b) GenHL.separators.

Fixpoint drop_seps (s : text) : text :=
  match s with
  | b :: s' => if is_sep b then drop_seps s' else s
  | [] => []
  end.

Fixpoint scan_tok (level : Z) (s : text) : text * text :=
  match s with
  | [] => ([], [])
  | b :: s' => if (level =? 0)%Z && is_sep b then ([], s)
               else let level' := if b =? 91 then (level + 1)%Z else if b =? 93 then (level - 1)%Z else level in
                    let (t, r) := scan_tok level' s' in (b :: t, r)
  end.

Definition next_tok (s : text) : option (text * text) :=
  match drop_seps s with
  | [] => None
  | s1 => let (t, r) := scan_tok 0%Z s1 in Some (t, drop_seps r)
  end.

Record prange := { pr_lo : N; pr_hi : N; pr_width : nat }.

(* _parse_single_range: None = return 0 *)
Definition parse_single_range (s : text) : option prange :=
  let (str, p) := match split_first 45 s with
                  | Some (a, b) => (a, Some b)
                  | None => (s, None)
                  end in
  if match p with Some (45 :: _) => true | _ => false end then None
  else
    let (lo, used) := strtoul str in
    if Nat.eqb used 0 then None
    else
      let (hi, endok) := match p with
                         | Some (c :: pr) => let (v, u) := strtoul (c :: pr) in
                                             (v, negb (Nat.eqb u 0) && Nat.eqb u (length (c :: pr)))
                         | _ => (lo, Nat.eqb used (length str))
                         end in
      if negb endok then None
      else if hi <? lo then None
      else if GenHL.MAX_RANGE <=? sub64 hi lo then None
      else Some {| pr_lo := lo; pr_hi := hi; pr_width := length str |}.

(* _parse_range_list: Ok None = return -1 *)
Fixpoint parse_range_list (fuel : nat) (s : text) (cnt : N) : outcome (option (list prange)) :=
  match fuel with
  | O => Ok None
  | S f =>
    if cnt =? GenHL.RANGES_LEN_ARG then Ok None
    else if GenHL.RANGES_ARRAY <=? cnt then MemErr site_ranges_oob
    else
      let (cur, rest) := match split_first 44 s with
                         | Some (a, b) => (a, Some b)
                         | None => (s, None)
                         end in
      match parse_single_range cur with
      | None => Ok None
      | Some r => match rest with
                  | None => Ok (Some [r])
                  | Some s' => bind (parse_range_list f s' (cnt + 1))
                                    (fun o => Ok (match o with Some l => Some (r :: l) | None => None end))
                  end
      end
  end.

Definition push_hr (h : hostlist) (pfx : text) (r : prange) : hostlist :=
  fst (fst (push_range h (mk_range pfx (pr_lo r) (pr_hi r) (pr_width r)))).

Definition push_range_list (h : hostlist) (pfx : text) (rs : list prange) : hostlist :=
  fold_left (fun h r => push_hr h pfx r) rs h.

Definition suffix_host (pfx sfx : text) (w : nat) (j : N) : text :=
  firstn (N.to_nat GenHL.HOST_BUF_LIMIT - 1) (pfx ++ pad w j ++ sfx).

Fixpoint push_range_list_with_suffix (h : hostlist) (pfx sfx : text) (rs : list prange) : outcome hostlist :=
  match rs with
  | [] => Ok h
  | r :: rs' =>
    if GenHL.HOST_BUF_SIZE <? GenHL.HOST_BUF_LIMIT then MemErr site_host_buf
    else if (GenHL.SUFFIX_LOOP_BREAKS =? 0) && (pr_hi r =? ULONG_MAX) then Hang site_suffix_hang
    else
      let ks := nseq (pr_lo r) (N.to_nat (pr_hi r + 1 - pr_lo r)) in
      let h' := fold_left (fun h j => fst (fst (push_range h (mk_single (suffix_host pfx sfx (pr_width r) j))))) ks h in
      push_range_list_with_suffix h' pfx sfx rs'
  end.

(* one token of _hostlist_create_bracketed: Ok None = goto error *)
Definition create_token (h : hostlist) (tok : text) : outcome (option hostlist) :=
  match split_first 91 tok with
  | Some (pfx, p) =>
    match split_first 93 p with
    | Some (lst, q) =>
      bind (parse_range_list (S (length lst)) lst 0) (fun o =>
        match o with
        | None => Ok None
        | Some rs => match q with
                     | [] => Ok (Some (push_range_list h pfx rs))
                     | _ => bind (push_range_list_with_suffix h pfx q rs) (fun h' => Ok (Some h'))
                     end
        end)
    | None => Ok None
    end
  | None =>
    match split_first 93 tok with
    | Some _ => Ok None
    | None =>
      if (N.of_nat (length tok) <? GenHL.CUR_TOK_COPY) then Ok (Some (push_host h tok))
      else if (GenHL.CUR_TOK_TERMINATED =? 1) && (GenHL.CUR_TOK_COPY <? GenHL.CUR_TOK_SIZE)
           then Ok (Some (push_host h (firstn (N.to_nat GenHL.CUR_TOK_COPY) tok)))
           else MemErr site_cur_tok
    end
  end.

Fixpoint create_loop (fuel : nat) (h : hostlist) (s : text) : outcome (option hostlist) :=
  match fuel with
  | O => Hang site_parse_fuel
  | S f => match next_tok s with
           | None => Ok (Some h)
           | Some (tok, rest) =>
             bind (create_token h tok) (fun o =>
               match o with
               | None => Ok None
               | Some h' => create_loop f h' rest
               end)
           end
  end.

(* hostlist_create(str), str != NULL.  Ok None = NULL *)
Definition create (s : text) : outcome (option hostlist) := create_loop (S (length s)) [] s.

(* hostlist_push(hl, str) *)
Definition push (h : hostlist) (s : text) : outcome (option hostlist) :=
  bind (create s) (fun o => Ok (match o with Some n => Some (push_list h n) | None => None end)).

(* ------------------------------------------------------------------ iterators, nhosts: the C struct *)
Record iter := { it_idx : Z; it_depth : Z; it_stale : bool }.   (* stale: i->hr == NULL although idx < nranges *)
Record hstate := { hs_hr : hostlist; hs_nhosts : Z; hs_iters : list iter }.

Definition iter_new : iter := {| it_idx := 0; it_depth := -1; it_stale := false |}.
Definition st_empty : hstate := {| hs_hr := []; hs_nhosts := 0; hs_iters := [] |}.
Definition st_of (h : hostlist) : hstate := {| hs_hr := h; hs_nhosts := count h; hs_iters := [] |}.

Definition apply_ev (ev : shift_ev) (it : iter) : iter :=
  match ev with
  | EvNone => it
  | EvIns n => if (n <=? it_idx it)%Z then {| it_idx := it_idx it + 1; it_depth := it_depth it; it_stale := false |} else it
  | EvDel n => if (n <=? it_idx it)%Z then
                 (if (0 <=? it_idx it - 1)%Z then {| it_idx := it_idx it - 1; it_depth := it_depth it; it_stale := false |}
                  else iter_new)
               else it
  end.
Definition mark_append (k : Z) (it : iter) : iter :=
  if (it_idx it =? k)%Z then {| it_idx := it_idx it; it_depth := it_depth it; it_stale := true |} else it.

(* hostlist_push_range on the struct: (state, hr after, return value) *)
Definition st_push_range (s : hstate) (r : hrange) : hstate * hrange * Z :=
  let '(h', r', app) := push_range (hs_hr s) r in
  let n' := to_int (hs_nhosts s + Z.of_N (hr_count r)) in
  ({| hs_hr := h'; hs_nhosts := n';
      hs_iters := if app then map (mark_append (Z.of_nat (length (hs_hr s)))) (hs_iters s) else hs_iters s |}, r', n').

Definition st_push_host (s : hstate) (name : text) : hstate := fst (fst (st_push_range s (range_of_name name))).

Fixpoint st_push_list (s : hstate) (h2 : hostlist) (acc : Z) : hstate * hostlist * Z :=
  match h2 with
  | [] => (s, [], acc)
  | r :: rest => let '(s1, r', rv) := st_push_range s r in
                 let '(s2, rest', acc') := st_push_list s1 rest (to_int (acc + rv)) in (s2, r' :: rest', acc')
  end.

Definition st_delete_nth (s : hstate) (n : Z) : outcome hstate :=
  bind (delete_nth_ev (hs_nhosts s) (hs_hr s) n) (fun p =>
    Ok {| hs_hr := fst p; hs_nhosts := to_int (hs_nhosts s - 1); hs_iters := map (apply_ev (snd p)) (hs_iters s) |}).

Definition st_delete_host (s : hstate) (name : text) : outcome (Z * hstate) :=
  let (n, h1) := find_mut (hs_hr s) name in
  let s1 := {| hs_hr := h1; hs_nhosts := hs_nhosts s; hs_iters := hs_iters s |} in
  if (0 <=? n)%Z then bind (st_delete_nth s1 n) (fun s2 => Ok (1%Z, s2)) else Ok (0%Z, s1).

Definition st_sort (s : hstate) : outcome hstate :=
  if (length (hs_hr s) <=? 1)%nat then Ok s
  else bind (coalesce (isort (hs_hr s))) (fun h' =>
         Ok {| hs_hr := h'; hs_nhosts := hs_nhosts s; hs_iters := map (fun _ => iter_new) (hs_iters s) |}).

(* hostlist_next: (iterator after, name or NULL) *)
Definition iter_next (h : hostlist) (it : iter) : outcome (iter * option text) :=
  let nr := Z.of_nat (length h) in
  bind (if (nr - 1 <? it_idx it)%Z then Ok it
        else if it_stale it then MemErr site_iter_null
        else match nth_error h (Z.to_nat (it_idx it)) with
             | None => MemErr site_iter_null
             | Some r => let d := (it_depth it + 1)%Z in
                         if sub64 (hr_hi r) (hr_lo r) <? wrap64 d
                         then Ok {| it_idx := it_idx it + 1; it_depth := 0; it_stale := false |}
                         else Ok {| it_idx := it_idx it; it_depth := d; it_stale := false |}
             end)
       (fun a =>
          if (nr - 1 <? it_idx a)%Z then Ok (a, None)
          else if GenHL.NEXT_SUFFIX_SIZE <? GenHL.NEXT_SUFFIX_LIMIT then MemErr site_next_suffix
          else match nth_error h (Z.to_nat (it_idx a)) with
               | None => MemErr site_iter_null
               | Some r =>
                 let suffix := if hr_single r then []
                               else firstn (N.to_nat GenHL.NEXT_SUFFIX_LIMIT - 1)
                                           (pad (hr_width r) (add64 (hr_lo r) (wrap64 (it_depth a)))) in
                 Ok (a, Some (hr_prefix r ++ suffix))
               end).

(* the whole hostlist_next sequence from a fresh (or reset) iterator *)
Fixpoint iterate_from (fuel : nat) (h : hostlist) (it : iter) : outcome (list text) :=
  match fuel with
  | O => Ok []
  | S f => bind (iter_next h it) (fun p =>
             match snd p with
             | None => Ok []
             | Some s => bind (iterate_from f h (fst p)) (fun l => Ok (s :: l))
             end)
  end.
Definition iterate (h : hostlist) : outcome (list text) :=
  iterate_from (S (N.to_nat (fold_left (fun a r => a + hr_count r) h 0))) h iter_new.

(* ------------------------------------------------------------------ op sequences over up to 4 lists (R-HL) *)
Inductive op :=
| OpCreate (d : nat) (s : option text)        (* slot d := hostlist_create(s) *)
| OpPush (d : nat) (s : text)
| OpPushHost (d : nat) (s : text)
| OpPushList (d s : nat)
| OpCopy (d s : nat)
| OpDeleteHost (d : nat) (s : text)
| OpDeleteNth (d : nat) (n : Z)
| OpFind (d : nat) (s : text)
| OpNth (d : nat) (n : Z)
| OpCount (d : nat)
| OpSort (d : nat)
| OpRanged (d : nat) (n : N)                  (* n = 0: buffer large enough *)
| OpRoundtrip (d e : nat)                     (* slot e := hostlist_create(ranged_string(slot d)) *)
| OpIterCreate (d : nat)
| OpIterNext (d k m : nat)                    (* up to m calls of hostlist_next on iterator k, stop at NULL *)
| OpIterReset (d k : nat)
| OpIterDestroy (d k : nat).

Inductive res :=
| RNoList                                     (* op skipped: slot is NULL (or d = s) *)
| RInt (z : Z)
| RNull
| ROk
| RText (z : Z) (t : text)
| ROptText (t : option text)
| RTexts (l : list text) (ended : bool).

Definition world := list (option hstate).
Definition get (w : world) (d : nat) : option hstate := match nth_error w d with Some o => o | None => None end.
Fixpoint set (w : world) (d : nat) (v : option hstate) : world :=
  match w, d with
  | [], _ => []
  | _ :: w', O => v :: w'
  | x :: w', S d' => x :: set w' d' v
  end.
Definition world0 : world := [None; None; None; None].

Fixpoint replace_nth {A} (l : list A) (k : nat) (v : A) : list A :=
  match l, k with
  | [], _ => []
  | _ :: l', O => v :: l'
  | x :: l', S k' => x :: replace_nth l' k' v
  end.
Fixpoint remove_nth {A} (l : list A) (k : nat) : list A :=
  match l, k with
  | [], _ => []
  | _ :: l', O => l'
  | x :: l', S k' => x :: remove_nth l' k'
  end.

Fixpoint next_many (m : nat) (h : hostlist) (it : iter) (acc : list text) : outcome (iter * list text * bool) :=
  match m with
  | O => Ok (it, rev acc, false)
  | S m' => bind (iter_next h it) (fun p =>
              match snd p with
              | None => Ok (fst p, rev acc, true)
              | Some s => next_many m' h (fst p) (s :: acc)
              end)
  end.

Definition with_hr (s : hstate) (h : hostlist) : hstate := {| hs_hr := h; hs_nhosts := hs_nhosts s; hs_iters := hs_iters s |}.

Definition step (w : world) (o : op) : outcome (world * res) :=
  match o with
  | OpCreate d None => Ok (set w d (Some st_empty), ROk)
  | OpCreate d (Some s) =>
    bind (create s) (fun r => match r with
                              | None => Ok (set w d None, RNull)
                              | Some h => Ok (set w d (Some (st_of h)), ROk)
                              end)
  | OpPush d s =>
    match get w d with
    | None => Ok (w, RNoList)
    | Some st =>
      bind (create s) (fun r => match r with
                                | None => Ok (w, RInt 0)
                                | Some h => let '(st', _, _) := st_push_list st h 0%Z in
                                            Ok (set w d (Some st'), RInt (count h))
                                end)
    end
  | OpPushHost d s =>
    match get w d with
    | None => Ok (w, RNoList)
    | Some st => Ok (set w d (Some (st_push_host st s)), RInt 1)
    end
  | OpPushList d s =>
    match get w d, get w s with
    | Some a, Some b =>
      if Nat.eqb d s then Ok (w, RNoList)
      else let '(a', bh, n) := st_push_list a (hs_hr b) 0%Z in
           Ok (set (set w d (Some a')) s (Some (with_hr b bh)), RInt n)
    | _, _ => Ok (w, RNoList)
    end
  | OpCopy d s =>
    match get w s with
    | None => Ok (w, RNoList)
    | Some b => Ok (set w d (Some {| hs_hr := copy (hs_hr b); hs_nhosts := hs_nhosts b; hs_iters := [] |}), ROk)
    end
  | OpDeleteHost d s =>
    match get w d with
    | None => Ok (w, RNoList)
    | Some st => bind (st_delete_host st s) (fun p => Ok (set w d (Some (snd p)), RInt (fst p)))
    end
  | OpDeleteNth d n =>
    match get w d with
    | None => Ok (w, RNoList)
    | Some st => bind (st_delete_nth st n) (fun st' => Ok (set w d (Some st'), RInt 1))
    end
  | OpFind d s =>
    match get w d with
    | None => Ok (w, RNoList)
    | Some st => let (n, h') := find_mut (hs_hr st) s in Ok (set w d (Some (with_hr st h')), RInt n)
    end
  | OpNth d n =>
    match get w d with
    | None => Ok (w, RNoList)
    | Some st => bind (nth (hs_hr st) n) (fun t => Ok (w, ROptText t))
    end
  | OpCount d =>
    match get w d with
    | None => Ok (w, RNoList)
    | Some st => Ok (w, RInt (hs_nhosts st))
    end
  | OpSort d =>
    match get w d with
    | None => Ok (w, RNoList)
    | Some st => bind (st_sort st) (fun st' => Ok (set w d (Some st'), ROk))
    end
  | OpRanged d n =>
    match get w d with
    | None => Ok (w, RNoList)
    | Some st => if n =? 0 then Ok (w, RText (Z.of_nat (length (ranged_string (hs_hr st)))) (ranged_string (hs_hr st)))
                 else let (z, t) := ranged_string_n (hs_hr st) n in Ok (w, RText z t)
    end
  | OpRoundtrip d e =>
    match get w d with
    | None => Ok (w, RNoList)
    | Some st =>
      let s := ranged_string (hs_hr st) in
      bind (create s) (fun r => match r with
                                | None => Ok (set w e None, RText (-1)%Z s)
                                | Some h => Ok (set w e (Some (st_of h)), RText 0%Z s)
                                end)
    end
  | OpIterCreate d =>
    match get w d with
    | None => Ok (w, RNoList)
    | Some st => Ok (set w d (Some {| hs_hr := hs_hr st; hs_nhosts := hs_nhosts st; hs_iters := hs_iters st ++ [iter_new] |}), ROk)
    end
  | OpIterNext d k m =>
    match get w d with
    | None => Ok (w, RNoList)
    | Some st =>
      match nth_error (hs_iters st) k with
      | None => Ok (w, RNoList)
      | Some it =>
        bind (next_many m (hs_hr st) it []) (fun p =>
          let '(it', l, ended) := p in
          Ok (set w d (Some {| hs_hr := hs_hr st; hs_nhosts := hs_nhosts st; hs_iters := replace_nth (hs_iters st) k it' |}),
              RTexts l ended))
      end
    end
  | OpIterReset d k =>
    match get w d with
    | None => Ok (w, RNoList)
    | Some st =>
      match nth_error (hs_iters st) k with
      | None => Ok (w, RNoList)
      | Some _ => Ok (set w d (Some {| hs_hr := hs_hr st; hs_nhosts := hs_nhosts st; hs_iters := replace_nth (hs_iters st) k iter_new |}), ROk)
      end
    end
  | OpIterDestroy d k =>
    match get w d with
    | None => Ok (w, RNoList)
    | Some st =>
      match nth_error (hs_iters st) k with
      | None => Ok (w, RNoList)
      | Some _ => Ok (set w d (Some {| hs_hr := hs_hr st; hs_nhosts := hs_nhosts st; hs_iters := remove_nth (hs_iters st) k |}), ROk)
      end
    end
  end.
