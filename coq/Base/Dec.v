(* decimal printing of naturals as C's %d / %lld / %0Nd do *)
From Coq Require Import List NArith ZArith.
From PM Require Import Base.Bytes.
Import ListNotations.
Local Open Scope N_scope.

Fixpoint dec_fuel (f : nat) (n : N) : text :=
  match f with
  | O => [48 + n mod 10]
  | S f' => if n <? 10 then [48 + n] else dec_fuel f' (n / 10) ++ [48 + n mod 10]
  end.
Definition dec (n : N) : text := dec_fuel 40 n.            (* 40 digits: enough for any 128-bit value *)
Definition dec_pad (w : nat) (n : N) : text :=             (* %0<w>d / %.<w>d *)
  let d := dec n in repeat 48 (w - length d) ++ d.
Definition dec_z (z : Z) : text :=
  match z with
  | Zneg p => 45 :: dec (Npos p)
  | _ => dec (Z.to_N z)
  end.
