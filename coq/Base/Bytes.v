(* bytes and byte strings; a byte is an N (the C `unsigned char` value 0..255) *)
From Coq Require Export List NArith ZArith Bool Lia.
From Coq Require Ascii String.
Export ListNotations.
(* string literals: write  bs "abc"%string  (String itself is never imported: it would shadow length/++) *)
Export String.StringSyntax.
Delimit Scope string_scope with string.

Definition byte := N.
Definition text := list byte.

Definition bs (s : String.string) : text :=
  List.map Ascii.N_of_ascii (String.list_ascii_of_string s).

(* a byte-string constant evaluated once (so that extracted code contains no Coq strings) *)
Notation "'bslit' s" := (ltac:(let v := eval vm_compute in (bs s%string) in exact v)) (at level 10, s at level 9, only parsing).

Fixpoint text_eqb (a b : text) : bool :=
  match a, b with
  | [], [] => true
  | x :: a', y :: b' => N.eqb x y && text_eqb a' b'
  | _, _ => false
  end.

Lemma text_eqb_eq a : forall b, text_eqb a b = true <-> a = b.
Proof.
  induction a as [|x a IH]; intros [|y b]; cbn [text_eqb]; split; intros H; try discriminate; auto.
  - apply andb_true_iff in H as [H1 H2]. apply N.eqb_eq in H1. apply IH in H2. congruence.
  - inversion H; subst. rewrite N.eqb_refl. cbn. now apply IH.
Qed.

Lemma text_eqb_refl a : text_eqb a a = true.
Proof. now apply text_eqb_eq. Qed.

Lemma text_eqb_neq a b : text_eqb a b = false <-> a <> b.
Proof.
  split; intros H.
  - intros E. apply text_eqb_eq in E. congruence.
  - destruct (text_eqb a b) eqn:E; [|reflexivity]. apply text_eqb_eq in E. contradiction.
Qed.

Definition text_eq_dec (a b : text) : {a = b} + {a <> b}.
Proof. destruct (text_eqb a b) eqn:E; [left; now apply text_eqb_eq | right; now apply text_eqb_neq]. Defined.

(* frequently used characters *)
Definition CR : byte := 13%N.
Definition LF : byte := 10%N.
Definition SP : byte := 32%N.
Definition TAB : byte := 9%N.
Definition NUL : byte := 0%N.

Definition is_digit (b : byte) : bool := (48 <=? b)%N && (b <=? 57)%N.
Definition is_space (b : byte) : bool :=            (* C isspace in the "C" locale *)
  N.eqb b 32 || ((9 <=? b)%N && (b <=? 13)%N).

Fixpoint is_prefix (p s : text) : bool :=
  match p, s with
  | [], _ => true
  | x :: p', y :: s' => N.eqb x y && is_prefix p' s'
  | _ :: _, [] => false
  end.

Lemma is_prefix_spec p : forall s, is_prefix p s = true <-> exists r, s = p ++ r.
Proof.
  induction p as [|x p IH]; intros s; cbn [is_prefix].
  - split; [intros _; now exists s | reflexivity].
  - destruct s as [|y s].
    + split; [discriminate|]. intros [r H]; discriminate.
    + rewrite andb_true_iff, N.eqb_eq, IH. split.
      * intros [-> [r ->]]. now exists r.
      * intros [r H]. cbn in H. inversion H; subst. split; eauto.
Qed.
