(* outcomes of model entry points (DESIGN §4.1) *)
From Coq Require Import List ZArith.
Import ListNotations.

Inductive outcome (A : Type) : Type :=
| Ok (a : A)
| Exit (code : Z) (site : nat)       (* a path that reaches err_exit / exit *)
| Abort (site : nat)                 (* a compiled-in assert, or abort() *)
| MemErr (site : nat)                (* an access outside a C object *)
| Hang (site : nat).                 (* unbounded loop / blocking call *)
Arguments Ok {A} a.
Arguments Exit {A} code site.
Arguments Abort {A} site.
Arguments MemErr {A} site.
Arguments Hang {A} site.

Definition bind {A B} (x : outcome A) (f : A -> outcome B) : outcome B :=
  match x with
  | Ok a => f a
  | Exit c s => Exit c s
  | Abort s => Abort s
  | MemErr s => MemErr s
  | Hang s => Hang s
  end.

Definition omap {A B} (f : A -> B) (x : outcome A) : outcome B := bind x (fun a => Ok (f a)).

Definition is_ok {A} (x : outcome A) : bool := match x with Ok _ => true | _ => false end.

Declare Scope outcome_scope.
Notation "x <- e ;; f" := (bind e (fun x => f)) (at level 61, e at next level, right associativity) : outcome_scope.
Notation "' p <- e ;; f" := (bind e (fun p => f)) (at level 61, p pattern, e at next level, right associativity) : outcome_scope.

Lemma bind_ok {A B} (x : outcome A) (f : A -> outcome B) b :
  bind x f = Ok b -> exists a, x = Ok a /\ f a = Ok b.
Proof. destruct x; cbn; intros H; try discriminate. eauto. Qed.
