(* every Extract/Ex*.v lists [dlib_anchor] so that the constructors and the few N operations that
   driver/dlib.ml relies on are present in the extracted module whatever the model uses *)
From Coq Require Import NArith ZArith List.
From PM Require Import Base.Bytes Base.Outcome.

Definition dlib_anchor :=
  (0%nat, 0%N, 0%Z, xH, N.add, N.mul, N.div_eucl, @Ok nat, (@nil nat), Z.add, Z.opp, Z.of_N, Z.to_N).
