#!/usr/bin/env python3
"""translator: tunables and fixed buffer sizes of the CURRENT src/liblsd/hostlist.c -> GenHL.v  (DESIGN §3.1, C14)

macros are evaluated by compiling gen/probe_hl.c (which #includes the scratch copy's hostlist.c); sizes of
function-local buffers and the literal limits passed to strncpy/snprintf are read with anchored regular
expressions.  Any declaration that is missing or changed shape is a loud failure (exit 1)."""
import sys, os, re, subprocess, tempfile, shutil
repo, out = sys.argv[1], sys.argv[2]
here = os.path.dirname(os.path.abspath(__file__))
SRC = os.path.join(repo, "src", "liblsd", "hostlist.c")


def die(m):
    sys.stderr.write("gen_hl: " + m + "\n")
    sys.exit(1)


if not os.path.exists(SRC):
    die("src/liblsd/hostlist.c not found")
txt = open(SRC, encoding="latin-1").read()

tmp = tempfile.mkdtemp(prefix="genhl.")
try:
    exe = os.path.join(tmp, "probe")
    inc = ["-DHAVE_CONFIG_H", "-I%s/config" % repo, "-I%s/src/liblsd" % repo]
    r = subprocess.run(["gcc", "-w", "-O0"] + inc + [os.path.join(here, "probe_hl.c"), "-o", exe],
                       stdout=subprocess.PIPE, stderr=subprocess.STDOUT)
    if r.returncode != 0:
        die("probe does not compile against the current tree:\n" + r.stdout.decode("latin-1")[-3000:])
    r = subprocess.run(["timeout", "-s", "KILL", "20", exe], stdout=subprocess.PIPE, stderr=subprocess.STDOUT)
    if r.returncode != 0:
        die("probe failed: " + r.stdout.decode("latin-1")[-2000:])
finally:
    shutil.rmtree(tmp, ignore_errors=True)

N = {}
for l in r.stdout.decode().splitlines():
    w = l.split()
    if len(w) == 3 and w[0] == "N":
        N[w[1]] = int(w[2])
for k in ("MAX_HOST_SUFFIX", "MAX_RANGE", "MAX_RANGES", "HOSTLIST_CHUNK", "MAXHOSTNAMELEN", "MAXHOSTRANGELEN",
          "SIZEOF_ULONG", "SIZEOF_INT", "NDEBUG", "RECKLESS", "PTHREADS"):
    if k not in N:
        die("probe did not report " + k)
if N["SIZEOF_ULONG"] != 8 or N["SIZEOF_INT"] != 4:
    die("the model assumes LP64 (unsigned long = 64 bit, int = 32 bit)")
if N["RECKLESS"] != 0:
    die("WANT_RECKLESS_HOSTRANGE_EXPANSION is set: hostlist_create is no longer _hostlist_create_bracketed (model does not cover it)")
if N["PTHREADS"] != 0:
    die("WITH_PTHREADS is set: the model covers the single-threaded build only")


def func_body(name, sig_re):
    """text of the function whose definition line matches sig_re (brace matching from its opening brace)"""
    m = re.search(sig_re, txt, re.M)
    if not m:
        die("definition of %s not found" % name)
    i = txt.find("{", m.end() - 1)
    depth, j = 0, i
    while j < len(txt):
        if txt[j] == "{":
            depth += 1
        elif txt[j] == "}":
            depth -= 1
            if depth == 0:
                return txt[i:j + 1]
        j += 1
    die("unbalanced braces in " + name)


def need(body, rx, what, conv=int):
    m = re.search(rx, body)
    if not m:
        die("%s: pattern not found any more (%s)" % (what, rx))
    return conv(m.group(1)) if conv else m.group(1)


def cexpr(s):
    s = s.strip()
    s = re.sub(r"\bMAXHOSTNAMELEN\b", str(N["MAXHOSTNAMELEN"]), s)
    s = re.sub(r"\bMAXHOSTRANGELEN\b", str(N["MAXHOSTRANGELEN"]), s)
    s = re.sub(r"\bMAX_RANGES\b", str(N["MAX_RANGES"]), s)
    if not re.fullmatch(r"[0-9+\-* ()]+", s):
        die("not a constant expression: " + s)
    return int(eval(s, {"__builtins__": {}}))


# --- _hostlist_create_bracketed: cur_tok[], ranges[]
b = func_body("_hostlist_create_bracketed", r"^_hostlist_create_bracketed\s*\(const char \*hostlist, char \*sep, char \*r_op\)\s*\{")
N["CUR_TOK_SIZE"] = need(b, r"char\s+cur_tok\s*\[([^\]]+)\]\s*;", "cur_tok declaration", cexpr)
lim = need(b, r"strncpy\s*\(\s*cur_tok\s*,\s*tok\s*,\s*([^;]+?)\)\s*;", "strncpy into cur_tok", None)
lim = re.sub(r"sizeof\s*\(\s*cur_tok\s*\)", str(N["CUR_TOK_SIZE"]), lim)
N["CUR_TOK_COPY"] = cexpr(lim)
N["RANGES_ARRAY"] = need(b, r"struct\s+_range\s+ranges\s*\[([^\]]+)\]\s*;", "ranges[] declaration", cexpr)
N["RANGES_LEN_ARG"] = need(b, r"_parse_range_list\s*\(\s*p\s*,\s*ranges\s*,\s*([^)]+)\)", "_parse_range_list call", cexpr)
# 1 iff the source writes a terminator into cur_tok after the strncpy (the F3 repair)
N["CUR_TOK_TERMINATED"] = 1 if re.search(r"cur_tok\s*\[[^\]]+\]\s*=\s*('\\0'|0)\s*;", b) else 0

# --- _push_range_list_with_suffix: host[]
b = func_body("_push_range_list_with_suffix", r"^_push_range_list_with_suffix\s*\(hostlist_t hl, char \*pfx, char \*sfx,\s*$")
N["HOST_BUF_SIZE"] = need(b, r"char\s+host\s*\[([^\]]+)\]\s*;", "host[] declaration", cexpr)
N["HOST_BUF_LIMIT"] = need(b, r'snprintf\s*\(\s*host\s*,\s*([^,]+),\s*"%s%0\*lu%s"', "snprintf into host[]", cexpr)
# the expansion loop `for (j = rng->lo; j <= rng->hi; j++)` must still be there; 1 iff its body leaves the loop after the
# iteration for hi (the F33 repair: j++ would wrap when hi == ULONG_MAX and the loop would never end)
if not re.search(r"for\s*\(\s*j\s*=\s*rng->lo\s*;\s*j\s*<=\s*rng->hi\s*;\s*j\+\+\s*\)", b):
    die("_push_range_list_with_suffix: loop `for (j = rng->lo; j <= rng->hi; j++)` not found any more")
N["SUFFIX_LOOP_BREAKS"] = 1 if re.search(r"if\s*\(\s*j\s*==\s*rng->hi\s*\)\s*(?:/\*.*?\*/\s*)?break\s*;", b, re.S) else 0

# --- hostrange_intersect: how an out-of-order pair is treated.  0 = assert(hostrange_cmp(h1, h2) <= 0) (abort when
# assert() is compiled in); 1 = `if (hostrange_cmp(h1, h2) > 0) return NULL;` (the F36 repair: always evaluated)
b = func_body("hostrange_intersect", r"^static hostrange_t hostrange_intersect\s*\(hostrange_t h1, hostrange_t h2\)\s*$")
b = re.sub(r"/\*.*?\*/", " ", b, flags=re.S)      # comments may mention hostrange_cmp()
has_assert = re.search(r"assert\s*\(\s*hostrange_cmp\s*\(\s*h1\s*,\s*h2\s*\)\s*<=\s*0\s*\)\s*;", b) is not None
has_check = re.search(r"if\s*\(\s*hostrange_cmp\s*\(\s*h1\s*,\s*h2\s*\)\s*>\s*0\s*\)\s*return\s+NULL\s*;", b) is not None
if has_assert == has_check:
    die("hostrange_intersect: expected exactly one of `assert(hostrange_cmp(h1, h2) <= 0);` / `if (hostrange_cmp(h1, h2) > 0) return NULL;`")
if len(re.findall(r"hostrange_cmp\s*\(", b)) != 1:
    die("hostrange_intersect: hostrange_cmp is called more than once (the comparator rewrites widths: model covers one call)")
N["INTERSECT_ORDER_CHECK"] = 1 if has_check else 0

# --- hostlist_next: suffix[]
b = func_body("hostlist_next", r"^char \*hostlist_next\s*\(hostlist_iterator_t i\)\s*$")
N["NEXT_SUFFIX_SIZE"] = need(b, r"char\s+suffix\s*\[([^\]]+)\]\s*;", "suffix[] declaration", cexpr)
N["NEXT_SUFFIX_LIMIT"] = need(b, r'snprintf\s*\(\s*suffix\s*,\s*([^,]+),\s*"%0\*lu"', "snprintf into suffix[]", cexpr)

# --- _hostrange_string: buf[]
b = func_body("_hostrange_string", r"^_hostrange_string\s*\(hostrange_t hr, int depth\)\s*$")
N["HRSTR_BUF_SIZE"] = need(b, r"char\s+buf\s*\[([^\]]+)\]\s*;", "buf[] declaration in _hostrange_string", cexpr)
N["HRSTR_LIMIT"] = need(b, r'snprintf\s*\(\s*buf\s*,\s*([^,]+),\s*"%s"', "first snprintf in _hostrange_string", cexpr)
lim2 = need(b, r'snprintf\s*\(\s*buf\s*\+\s*len\s*,\s*([^,]+?)\s*-\s*len\s*,\s*"%0\*lu"', "second snprintf in _hostrange_string", cexpr)
if lim2 != N["HRSTR_LIMIT"]:
    die("_hostrange_string: the two snprintf limits differ (%d vs %d); model assumes one limit" % (N["HRSTR_LIMIT"], lim2))

# --- separators and range operator of hostlist_create
m = re.search(r'^hostlist_t hostlist_create\s*\(const char \*str\)\s*\{\s*return\s+_hostlist_create\s*\(\s*str\s*,\s*"((?:[^"\\]|\\.)*)"\s*,\s*"((?:[^"\\]|\\.)*)"\s*\)\s*;', txt, re.M)
if not m:
    die("hostlist_create no longer `return _hostlist_create(str, \"<sep>\", \"<op>\");`")


def unesc(s):
    return bytes(s, "latin-1").decode("unicode_escape").encode("latin-1")


seps, rop = unesc(m.group(1)), unesc(m.group(2))
if len(rop) != 1:
    die("range operator is not a single character")

L = ["(* GENERATED by gen/gen_hl.py from the current src/liblsd/hostlist.c -- do not edit *)",
     "From Coq Require Import List NArith.", "From PM Require Import Base.Bytes.", "Import ListNotations.", "Local Open Scope N_scope.", ""]
doc = {
    "MAX_HOST_SUFFIX": "largest v with `v <= MAX_HOST_SUFFIX` as the source writes the test (hostname_create_with_suffix)",
    "MAX_RANGE": "_parse_single_range refuses hi - lo >= MAX_RANGE",
    "MAX_RANGES": "capacity handed to _parse_range_list",
    "CUR_TOK_SIZE": "char cur_tok[..] in _hostlist_create_bracketed",
    "CUR_TOK_COPY": "byte count of strncpy(cur_tok, tok, ..)",
    "CUR_TOK_TERMINATED": "1 iff the source stores a NUL into cur_tok after the strncpy",
    "RANGES_ARRAY": "struct _range ranges[..]",
    "RANGES_LEN_ARG": "len argument of _parse_range_list",
    "HOST_BUF_SIZE": "char host[..] in _push_range_list_with_suffix", "HOST_BUF_LIMIT": "snprintf(host, .., ...)",
    "INTERSECT_ORDER_CHECK": "hostrange_intersect on an out-of-order pair: 0 = assert(hostrange_cmp(h1,h2) <= 0), 1 = if (hostrange_cmp(h1,h2) > 0) return NULL",
    "SUFFIX_LOOP_BREAKS": "1 iff the loop for (j = lo; j <= hi; j++) of _push_range_list_with_suffix breaks after j == hi",
    "NEXT_SUFFIX_SIZE": "char suffix[..] in hostlist_next", "NEXT_SUFFIX_LIMIT": "snprintf(suffix, .., ...)",
    "HRSTR_BUF_SIZE": "char buf[..] in _hostrange_string", "HRSTR_LIMIT": "snprintf(buf, .., ...) limit (both calls)",
    "NDEBUG": "0 = assert() is compiled in",
}
for k in ["MAX_HOST_SUFFIX", "MAX_RANGE", "MAX_RANGES", "HOSTLIST_CHUNK", "MAXHOSTNAMELEN", "MAXHOSTRANGELEN",
          "CUR_TOK_SIZE", "CUR_TOK_COPY", "CUR_TOK_TERMINATED", "RANGES_ARRAY", "RANGES_LEN_ARG", "HOST_BUF_SIZE", "HOST_BUF_LIMIT", "SUFFIX_LOOP_BREAKS", "INTERSECT_ORDER_CHECK",
          "NEXT_SUFFIX_SIZE", "NEXT_SUFFIX_LIMIT", "HRSTR_BUF_SIZE", "HRSTR_LIMIT", "NDEBUG"]:
    L.append("Definition %s : N := %d.%s" % (k, N[k], ("   (* %s *)" % doc[k]) if k in doc else ""))
L.append("")
L.append("Definition separators : text := [%s].   (* sep argument of _hostlist_create *)" % "; ".join(str(x) for x in seps))
L.append("Definition range_op : byte := %d.        (* r_op argument (the bracket parser hard-codes '-' and ',') *)" % rop[0])
open(os.path.join(out, "GenHL.v"), "w").write("\n".join(L) + "\n")
