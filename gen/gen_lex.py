#!/usr/bin/env python3
"""translator for property C18: reads the CURRENT parse_lex.l / parse_tab.y / device_serial.c / xregex.c /
config.h of a repo copy and writes <outdir>/GenLex.v.

Facts read (each one fails loudly, exit 2, when the declaration it needs changed shape):
  * size of the lexer's static string buffer; whether every store into it goes through a bound check and
    how much room the check leaves (the model's string state is *checked* or *unchecked* accordingly)
  * MAX_INCLUDE_DEPTH and the comparison guarding the include stack
  * whether numeric tokens are copied (F22) and whether short include names are refused (F23)
  * YY_READ_BUF_SIZE / YY_BUF_SIZE of the lexer flex generates from the current .l
  * the keyword table of the INITIAL start condition, the set of lex_str escape rules
  * the script keyword -> PM_* index pairs of the grammar
  * parser-side checks: login script required (F14), time values bounded (F27)
  * serial flags optional (F24), $N before the first expect tolerated (F26), HAVE_TCP_WRAPPERS
  * whether errno is cleared before strtol / strtod in _strtolong / _strtodouble (F30, not applied)
  * whether a repeated plug name in a specification's `plug name { .. }` list is refused (F34)
"""
import sys, os, re, subprocess, tempfile


def die(msg):
    sys.stderr.write("gen_lex.py: " + msg + "\n")
    sys.exit(2)


def coq_text(b):
    return "[" + "; ".join(str(x) for x in b) + "]%N"


def main():
    repo, out = sys.argv[1], sys.argv[2]
    pl = os.path.join(repo, "src/powerman/parse_lex.l")
    py = os.path.join(repo, "src/powerman/parse_tab.y")
    lex = open(pl).read()
    yac = open(py).read()
    ser = open(os.path.join(repo, "src/powerman/device_serial.c")).read()
    xre = open(os.path.join(repo, "src/libcommon/xregex.c")).read()
    cfg = open(os.path.join(repo, "config/config.h")).read()

    # ---- string buffer
    m = re.search(r"^static char string_buf\[(\d+)\];", lex, re.M)
    if not m:
        die("parse_lex.l: `static char string_buf[N];` not found")
    sbsize = int(m.group(1))
    raw_stores = len(re.findall(r"\*string_buf_ptr\+\+\s*=", lex))
    term = len(re.findall(r"\*string_buf_ptr = '\\0';", lex))
    if term != 1:
        die("parse_lex.l: expected exactly one terminating `*string_buf_ptr = '\\0';`")
    if not re.search(r'\\"\s*\{\s*string_buf_ptr = string_buf;\s*BEGIN\(lex_str\);', lex):
        die("parse_lex.l: opening-quote rule changed shape")
    chk = re.search(r"static void string_buf_add\(int c\)\s*\{\s*if \(string_buf_ptr >= string_buf \+ sizeof\(string_buf\)( - (\d+))?\)\s*"
                    r"err_exit\(false, \"string too long: %s::%d\",[^;]*;\s*\*string_buf_ptr\+\+ = c;\s*\}", lex)
    if chk:
        if raw_stores != 1:
            die("parse_lex.l: %d stores into string_buf bypass string_buf_add()" % (raw_stores - 1))
        adds = len(re.findall(r"\bstring_buf_add\(", lex)) - 1
        checked, slack = True, int(chk.group(2) or 0)
    else:
        if "string_buf_add" in lex:
            die("parse_lex.l: string_buf_add() changed shape")
        adds = raw_stores
        checked, slack = False, 0
    if adds != 11:
        die("parse_lex.l: expected 11 stores into string_buf in the lex_str rules, found %d" % adds)

    # ---- the lex_str rules (order matters for equal-length matches)
    sm = re.search(r"<lex_str>\{(.*?)\n\}\n", lex, re.S)
    if not sm:
        die("parse_lex.l: <lex_str>{...} block not found")
    body = sm.group(1)
    pats = re.findall(r"^    (\S+) \{", body, re.M)
    expect = ['\\"', '"\\\\a"', '"\\\\b"', '"\\\\e"', '"\\\\f"', '"\\\\n"', '"\\\\r"', '"\\\\t"', '"\\\\v"', '"\\n"',
              '\\\\[0-9][0-9][0-9]', '\\\\(.|\\n)', '[^\\\\\\n\\"]+']
    if pats != expect:
        die("parse_lex.l: lex_str rule patterns changed: %r" % (pats,))
    esc = []
    for ch, val in (("a", 7), ("b", 8), ("e", 27), ("f", 12), ("n", 10), ("r", 13), ("t", 9), ("v", 11)):
        if not re.search(r'"\\\\%s" \{\s*(?:\*string_buf_ptr\+\+ = |string_buf_add\()\'\\%s\'\)?;' % (ch, ch), body):
            die("parse_lex.l: escape rule \\%s changed shape" % ch)
        esc.append((ord(ch), val))
    if not re.search(r'"\\n" \{\s*yyerror\(\);', body):
        die("parse_lex.l: newline-in-string rule changed shape")
    if not re.search(r"strtol\(&yytext\[1\], NULL, 8\)", body):
        die("parse_lex.l: octal escape rule changed shape")
    if not re.search(r"while \( \*yptr \)\s*(?:\*string_buf_ptr\+\+ = \*yptr\+\+|string_buf_add\(\*yptr\+\+\));", body):
        die("parse_lex.l: plain-run rule changed shape")

    # ---- include stack
    m = re.search(r"^#define MAX_INCLUDE_DEPTH (\d+)", lex, re.M)
    if not m:
        die("parse_lex.l: MAX_INCLUDE_DEPTH not found")
    maxdepth = int(m.group(1))
    for arr in ("include_stack", "linenum", "filename"):
        if not re.search(r"\b%s\[MAX_INCLUDE_DEPTH\];" % arr, lex):
            die("parse_lex.l: %s[MAX_INCLUDE_DEPTH] not found" % arr)
    m = re.search(r"if \( include_stack_ptr (>=|>) MAX_INCLUDE_DEPTH( - (\d+))? \)\s*err_exit\(false, \"Includes nested too deeply\" \);", lex)
    if not m:
        die("parse_lex.l: include depth test changed shape")
    # first refused value of include_stack_ptr
    limit = maxdepth - int(m.group(3) or 0) + (1 if m.group(1) == ">" else 0)
    if not re.search(r"include_stack\[include_stack_ptr\+\+\] = YY_CURRENT_BUFFER;\s*linenum\[include_stack_ptr\] = 1;", lex):
        die("parse_lex.l: include push changed shape")
    if not re.search(r"len = strlen\(yytext\);\s*(if \(len < 2\)[^\n]*\n\s*yyerror\(\);\s*)?yytext\[len - 1\] = '\\0';", lex):
        die("parse_lex.l: include name stripping changed shape")
    incl_checked = re.search(r"len = strlen\(yytext\);\s*if \(len < 2\)[^\n]*\n\s*yyerror\(\);", lex) is not None
    if not re.search(r"<lex_incl>\[ \\t\]\* \{", lex) or not re.search(r"<lex_incl>\[\\n\] \{", lex) or not re.search(r"<lex_incl>\[\^ \\t\\n\]\+ \{", lex):
        die("parse_lex.l: lex_incl rules changed shape")
    if not re.search(r"<<EOF>> \{\s*if \(include_stack_ptr == 0\) \{\s*yyterminate\(\);\s*\} else \{", lex):
        die("parse_lex.l: <<EOF>> rule changed shape")

    # ---- numbers
    nm = re.search(r'\(\[0-9\]\+\)\|\(\[0-9\]\+"\."\[0-9\]\*\)\|\("\."\[0-9\]\+\)\s*\{(.*?)return TOK_NUMERIC_VAL;', lex, re.S)
    if not nm:
        die("parse_lex.l: number rule changed shape")
    if re.search(r"yylval = yytext;", nm.group(1)):
        num_copied = False
    elif re.search(r"yylval = xstrdup ?\(yytext\);", nm.group(1)):
        num_copied = True
    else:
        die("parse_lex.l: number rule action changed shape")

    # ---- other INITIAL rules the model writes by hand
    for pat, what in ((r"^#\[\^\\n\]\*\\n \{", "comment"), (r"^\[ \\t\\r\]\+ \{", "white space"), (r"^\[\\n\]   \{", "newline"),
                      (r"^\\\$ \{\s*return TOK_MATCHPOS;", "$"), (r"^\. \{\s*return TOK_UNRECOGNIZED;", "catch-all"),
                      (r"^include\s+BEGIN\(lex_incl\);", "include"), (r"^plug\[ \\t\]\+name\s+return TOK_PLUG_NAME;", "plug name")):
        if not re.search(pat, lex, re.M):
            die("parse_lex.l: %s rule changed shape" % what)
    if re.search(r"%option.*(nodefault|case-insensitive)", lex):
        die("parse_lex.l: new %option changes matching")

    # ---- keyword table
    kws = re.findall(r"^([a-z_]+)\s+return (TOK_[A-Z_]+);", lex, re.M)
    punct = re.findall(r"^(\\\{|\\\}|=)\s+return (TOK_[A-Z_]+);", lex, re.M)
    if len(kws) < 40 or [p[1] for p in punct] != ["TOK_BEGIN", "TOK_END", "TOK_EQUALS"]:
        die("parse_lex.l: keyword table changed shape (%d words, punct %r)" % (len(kws), punct))
    words = [k for k, _ in kws]
    if len(set(words)) != len(words):
        die("parse_lex.l: duplicate keyword")
    # every other rule line in the INITIAL section must be one we know about
    toks = sorted(set(t for _, t in kws))

    # ---- grammar: script keyword -> PM index
    scr = re.findall(r"TOK_SCRIPT (TOK_[A-Z_]+) stmt_block \{\s*makeScript\((PM_[A-Z_]+), \(List\)\$3\);", yac)
    if len(scr) < 20:
        die("parse_tab.y: spec_script rules changed shape")
    hdr = open(os.path.join(repo, "src/powerman/device_private.h")).read()
    pm = dict((a, int(b)) for a, b in re.findall(r"^#define (PM_[A-Z_]+)\s+(\d+)", hdr, re.M))
    for t, p in scr:
        if p not in pm:
            die("device_private.h: %s not defined" % p)
        if t not in toks:
            die("parse_tab.y: script token %s has no lexer keyword" % t)

    # ---- parser-side checks
    if not re.search(r"static Spec \*makeSpec\(char \*name\)", yac):
        die("parse_tab.y: makeSpec changed shape")
    ms = re.search(r"static Spec \*makeSpec\(char \*name\)\s*\{(.*?)\n\}", yac, re.S).group(1)
    login_req = re.search(r"if \(current_spec\.prescripts\[PM_LOG_IN\] == NULL\)\s*_errormsg\(", ms) is not None
    sd = re.search(r"static double _strtodouble\(char \*str\)\s*\{(.*?)\n\}", yac, re.S)
    if not sd or "strtod(str, &endptr)" not in sd.group(1):
        die("parse_tab.y: _strtodouble changed shape")
    tb = re.search(r"if \(val > INT_MAX / (\d+)\)\s*_errormsg\(", sd.group(1))
    time_bounded = tb is not None
    time_limit = (2 ** 31 - 1) // int(tb.group(1)) if tb else 0
    if not re.search(r"tv->tv_sec = \(val \* 10\.0\)/10;", yac):
        die("parse_tab.y: _doubletotv changed shape")
    sl = re.search(r"static long _strtolong\(char \*str\)\s*\{(.*?)\n\}", yac, re.S)
    if not sl or "strtol(str, &endptr, 0)" not in sl.group(1):
        die("parse_tab.y: _strtolong changed shape")
    # errno handling of the two conversions: the range tests read errno; is it cleared before the call?  (F30, not
    # applied: without `errno = 0;` a stale ERANGE left by an earlier strtod underflow makes the exact values
    # LONG_MAX / LONG_MIN look like overflows -- environment non-determinism in the model)
    if not re.search(r"if \(\(val == LONG_MIN \|\| val == LONG_MAX\) && errno == ERANGE\)\s*_errormsg\(", sl.group(1)):
        die("parse_tab.y: _strtolong range test changed shape")
    if not re.search(r"if \(\(val == HUGE_VAL \|\| val == -HUGE_VAL\) && errno == ERANGE\)\s*_errormsg\(", sd.group(1)):
        die("parse_tab.y: _strtodouble range test changed shape")
    errno_cleared_strtol = re.search(r"\berrno = 0;[^}]*?strtol\(str, &endptr, 0\)", sl.group(1), re.S) is not None
    errno_cleared_strtod = re.search(r"\berrno = 0;[^}]*?strtod\(str, &endptr\)", sd.group(1), re.S) is not None
    if not re.search(r'if \(n < 1 \|\| n > 65535\)\s*_errormsg\("port number out of range"\);', yac):
        die("parse_tab.y: port range check changed shape")
    if not re.search(r'if \(strstr\(hoststr, "\|&"\) != NULL\)', yac) or not re.search(r"else if \(hoststr\[0\] == '/'\)", yac):
        die("parse_tab.y: _parse_hoststr changed shape")
    if not re.search(r"if \(!_validHostlist\(nodestr\)\)\s*_errormsg", yac):
        die("parse_tab.y: makeNode no longer validates the node list (F16 fix missing?)")

    # ---- plug names of a specification: refused when repeated (F34)?
    sl_rule = re.search(r"^string_list\s*: string_list TOK_STRING_VAL \{(.*?)\n\}\s*\| TOK_STRING_VAL \{(.*?)\n\}", yac, re.S | re.M)
    if not sl_rule or "list_append((List)$1, xstrdup($2));" not in sl_rule.group(1):
        die("parse_tab.y: string_list rule changed shape")
    if len(re.findall(r"\bstring_list\b", yac)) != 3 or not re.search(r"spec_plug_list\s*: TOK_PLUG_NAME TOK_BEGIN string_list TOK_END", yac):
        die("parse_tab.y: string_list is no longer used by spec_plug_list only")
    m = re.search(r'if \(list_find_first\(\(List\)\$1, \(ListFindF\)_str_match, \$2\)\)\s*_errormsg\("duplicate plug name"\);\s*list_append\(', sl_rule.group(1))
    if m:
        if not re.search(r"static int _str_match\(char \*s, char \*key\)\s*\{\s*return \(strcmp\(s, key\) == 0\);\s*\}", yac):
            die("parse_tab.y: _str_match changed shape")
        plugnames_checked = True
    elif "duplicate plug name" in yac or "list_find_first" in sl_rule.group(1):
        die("parse_tab.y: duplicate plug name test changed shape")
    else:
        plugnames_checked = False

    # ---- serial flags, xregex
    if re.search(r"ser->flags = xstrdup\(flags\);", ser):
        serial_opt = False
    elif re.search(r"ser->flags = flags \? xstrdup\(flags\) : NULL;", ser) and re.search(r"if \(ser->flags != NULL\)\s*\(void\)sscanf\(ser->flags,", ser):
        serial_opt = True
    else:
        die("device_serial.c: serial_create/serial_connect flags handling changed shape")
    ms2 = re.search(r"xregex_match_sub_strdup\(xregex_match_t xm, int i\)\s*\{(.*?)\n\}", xre, re.S)
    if not ms2:
        die("xregex.c: xregex_match_sub_strdup changed shape")
    if re.search(r"assert\(xm->xm_used\);", ms2.group(1)):
        unused_ok = False
    elif re.search(r"if \(!xm->xm_used\)\s*return NULL;", ms2.group(1)):
        unused_ok = True
    else:
        die("xregex.c: xm_used handling changed shape")
    if not re.search(r"i >= 0 && i < xm->xm_nmatch", ms2.group(1)):
        die("xregex.c: sub-match index is no longer range-checked")
    if not re.search(r"if \(strlen\(regex\) > 256\)\s*err_exit", xre):
        die("xregex.c: 256-byte regex limit changed shape")

    # ---- arglist_find on the NULL arglist of internal actions (F28), empty pipe command (F29)
    arg = open(os.path.join(repo, "src/powerman/arglist.c")).read()
    af = re.search(r"Arg \*arglist_find\(ArgList arglist, char \*node\)\s*\{(.*?)\n\}", arg, re.S)
    if not af:
        die("arglist.c: arglist_find changed shape")
    if re.search(r"if \(arglist != NULL && node != NULL\)\s*arg = hash_find\(arglist->args, node\);", af.group(1)):
        arglist_null_ok = True
    elif re.search(r"if \(node != NULL\)\s*arg = hash_find\(arglist->args, node\);", af.group(1)):
        arglist_null_ok = False
    else:
        die("arglist.c: arglist_find changed shape")
    pip = open(os.path.join(repo, "src/powerman/device_pipe.c")).read()
    pc = re.search(r"void \*pipe_create\(char \*cmdline, char \*flags\)\s*\{(.*?)\n\}", pip, re.S)
    if not pc or 'argv_create(cmdline, "|&")' not in pc.group(1):
        die("device_pipe.c: pipe_create changed shape")
    pipe_empty_refused = re.search(r"if \(pd->argv\[0\] == NULL\)\s*err_exit\(", pc.group(1)) is not None

    have_wrap = re.search(r"^#define HAVE_TCP_WRAPPERS 1", cfg, re.M) is not None

    # ---- flex constants of the generated lexer
    with tempfile.TemporaryDirectory() as td:
        p = subprocess.run(["flex", "-o", os.path.join(td, "l.c"), pl], stdout=subprocess.PIPE, stderr=subprocess.STDOUT)
        if p.returncode != 0:
            die("flex failed on parse_lex.l: " + p.stdout.decode()[-500:])
        gen = open(os.path.join(td, "l.c")).read()
    def last_define(name):
        v = re.findall(r"^#define %s (\d+)" % name, gen, re.M)
        if not v:
            die("generated lexer: %s not found" % name)
        return int(v[-1])          # the non-ia64 branch comes last
    yy_read, yy_buf = last_define("YY_READ_BUF_SIZE"), last_define("YY_BUF_SIZE")

    o = []
    o.append("(* GENERATED by gen/gen_lex.py from the current /repo tree (parse_lex.l, parse_tab.y, device_serial.c, xregex.c,")
    o.append("   config.h and the lexer flex generates from parse_lex.l) -- do not edit *)")
    o.append("From Coq Require Import List NArith ZArith.")
    o.append("From PM Require Import Base.Bytes.")
    o.append("Import ListNotations.")
    o.append("")
    o.append("Definition string_buf_size : N := %d%%N.            (* static char string_buf[%d] *)" % (sbsize, sbsize))
    o.append("Definition string_checked : bool := %s.      (* every store goes through string_buf_add() *)" % ("true" if checked else "false"))
    o.append("Definition string_slack : N := %d%%N.                 (* string_buf_add refuses at index >= size - slack *)" % slack)
    o.append("Definition string_stores : N := %d%%N." % adds)
    o.append("Definition max_include_depth : N := %d%%N.           (* #define MAX_INCLUDE_DEPTH *)" % maxdepth)
    o.append("Definition include_refuse_at : N := %d%%N.           (* first value of include_stack_ptr at which an include is refused *)" % limit)
    o.append("Definition include_len_checked : bool := %s. (* names shorter than 2 bytes are a parse error (F23) *)" % ("true" if incl_checked else "false"))
    o.append("Definition number_copied : bool := %s.       (* yylval = xstrdup(yytext) for numbers (F22) *)" % ("true" if num_copied else "false"))
    o.append("Definition yy_read_buf_size : N := %d%%N." % yy_read)
    o.append("Definition yy_buf_size : N := %d%%N." % yy_buf)
    o.append("Definition login_required : bool := %s.      (* makeSpec refuses a spec without login script (F14) *)" % ("true" if login_req else "false"))
    o.append("Definition time_bounded : bool := %s.        (* _strtodouble refuses val > time_limit (F27) *)" % ("true" if time_bounded else "false"))
    o.append("Definition time_limit : Z := %d%%Z." % time_limit)
    o.append("Definition serial_flags_optional : bool := %s.  (* F24 *)" % ("true" if serial_opt else "false"))
    o.append("Definition matchpos_unused_ok : bool := %s.  (* xregex_match_sub_strdup tolerates !xm_used (F26) *)" % ("true" if unused_ok else "false"))
    o.append("Definition have_tcp_wrappers : bool := %s." % ("true" if have_wrap else "false"))
    o.append("Definition arglist_null_ok : bool := %s.      (* arglist_find tolerates the NULL arglist of login/ping actions (F28) *)" % ("true" if arglist_null_ok else "false"))
    o.append("Definition pipe_empty_refused : bool := %s.   (* pipe_create refuses an empty command line (F29) *)" % ("true" if pipe_empty_refused else "false"))
    o.append("Definition errno_cleared_strtol : bool := %s.  (* `errno = 0;` precedes strtol() in _strtolong (F30) *)" % ("true" if errno_cleared_strtol else "false"))
    o.append("Definition errno_cleared_strtod : bool := %s.  (* `errno = 0;` precedes strtod() in _strtodouble (F30) *)" % ("true" if errno_cleared_strtod else "false"))
    o.append("Definition plugnames_checked : bool := %s.  (* a specification naming a plug twice is refused (F34) *)" % ("true" if plugnames_checked else "false"))
    o.append("Definition pm_ping : Z := %d%%Z." % pm["PM_PING"])
    o.append("")
    o.append("(* keyword tokens of the INITIAL start condition (token names of parse_tab.y) *)")
    o.append("Inductive kw : Type :=\n" + "\n".join("| %s" % t for t in toks) + ".")
    o.append("")
    o.append("Definition kw_code (k : kw) : N :=\n  match k with\n" + "\n".join("  | %s => %d%%N" % (t, i) for i, t in enumerate(toks)) + "\n  end.")
    o.append("")
    o.append("Definition kw_eqb (a b : kw) : bool := N.eqb (kw_code a) (kw_code b).")
    o.append("")
    o.append("Definition kw_name (k : kw) : text :=\n  match k with\n" + "\n".join("  | %s => %s" % (t, coq_text(t.encode())) for t in toks) + "\n  end.")
    o.append("")
    o.append("(* lexeme -> token, in rule order (`plug[ \\t]+name`, `include` and punctuation are separate rules) *)")
    o.append("Definition keyword_table : list (text * kw) :=\n  [ " + ";\n    ".join("(%s, %s) (* %s *)" % (coq_text(k.encode()), t, k) for k, t in kws) + " ].")
    o.append("")
    o.append("(* `\\x` escapes of the string state: (x, byte stored) *)")
    o.append("Definition escape_table : list (byte * byte) := [" + "; ".join("(%d, %d)" % e for e in esc) + "]%N.")
    o.append("")
    o.append("(* `script <keyword>` -> index into dev->scripts *)")
    o.append("Definition script_table : list (kw * Z) := [" + "; ".join("(%s, %d%%Z)" % (t, pm[p]) for t, p in scr) + "].")
    o.append("Definition pm_log_in : Z := %d%%Z." % pm["PM_LOG_IN"])
    o.append("")
    with open(os.path.join(out, "GenLex.v"), "w") as fh:
        fh.write("\n".join(o))


if __name__ == "__main__":
    main()
