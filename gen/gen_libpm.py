#!/usr/bin/env python3
"""translator for C16: facts of the CURRENT libpowerman.c / libpowerman.h / powerman.c / xread.c / client_proto.h
->  GenLibPm.v   (DESIGN §3.1).

 * pm_err_t / pm_node_state_t enumerator values (compiled, not parsed)
 * retcode_table: the code -> pm_err_t assignment made by `_server_retcode`, obtained by CALLING the real
   function (through `#include "libpowerman.c"`) on one-line responses for every case label found in its
   source text and for every code in -1100..1100; retcode_default = its value on the empty response
 * server_codes: the three-digit codes of every CP_RSP_* / CP_ERR_* / CP_VERSION line macro of client_proto.h
 * cli_suppress / cli_stderr: `_suppress(num)` and `getstream(num) == stderr` of powerman.c evaluated on -1100..1100
 * XREAD_CHUNKSIZE, PACKAGE_VERSION
Fails loudly (exit != 0) when a declaration it needs has changed shape."""
import sys, os, re, subprocess, tempfile, shutil
repo, out = sys.argv[1], sys.argv[2]

def die(m):
    sys.stderr.write("gen_libpm: " + m + "\n"); sys.exit(1)

def src(path):
    p = os.path.join(repo, path)
    if not os.path.exists(p):
        die("missing " + path)
    return open(p, encoding="latin-1").read()

libc, libh, cli, xread, proto = (src("src/powerman/libpowerman.c"), src("src/powerman/libpowerman.h"),
                                 src("src/powerman/powerman.c"), src("src/libcommon/xread.c"), src("src/powerman/client_proto.h"))

# ---- shapes the model relies on -------------------------------------------------------------------------
m = re.search(r"_server_retcode\s*\(\s*struct list_struct \*resp\s*\)\s*\{(.*?)\n\}", libc, re.S)
if not m:
    die("_server_retcode(struct list_struct *resp) not found")
body = m.group(1)
if not re.search(r'sscanf\s*\(\s*resp->data\s*,\s*"%d "\s*,\s*&code\s*\)\s*==\s*1', body):
    die('_server_retcode no longer scans each line with sscanf(resp->data, "%d ", &code) == 1')
if not re.search(r"pm_err_t\s+err\s*=\s*(PM_\w+)\s*;", body):
    die("_server_retcode: initial value of err not found")
labels = re.findall(r"\bcase\s+([A-Za-z_0-9]+)\s*:", body)
if not labels:
    die("_server_retcode: no case labels")
enum_names = re.findall(r"^\s*(PM_[A-Z0-9_]+)\s*=", libh, re.M)
for need in ["PM_ESUCCESS", "PM_EBADHAND", "PM_ESERVEREOF", "PM_ESERVERPARSE", "PM_ERRNOVALID", "PM_ENOMEM", "PM_UNKNOWN", "PM_OFF", "PM_ON"]:
    if need not in enum_names:
        die("enumerator %s not found in libpowerman.h" % need)
m = re.search(r"^\s*#\s*define\s+CHUNKSIZE\s+(\d+)\s*$", xread, re.M)
if not m:
    die("CHUNKSIZE not found in xread.c")
chunksize = int(m.group(1))
codes = []
for name, s in re.findall(r'^\s*#\s*define\s+(CP_(?:RSP|ERR)_\w+|CP_VERSION)\s+"(\d\d\d) ', proto, re.M):
    codes.append((name, int(s)))
if len(codes) < 10 or "CP_VERSION" not in [n for n, _ in codes]:
    die("CP_RSP_*/CP_ERR_*/CP_VERSION line macros of client_proto.h not recognised")
# formats the model interprets with its %s-only mini printf / scanf
for name in ["CP_STATUS", "CP_ON", "CP_OFF", "CP_CYCLE", "CP_INFO_XSTATUS", "CP_INFO_XNODES", "CP_VERSION", "CP_NODES", "CP_QUIT", "CP_EXPRANGE", "CP_TELEMETRY"]:
    mm = re.search(r'^\s*#\s*define\s+%s\s+((?:"[^"\n]*"|CP_EOL|\s)+?)\s*$' % name, proto, re.M)
    if not mm:
        die("format macro %s not found" % name)
    lit = "".join(re.findall(r'"([^"]*)"', mm.group(1)))
    if re.search(r"%(?!s)", lit):
        die("format %s contains a conversion other than %%s: %r" % (name, lit))

# ---- probes ---------------------------------------------------------------------------------------------
tmp = tempfile.mkdtemp(prefix="genlibpm.")
inc = ["-DHAVE_CONFIG_H", "-I%s/config" % repo, "-I%s/src/liblsd" % repo, "-I%s/src/libcommon" % repo, "-I%s/src/powerman" % repo]
p1 = os.path.join(tmp, "p1.c")
open(p1, "w").write(r'''
#include "libpowerman.c"
static int one(long code) {
    char line[64]; struct list_struct n;
    snprintf(line, sizeof line, "%ld x\r\n", code);
    n.data = line; n.next = NULL; n.freefun = NULL;
    return _server_retcode(&n);
}
int main(void) {
    long c;
''' + "".join('    printf("E %s %%d\\n", (int)%s);\n' % (n, n) for n in enum_names)
    + "".join('    printf("L %%d %%d\\n", (int)(%s), one((long)(%s)));\n' % (l, l) for l in labels) + r'''
    printf("D %d\n", (int)_server_retcode(NULL));
    for (c = -1100; c <= 1100; c++) printf("R %ld %d\n", c, one(c));
    printf("N CP_LINEMAX %d\n", (int)CP_LINEMAX);
    printf("N sizeof_node %d\n", (int)sizeof(((char (*)[CP_LINEMAX])0)[0]));
    return 0;
}
''')
p2 = os.path.join(tmp, "p2.c")
open(p2, "w").write(r'''
#define main powerman_client_main
#include "powerman.c"
#undef main
int main(void) {
    int c; const char *v = PACKAGE_VERSION;
    for (c = -1100; c <= 1100; c++) printf("S %d %d %d\n", c, (int)_suppress(c), getstream(c) == stderr ? 1 : 0);
    printf("V "); while (*v) printf("%02x", (unsigned char)*v++); printf("\n");
    return 0;
}
''')
def build_run(srcf, extra):
    exe = srcf[:-2]
    r = subprocess.run(["timeout", "-s", "KILL", "120", "gcc", "-w", "-O0"] + inc + [srcf] + extra + ["-o", exe], stdout=subprocess.PIPE, stderr=subprocess.STDOUT)
    if r.returncode != 0:
        die("probe %s does not compile against the current tree:\n%s" % (os.path.basename(srcf), r.stdout.decode("latin-1")[-3000:]))
    r = subprocess.run(["timeout", "-s", "KILL", "30", exe], stdout=subprocess.PIPE, stderr=subprocess.STDOUT)
    if r.returncode != 0:
        die("probe %s failed: %s" % (os.path.basename(srcf), r.stdout.decode("latin-1")[-2000:]))
    return r.stdout.decode("latin-1").splitlines()
o1 = build_run(p1, [])
o2 = build_run(p2, ["-static", "-Wl,--unresolved-symbols=ignore-all"])
shutil.rmtree(tmp, ignore_errors=True)

E, table, default, N = {}, {}, None, {}
for l in o1:
    w = l.split()
    if w[0] == "E": E[w[1]] = int(w[2])
    elif w[0] == "D": default = int(w[1])
    elif w[0] == "N": N[w[1]] = int(w[2])
for l in o1:
    w = l.split()
    if w[0] in ("L", "R"):
        c, e = int(w[1]), int(w[2])
        if e != default:
            if table.get(c, e) != e: die("inconsistent probe")
            table[c] = e
        elif c in table:
            die("inconsistent probe for code %d" % c)
if default != E["PM_ESERVERPARSE"]:
    die("_server_retcode on an empty response is %r, expected PM_ESERVERPARSE" % default)
supp, errc, ver = [], [], None
for l in o2:
    w = l.split()
    if w[0] == "S":
        if w[2] == "1": supp.append(int(w[1]))
        if w[3] == "1": errc.append(int(w[1]))
    elif w[0] == "V": ver = bytes.fromhex(w[1]) if len(w) > 1 else b""
if ver is None:
    die("PACKAGE_VERSION not printed")

def coqbytes(b):
    return "[" + "; ".join(str(x) for x in b) + "]%N"
def zl(xs):
    return "[" + "; ".join(str(x) for x in xs) + "]%Z"
L = ["(* GENERATED by gen/gen_libpm.py from the current /repo tree -- do not edit *)",
     "From Coq Require Import List NArith ZArith.", "From PM Require Import Base.Bytes.", "Import ListNotations.", ""]
for k in enum_names:
    L.append("Definition %s : Z := %d%%Z." % (k, E[k]))
L.append("")
L.append("(* `_server_retcode`: value assigned to err for a line whose leading integer is the key (evaluated by calling the")
L.append("   real function on every case label of its source and on -1100..1100); any other integer leaves err unchanged *)")
L.append("Definition retcode_table : list (Z * Z) := [%s]%%Z." % "; ".join("(%d, %d)" % (c, table[c]) for c in sorted(table)))
L.append("Definition retcode_default : Z := %d%%Z." % default)
L.append("")
L.append("(* codes of the response lines powermand can send (CP_RSP_*, CP_ERR_*, CP_VERSION of client_proto.h) *)")
L.append("Definition server_codes : list Z := %s." % zl(sorted(set(c for _, c in codes))))
L.append("")
L.append("(* powerman.c: `_suppress(num)` / `getstream(num) == stderr` evaluated on -1100..1100 *)")
L.append("Definition cli_suppress : list Z := %s." % zl(supp))
L.append("Definition cli_stderr : list Z := %s." % zl(errc))
L.append("Definition XREAD_CHUNKSIZE : Z := %d%%Z." % chunksize)
L.append("Definition PACKAGE_VERSION : text := %s." % coqbytes(ver))
open(os.path.join(out, "GenLibPm.v"), "w").write("\n".join(L) + "\n")
