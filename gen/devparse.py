#!/usr/bin/env python3
"""Independent reader of powerman device specification files (.dev)   (DESIGN §3.1, relation R-SPEC)

Written from the grammar in src/powerman/parse_tab.y and the scanner rules in parse_lex.l, NOT derived from them
mechanically: on every check run its output is compared with what the real bison/flex parser builds
(harness/specdump.c), on the shipped files and on mutated copies.

  lex(data)            -> list of Tok          (flex semantics: longest match, first rule wins ties)
  parse(data)          -> list of Spec         (raises Refuse where the real parser exits, Unsupported for
                                                 constructs this reader does not model: include, device/node/...)
  dump(specs, pmnum)   -> canonical text, the same format harness/specdump.c prints (without nsub= fields,
                          which are filled in by the extracted Coq model RegexSyn.ngroups resp. glibc's re_nsub)
"""
import re, sys, os

LONG_MAX = 2 ** 63 - 1
STRING_BUF = 8192              # parse_lex.l: static char string_buf[8192]


# Behaviour switches that follow proposed repairs once they are applied to the tree (fixes/F14, fixes/F15); set by
# configure(repo) from the CURRENT parse_tab.y / parse_lex.l, so that the reader models the code as it is now.
LOGIN_REQUIRED = False         # F14: makeSpec() refuses a specification without a login script
STRING_BOUND_CHECKED = False   # F15: the lexer refuses a string literal that does not fit string_buf


def configure(repo):
    global LOGIN_REQUIRED, STRING_BOUND_CHECKED, DUP_PLUG_REFUSED
    y = open(os.path.join(repo, "src/powerman/parse_tab.y")).read()
    l = open(os.path.join(repo, "src/powerman/parse_lex.l")).read()
    LOGIN_REQUIRED = re.search(r"prescripts\[PM_LOG_IN\]\s*==\s*NULL\s*\)\s*_errormsg", y) is not None
    STRING_BOUND_CHECKED = re.search(r"string_buf_ptr\s*>=\s*string_buf\s*\+\s*sizeof\s*\(\s*string_buf\s*\)\s*-\s*1", l) is not None
    # F34: string_list refuses a repeated plug name as soon as the second occurrence is reduced
    DUP_PLUG_REFUSED = re.search(r'_errormsg\(\s*"duplicate plug name"\s*\)', y) is not None


class Refuse(Exception):
    """the real parser refuses this input (err_exit / yyerror): exit status 1"""
    def __init__(self, line, why):
        Exception.__init__(self, "%s::%d" % (why, line))
        self.line, self.why = line, why


class Unsupported(Exception):
    """valid or invalid, this reader does not model it (never produced by shipped files)"""


class Tok:
    __slots__ = ("kind", "val", "line", "start", "end")

    def __init__(self, kind, val, line, start, end):
        self.kind, self.val, self.line, self.start, self.end = kind, val, line, start, end

    def __repr__(self):
        return "Tok(%s,%r,l%d)" % (self.kind, self.val, self.line)


# keyword rules of parse_lex.l in file order (order only matters between equal-length matches, and no two
# keywords are equal, so it does not; kept anyway)
KEYWORDS = [
    (b"listen", "LISTEN"), (b"tcpwrappers", "TCP_WRAPPERS"), (b"plug_log_level", "PLUG_LOG_LEVEL"),
    (b"timeout", "DEV_TIMEOUT"), (b"pingperiod", "PING_PERIOD"), (b"specification", "SPEC"),
    (b"expect", "EXPECT"), (b"setplugstate", "SETPLUGSTATE"), (b"setresult", "SETRESULT"),
    (b"foreachnode", "FOREACHNODE"), (b"foreachplug", "FOREACHPLUG"), (b"ifoff", "IFOFF"), (b"ifon", "IFON"),
    (b"send", "SEND"), (b"delay", "DELAY"), (b"login", "LOGIN"), (b"logout", "LOGOUT"),
    (b"status", "STATUS"), (b"status_all", "STATUS_ALL"), (b"on", "ON"), (b"on_ranged", "ON_RANGED"),
    (b"on_all", "ON_ALL"), (b"off", "OFF"), (b"off_ranged", "OFF_RANGED"), (b"off_all", "OFF_ALL"),
    (b"cycle", "CYCLE"), (b"cycle_ranged", "CYCLE_RANGED"), (b"cycle_all", "CYCLE_ALL"),
    (b"reset", "RESET"), (b"reset_ranged", "RESET_RANGED"), (b"reset_all", "RESET_ALL"), (b"ping", "PING"),
    (b"status_temp", "STATUS_TEMP"), (b"status_temp_all", "STATUS_TEMP_ALL"),
    (b"status_beacon", "STATUS_BEACON"), (b"status_beacon_all", "STATUS_BEACON_ALL"),
    (b"beacon_on", "BEACON_ON"), (b"beacon_on_ranged", "BEACON_ON_RANGED"),
    (b"beacon_off", "BEACON_OFF"), (b"beacon_off_ranged", "BEACON_OFF_RANGED"),
    (b"device", "DEVICE"), (b"node", "NODE"), (b"yes", "YES"), (b"no", "NO"), (b"success", "SUCCESS"),
    (b"{", "BEGIN"), (b"}", "END"), (b"=", "EQUALS"), (b"script", "SCRIPT"), (b"alias", "ALIAS"),
    (b"include", "INCLUDE"),
]
_KW_BY_FIRST = {}
for _k, _n in KEYWORDS:
    _KW_BY_FIRST.setdefault(_k[0], []).append((_k, _n))
for _l in _KW_BY_FIRST.values():
    _l.sort(key=lambda kn: -len(kn[0]))          # longest first

_RE_COMMENT = re.compile(rb"#[^\n]*\n")
_RE_WS = re.compile(rb"[ \t\r]+")
_RE_NUM = re.compile(rb"[0-9]+\.[0-9]*|[0-9]+|\.[0-9]+")      # alternation ordered so that the longest wins
_RE_PLUGNAME = re.compile(rb"plug[ \t]+name")
_RE_STRPLAIN = re.compile(rb'[^\\\n"]+')
_SIMPLE_ESC = {ord("a"): 7, ord("b"): 8, ord("e"): 27, ord("f"): 12, ord("n"): 10, ord("r"): 13, ord("t"): 9,
               ord("v"): 11}


def lex(data):
    """tokens of the INITIAL / lex_str start conditions; `line` = value scanner_line() has when the token is
    returned"""
    toks = []
    i, n, line = 0, len(data), 1
    while i < n:
        c = data[i]
        if c == 0x23:                                             # '#'
            m = _RE_COMMENT.match(data, i)
            if m:
                i = m.end(); line += 1
                continue
            toks.append(Tok("UNRECOGNIZED", data[i:i + 1], line, i, i + 1)); i += 1
            continue
        if c in b" \t\r":
            i = _RE_WS.match(data, i).end()
            continue
        if c == 0x0a:
            line += 1; i += 1
            continue
        m = _RE_NUM.match(data, i)
        if m:
            toks.append(Tok("NUMERIC", m.group(0), line, i, m.end())); i = m.end()
            continue
        if c == 0x24:
            toks.append(Tok("MATCHPOS", b"$", line, i, i + 1)); i += 1
            continue
        if c == 0x22:                                             # '"' : start condition lex_str
            start = i
            i += 1
            buf = bytearray()
            closed = False
            while i < n:
                d = data[i]
                if d == 0x22:
                    i += 1; closed = True
                    break
                if d == 0x0a:
                    raise Refuse(line, "parse error")            # yyerror() on a raw newline inside a string
                if d == 0x5c:                                     # backslash
                    if i + 1 >= n:
                        # a lone backslash at end of input matches no lex_str rule: flex's default rule echoes it;
                        # then EOF inside the string
                        i += 1
                        break
                    e = data[i + 1]
                    seg = data[i + 1:i + 4]
                    if len(seg) == 3 and all(0x30 <= x <= 0x39 for x in seg):
                        # \ddd : strtol(&yytext[1], NULL, 8) stored into a char
                        v = 0
                        for x in seg:
                            if 0x30 <= x <= 0x37:
                                v = v * 8 + (x - 0x30)
                            else:
                                break
                        buf.append(v & 0xff)
                        i += 4
                        continue
                    if e in _SIMPLE_ESC:
                        buf.append(_SIMPLE_ESC[e]); i += 2
                        continue
                    buf.append(e); i += 2                         # \\(.|\n) : the character itself (line NOT counted)
                    continue
                m = _RE_STRPLAIN.match(data, i)
                buf += m.group(0); i = m.end()
            if not closed:
                raise Refuse(line, "EOF inside string")
            if STRING_BOUND_CHECKED and len(buf) >= STRING_BUF - 1:
                raise Refuse(line, "string too long")
            if len(buf) >= STRING_BUF:
                raise Unsupported("string literal of %d bytes overflows string_buf (finding F15, property C18)" % len(buf))
            z = buf.find(b"\0")                                   # xstrdup(string_buf): C string
            if z >= 0:
                buf = buf[:z]
            toks.append(Tok("STRING", bytes(buf), line, start, i))
            continue
        best = None
        for k, name in _KW_BY_FIRST.get(c, ()):
            if data.startswith(k, i):
                best = (k, name)
                break
        m = _RE_PLUGNAME.match(data, i) if c == 0x70 else None
        if m and (best is None or len(m.group(0)) > len(best[0])):
            toks.append(Tok("PLUG_NAME", m.group(0), line, i, m.end())); i = m.end()
            continue
        if best:
            if best[1] == "INCLUDE":
                raise Unsupported("include")
            toks.append(Tok(best[1], best[0], line, i, i + len(best[0]))); i += len(best[0])
            continue
        toks.append(Tok("UNRECOGNIZED", data[i:i + 1], line, i, i + 1)); i += 1
    toks.append(Tok("EOF", b"", line, n, n))
    return toks


# ---------------------------------------------------------------------------------------------- values
def c_strtol0(t):
    """strtol(t, &end, 0) on the text of a TOK_NUMERIC_VAL; returns (value, nconsumed, erange)"""
    i, v = 0, 0
    if t[:1] == b"0":
        while i < len(t) and 0x30 <= t[i] <= 0x37:
            v = v * 8 + (t[i] - 0x30); i += 1
    else:
        while i < len(t) and 0x30 <= t[i] <= 0x39:
            v = v * 10 + (t[i] - 0x30); i += 1
    if v > LONG_MAX:
        return LONG_MAX, i, True
    return v, i, False


def to_int(v):
    return ((v + 2 ** 31) % 2 ** 32) - 2 ** 31                    # long -> int conversion (gcc, x86-64)


def strtolong(tok):
    v, used, erange = c_strtol0(tok.val)
    if v == 0 and used == 0:
        raise Refuse(tok.line, "error parsing long integer value")
    if erange:
        raise Refuse(tok.line, "long integer value would cause under/overflow")
    return to_int(v)


def strtodouble(tok):
    v = float(tok.val.decode("ascii"))                            # correctly rounded, as glibc strtod
    if v == float("inf"):
        raise Refuse(tok.line, "double value would cause overflow")
    return v


def doubletotv(val):
    """_doubletotv: tv_sec = (val * 10.0)/10; tv_usec = (val - tv_sec) * 1000000.0  (C double arithmetic,
    conversions truncate toward zero).  Result in microseconds."""
    q = (val * 10.0) / 10
    if not (q < 9.0e18):
        raise Unsupported("time value out of range of time_t (undefined conversion)")
    sec = int(q)
    usec = int((val - sec) * 1000000.0)
    return sec * 1000000 + usec


# ---------------------------------------------------------------------------------------------- AST
SCRIPT_TOKENS = {
    "LOGIN": "PM_LOG_IN", "LOGOUT": "PM_LOG_OUT", "STATUS": "PM_STATUS_PLUGS", "STATUS_ALL": "PM_STATUS_PLUGS_ALL",
    "STATUS_TEMP": "PM_STATUS_TEMP", "STATUS_TEMP_ALL": "PM_STATUS_TEMP_ALL", "STATUS_BEACON": "PM_STATUS_BEACON",
    "STATUS_BEACON_ALL": "PM_STATUS_BEACON_ALL", "BEACON_ON": "PM_BEACON_ON", "BEACON_ON_RANGED": "PM_BEACON_ON_RANGED",
    "BEACON_OFF": "PM_BEACON_OFF", "BEACON_OFF_RANGED": "PM_BEACON_OFF_RANGED", "ON": "PM_POWER_ON",
    "ON_RANGED": "PM_POWER_ON_RANGED", "ON_ALL": "PM_POWER_ON_ALL", "OFF": "PM_POWER_OFF",
    "OFF_RANGED": "PM_POWER_OFF_RANGED", "OFF_ALL": "PM_POWER_OFF_ALL", "CYCLE": "PM_POWER_CYCLE",
    "CYCLE_RANGED": "PM_POWER_CYCLE_RANGED", "CYCLE_ALL": "PM_POWER_CYCLE_ALL", "RESET": "PM_RESET",
    "RESET_RANGED": "PM_RESET_RANGED", "RESET_ALL": "PM_RESET_ALL", "PING": "PM_PING",
}
SCRIPT_KEYWORD = {}          # PM_ name -> keyword text as written in a file
for _k, _n in KEYWORDS:
    if _n in SCRIPT_TOKENS:
        SCRIPT_KEYWORD[SCRIPT_TOKENS[_n]] = _k.decode()


class Stmt:
    """kind in send expect setplugstate setresult delay foreachplug foreachnode ifon ifoff"""
    def __init__(self, kind, line, **kw):
        self.kind, self.line = kind, line
        self.text = kw.get("text")            # send fmt / expect regex (bytes)
        self.lit = kw.get("lit")              # setplugstate literal plug name or None
        self.plug_mp = kw.get("plug_mp", -1)
        self.stat_mp = kw.get("stat_mp", -1)
        self.interps = kw.get("interps", [])  # [(name 'ST_ON'|'ST_OFF'|'RT_SUCCESS', regex bytes)]
        self.usec = kw.get("usec", 0)
        self.body = kw.get("body", [])
        self.tok0 = kw.get("tok0")            # index of first token
        self.tok1 = kw.get("tok1")            # index one past the last token


class Spec:
    def __init__(self):
        self.name = b""
        self.timeout = 0
        self.ping = 0
        self.plugs = None
        self.scripts = []          # [(PM_ name, [Stmt], line, tok0, tok1)] in file order
        self.line = 0
        self.tok0 = self.tok1 = None


class _Parser:
    def __init__(self, toks):
        self.t, self.i = toks, 0

    def peek(self):
        return self.t[self.i].kind

    def next(self):
        tok = self.t[self.i]
        self.i += 1
        return tok

    def err(self):
        raise Refuse(self.t[self.i].line, "parse error")

    def expect(self, kind):
        if self.peek() != kind:
            self.err()
        return self.next()

    # configuration_file : config_list ; only `spec` items are modelled
    def file(self):
        specs = []
        while self.peek() != "EOF":
            k = self.peek()
            if k == "SPEC":
                specs.append(self.spec())
            elif k in ("DEVICE", "NODE", "ALIAS", "TCP_WRAPPERS", "LISTEN", "PLUG_LOG_LEVEL"):
                raise Unsupported("powerman.conf item %s in a device file" % k)
            else:
                self.err()
        return specs

    def spec(self):
        s = Spec()
        s.tok0 = self.i
        s.line = self.next().line
        name = self.expect("STRING")
        self.expect("BEGIN")
        nitems = 0
        while True:
            k = self.peek()
            if k == "DEV_TIMEOUT":
                self.next()
                s.timeout = doubletotv(strtodouble(self.expect("NUMERIC")))
            elif k == "PING_PERIOD":
                self.next()
                s.ping = doubletotv(strtodouble(self.expect("NUMERIC")))
            elif k == "PLUG_NAME":
                self.next()
                self.expect("BEGIN")
                names = [self.expect("STRING").val]
                while self.peek() == "STRING":
                    t = self.next()
                    if DUP_PLUG_REFUSED and t.val in names:
                        raise Refuse(t.line, "duplicate plug name")
                    names.append(t.val)
                end = self.expect("END")
                if s.plugs is not None:
                    raise Refuse(end.line, "duplicate plug list")
                s.plugs = names
            elif k == "SCRIPT":
                t0 = self.i
                line = self.next().line
                kw = self.peek()
                if kw not in SCRIPT_TOKENS:
                    self.err()
                self.next()
                body = self.block()
                pm = SCRIPT_TOKENS[kw]
                if any(x[0] == pm for x in s.scripts):
                    raise Refuse(self.t[self.i - 1].line, "duplicate script")
                s.scripts.append((pm, body, line, t0, self.i))
            else:
                break
            nitems += 1
        if nitems == 0:
            self.err()
        end = self.expect("END")
        if LOGIN_REQUIRED and not any(x[0] == "PM_LOG_IN" for x in s.scripts):
            raise Refuse(end.line, "specification has no login script")
        s.name = name.val
        s.tok1 = self.i
        return s

    def block(self):
        self.expect("BEGIN")
        stmts = [self.stmt()]
        while self.peek() != "END":
            stmts.append(self.stmt())
        self.next()
        return stmts

    def regmatch(self):
        self.expect("MATCHPOS")
        return self.expect("NUMERIC")

    def stmt(self):
        t0 = self.i
        tok = self.next()
        k = tok.kind
        if k == "EXPECT":
            st = Stmt("expect", tok.line, text=self.expect("STRING").val)
        elif k == "SEND":
            st = Stmt("send", tok.line, text=self.expect("STRING").val)
        elif k == "DELAY":
            st = Stmt("delay", tok.line, usec=doubletotv(strtodouble(self.expect("NUMERIC"))))
        elif k == "SETPLUGSTATE":
            lit, mp1, mp2 = None, None, None
            if self.peek() == "STRING":
                lit = self.next().val
                mp2 = self.regmatch()
            else:
                a = self.regmatch()
                if self.peek() == "MATCHPOS":
                    mp1, mp2 = a, self.regmatch()
                else:
                    mp2 = a
            interps = []
            while self.peek() in ("ON", "OFF"):
                w = self.next()
                self.expect("EQUALS")
                interps.append(("ST_ON" if w.kind == "ON" else "ST_OFF", self.expect("STRING").val))
            # makePreStmt: mp1 = mp1str ? _strtolong(mp1str) : -1, same for mp2 (mp1 first)
            p = strtolong(mp1) if mp1 is not None else -1
            q = strtolong(mp2)
            # makeStmt: a literal plug name leaves plug_mp at its calloc'ed 0
            st = Stmt("setplugstate", tok.line, lit=lit, plug_mp=(0 if lit is not None else p), stat_mp=q, interps=interps)
        elif k == "SETRESULT":
            mp1 = self.regmatch()
            mp2 = self.regmatch()
            interps = []
            if self.peek() != "SUCCESS":
                self.err()
            while self.peek() == "SUCCESS":
                self.next()
                self.expect("EQUALS")
                interps.append(("RT_SUCCESS", self.expect("STRING").val))
            st = Stmt("setresult", tok.line, plug_mp=strtolong(mp1), stat_mp=strtolong(mp2), interps=interps)
        elif k in ("FOREACHNODE", "FOREACHPLUG", "IFOFF", "IFON"):
            st = Stmt(k.lower(), tok.line, body=self.block())
        else:
            self.i -= 1
            self.err()
        st.tok0, st.tok1 = t0, self.i
        return st


def parse_tokens(toks):
    return _Parser(toks).file()


def parse(data):
    return parse_tokens(lex(data))


def first_of_name(specs):
    """findSpec() returns the first specification with a given name; later duplicates are unreachable"""
    seen, out = set(), []
    for s in specs:
        if s.name not in seen:
            seen.add(s.name)
            out.append(s)
    return out


# ---------------------------------------------------------------------------------------------- dump
def hx(b):
    return b.hex() if b else "-"


STMT_WORD = {"send": "SEND", "expect": "EXPECT", "setplugstate": "SETPLUGSTATE", "setresult": "SETRESULT",
             "delay": "DELAY", "foreachplug": "FOREACHPLUG", "foreachnode": "FOREACHNODE", "ifon": "IFON",
             "ifoff": "IFOFF"}


def dump_stmts(stmts, depth, num, out):
    for st in stmts:
        k = st.kind
        if k == "send":
            out.append("%d SEND %s" % (depth, hx(st.text)))
        elif k == "expect":
            out.append("%d EXPECT %s" % (depth, hx(st.text)))
        elif k == "delay":
            out.append("%d DELAY %d" % (depth, st.usec))
        elif k == "setplugstate":
            out.append("%d SETPLUGSTATE %s %d %d %d" % (depth, ("=" + hx(st.lit)) if st.lit is not None else "none",
                                                        st.plug_mp, st.stat_mp, len(st.interps)))
            for (n, r) in st.interps:
                out.append("%d INTERP %d %s" % (depth, num[n], hx(r)))
        elif k == "setresult":
            out.append("%d SETRESULT %d %d %d" % (depth, st.plug_mp, st.stat_mp, len(st.interps)))
            for (n, r) in st.interps:
                out.append("%d INTERP %d %s" % (depth, num[n], hx(r)))
        else:
            out.append("%d %s %d" % (depth, STMT_WORD[k], len(st.body)))
            dump_stmts(st.body, depth + 1, num, out)


def dump(specs, num):
    """num: dict PM_*/ST_*/RT_* name -> number in the current tree (read from the headers by the caller)"""
    out = []
    for s in first_of_name(specs):
        out.append("SPEC %s %d %d" % (hx(s.name), s.timeout, s.ping))
        out.append("PLUGS " + ("none" if s.plugs is None else " ".join(["%d" % len(s.plugs)] + [hx(p) for p in s.plugs])))
        for (pm, body, line, _, _) in sorted(s.scripts, key=lambda x: num[x[0]]):
            out.append("SCRIPT %d %d" % (num[pm], len(body)))
            dump_stmts(body, 0, num, out)
        out.append("ENDSPEC")
    return out


# ---------------------------------------------------------------------------------------------- fingerprint
# mirror of coq/Model/SpecDigest.v (the Coq side is proved equal to the numbers gen_specs.py writes)
DG_MOD, DG_MUL = 2305843009213693951, 1000003
_BLOCK_TAG = {"foreachplug": 6, "foreachnode": 7, "ifon": 8, "ifoff": 9}


def _dg_fold(l):
    acc = 0
    for x in l:
        acc = (acc * DG_MUL + x + 7) & DG_MOD
    return acc


def _ser_text(t):
    return [len(t)] + list(t)


def _ser_z(z):
    return [0, 0] if z == 0 else ([1, z] if z > 0 else [2, -z])


def _ser_interps(il):
    out = [len(il)]
    for (code, r) in il:
        out += _ser_z(code) + _ser_text(r)
    return out


def _ser_stmt(st):
    """st: plain tuple, see plain_of_tree / plain_of_dump"""
    k = st[0]
    if k == "send":
        return [1] + _ser_text(st[1])
    if k == "expect":
        return [2] + _ser_text(st[1])
    if k == "setplugstate":
        return [3] + ([0] if st[1] is None else [1] + _ser_text(st[1])) + _ser_z(st[2]) + _ser_z(st[3]) + _ser_interps(st[4])
    if k == "setresult":
        return [4] + _ser_z(st[1]) + _ser_z(st[2]) + _ser_interps(st[3])
    if k == "delay":
        return [5] + _ser_z(st[1])
    out = [_BLOCK_TAG[k], len(st[1])]
    for x in st[1]:
        out += _ser_stmt(x)
    return out


def digest_plain(sp):
    """sp = (name, timeout, ping, plugs|None, [(idx, [stmt])])"""
    name, tmo, ping, plugs, scripts = sp
    hdr = _ser_text(name) + _ser_z(tmo) + _ser_z(ping)
    if plugs is None:
        hdr += [0]
    else:
        hdr += [1, len(plugs)]
        for pl in plugs:
            hdr += _ser_text(pl)
    acc = _dg_fold(hdr)
    for (idx, body) in scripts:
        l = _ser_z(idx) + [len(body)]
        for st in body:
            l += _ser_stmt(st)
        acc = (acc + _dg_fold(l)) & DG_MOD
    return acc


def plain_of_tree(s, num):
    def stmts(l):
        out = []
        for st in l:
            if st.kind in ("send", "expect"):
                out.append((st.kind, st.text))
            elif st.kind == "delay":
                out.append(("delay", st.usec))
            elif st.kind == "setplugstate":
                out.append(("setplugstate", st.lit, st.plug_mp, st.stat_mp, [(num[n], r) for (n, r) in st.interps]))
            elif st.kind == "setresult":
                out.append(("setresult", st.plug_mp, st.stat_mp, [(num[n], r) for (n, r) in st.interps]))
            else:
                out.append((st.kind, stmts(st.body)))
        return out
    return (s.name, s.timeout, s.ping, s.plugs, [(num[pm], stmts(b)) for (pm, b, _, _, _) in s.scripts])


def plain_of_dump(lines):
    """the specifications of a dump (either side's format, nsub fields ignored) as plain tuples"""
    unhex = lambda h: b"" if h == "-" else bytes.fromhex(h)
    pos = [0]

    def interps(n):
        out = []
        for _ in range(n):
            w = lines[pos[0]].split(); pos[0] += 1
            assert w[1] == "INTERP"
            out.append((int(w[2]), unhex(w[3])))
        return out

    def block(n):
        out = []
        for _ in range(n):
            w = lines[pos[0]].split(); pos[0] += 1
            k = w[1]
            if k == "SEND":
                out.append(("send", unhex(w[2])))
            elif k == "EXPECT":
                out.append(("expect", unhex(w[2])))
            elif k == "DELAY":
                out.append(("delay", int(w[2])))
            elif k == "SETPLUGSTATE":
                out.append(("setplugstate", None if w[2] == "none" else unhex(w[2][1:]), int(w[3]), int(w[4]), interps(int(w[5]))))
            elif k == "SETRESULT":
                out.append(("setresult", int(w[2]), int(w[3]), interps(int(w[4]))))
            else:
                out.append((k.lower(), block(int(w[2]))))
        return out
    specs = []
    while pos[0] < len(lines):
        w = lines[pos[0]].split(); pos[0] += 1
        assert w[0] == "SPEC", w
        name, tmo, ping = unhex(w[1]), int(w[2]), int(w[3])
        w = lines[pos[0]].split(); pos[0] += 1
        plugs = None if w[1] == "none" else [unhex(h) for h in w[2:]]
        scripts = []
        while lines[pos[0]].startswith("SCRIPT "):
            w = lines[pos[0]].split(); pos[0] += 1
            scripts.append((int(w[1]), block(int(w[2]))))
        assert lines[pos[0]] == "ENDSPEC"
        pos[0] += 1
        specs.append((name, tmo, ping, plugs, scripts))
    return specs


def read_numbers(repo):
    """PM_* script indices and the ST_/RT_ enum values from the CURRENT headers (plain #define / enum reading)"""
    num = {}
    h = open(os.path.join(repo, "src/powerman/device_private.h")).read()
    for m in re.finditer(r"^\s*#\s*define\s+(PM_[A-Z_]+|NUM_SCRIPTS|MAX_MATCH_POS)\s+(\d+)\b", h, re.M):
        num[m.group(1)] = int(m.group(2))
    a = open(os.path.join(repo, "src/powerman/arglist.h")).read()
    for ename, names in (("InterpState", ("ST_UNKNOWN", "ST_OFF", "ST_ON")), ("InterpResult", ("RT_NONE", "RT_UNKNOWN", "RT_SUCCESS"))):
        m = re.search(r"typedef\s+enum\s*\{([^}]*)\}\s*%s\s*;" % ename, a)
        if not m:
            raise SystemExit("devparse: enum %s not found in arglist.h" % ename)
        v = -1
        for item in m.group(1).split(","):
            item = item.strip()
            if not item:
                continue
            if "=" in item:
                nm, val = [x.strip() for x in item.split("=")]
                v = int(val, 0)
            else:
                nm, v = item, v + 1
            num[nm] = v
        for nme in names:
            if nme not in num:
                raise SystemExit("devparse: %s not found in enum %s" % (nme, ename))
    for pm in set(SCRIPT_TOKENS.values()) | {"NUM_SCRIPTS", "MAX_MATCH_POS"}:
        if pm not in num:
            raise SystemExit("devparse: #define %s not found in device_private.h" % pm)
    return num


if __name__ == "__main__":
    repo = os.environ.get("VERIF_REPO", "/repo")
    configure(repo)
    num = read_numbers(repo)
    for f in sys.argv[1:]:
        try:
            sp = parse(open(f, "rb").read())
            print("FILE", f)
            print("\n".join(dump(sp, num)))
        except Refuse as ex:
            print("FILE", f, "REFUSED", ex)
        except Unsupported as ex:
            print("FILE", f, "UNSUPPORTED", ex)
