/* translator probe for hostlist.c: prints the tunables of the CURRENT tree by compiling the source
 * itself (so that a macro that is an expression, e.g. `1<<25`, is evaluated by the compiler, and in the
 * context hostlist.c uses it: the comparison operand of `hn->num <= MAX_HOST_SUFFIX`). */
#include "hostlist.c"
#include <stdio.h>
void lsd_fatal_error(char *file, int line, char *mesg) { }
void *lsd_nomem_error(char *file, int line, char *mesg) { return NULL; }
int main(void)
{
    unsigned long probe = 0;
    /* largest value v for which `v <= MAX_HOST_SUFFIX` (textually, as the source writes it) holds */
    { unsigned long lo = 0, hi = ~0UL; while (lo < hi) { unsigned long mid = lo + (hi - lo) / 2 + 1; if (mid <= MAX_HOST_SUFFIX) lo = mid; else hi = mid - 1; } probe = lo; }
    printf("N MAX_HOST_SUFFIX %lu\n", probe);
    printf("N MAX_RANGE %lu\n", (unsigned long)(MAX_RANGE));
    printf("N MAX_RANGES %lu\n", (unsigned long)(MAX_RANGES));
    printf("N HOSTLIST_CHUNK %lu\n", (unsigned long)(HOSTLIST_CHUNK));
    printf("N MAXHOSTNAMELEN %lu\n", (unsigned long)(MAXHOSTNAMELEN));
    printf("N MAXHOSTRANGELEN %lu\n", (unsigned long)(MAXHOSTRANGELEN));
    printf("N SIZEOF_ULONG %lu\n", (unsigned long)sizeof(unsigned long));
    printf("N SIZEOF_INT %lu\n", (unsigned long)sizeof(int));
    printf("N SIZEOF_RANGE %lu\n", (unsigned long)sizeof(struct _range));
#ifdef NDEBUG
    printf("N NDEBUG 1\n");
#else
    printf("N NDEBUG 0\n");
#endif
#if WANT_RECKLESS_HOSTRANGE_EXPANSION
    printf("N RECKLESS 1\n");
#else
    printf("N RECKLESS 0\n");
#endif
#if WITH_PTHREADS
    printf("N PTHREADS 1\n");
#else
    printf("N PTHREADS 0\n");
#endif
    return 0;
}
