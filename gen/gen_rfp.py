#!/usr/bin/env python3
"""translator for C19: the command words, status words and every stdout format string of the CURRENT
src/redfishpower/redfishpower.c (+ redfishpower_defs.h)  ->  GenRfp.v

For each printf() of the functions the model covers, the format string is emitted with literal / macro
arguments already substituted (printf("%s: %s\\n", pm->plugname, "ok") -> "%s: ok\\n"); the model prints
through these formats (Model/Redfish.v `fmt`), the specification (Spec/RedfishSpec.v) spells the documented
lines out by hand, so an edit of a message text or status word in the source re-checks (and breaks) the
lemmas that connect them.  Fails loudly when a function it needs is missing or has a different number of
printf calls than the model knows about."""
import sys, os, re
repo, out = sys.argv[1], sys.argv[2]


def die(m):
    sys.stderr.write("gen_rfp: " + m + "\n")
    sys.exit(1)


def strip_comments(s):
    o, i, n = [], 0, len(s)
    while i < n:
        c = s[i]
        if c == '"' or c == "'":
            j = i + 1
            while j < n and s[j] != c:
                j += 2 if s[j] == "\\" else 1
            o.append(s[i:j + 1]); i = j + 1
        elif s.startswith("/*", i):
            j = s.find("*/", i + 2)
            if j < 0:
                die("unterminated comment")
            o.append(" "); i = j + 2
        elif s.startswith("//", i):
            j = s.find("\n", i)
            i = n if j < 0 else j
        else:
            o.append(c); i += 1
    return "".join(o)


def match_close(s, i, op, cl):
    """s[i] == op; index of the matching close, string/char literals skipped"""
    depth, n = 0, len(s)
    while i < n:
        c = s[i]
        if c == '"' or c == "'":
            j = i + 1
            while j < n and s[j] != c:
                j += 2 if s[j] == "\\" else 1
            i = j + 1
            continue
        if c == op:
            depth += 1
        elif c == cl:
            depth -= 1
            if depth == 0:
                return i
        i += 1
    die("unbalanced %s%s" % (op, cl))


def func_body(src, name):
    for m in re.finditer(r"\b%s\s*\(" % re.escape(name), src):
        p = match_close(src, m.end() - 1, "(", ")")
        k = p + 1
        while k < len(src) and src[k].isspace():
            k += 1
        if k < len(src) and src[k] == "{":
            return src[k:match_close(src, k, "{", "}") + 1]
    die("function %s not found in redfishpower.c" % name)


ESC = {"n": "\n", "t": "\t", "\\": "\\", '"': '"', "'": "'", "0": "\0", "r": "\r"}


def c_unescape(lit):
    o, i = [], 0
    while i < len(lit):
        if lit[i] == "\\":
            if lit[i + 1] not in ESC:
                die("unsupported escape \\%s in %r" % (lit[i + 1], lit))
            o.append(ESC[lit[i + 1]]); i += 2
        else:
            o.append(lit[i]); i += 1
    return "".join(o)


def split_args(a):
    args, depth, cur, i = [], 0, [], 0
    while i < len(a):
        c = a[i]
        if c == '"' or c == "'":
            j = i + 1
            while a[j] != c:
                j += 2 if a[j] == "\\" else 1
            cur.append(a[i:j + 1]); i = j + 1
            continue
        if c in "([{":
            depth += 1
        elif c in ")]}":
            depth -= 1
        if c == "," and depth == 0:
            args.append("".join(cur).strip()); cur = []
        else:
            cur.append(c)
        i += 1
    args.append("".join(cur).strip())
    return args


def literal_value(arg, defines):
    """value of an argument that is a sequence of string literals / string macros, else None"""
    toks = re.findall(r'"(?:[^"\\]|\\.)*"|[A-Za-z_][A-Za-z_0-9]*|\S', arg)
    if not toks:
        return None
    v = []
    for t in toks:
        if t.startswith('"'):
            v.append(c_unescape(t[1:-1]))
        elif t in defines:
            v.append(defines[t])
        else:
            return None
    return "".join(v)


def printfs(body, defines):
    """resolved formats of the printf(...) calls (stdout only) of a function body, in source order"""
    res = []
    for m in re.finditer(r"(?<![A-Za-z_0-9])printf\s*\(", body):
        e = match_close(body, m.end() - 1, "(", ")")
        args = split_args(body[m.end():e])
        f = literal_value(args[0], defines)
        if f is None:
            die("printf with a non-literal format: " + body[m.start():e + 1])
        pieces = re.split(r"(%ld|%[sd%])", f)
        o, k = [], 1
        for p in pieces:
            if p in ("%s", "%d", "%ld"):
                if k >= len(args):
                    die("printf argument count: " + body[m.start():e + 1])
                lv = literal_value(args[k], defines) if p == "%s" else None
                o.append(lv.replace("%", "%%") if lv is not None else ("%d" if p == "%ld" else p))
                k += 1
            else:
                o.append(p)
        res.append("".join(o))
    return res


def str_defines(txt):
    d = {}
    for m in re.finditer(r'^\s*#\s*define\s+([A-Za-z_0-9]+)\s+"((?:[^"\\]|\\.)*)"\s*$', txt, re.M):
        d[m.group(1)] = c_unescape(m.group(2))
    return d


src_raw = open(os.path.join(repo, "src/redfishpower/redfishpower.c")).read()
defs_raw = open(os.path.join(repo, "src/redfishpower/redfishpower_defs.h")).read()
src = strip_comments(src_raw)
defines = str_defines(strip_comments(defs_raw))
defines.update(str_defines(src))
for k in ("CMD_STAT", "CMD_ON", "CMD_OFF", "STATUS_ON", "STATUS_OFF", "STATUS_ERROR"):
    if k not in defines:
        die("string macro %s not found" % k)

# function -> (expected number of stdout printf calls, names for the ones the model uses (None = unused))
WANT = {
    "help": (12, ["help_%d" % i for i in range(12)]),
    "stat_cmd_plug": (3, ["stat_not_mapped", "stat_path_not_set", "stat_debug"]),
    "stat_cmd": (2, ["stat_illegal_hosts", "stat_unknown_plug"]),
    "process_waiters": (3, ["pw_stat", "pw_off_ok", "pw_dependency"]),
    "stat_process": (1, ["stat_result"]),
    "power_cmd_plug": (3, ["power_not_mapped", "power_path_not_set", "power_debug"]),
    "phased_power_on_check": (2, ["phased_active", "phased_wait"]),
    "power_cmd": (2, ["power_illegal_hosts", "power_unknown_plug"]),
    "send_status_poll": (1, ["poll_path_not_set"]),
    "on_off_process": (5, ["onoff_ok", None, None, None, None]),
    "auth": (1, ["auth_usage"]),
    "setup_plug": (2, ["setplugs_bad_index", "setplugs_index_range"]),
    "setplugs": (4, ["setplugs_usage", "setplugs_illegal_plugs", "setplugs_illegal_indices", "setplugs_count"]),
    "setpath": (4, ["setpath_usage", "setpath_bad_cmd", "setpath_illegal_hosts", "setpath_unknown_plug"]),
    "settimeout": (1, ["settimeout_invalid"]),
    "process_cmd": (1, ["unknown_command"]),
}
vals = {}
for fn, (n, names) in WANT.items():
    fs = printfs(func_body(src, fn), defines)
    if len(fs) != n:
        die("%s(): expected %d stdout printf calls, found %d: %r" % (fn, n, len(fs), fs))
    for nm, f in zip(names, fs):
        if nm:
            vals[nm] = f

# the shell loop: prompt and the line for a failing host
fs = printfs(func_body(src, "shell"), defines)
if len(fs) != 2:
    die("shell(): expected 2 stdout printf calls (prompt, test-mode error line), found %r" % fs)
vals["prompt"], vals["shell_error"] = fs

# F17: a waiter whose root ancestor is not defined: either the assert (unfixed) or a message
b = func_body(src, "send_initial_parent_queries")
fs = printfs(b, defines)
has_assert = re.search(r"\bassert\s*\(\s*root_plugname\s*\)", b) is not None
if has_assert and not fs:
    dangling = None
elif len(fs) == 1 and not has_assert:
    dangling = fs[0]
else:
    die("send_initial_parent_queries(): neither `assert(root_plugname)` nor exactly one message: %r" % fs)

# F20: does an ancestor query that cannot be created fail the waiters (repaired) or is it skipped (lost waiter)?
# one flag per site; the model follows the flags, the theorems need them to be true.
f20_initial = re.search(r"\bprocess_waiters\s*\(", b) is not None
f20_second = re.search(r"\bprocess_waiters\s*\(", func_body(src, "process_waiters")) is not None
ob = func_body(src, "on_off_process")
n_guard = len(re.findall(r"if\s*\(\s*send_status_poll\s*\(\s*pm\s*\)\s*<\s*0\s*\)\s*process_waiters\s*\(", ob))
n_calls = len(re.findall(r"\bsend_status_poll\s*\(", ob))
if n_calls != 2 or n_guard not in (0, 2):
    die("on_off_process(): expected 2 send_status_poll calls, both guarded or both unguarded (found %d calls, %d guarded)" % (n_calls, n_guard))
f20_poll = n_guard == 2


def cmt(s):
    return re.sub(r"[^A-Za-z0-9 %:=,.<>\[\]\\_/-]", "?", repr(s)[1:-1])


def coqtext(s):
    bs = s.encode("latin-1")
    return "[" + "; ".join(str(x) for x in bs) + "]%N"


L = ["(* GENERATED by gen/gen_rfp.py from the current /repo tree (src/redfishpower) -- do not edit *)",
     "From Coq Require Import List NArith.", "From PM Require Import Base.Bytes.", "Import ListNotations.", ""]
for k in ("CMD_STAT", "CMD_ON", "CMD_OFF", "STATUS_ON", "STATUS_OFF", "STATUS_ERROR"):
    L.append("Definition %s : text := %s.   (* %s *)" % (k, coqtext(defines[k]), cmt(defines[k])))
L.append("")
for k in sorted(vals):
    if k.startswith("help_"):
        continue
    L.append("Definition f_%s : text := %s.   (* %s *)" % (k, coqtext(vals[k]), cmt(vals[k])))
L.append("")
L.append("Definition f_help : list text := [%s]." % ";\n  ".join(coqtext(vals["help_%d" % i]) for i in range(12)))
L.append("")
L.append("(* send_initial_parent_queries on a target whose root ancestor is not defined: None = assert(root_plugname) *)")
L.append("Definition f_dangling_parent : option text := %s." % ("None" if dangling is None else "Some (%s)" % coqtext(dangling)))
L.append("")
L.append("(* F20 sites: an ancestor query / status poll that cannot be created fails the waiting descendants *)")
for nm, v in (("fail_waiters_initial", f20_initial), ("fail_waiters_second_pass", f20_second), ("fail_waiters_poll", f20_poll)):
    L.append("Definition %s : bool := %s." % (nm, "true" if v else "false"))
os.makedirs(out, exist_ok=True)
with open(os.path.join(out, "GenRfp.v"), "w") as fh:
    fh.write("\n".join(L) + "\n")
