/* translator probe: evaluates the tables and constants of device.c / client.c / client_proto.h /
 * device_private.h of the CURRENT tree by executing the source's own static functions on their
 * finite domains.  Linked with --unresolved-symbols=ignore-all: only the pure functions are called. */
#include "device.c"
#include <stdio.h>

static long long fake_now_us;
int __wrap_gettimeofday(struct timeval *tv, void *tz) { tv->tv_sec = fake_now_us / 1000000; tv->tv_usec = fake_now_us % 1000000; return 0; }

static void hexs(const char *key, const char *s) { printf("S %s ", key); if (!*s) printf("-"); for (; *s; s++) printf("%02x", (unsigned char)*s); printf("\n"); }

int main(void)
{
    Device d; int i;
    memset(&d, 0, sizeof d);
    for (i = 0; i < NUM_SCRIPTS; i++) d.scripts[i] = (Script)&d;      /* every script "defined" */
    printf("N NUM_SCRIPTS %d\nN MAX_MATCH_POS %d\nN MIN_DEV_BUF %d\nN MAX_DEV_BUF %d\nN MAX_LEVELS %d\nN CP_LINEMAX %d\n",
           NUM_SCRIPTS, MAX_MATCH_POS, MIN_DEV_BUF, MAX_DEV_BUF, MAX_LEVELS, CP_LINEMAX);
#define IDX(x) printf("N " #x " %d\n", x)
    IDX(PM_LOG_IN); IDX(PM_LOG_OUT); IDX(PM_STATUS_PLUGS); IDX(PM_STATUS_PLUGS_ALL); IDX(PM_PING);
    IDX(PM_POWER_ON); IDX(PM_POWER_ON_RANGED); IDX(PM_POWER_ON_ALL); IDX(PM_POWER_OFF); IDX(PM_POWER_OFF_RANGED); IDX(PM_POWER_OFF_ALL);
    IDX(PM_POWER_CYCLE); IDX(PM_POWER_CYCLE_RANGED); IDX(PM_POWER_CYCLE_ALL); IDX(PM_RESET); IDX(PM_RESET_RANGED); IDX(PM_RESET_ALL);
    IDX(PM_STATUS_TEMP); IDX(PM_STATUS_TEMP_ALL); IDX(PM_STATUS_BEACON); IDX(PM_STATUS_BEACON_ALL);
    IDX(PM_BEACON_ON); IDX(PM_BEACON_ON_RANGED); IDX(PM_BEACON_OFF); IDX(PM_BEACON_OFF_RANGED); IDX(PM_RESOLVE);
    IDX(ACT_ESUCCESS); IDX(ACT_EEXPFAIL); IDX(ACT_EABORT); IDX(ACT_ECONNECTTIMEOUT); IDX(ACT_ELOGINTIMEOUT);
    IDX(ST_UNKNOWN); IDX(ST_OFF); IDX(ST_ON); IDX(RT_NONE); IDX(RT_UNKNOWN); IDX(RT_SUCCESS);
    IDX(DEV_NOT_CONNECTED); IDX(DEV_CONNECTING); IDX(DEV_CONNECTED);
#ifdef NDEBUG
    printf("N NDEBUG 1\n");
#else
    printf("N NDEBUG 0\n");
#endif
    for (i = 0; i < NUM_SCRIPTS; i++)
        printf("T script %d all=%d ranged=%d query=%d\n", i, _get_all_script(&d, i), _get_ranged_script(&d, i), _is_query_action(i) ? 1 : 0);
    /* with no variant defined both must answer -1 */
    for (i = 0; i < NUM_SCRIPTS; i++) d.scripts[i] = NULL;
    for (i = 0; i < NUM_SCRIPTS; i++)
        if (_get_all_script(&d, i) != -1 || _get_ranged_script(&d, i) != -1) { printf("E variant lookup ignores dev->scripts\n"); return 2; }
    /* reconnect back-off: with last_retry = now the time left is the whole retry interval */
    for (i = 1; i <= 12; i++) {
        struct timeval tmo; timerclear(&tmo);
        fake_now_us = 1000000000LL; d.last_retry.tv_sec = 1000; d.last_retry.tv_usec = 0; d.retry_count = i;
        if (_time_to_reconnect(&d, &tmo)) { printf("E back-off of zero for retry_count %d\n", i); return 2; }
        printf("T backoff %d usec=%lld\n", i, (long long)tmo.tv_sec * 1000000LL + tmo.tv_usec);
    }
    d.retry_count = 0; { struct timeval tmo; timerclear(&tmo); printf("T backoff 0 immediate=%d\n", _time_to_reconnect(&d, &tmo) ? 1 : 0); }
    hexs("CP_EOL", CP_EOL); hexs("CP_PROMPT", CP_PROMPT); hexs("CP_VERSION", CP_VERSION);
    hexs("CP_HELP", CP_HELP); hexs("CP_QUIT", CP_QUIT); hexs("CP_RESET", CP_RESET); hexs("CP_CYCLE", CP_CYCLE); hexs("CP_ON", CP_ON); hexs("CP_OFF", CP_OFF);
    hexs("CP_NODES", CP_NODES); hexs("CP_DEVICE", CP_DEVICE); hexs("CP_DEVICE_ALL", CP_DEVICE_ALL); hexs("CP_STATUS", CP_STATUS); hexs("CP_STATUS_ALL", CP_STATUS_ALL);
    hexs("CP_TEMP", CP_TEMP); hexs("CP_TEMP_ALL", CP_TEMP_ALL); hexs("CP_BEACON", CP_BEACON); hexs("CP_BEACON_ALL", CP_BEACON_ALL);
    hexs("CP_BEACON_ON", CP_BEACON_ON); hexs("CP_BEACON_OFF", CP_BEACON_OFF); hexs("CP_TELEMETRY", CP_TELEMETRY); hexs("CP_EXPRANGE", CP_EXPRANGE);
    hexs("CP_RSP_QUIT", CP_RSP_QUIT); hexs("CP_RSP_COM_COMPLETE", CP_RSP_COM_COMPLETE); hexs("CP_RSP_QRY_COMPLETE", CP_RSP_QRY_COMPLETE);
    hexs("CP_RSP_TELEMETRY", CP_RSP_TELEMETRY); hexs("CP_RSP_EXPRANGE", CP_RSP_EXPRANGE);
    hexs("CP_ERR_UNKNOWN", CP_ERR_UNKNOWN); hexs("CP_ERR_PARSE", CP_ERR_PARSE); hexs("CP_ERR_TOOLONG", CP_ERR_TOOLONG); hexs("CP_ERR_INTERNAL", CP_ERR_INTERNAL);
    hexs("CP_ERR_HOSTLIST", CP_ERR_HOSTLIST); hexs("CP_ERR_CLIBUSY", CP_ERR_CLIBUSY); hexs("CP_ERR_NOSUCHNODES", CP_ERR_NOSUCHNODES);
    hexs("CP_ERR_COM_COMPLETE", CP_ERR_COM_COMPLETE); hexs("CP_ERR_QRY_COMPLETE", CP_ERR_QRY_COMPLETE); hexs("CP_ERR_UNIMPL", CP_ERR_UNIMPL);
    hexs("CP_INFO_HELP", CP_INFO_HELP); hexs("CP_INFO_STATUS", CP_INFO_STATUS); hexs("CP_INFO_XSTATUS", CP_INFO_XSTATUS); hexs("CP_INFO_DEVICE", CP_INFO_DEVICE);
    hexs("CP_INFO_TELEMETRY", CP_INFO_TELEMETRY); hexs("CP_INFO_NODES", CP_INFO_NODES); hexs("CP_INFO_XNODES", CP_INFO_XNODES);
    hexs("CP_INFO_ACTERROR", CP_INFO_ACTERROR); hexs("CP_INFO_DIAG", CP_INFO_DIAG);
    for (i = 0; i < 1000; i++) printf("%s", (i == 0) ? "T cpclass " : ""), printf("%d", CP_IS_SUCCESS(i) ? 1 : CP_IS_FAILURE(i) ? 2 : 0);
    printf("\n");
    return 0;
}
