"""C06 - no client input can crash, kill, corrupt or wedge the daemon (DESIGN §5 C06).
   Engine R-CLIENT (also used by C02 C03 C04 C15): the request/reply layer of client.c against Model/Client.v."""
import os, sys, json, re
from concurrent.futures import ThreadPoolExecutor
import vlib, pmgen, pmsim

CLI_SRCS = [s for s in pmsim.DAEMON_SRCS if not s.endswith("/client.c")]


def build_cli(ctx):
    if not os.path.exists(os.path.join(ctx.repo, "src/powerman/parse_tab.c.regen")):
        ctx.regen_parser(); open(os.path.join(ctx.repo, "src/powerman/parse_tab.c.regen"), "w").close()
    srcs = [os.path.join(ctx.repo, s) for s in CLI_SRCS] + [os.path.join(vlib.VERIF, "harness", "cli_h.c")]
    return ctx.cc_parallel(srcs, "cli_h", extra=["-Dmain=pm_main", '-DX_SYSCONFDIR="/nonexistent"'],
                           link_extra=["-Wl,--wrap=accept", "-Wl,--wrap=getnameinfo"])


def build_model(ctx):
    return ctx.ocaml_driver("cli_model", "climodel", "cli_drv.ml", cstubs=["devstub.c"], csources=[ctx.repo + "/src/liblsd/hostlist.c"],
                            ccopt="-w -DHAVE_CONFIG_H -I%s/config -I%s/src/liblsd" % (ctx.repo, ctx.repo))


def version_of(ctx):
    import re
    m = re.search(r'#define PACKAGE_VERSION "([^"]*)"', open(os.path.join(ctx.repo, "config/config.h")).read())
    return m.group(1) if m else "verif"


JUNK = [b"", b" ", b"\t", b"foo", b"on", b"off", b"ON n0", b"On n0", b"status", b"STATUS", b"statusx", b"status  n0  extra", b"nodesX", b"helpme",
        b"device", b"device n0", b"devicen0", b"temp", b"beacon", b"flash", b"unflash n0", b"quitx", b"telemetry", b"exprange", b"\xff\xfe\x00on n0",
        b"on n0\x00junk", b"on \x01", b"cycle n[", b"on n[5-1]", b"on n[0-18446744073709551615]", b"on n[0-99999]", b"on n[1-3]]", b"on [", b"on ]", b"on ,",
        b"on n0,,n1", b"on n[1,2", b"off n[a-b]", b"reset n[-1]", b"on n[1--2]", b"status n[00000000000000000001-2]", b"on " + b"x" * 1100,
        b"on n[" + b",".join(b"%d" % i for i in range(300)) + b"]", b"on " + b"n" * 70 + b"1", b"on n0 n1", b"  on   n0  ", b"on\tn0", b"on\rn0",
        # F33 (196f55e): a range ending at ULONG_MAX used to wedge the daemon
        b"on t[18446744073709551615]x", b"on n[18446744073709551615]", b"status n[18446744073709551614-18446744073709551615]", b"off n18446744073709551615"]


# every command word that takes a node list, with every kind of list hostlist_create refuses (and a few it accepts)
for _w in [b"on", b"off", b"cycle", b"reset", b"flash", b"unflash", b"status", b"beacon", b"temp", b"device", b"exprange", b"telemetry", b"nodes", b"help"]:
    for _bad in [b"a[2-", b"b[1", b"a[3-1]", b"[", b"n[1,2", b"n[1-2]x[", b",", b"n0,", b"zz[1-2]"]:
        JUNK.append(_w + b" " + _bad)

# zero-padded numeric parts wider than any fixed scratch buffer (the width a client types is the width the names are printed with)
for _n in (17, 21, 24, 33, 70):
    JUNK += [b"status t[" + b"0" * _n + b"1]", b"on t" + b"0" * _n + b"1", b"status n[" + b"0" * _n + b"-" + b"0" * (_n - 1) + b"2]"]

# more comma-separated ranges inside ONE bracket pair than hostlist.c's fixed array holds (MAX_RANGES = 10240): refused, not written past the array
for _n in (10239, 10240, 10241, 10300):
    JUNK.append(b"on q[" + b",".join(b"%d" % (2 * i) for i in range(_n)) + b"]")
JUNK.append(b"status q[" + b",".join(b"%d-%d" % (3 * i, 3 * i + 1) for i in range(10241)) + b"]")

# printf conversions inside node names (a name is data wherever it is echoed: 209 No such nodes, 205, telemetry)
for _w in (b"on", b"status", b"off", b"cycle", b"temp", b"device"):
    for _t in (b"t%s%s%s%s%s%s", b"rack%5dnode", b"a%c%c%c%c", b"%n%n%n%n", b"t%%x", b"n0,%s", b"x[1-3]%d", b"%999999999s", b"%1$s%2$n"):
        JUNK.append(_w + b" " + _t)

LINEMAX = 131072          # cross-checked against Gen/GenConsts.v in correspond()


def pad_to(word, arg, n):
    """`word<blanks>arg` with exactly n bytes: sscanf("word %s") skips any amount of blanks, so this is the request `word arg`"""
    return word + b" " * (n - len(word) - len(arg)) + arg


def boundary_ops(rng, nodes, k=0):
    """requests at the size limits of the client layer (each a list of ops for client k):
       gate      stripped length CP_LINEMAX-1 / CP_LINEMAX / CP_LINEMAX+1: junk, an otherwise VALID request (interior blanks), and a short
                 request behind / before a huge run of blanks (raw line far beyond the gate, stripped line short)
       reply209  an accepted request (131054..131071 bytes) naming only unknown, incompressible nodes: the 209 reply exceeds CP_LINEMAX
       cbuf      line ends at / around the initial size of the input cbuf (1024), single long lines on a fresh connection, 24-byte follow-up"""
    kind = rng.choice(["gate-junk", "gate-valid", "gate-valid", "gate-padded", "reply209", "cbuf", "cbuf", "cbuf"])
    eol = rng.choice([b"\r\n", b"\n"])
    B = lambda b: "BYTES %d %s" % (k, (b + eol).hex())
    tg = ",".join(rng.sample(nodes, min(len(nodes), rng.randint(1, 3)))).encode()
    word = rng.choice([b"on", b"status", b"off", b"temp"])
    if kind == "gate-junk":
        n = rng.choice([LINEMAX - 1, LINEMAX, LINEMAX + 1])
        return [B((rng.choice([b"on ", b"xx ", b"status "]) + b"x" * n)[:n])]
    if kind == "gate-valid":
        n = rng.choice([LINEMAX - 1, LINEMAX - 1, LINEMAX, LINEMAX + 1])
        # the same request short first (reference outcome), completed, then at the boundary size
        return [B(word + b" " + tg), "DONEALL %d 0 2d" % k, B(pad_to(word, tg, n)), "SAME %d" % k, "DONEALL %d 0 2d" % k]
    if kind == "gate-padded":
        w = rng.choice([b"nodes", b"help", word + b" " + tg])
        pad = rng.choice([LINEMAX - 6, LINEMAX, LINEMAX + 100, 200000])
        line = rng.choice([b" " * pad + w, w + b" " * pad, b" " * (pad // 2) + w + b"\t" * (pad // 2)])
        return [B(w), "DONEALL %d 0 2d" % k, B(line), "SAME %d" % k, "DONEALL %d 0 2d" % k]
    if kind == "reply209":
        n = rng.randint(131054, 131071)
        name = rng.choice([b"q", b"zq", b"x_y"])
        cnt = (n - 3 + 1) // (len(name) + 1)
        lst = b",".join([name] * cnt)
        return [B(pad_to(b"on", lst, n)), B(b"nodes")]
    # cbuf
    pat = rng.choice(["single", "then24", "lf-at"])
    pad = lambda total: b"nodes" + b" " * (total - 5 - len(eol))          # a line of `total` bytes incl. its line end, answered 103
    if pat == "single":
        return [B(pad(rng.randint(1000, 1100)))]
    if pat == "then24":
        return [B(pad(rng.choice([1000, 1000, 999, 1001, 1023, 1024]))), B(pad(24)), B(b"help")]
    a = rng.randint(8, 1015)
    return [B(pad(a)), B(pad(1024 - a + rng.choice([-1, 0, 0, 1]))), B(pad(rng.choice([8, 24, 1024, 1025]))), B(b"nodes")]


def gen_session(rng, cfg):
    nodes = cfg.all_nodes()
    names = nodes + [a for a, _ in cfg.aliases]
    ops = ["CONN"]
    ncli = 1
    gone = set()
    dropped = set()
    if rng.random() < 0.08:
        ops += boundary_ops(rng, nodes)          # on a fresh connection (input cbuf at its initial size, empty history)
    for _ in range(rng.randint(4, 25)):
        k = rng.randrange(ncli)
        if k in dropped:
            # the client record is gone: only callbacks of the actions it left behind can still arrive
            r = rng.random()
            if r < 0.5: ops.append("DONE1 %d %d %s" % (k, rng.choice([0, 0, 1, 2]), "64303a206661696c6564"))
            elif r < 0.8: ops.append(rng.choice(["TELE", "DIAG"]) + " %d %s" % (k, "6f727068616e"))
            continue
        if k in gone:
            continue
        r = rng.random()
        if r < 0.04:
            ops.append("DROP %d" % k); dropped.add(k); continue
        if r < 0.08 and ncli < 4:
            ops.append("CONN"); ncli += 1
        elif r < 0.55:
            w = rng.choice(pmgen.POWER_WORDS + pmgen.QUERY_WORDS + ["device"])
            mode = rng.choice(["subset", "subset", "all", "single", "alias", "unknown", "dup", "none"])
            if mode == "none" and w in pmgen.QUERY_WORDS + ["device"]:
                line = w
            else:
                if mode == "all": t = list(nodes)
                elif mode == "single": t = [rng.choice(nodes)]
                elif mode == "alias" and cfg.aliases: t = [rng.choice(cfg.aliases)[0]] + ([rng.choice(nodes)] if rng.random() < 0.5 else [])
                elif mode == "unknown": t = [rng.choice(nodes), "zz9", rng.choice(["zz10", "n999"])]
                elif mode == "dup": t = [rng.choice(nodes)] * 2
                else: t = [x for x in nodes if rng.random() < 0.5] or [rng.choice(nodes)]
                if rng.random() < 0.3: rng.shuffle(t)
                try:
                    e = pmgen.compress_some(rng, t) if mode not in ("alias", "unknown") else ",".join(t)
                except AssertionError:
                    e = ",".join(t)
                line = "%s %s" % (w, e)
            ops.append("BYTES %d %s" % (k, (line + rng.choice(["\r\n", "\n", "\r\n", " \r\n"])).encode().hex()))
        elif r < 0.67:
            j = rng.choice(JUNK)
            if rng.random() < 0.04 and k not in gone:
                ops.append("DONEALL %d 0 2d" % k); ops += boundary_ops(rng, nodes, k); continue
            if rng.random() < 0.05:
                # the length gate: strlen(str) = CP_LINEMAX - 1 / CP_LINEMAX / CP_LINEMAX + 1 (and the same with surrounding blanks, which are stripped first)
                n = rng.choice([131071, 131072, 131073])
                j = rng.choice([b"on ", b"status ", b"xx "]) + b"x" * (n - 3)
                j = j[:n] if not j.startswith(b"status") else (b"status " + b"x" * (n - 7))
                if rng.random() < 0.3: j = b"  " + j + b" "
            if b"\n" in j: continue
            if j.lower().startswith(b"quit"): gone.add(k)
            ops.append("BYTES %d %s" % (k, (j + b"\r\n").hex()))
        elif r < 0.72:
            w = rng.choice(["help", "nodes", "telemetry", "exprange", "nodes", "HELP", "Nodes"])
            ops.append("BYTES %d %s" % (k, (w + "\r\n").encode().hex()))
        elif r < 0.75:
            # pipelined lines in one read
            ls = [rng.choice(["nodes", "status", "on " + rng.choice(nodes), "help", "bogus"]) for _ in range(rng.randint(2, 4))]
            ops.append("BYTES %d %s" % (k, "".join(x + "\n" for x in ls).encode().hex()))
        elif r < 0.83:
            n = rng.choice(nodes)
            ops.append("ARG %d %s %d %d %s" % (k, n.encode().hex(), rng.choice([0, 1, 2]), rng.choice([0, 1, 2]),
                                              rng.choice(["~", "4f4e", "3432", "4f4646", "6f6b0d0a323130"])))
        elif r < 0.87:
            ops.append(rng.choice(["TELE", "DIAG"]) + " %d %s" % (k, rng.choice(["73656e6428643029", "6e303a20455252", "25732025642025"])))
        elif r < 0.93:
            ops.append("DONE1 %d %d %s" % (k, rng.choice([0, 0, 1, 2, 3, 4]), "64303a206661696c6564"))
        else:
            ops.append("DONEALL %d %s %s" % (k, rng.choice(["0", "0", "0", "01", "1", "20", "3", "4"]), "64313a206572726f72"))
    if rng.random() < 0.4 and 0 not in dropped and 0 not in gone:
        # a status query over shuffled targets with most nodes reported (sorting / partition of the 302 lists, -x listing)
        ops.append("DONEALL 0 0 2d")
        t = list(nodes); rng.shuffle(t); t = t[:max(2, rng.randint(2, len(t)))] if len(t) >= 2 else t
        if rng.random() < 0.3: ops.append("BYTES 0 %s" % b"exprange\r\n".hex())
        ops.append("BYTES 0 %s" % ("%s %s\r\n" % (rng.choice(["status", "status", "beacon", "temp"]), ",".join(t))).encode().hex())
        for n in t:
            if rng.random() < 0.8:
                ops.append("ARG 0 %s %d %d %s" % (n.encode().hex(), rng.choice([2, 2, 1, 0]), rng.choice([0, 0, 2]), rng.choice(["4f4e", "3432", "~", "6f6b0d0a323130"])))
        ops.append("DONEALL 0 %s 2d" % rng.choice(["0", "0", "1"]))
    for k in range(ncli):
        if k in dropped:
            ops.append("DONE1 %d 0 2d" % k); continue
        ops.append("DONEALL %d 0 2d" % k)
        if rng.random() < 0.5 and k not in gone:
            ops.append("BYTES %d %s" % (k, b"quit\r\n".hex()))
    return ops


def add_aliases(rng, cfg):
    nodes = cfg.all_nodes()
    for i in range(rng.choice([0, 0, 1, 2])):
        m = rng.sample(nodes, rng.randint(1, min(3, len(nodes))))
        cfg.aliases.append(("a%d" % i, ",".join(m)))


def run_impl(exe, scratch, idx, cfg, ops):
    path = os.path.join(scratch, "cli%d.conf" % idx)
    open(path, "w").write(cfg.text())
    # generous: one accepted 128 KiB request naming ~65000 unknown nodes costs ~17 s of CPU under ASan (_xhostlist_ranged_string
    # re-renders the whole list once per 80 bytes of reply), more when 16 cases run side by side; an endless loop still hits the limit
    return vlib.sh(["timeout", "-s", "KILL", "400", exe, path], shell=False, inp=("\n".join(ops) + "\n").encode(), timeout=420,
                   env={"ASAN_OPTIONS": "detect_leaks=0"})


def defs_for_model(cfg, impl_out, enq_out, version):
    L = ["VERSION " + version.encode().hex()]
    for l in impl_out.splitlines():
        if l.startswith("NODES "):
            L.append(l); break
    # conf_add_alias prepends: list order is the reverse of the file order
    for a, m in reversed(cfg.aliases):
        L.append("ALIAS %s %s" % (a.encode().hex(), ",".join(x.encode().hex() for x in pmgen.expand(m))))
    for l, d in zip([x for x in enq_out.splitlines() if x.startswith("DEVTAB ")], cfg.devs):
        w = l.split()
        L.append("DEVTAB %s %s %s %s" % (w[2], d.specname.encode().hex(), w[3].split("=")[1] or "-", w[4].split("=")[1] or "-"))
    L.append("ENDDEFS")
    return L


def protocol_monitor(out_bytes, nlines_sent):
    """C06/C15 on one client's raw output: banner, prompt, then per request zero or more 3xx lines, exactly one
    terminal 1xx/2xx line, and a prompt unless 208/101.  Returns list of problems."""
    bad = []
    s = out_bytes
    if not s.startswith(b"001 "):
        return ["no banner"]
    i = s.find(b"\r\n") + 2
    if not s[i:].startswith(b"powerman> "):
        return ["no prompt after banner"]
    i += len(b"powerman> ")
    terminals = 0
    while i < len(s):
        j = s.find(b"\r\n", i)
        if j < 0:
            bad.append("unterminated line %r" % s[i:i + 40]); break
        line = s[i:j]
        if len(line) < 4 or not line[:3].isdigit() or line[3:4] != b" ":
            bad.append("malformed line %r" % line[:60]); break
        code = int(line[:3])
        i = j + 2
        if 100 <= code < 300:
            terminals += 1
            if code == 101:
                break               # the session is over; lines pipelined behind quit get no prompt
            if code == 208:
                continue
            if not s[i:].startswith(b"powerman> "):
                bad.append("no prompt after terminal %d" % code); break
            i += len(b"powerman> ")
        elif not (300 <= code < 400):
            bad.append("unknown code %d" % code); break
    return bad, terminals


C_SPACE = b" \t\n\v\f\r"
TERM = __import__("re").compile(rb"(?:^|\r\n)(102|210|103|211|213|205|209|203|201|208) ")


def impl_monitors(ops, il, linemax):
    """property clauses evaluated on the IMPLEMENTATION's output of one R-CLIENT case, op by op (independent of the model):
       isolation  an op addressed to client k writes to no other client                                   (C11)
       length     a line whose stripped length is >= CP_LINEMAX is answered 203, a shorter one is not     (C06)
       reply      a queued command ends 102/103 iff no injected completion failed (and, power commands, no Arg of it has
                  RT_UNKNOWN), else 210/211; every failed completion prints a 308 line                    (C02 C03)"""
    bad = []
    blocks, cur = [], []
    for l in il:
        if l == "END": blocks.append(cur); cur = []
        else: cur.append(l)
    cmd = {}
    last = {}            # client -> outcomes of its last two single-line BYTES ops
    real = [o for o in ops if not o.startswith("SAME ")]
    blk_of = dict(zip(range(len(real)), blocks))
    ri = -1
    for op in ops:
        w = op.split()
        if w[0] == "SAME":
            h = last.get(int(w[1]), [])
            if len(h) >= 2 and h[-1][0] != h[-2][0] and not (h[-1][2] >= linemax):
                bad.append(("padded-request", "different-outcome", "the request %r got %s, the same request written %d bytes long got %s" % (h[-2][1][:40], h[-2][0], h[-1][2], h[-1][0])))
            continue
        ri += 1
        if ri not in blk_of: break
        blk = blk_of[ri]
        if w[0] == "CONN": continue
        k = int(w[1])
        outs = {}
        for l in blk:
            if l.startswith("OUT "):
                _, j, hx = l.split(); outs[int(j)] = outs.get(int(j), b"") + bytes.fromhex(hx)
        for j in outs:
            if j != k:
                bad.append(("isolation", "foreign-output", "op `%s` (client %d) wrote %r to client %d" % (op[:60], k, outs[j][:80], j)))
        mine = outs.get(k, b"")
        flags = [l for l in blk if not l.startswith(("OUT ", "QUEUED"))]
        for ln in mine.split(b"\r\n"):
            m = __import__("re").match(rb"302 (?:on|off|unknown): +(\S+)$", ln)
            if m:
                try:
                    names = pmgen.expand(m.group(1).decode("latin-1"))
                except Exception:
                    names = None
                nat = lambda x: [(int(t) if t.isdigit() else t) for t in __import__("re").findall(r"\d+|\D+", x)]
                if names is not None and all(__import__("re").fullmatch(r"[a-z]+\d+", x) for x in names) and names != sorted(names, key=nat):
                    bad.append(("status-sets", "unsorted", "302 list not in host-list order: %r" % ln[:80]))
        if w[0] == "BYTES" and "GONE" not in flags:
            data = bytes.fromhex(w[2])
            lines = data.split(b"\n")[:-1]
            if len(lines) == 1:
                sline = lines[0].split(b"\0")[0].strip(C_SPACE)
                codes = [int(m.group(1)) for m in TERM.finditer(mine)]
                if len(sline) >= linemax and codes[:1] != [203]:
                    bad.append(("length-gate", "too-long-accepted", "a line of %d bytes (>= CP_LINEMAX) was answered %s" % (len(sline), codes)))
                if len(sline) < linemax and 203 in codes:
                    bad.append(("length-gate", "short-refused", "a line of %d bytes (< CP_LINEMAX) was answered 203" % len(sline)))
                if sline in (b"nodes", b"help") and "SKIP" not in flags and codes[:1] not in ([103], [208]):
                    bad.append(("padded-request", "wrong-reply", "the request %r (raw line %d bytes) was answered %s" % (sline, len(lines[0]), codes)))
                last.setdefault(k, []).append(("QUEUED" if any(l.startswith("QUEUED") for l in blk) else tuple(codes[:1]), sline, len(sline)))
                if any(l.startswith("QUEUED") for l in blk):
                    wd = __import__("re").split(rb"[ \t\n\v\f\r]+", sline)[0].decode("latin-1")
                    # sscanf formats are case-sensitive and need not be followed by a blank ("statusx" = status x)
                    wd = next((x for x in ["status", "beacon", "temp", "unflash", "flash", "cycle", "reset", "off", "on"] if wd.startswith(x)), "?")
                    cmd[k] = dict(word=wd, line=sline[:60], errs=0, unknown={}, skip=(wd == "?"))
            elif any(l.startswith("QUEUED") for l in blk):
                cmd[k] = dict(word="?", line=b"(pipelined)", errs=0, unknown={}, skip=True)
        elif w[0] in ("DONE1", "DONEALL") and k in cmd and not flags:
            c = cmd[k]
            if w[0] == "DONE1":
                if int(w[2]) != 0:
                    c["errs"] += 1
                    if b"308 " not in mine:
                        bad.append(("errors-named", "no-308", "completion with error %s for `%s` printed no 308 line: %r" % (w[2], c["line"], mine[:80])))
            else:
                if w[2][0] != "0": c["errs"] += 1
                elif set(w[2]) != {"0"}: c["skip"] = True
            codes = [int(m.group(1)) for m in TERM.finditer(mine) if m.group(1) in (b"102", b"210", b"103", b"211")]
            if codes:
                if not c["skip"] and c["word"] != "?":
                    power = c["word"] in pmgen.POWER_WORDS
                    fail = c["errs"] > 0 or (power and any(c["unknown"].values()))
                    want = (210 if fail else 102) if power else (211 if fail else 103)
                    if codes[0] != want:
                        clause = "false-success" if codes[0] in (102, 103) else "false-failure"
                        bad.append((clause, "reply-%d" % codes[0], "`%s`: %d failed completion(s), RT_UNKNOWN on %s -> expected %d, got %d" %
                                    (c["line"], c["errs"], sorted(n for n, u in c["unknown"].items() if u), want, codes[0])))
                del cmd[k]
        elif w[0] == "ARG" and k in cmd and not flags:
            cmd[k]["unknown"][w[2]] = (w[4] == "1")
        elif w[0] == "DROP":
            cmd.pop(k, None)
    return bad


def proto_ops(impl_out):
    """PROTO <client> <hex of everything the implementation wrote to that client>"""
    streams = {}
    for l in impl_out.splitlines():
        if l.startswith("OUT "):
            _, k, hx = l.split()
            streams[k] = streams.get(k, "") + hx
    return ["PROTO %s %s" % (k, hx) for k, hx in sorted(streams.items())]


def lines_sent(ops):
    """complete lines delivered to each client (BYTES ops before its DROP), and the set of dropped clients"""
    sent, dropped = {}, set()
    for op in ops:
        w = op.split()
        if w[0] == "DROP": dropped.add(int(w[1]))
        elif w[0] == "BYTES" and int(w[1]) not in dropped:
            sent[int(w[1])] = sent.get(int(w[1]), 0) + bytes.fromhex(w[2]).count(b"\n")
    return sent, dropped


def run(ctx, V):
    import pmcheck
    proofs_ok = vlib.proof_gate(ctx, V, extract=["Extract/ExClient.vo", "Extract/ExEnqueue.vo"])
    correspond(ctx, V, n=320 if ctx.tier == "quick" else 4000)
    # whole daemon under ASan/UBSan with hostile client input
    exe = pmsim.build(ctx)
    n = 260 if ctx.tier == "quick" else 4000
    scs = [hostile_scenario(ctx.rng) for _ in range(n)]
    pmcheck.MONITORS["c06lines"] = mon_c06_lines
    pmcheck.MONITORS["c06halfclose"] = mon_c06_halfclose
    pmcheck.run_batch(ctx, V, exe, scs, ["alive", "protocol", "wedge", "c06lines", "c06halfclose"], "c06")


def mon_c06_lines(sess, sc):
    """C06 on the hostile client's own stream: the i-th complete line it sent is answered by the i-th terminal line (it never has a
    command in progress unless a 208 shows up, in which case the pairing is skipped); a line whose stripped length is >= CP_LINEMAX gets
    exactly 203, a shorter one never does, and `nodes` / `help` behind any amount of blanks get 103"""
    import pmcheck
    bad = []
    k = sc.tags.get("hostile")
    if k is None or not sess.alive_after_script or sess.wedged or sess.overrun or k in sess.closed_clients:
        return bad
    data = b"".join(st[2] for st in sc.script if st[0] == "send" and st[1] == k)
    lines = data.split(b"\n")[:-1]
    reps = [r for r in (pmcheck.split_replies(sess.client_out.get(k, b"")) or []) if isinstance(r[0], int)]
    codes = [r[0] for r in reps]
    if 204 in codes:
        # C06: a bad line is answered parse / hostlist / too long / unknown / no such nodes - never `204 Internal powermand error`
        # (F42: a list with more than MAX_RANGES ranges in one bracket was, depending on the errno an EARLIER request had left behind)
        i = codes.index(204)
        bad.append(("bad-line-reply", "internal-error", "client %d: reply #%d is `%s` (its request lines: %s)" % (
            k, i, b" ".join(reps[i][1][-1:])[:120].decode("latin-1"), [l[:60] for l in lines[max(0, i - 1):i + 1]])))
    if 208 in codes or 101 in codes or len(codes) != len(lines):
        return bad                      # count mismatches are mon_protocol's business
    # The length gate comes BEFORE the busy test in _parse_input: an over-long line is answered 203 at once even while the
    # command of an earlier line is still in progress, so a 203 may OVERTAKE the terminal line of that command (client.c; the
    # model does the same).  Hence: as many 203 as over-long lines, and the remaining lines are answered in order.
    strip = lambda ln: ln.split(b"\0")[0].strip(C_SPACE)
    nlong = sum(1 for ln in lines if len(strip(ln)) >= LINEMAX)
    n203 = sum(1 for c in codes if c == 203)
    if n203 < nlong:
        ln = next(l for l in lines if len(strip(l)) >= LINEMAX)
        bad.append(("length-gate", "too-long-accepted", "client %d: %d lines of >= CP_LINEMAX bytes (e.g. %d) but only %d answers 203: %s" % (k, nlong, len(strip(ln)), n203, codes)))
    if n203 > nlong:
        bad.append(("length-gate", "short-refused", "client %d: %d answers 203 for %d lines of >= CP_LINEMAX bytes (line lengths %s)" % (k, n203, nlong, [len(strip(l)) for l in lines])))
    if n203 == nlong:
        for ln, code in zip([l for l in lines if len(strip(l)) < LINEMAX], [c for c in codes if c != 203]):
            sl = strip(ln)
            if sl in (b"nodes", b"help") and code != 103:
                bad.append(("padded-request", "wrong-reply", "client %d: `%s` (raw line %d bytes) was answered %d" % (k, sl.decode(), len(ln), code)))
    return bad


def mon_c06_halfclose(sess, sc):
    """a client that half-closes (EOF on its sending side) after N complete lines and is later closed BY THE DAEMON (which means the
    daemon considered everything done) must have received N terminal replies: nothing queued for it may be dropped on the way out"""
    import pmcheck
    bad = []
    if not sess.alive_after_script or sess.overrun or sess.wedged:
        return bad
    sent, eof, other = {}, set(), set()
    for st in sc.script:
        if st[0] == "send" and st[1] not in eof:
            sent[st[1]] = sent.get(st[1], b"") + st[2]
        elif st[0] == "raw":
            for e in st[1]:
                m = re.match(r"(EOF|RST|FULLCLOSE) c(\d+)", e)
                if m: (eof if m.group(1) == "EOF" else other).add(int(m.group(2)))
    ignored = {int(m.group(1)) for m in (re.match(r"IGNORED EOF c(\d+)", l) for l in sess.sim.trace) if m}
    for k in sorted(eof - other - ignored):
        if k not in sess.closed_clients:
            continue
        lines = sent.get(k, b"").split(b"\n")[:-1]
        reps = [r for r in (pmcheck.split_replies(sess.client_out.get(k, b"")) or []) if isinstance(r[0], int)]
        codes = [r[0] for r in reps]
        if 208 in codes:
            continue
        if len(codes) < len(lines):
            bad.append(("half-close", "reply-lost", "client %d sent %d complete lines and half-closed; the daemon closed it after only %d terminal replies (%s)" % (k, len(lines), len(codes), codes)))
    return bad


def after_connects(script):
    """index of the first step behind the initial connect / wait steps of a generated scenario"""
    last = max([i for i, st in enumerate(script) if st[0] == "connect"] or [-1])
    i = last + 1
    while i < len(script) and script[i][0] == "wait":
        i += 1
    return i


def hostile_scenario(rng):
    """1-3 clients of which client 0 is well-behaved; the others send junk, malformed ranges, long lines, binary data, pipelined commands,
    arbitrary segmentation, and drop at any moment"""
    import pmcheck
    sc = pmcheck.gen_scenario(rng, style="healthy")
    ncli = sc.tags["ncli"]
    bad = ncli
    extra = [("connect",), ("wait", bad)]
    for _ in range(rng.randint(2, 10)):
        j = rng.choice(JUNK)
        if rng.random() < 0.1:
            j = b"on " + b"x" * rng.choice([1022, 1023, 1024, 131071, 131072, 140000])
        if rng.random() < 0.15:
            j = bytes(rng.randrange(256) for _ in range(rng.randint(1, 60))).replace(b"\n", b"")
        data = j + b"\r\n"
        # arbitrary segmentation into reads
        cuts = sorted(rng.sample(range(1, len(data)), min(len(data) - 1, rng.choice([0, 0, 1, 3])))) if len(data) > 1 else []
        prev = 0
        for cpos in cuts + [len(data)]:
            extra.append(("send", bad, data[prev:cpos])); prev = cpos
        if rng.random() < 0.5 and len(data) < 2000:
            extra.append(("wait", bad))
    if rng.random() < 0.22:
        # requests at the size limits (length gate, giant 209 reply, input cbuf boundary at 1024), in arbitrary segments
        for op in boundary_ops(rng, sc.cfg.all_nodes(), k=bad):
            if not op.startswith("BYTES "):
                continue
            data = bytes.fromhex(op.split()[2])
            ncut = rng.choice([0, 0, 1, 2, 5]) if len(data) > 1 else 0
            cuts = sorted(rng.sample(range(1, len(data)), min(len(data) - 1, ncut))) if ncut else []
            if rng.random() < 0.3 and len(data) > 30:
                cuts = sorted(set(cuts + [len(data) - 24, len(data) - 1]))
            prev = 0
            for cpos in cuts + [len(data)]:
                extra.append(("send", bad, data[prev:cpos])); prev = cpos
            extra.append(("wait", bad))
    if rng.random() < 0.3:
        # `printf 'nodes\nhelp\n' | nc`: lines that are answered at once, and the FIN in the same segment: the replies are queued when the
        # daemon sees the end-of-file; they must still be written before the client is closed
        k2 = sc.tags["ncli"] + 1
        lines2 = b"".join(rng.choice([b"nodes", b"help", b"device", b"bogus", b"on [", b"exprange", b"status zz[1-2]"]) + b"\r\n" for _ in range(rng.randint(1, 4)))
        if rng.random() < 0.5:
            # ... or the last line is a command for a DEVICE: it is still in progress when the daemon sees the end-of-file, and is owed its terminal reply
            lines2 += rng.choice([b"status", b"on " + rng.choice(sc.cfg.all_nodes()).encode(), b"off " + rng.choice(sc.cfg.all_nodes()).encode()]) + b"\r\n"
        extra += [("connect", k2), ("wait", k2), ("send", k2, lines2), ("raw", ["EOF c%d" % k2]), ("sleep", 200000), ("sleep", 2000000)]
        sc.tags["eager"] = k2
    if rng.random() < 0.12:
        # a device command and, in the same breath, an over-long line: the 203 overtakes the command's terminal line
        nodes = sc.cfg.all_nodes()
        extra.append(("send", bad, b"off " + rng.choice(nodes).encode() + b"\noff" + b" " * (LINEMAX - 7) + b"n001\n")); extra.append(("wait", bad))
    if not (extra and extra[-1][0] == "wait"):
        extra.append(("send", bad, b"nodes\r\n")); extra.append(("wait", bad))
    end = rng.choice(["eof", "rst", "none", "quit"])
    if end == "eof": extra.append(("raw", ["EOF c%d" % bad]))
    elif end == "rst": extra.append(("raw", ["RST c%d" % bad]))
    elif end == "quit": extra.append(("send", bad, b"quit\r\n"))
    # interleave the hostile client's steps into the healthy script at a random position
    pos = rng.randint(after_connects(sc.script), len(sc.script))
    sc.script[pos:pos] = extra
    sc.tags["ncli"] = ncli + 1 + (1 if "eager" in sc.tags else 0)
    sc.tags["hostile"] = bad
    return sc


def correspond(ctx, V, n):
    import C01
    consts = pmgen.load_genconsts(ctx.coq)
    global LINEMAX
    LINEMAX = consts["CP_LINEMAX"]
    cli = build_cli(ctx)
    enq = C01.build_enq(ctx)
    model = build_model(ctx)
    version = version_of(ctx)
    V.rule = (V.rule + " || " if V.rule else "") + ("R-CLIENT: generated configurations (C01 space + aliases) x client sessions (1-4 clients; valid requests over compressed/aliased/unknown/duplicate "
              "targets, keyword case and spacing variants, junk and malformed host ranges, 1 KiB tokens, pipelined lines, injected completions with every ActError, "
              "Arg updates, telemetry and diagnostics); the real _parse_input/_act_finish/reply formatters are compared byte for byte with Model.Client and each "
              "client's stream is checked by the protocol monitor; non-trivial = a device command was queued; distinct by (config, ops)")
    cases = []
    # corpus first: cases that once disagreed / violated (the configuration is regenerated from its recorded seed)
    import glob, random
    for f in sorted(glob.glob(os.path.join(vlib.VERIF, "corpus", "C*", "*.json"))):
        if os.path.basename(os.path.dirname(f)) not in ("C02", "C03", "C06", "C11", "C15"):
            continue
        try:
            c = json.load(open(f))
            if "seed" not in c or "ops" not in c: continue
            cases.append((pmgen.gen_variant_config(random.Random(c["seed"])), list(c["ops"]))); V.count("corpus")
        except (ValueError, KeyError):
            continue
    for i in range(n):
        cfg = pmgen.gen_variant_config(ctx.rng)
        add_aliases(ctx.rng, cfg)
        cases.append((cfg, gen_session(ctx.rng, cfg)))
    with ThreadPoolExecutor(16) as ex:
        outs = list(ex.map(lambda ic: (run_impl(cli, ctx.scratch, ic[0], ic[1][0], ic[1][1]),
                                       vlib.sh(["timeout", "-s", "KILL", "30", enq, os.path.join(ctx.scratch, "cli%d.conf" % ic[0])], shell=False, inp=b"", timeout=40, env={"ASAN_OPTIONS": "detect_leaks=0"})),
                           enumerate(cases)))
        minputs = ["\n".join(defs_for_model(cfg, o, eo, version) + ops + proto_ops(o)) + "\n" for (cfg, ops), ((rc, o, e), (rc2, eo, e2)) in zip(cases, outs)]
        mouts = list(ex.map(lambda s: vlib.sh(["timeout", "-s", "KILL", "400", model], shell=False, inp=s.encode(), timeout=420), minputs))
    for (cfg, ops), ((rc, o, e), _), (mrc, mo, me) in zip(cases, outs, mouts):
        il = [l for l in o.splitlines() if not l.startswith("NODES ")]
        ml = [l for l in mo.splitlines() if not l.startswith("PROTO ")]
        verdicts = {l.split()[1]: dict(x.split("=") for x in l.split()[2:]) for l in mo.splitlines() if l.startswith("PROTO ")}
        V.case((cfg.text(), tuple(ops)), nontrivial=any(l.startswith("QUEUED") for l in il))
        V.count("ops", len(ops))
        # per-client output streams of the implementation
        streams = {}
        for l in il:
            if l.startswith("OUT "):
                _, k, hx = l.split()
                streams[k] = streams.get(k, b"") + bytes.fromhex(hx)
                for ln in bytes.fromhex(hx).split(b"\r\n"):
                    if ln[:3].isdigit(): V.count("code:" + ln[:3].decode())
        if rc in (-9, 137, 124):
            V.violation("wedge", "client-layer-timeout", dict(config=cfg.text(), ops=[x[:300] for x in ops]), "the client layer did not finish this session within 400 s of wall time")
            continue
        if rc != 0:
            V.violation("daemon-dies", "client-layer rc=%d" % rc, dict(config=cfg.text(), ops=ops, stderr=e[-800:]), "client input / completion history kills the client layer")
            continue
        for clause, site, detail in impl_monitors(ops, il, consts["CP_LINEMAX"]):
            V.violation(clause, site, dict(config=cfg.text(), ops=[o[:300] for o in ops]), detail)
        sent, dropped_k = lines_sent(ops)
        for k, sbytes in streams.items():
            r = protocol_monitor(sbytes, 0)
            bad = r if isinstance(r, list) else r[0]
            for b in bad:
                V.violation("protocol", "client-stream", dict(config=cfg.text(), ops=ops, client=k, stream=sbytes.decode("latin-1")[-600:]), b)
            # the extracted recogniser Spec/Proto.ok on the IMPLEMENTATION's stream (every write of the harness is whole lines)
            v = verdicts.get(k)
            if mrc == 0 and v is not None:
                V.count("proto:ok=%s,rest=%s" % (v["ok"], v["rest"]))
                if v["ok"] != "true":
                    V.violation("protocol", "client-stream", dict(config=cfg.text(), ops=ops, client=k, stream=sbytes.decode("latin-1")[-600:]),
                                "Spec.Proto.ok rejects the stream of client %s (prefix=%s)" % (k, v["prefix"]))
                elif int(k) not in dropped_k:
                    # every session ends with all commands completed: nothing may be left open, one terminal line per line sent
                    if v["rest"] != "true":
                        V.violation("protocol", "reply-left-open", dict(config=cfg.text(), ops=ops, client=k, stream=sbytes.decode("latin-1")[-600:]),
                                    "client %s: the stream ends inside a reply although no command is pending" % k)
                    if int(v["terminals"]) != sent.get(int(k), 0):
                        V.violation("one-reply", "count", dict(config=cfg.text(), ops=ops, client=k, stream=sbytes.decode("latin-1")[-600:]),
                                    "client %s sent %d lines and got %s terminal lines" % (k, sent.get(int(k), 0), v["terminals"]))
        if mrc != 0:
            V.tie_broken("correspondence", "R-CLIENT", "model driver failed: " + me[-600:], case=dict(config=cfg.text(), ops=ops)); continue
        if il != ml:
            d = next((i for i in range(max(len(il), len(ml))) if i >= len(il) or i >= len(ml) or il[i] != ml[i]), 0)
            dec = lambda l: (l.split()[0] + " " + l.split()[1] + " " + repr(bytes.fromhex(l.split()[2]))[:300]) if l.startswith("OUT ") and len(l.split()) == 3 else l[:300]
            V.tie_broken("correspondence", "R-CLIENT", "first difference at output line %d\nimpl : %s\nmodel: %s" % (d, dec(il[d]) if d < len(il) else "<none>", dec(ml[d]) if d < len(ml) else "<none>"),
                         case=dict(config=cfg.text(), ops=ops))
        V.sample(dict(config=cfg.text()[:400], ops=ops[:12], stream0=streams.get("0", b"").decode("latin-1")[:400]), limit=2)


class TextCfg:
    """what correspond() needs of a configuration, read back from its text (replay of a recorded case)"""
    def __init__(self, text):
        import re, types
        self._t = text
        self.aliases = re.findall(r'^alias "([^"]*)" "([^"]*)"', text, re.M)
        self.devs = [types.SimpleNamespace(name=n, specname=sp) for n, sp in re.findall(r'^device "([^"]*)" "([^"]*)"', text, re.M)]
    def text(self):
        return self._t


def replay_rclient(ctx, case):
    """re-run a recorded R-CLIENT case on the current tree: implementation and extracted model side by side, then the monitors"""
    import C01
    consts = pmgen.load_genconsts(ctx.coq)
    cli, enq, model = build_cli(ctx), C01.build_enq(ctx), build_model(ctx)
    cfg, ops = TextCfg(case["config"]), list(case["ops"])
    rc, o, e = run_impl(cli, ctx.scratch, 0, cfg, ops)
    rc2, eo, e2 = vlib.sh(["timeout", "-s", "KILL", "30", enq, os.path.join(ctx.scratch, "cli0.conf")], shell=False, inp=b"", timeout=40, env={"ASAN_OPTIONS": "detect_leaks=0"})
    minp = "\n".join(defs_for_model(cfg, o, eo, version_of(ctx)) + ops + proto_ops(o)) + "\n"
    mrc, mo, me = vlib.sh(["timeout", "-s", "KILL", "60", model], shell=False, inp=minp.encode(), timeout=70)
    il = [l for l in o.splitlines() if not l.startswith("NODES ")]
    ml = [l for l in mo.splitlines() if not l.startswith("PROTO ")]
    dec = lambda l: (l.split()[0] + " " + l.split()[1] + " " + repr(bytes.fromhex(l.split()[2]))[:400]) if l.startswith("OUT ") and len(l.split()) == 3 else l[:200]
    print("---- implementation (rc=%d)" % rc); [print("  " + dec(l)) for l in il]
    print("---- model (rc=%d)" % mrc); [print("  " + dec(l)) for l in ml]
    print("---- recogniser Spec.Proto on the implementation's streams"); [print("  " + l) for l in mo.splitlines() if l.startswith("PROTO ")]
    bad = impl_monitors(ops, il, consts["CP_LINEMAX"])
    for b in bad: print("MONITOR %s@%s: %s" % b)
    rej = [l for l in mo.splitlines() if l.startswith("PROTO ") and "ok=true" not in l]
    verdict = 1 if (rc != 0 or mrc != 0 or il != ml or bad or rej) else 0
    print("VERDICT: %s" % ("still fails / disagrees" if verdict else "passes on the current tree"))
    return verdict


def replay_history(ctx, case):
    """re-feed a recorded pmsim history (events per poll round) to the current daemon; print every client's stream and the recogniser's verdict"""
    import re
    exe = pmsim.build(ctx)
    model = build_model(ctx)
    conf = os.path.join(ctx.scratch, "replay.conf"); open(conf, "w").write(case["config"])
    sim = pmsim.Sim(exe, conf, env=case.get("env") or None, stderr_path=os.path.join(ctx.scratch, "replay.err"))
    out = {}
    for evs in list(case.get("events", [])) + [["SIG TERM"]] * 3:
        r = sim.next_round()
        if r is None: break
        for l in r.lines:
            w = l.split()
            if w[0] == "WR" and re.match(r"c\d+$", w[1]):
                out[w[1]] = out.get(w[1], b"") + bytes.fromhex("" if w[2] == "-" else w[2])
        sim.send(evs)
    if not sim.done: sim.kill()
    print("---- daemon outcome:", sim.done)
    inp = "".join("PROTO %s %s\n" % (k, b.hex() or "-") for k, b in sorted(out.items()))
    mrc, mo, me = vlib.sh(["timeout", "-s", "KILL", "60", model], shell=False, inp=inp.encode(), timeout=70)
    for k, b in sorted(out.items()): print("---- %s received: %r" % (k, b[-1500:]))
    print(mo)
    badp = [l for l in mo.splitlines() if l.startswith("PROTO ") and "prefix=true" not in l]
    died = (sim.done or {}).get("kind") not in ("return", "killed-timeout") or (sim.done or {}).get("status", 0) != 0
    verdict = 1 if (badp or died) else 0
    print("VERDICT: %s (the history-specific monitor of the check is not re-evaluated here; the streams above are what it looks at)" % ("still fails" if verdict else "daemon survives, streams are well-formed"))
    return verdict


def replay(ctx, V, path):
    rep = json.load(open(path))
    print(json.dumps({k: v for k, v in rep.items() if k != "case"}, indent=1)[:3000])
    case = rep.get("case")
    if rep.get("verdict") == "unproved":
        for x in rep.get("no_longer_checks", []):
            if isinstance(x.get("case"), dict) and "ops" in x["case"]:
                case = x["case"]; break
    if not isinstance(case, dict):
        print("no replayable case recorded (a proof / translator failure): re-run ./check %s" % ctx.pid); return 1
    vlib.proof_gate(ctx, V, extract=["Extract/ExClient.vo", "Extract/ExEnqueue.vo"])
    if "ops" in case:
        return replay_rclient(ctx, case)
    if "events" in case:
        return replay_history(ctx, case)
    print(json.dumps(case, indent=1)[:4000]); return 1
