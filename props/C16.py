"""C16 -- client library and CLI interpret replies faithfully and safely (DESIGN §5 C16).

Theorems: coq/Properties/C16.v over Model/LibPm.v.  Tie, re-established on every run:
  * gen/gen_libpm.py regenerates the code->pm_err_t table of `_server_retcode`, the enum values, the CLI's suppress
    table etc. from the current source (the proofs use them);
  * R-SCAN: harness/libpm_h.c (`#include "libpowerman.c"`, read()/write() redirected to a scripted server that hands
    out chosen chunks, ASan/UBSan) against the extracted model: return codes, bytes consumed, bytes sent, node state,
    node list, response lines, memory-error outcome;
  * R-CLI: the real `powerman` binary (ASan/UBSan build of the scratch copy) against a scripted loopback server,
    against `LibPm.cli`: stdout, stderr, exit status.
Monitor (the property evaluated on the implementation's own outputs by an independent reading of the reply stream):
success only with a success code, exact error code for conforming replies, EOF, node state / node list exact, CLI text
and exit status, no sanitizer report, no hang.
"""
import os, sys, json, re, glob, subprocess, threading, itertools, time
import vlib
sys.path.insert(0, os.path.join(vlib.VERIF, "harness"))
import cli_drv

PROMPT = b"powerman> "
GOODBYE = b"101 Goodbye\r\n"
CORPUS = os.path.join(vlib.VERIF, "corpus", "C16")


# ====================================================================== facts read from the tree under test
def tree_facts(ctx):
    proto = open(os.path.join(ctx.repo, "src/powerman/client_proto.h"), encoding="latin-1").read()
    m = re.search(r"#define\s+CP_LINEMAX\s+(\d+)", proto)
    if not m:
        raise vlib.TieBroken("CP_LINEMAX not found in client_proto.h")
    codes = sorted(set(int(c) for c in re.findall(r'^\s*#\s*define\s+CP_(?:RSP|ERR)_\w+\s+"(\d\d\d) ', proto, re.M)) | {1})
    cfg = open(os.path.join(ctx.repo, "config/config.h"), encoding="latin-1").read()
    mv = re.search(r'#define\s+PACKAGE_VERSION\s+"([^"]*)"', cfg)
    return dict(linemax=int(m.group(1)), server_codes=codes, version=(mv.group(1) if mv else "verif").encode())


# ====================================================================== case encoding
def hx(b):
    return b.hex() if b else "-"


def lib_line(cid, case):
    ops = []
    for o in case["ops"]:
        ops.append(o[0] if len(o) == 1 else "%s:%s" % (o[0], hx(o[1])))
    chunks = ",".join("-" if c is None else c.hex() for c in case["chunks"]) if case["chunks"] else "_"
    return "%s %s %s" % (cid, ",".join(ops), chunks)


def cli_line(cid, case):
    return "%s cli %d %s" % (cid, case["npre"], hx(case["stream"]))


def case_to_json(case):
    if case["kind"] == "lib":
        return dict(kind="lib", ops=[[o[0]] + [x.hex() for x in o[1:]] for o in case["ops"]],
                    chunks=[None if c is None else c.hex() for c in case["chunks"]], tag=case.get("tag", ""))
    return dict(kind="cli", flags=case["flags"], npre=case["npre"], stream=case["stream"].hex(), cuts=case.get("cuts", []), tag=case.get("tag", ""))


def case_from_json(d):
    if d["kind"] == "lib":
        return dict(kind="lib", ops=[tuple([o[0]] + [bytes.fromhex(x) for x in o[1:]]) for o in d["ops"]],
                    chunks=[None if c is None else bytes.fromhex(c) for c in d["chunks"]], tag=d.get("tag", "corpus"))
    return dict(kind="cli", flags=list(d["flags"]), npre=int(d["npre"]), stream=bytes.fromhex(d["stream"]), cuts=list(d.get("cuts", [])), tag=d.get("tag", "corpus"))


def small_json(case):
    """witness as stored in replay files: full case, hex"""
    return case_to_json(case)


# ====================================================================== generator
INFO = [b"301 help text", b"302 on:      t[0-3]", b"302 off:     t[4-7]", b"302 unknown: ", b"303 t0: on", b"303 t1: off", b"303 t2: unknown",
        b"304 dev0: state=connected reconnects=000 actions=001 type=vpc hosts=t[0-15]", b"305 send(dev0): 'stat\\n'", b"306 t[0-15]", b"307 t0",
        b"308 dev0: t3: timed out", b"309 diagnostic message"]
TERM_TEXT = {1: b"verif", 101: b"Goodbye", 102: b"Command completed successfully", 103: b"Query complete", 104: b"Telemetry ON", 105: b"Hostrange expansion ON",
             201: b"Unknown command", 202: b"Parse error", 203: b"Command too long", 204: b"Internal powermand error: x::1", 205: b"Hostlist error: x",
             208: b"Command in progress", 209: b"No such nodes: x", 210: b"Command completed with errors", 211: b"Query completed with errors",
             213: b"Command cannot be handled by power control device(s)"}
ODD_CODES = [b"000", b"0", b"099", b"99", b"100", b"106", b"199", b"200", b"206", b"207", b"212", b"256", b"299", b"300", b"399", b"1000", b"-1", b"-102",
             b"+102", b" 102", b"\t210", b"0102", b"00000000000000000102", b"4294967398", b"4294967497", b"-4294967194", b"99999999999999999999",
             b"9223372036854775807", b"9223372036854775808", b"-9223372036854775808", b"-9223372036854775809", b"18446744073709551718", b"2147483750", b"102x", b"1e2",
             b"0x66", b"", b"-", b"+", b"- 102", b"102\x00103"]


def render(code, text):
    c = (b"%03d" % code) if isinstance(code, int) else code
    return c + b" " + text + b"\r\n"


def cut_random(rng, data, k):
    if len(data) < 2 or k <= 0:
        return [data] if data else []
    cuts = sorted(set(rng.randrange(1, len(data)) for _ in range(k)))
    out, p = [], 0
    for c in cuts + [len(data)]:
        out.append(data[p:c]); p = c
    return out


def segment(rng, data):
    """a segmentation of one reply; biased towards the boundaries the scanner is sensitive to"""
    n = len(data)
    r = rng.random()
    if n == 0:
        return []
    if r < 0.12 or n == 1:
        return [data]
    if r < 0.30:                       # short first read (fewer bytes than the prompt)
        a = rng.randrange(1, min(13, n))
        return [data[:a]] + cut_random(rng, data[a:], rng.randrange(0, 3))
    if r < 0.45:                       # short last read / prompt split
        a = rng.randrange(1, min(13, n))
        return cut_random(rng, data[:-a], rng.randrange(0, 3)) + [data[-a:]]
    if r < 0.55 and n <= 64:           # one byte at a time
        return [data[i:i + 1] for i in range(n)]
    if r < 0.65:                       # tiny pieces at the start
        k = rng.randrange(1, min(12, n))
        return [data[i:i + 1] for i in range(k)] + cut_random(rng, data[k:], rng.randrange(0, 4))
    return cut_random(rng, data, rng.randrange(1, 8))


def gen_code(rng, F, fail_bias=0.5):
    r = rng.random()
    if r < 0.75:
        c = rng.choice(F["server_codes"])
        return c, TERM_TEXT.get(c, b"text")
    return rng.choice(ODD_CODES), b"odd code"


def node_name(rng):
    return rng.choice([b"t0", b"t1", b"t15", b"n", b"node-with-dash", b"a.b.c", b"t[0-3]", b"x" * rng.randrange(1, 40), b"t0", b"t1",
                       b"%s%d", b"\xff\xfe", b"on", b"303", b"t0:"])


def reply_status(rng, node, F):
    lines = []
    for _ in range(rng.randrange(0, 5)):
        who = rng.choice([node, node, node + b"x", b"x" + node, node[:-1] or b"q", node_name(rng)])
        st = rng.choice([b"on", b"off", b"unknown", b"on ", b"onx", b"ON", b"of", b""])
        sep = rng.choice([b": ", b": ", b": ", b":", b":  ", b" : "])
        lines.append(b"303 " + who + sep + st)
    if rng.random() < 0.3:
        lines.append(rng.choice(INFO))
    rng.shuffle(lines)
    code, text = gen_code(rng, F)
    if rng.random() < 0.6:
        code, text = 103, TERM_TEXT[103]
    return b"".join(l + b"\r\n" for l in lines) + render(code, text) + PROMPT


def reply_nodes(rng, F):
    lines = []
    for _ in range(rng.randrange(0, 7)):
        r = rng.random()
        nm = node_name(rng)
        if r < 0.6: lines.append(b"307 " + nm)
        elif r < 0.68: lines.append(b"307 " + nm + b" " + node_name(rng))
        elif r < 0.74: lines.append(b"307" + nm)
        elif r < 0.80: lines.append(b"307\t " + nm)
        elif r < 0.85: lines.append(b" 307 " + nm)
        elif r < 0.90: lines.append(b"306 " + nm)
        elif r < 0.94: lines.append(b"307 ")
        elif r < 0.97: lines.append(b"3070 " + nm)
        else: lines.append(b"307 " + nm + b"\x00tail")
    code, text = gen_code(rng, F)
    if rng.random() < 0.6:
        code, text = 103, TERM_TEXT[103]
    return b"".join(l + b"\r\n" for l in lines) + render(code, text) + PROMPT


def reply_simple(rng, F):
    info = [rng.choice(INFO) for _ in range(rng.randrange(0, 4))]
    code, text = gen_code(rng, F)
    return b"".join(l + b"\r\n" for l in info) + render(code, text) + PROMPT


def mutate(rng, data):
    """damage a well-formed reply: truncation, lost prompt, stray bytes, NUL, bare CR / LF, doubled prompt"""
    r = rng.random()
    if not data:
        return data
    if r < 0.25:
        return data[:rng.randrange(0, len(data))]
    if r < 0.35:
        return data[:-len(PROMPT)] if data.endswith(PROMPT) else data
    if r < 0.5:
        i = rng.randrange(0, len(data))
        return data[:i] + bytes([rng.choice([0, 10, 13, 32, 48, 255, rng.randrange(256)])]) + data[i + rng.randrange(0, 2):]
    if r < 0.6:
        i = rng.randrange(0, len(data))
        return data[:i] + PROMPT + data[i:]
    if r < 0.7:
        i = rng.randrange(0, len(data)); j = min(len(data), i + rng.randrange(1, 6))
        return data[:i] + data[j:]
    if r < 0.8:
        return data + rng.choice([b"x", b"\r\n", PROMPT, b"powerman>", b" "])
    if r < 0.9:
        return data.replace(b"\r\n", rng.choice([b"\n", b"\r", b"\r\r\n", b"\n\r"]), 1)
    return bytes(rng.choice(b"\r\n 0123powerman> \x00\xff") for _ in range(rng.randrange(0, 40)))


def gen_lib_session(rng, F):
    """connect, a few calls, disconnect; one scripted reply per call, each segmented on its own (sometimes damaged,
    sometimes the boundary between two replies falls inside a chunk)"""
    ops, chunks = [], []
    def add(data):
        if rng.random() < 0.12:
            data = mutate(rng, data)
        chunks.extend(segment(rng, data))
    if rng.random() < 0.9:
        ops.append(("c",))
        add(render(1, F["version"]) + PROMPT)
        add(render(105, b"Hostrange expansion ON") + PROMPT)
    for _ in range(rng.randrange(1, 5)):
        k = rng.random()
        if k < 0.35:
            nd = node_name(rng); ops.append(("s", nd)); add(reply_status(rng, nd, F))
        elif k < 0.6:
            ops.append(("n",)); add(reply_nodes(rng, F))
        elif k < 0.85:
            ops.append((rng.choice("10y"), node_name(rng))); add(reply_simple(rng, F))
        else:
            ops.append(("r",)); add(reply_simple(rng, F))
    if rng.random() < 0.7:
        ops.append(("d",))
        if rng.random() < 0.8:
            chunks.extend(segment(rng, GOODBYE))
            if rng.random() < 0.5:
                chunks.append(None)
    if rng.random() < 0.08 and len(chunks) > 2:          # merge two neighbouring chunks: a read spans two replies
        i = rng.randrange(0, len(chunks) - 1)
        if chunks[i] is not None and chunks[i + 1] is not None:
            chunks[i:i + 2] = [chunks[i] + chunks[i + 1]]
    if rng.random() < 0.05 and chunks:
        chunks.insert(rng.randrange(0, len(chunks) + 1), None)
    return dict(kind="lib", ops=ops, chunks=chunks, tag="session")


def gen_lib_recv(rng, F):
    """a single raw receive (result: rc + the parsed lines) on a reply with every kind of code"""
    which = rng.random()
    if which < 0.55:
        data = reply_simple(rng, F)
    elif which < 0.7:
        data = reply_nodes(rng, F)
    elif which < 0.85:
        data = mutate(rng, reply_simple(rng, F))
    else:
        # several coded lines: which one wins
        ls = [render(*gen_code(rng, F)) for _ in range(rng.randrange(2, 5))]
        data = b"".join(ls) + PROMPT
    chunks = segment(rng, data)
    if rng.random() < 0.2:
        chunks.append(None)
    return dict(kind="lib", ops=[("r",)], chunks=chunks, tag="recv")


def gen_lib_arbitrary(rng, F):
    alphabet = b"\r\n\r\n  0123456789powerman> powerman> \x00\xff-+307303:onf"
    data = bytes(rng.choice(alphabet) for _ in range(rng.randrange(0, 80)))
    if rng.random() < 0.5:
        data += PROMPT
    ops = [rng.choice([("r",), ("r",), ("c",), ("c",), ("r",), ("r",)])]
    if rng.random() < 0.3:
        ops = [("c",), ("s", b"n"), ("n",), ("d",)]
    return dict(kind="lib", ops=ops, chunks=segment(rng, data) + ([None] if rng.random() < 0.3 else []), tag="arbitrary")


def gen_lib_big(rng, F):
    """payload sizes around CP_LINEMAX and 2*CP_LINEMAX: buffer growth, read() limited by the space left, node[]"""
    L = F["linemax"]
    r = rng.random()
    if r < 0.35:      # 307 token around the size of node[]
        n = rng.choice([L - 8, L - 7, L - 6, L - 5, L - 2, L - 1, L, L + 1, 2 * L])
        data = b"307 " + b"a" * n + b"\r\n307 tail\r\n103 Query complete\r\n" + PROMPT
        ops = [("c",), ("n",)]
        pre = [render(1, F["version"]) + PROMPT, render(105, b"x") + PROMPT]
    elif r < 0.6:     # total size lands on / next to a multiple of CP_LINEMAX
        tot = rng.choice([L - 1, L, L + 1, 2 * L - 1, 2 * L, 2 * L + 1])
        fixed = b"305 \r\n102 ok\r\n" + PROMPT
        data = b"305 " + b"t" * (tot - len(fixed)) + b"\r\n102 ok\r\n" + PROMPT
        ops, pre = [("r",)], []
    elif r < 0.8:     # long node argument: snprintf truncation of the command and of the status strings
        n = rng.choice([L - 20, L - 12, L - 11, L - 10, L - 9, L - 8, L - 3, L - 2, L - 1, L])
        nd = b"n" * n
        data = b"303 " + nd + b": on\r\n103 Query complete\r\n" + PROMPT
        ops = [("c",), ("s", nd)]
        pre = [render(1, F["version"]) + PROMPT, render(105, b"x") + PROMPT]
    else:             # 303 line longer than CP_LINEMAX, many small chunks afterwards
        data = b"303 t0: on\r\n305 " + b"z" * rng.choice([L, L + 5, 2 * L + 3]) + b"\r\n103 ok\r\n" + PROMPT
        ops = [("c",), ("s", b"t0")]
        pre = [render(1, F["version"]) + PROMPT, render(105, b"x") + PROMPT]
    style = rng.random()
    if style < 0.3:
        chunks = [data]
    elif style < 0.6:
        chunks = cut_random(rng, data, rng.randrange(1, 5))
    elif style < 0.8:   # chunk boundary exactly where the buffer is full
        k = (len(data) // L) * L if len(data) >= L else len(data) // 2
        k = max(1, min(len(data) - 1, k + rng.choice([-1, 0, 0, 1])))
        chunks = [data[:k], data[k:]]
    else:
        a = rng.randrange(1, 12)
        chunks = [data[:a], data[a:-5], data[-5:]]
    return dict(kind="lib", ops=ops, chunks=pre + chunks, tag="big")


def compositions(data, limit=None):
    n = len(data)
    for mask in range(1 << (n - 1)):
        out, p = [], 0
        for i in range(1, n):
            if mask >> (i - 1) & 1:
                out.append(data[p:i]); p = i
        out.append(data[p:])
        yield out


def gen_lib_exhaustive(F, tier):
    """every split of short streams; every 2- and 3-split of a few longer ones"""
    cases = []
    full = [PROMPT, b"\r\n" + PROMPT, b"1\r\n" + PROMPT] if tier == "quick" else [PROMPT, b"\r\n" + PROMPT, b"1\r\n" + PROMPT, b"1 \r\n" + PROMPT, b"powerman>", b"x" + PROMPT + b"\r\n", b"\x00\r\n" + PROMPT]
    for s in full:
        for c in compositions(s):
            cases.append(dict(kind="lib", ops=[("r",)], chunks=c, tag="exhaustive"))
    some = [render(1, b"v") + PROMPT, render(102, b"ok") + PROMPT, b"307 a\r\n103 q\r\n" + PROMPT, PROMPT + PROMPT, b"305 " + PROMPT + b"\r\n102 ok\r\n" + PROMPT]
    for s in some:
        n = len(s)
        for i in range(1, n):
            cases.append(dict(kind="lib", ops=[("r",), ("r",)], chunks=[s[:i], s[i:]], tag="split2"))
        step = 1 if tier != "quick" else 3
        for i in range(1, n, step):
            for j in range(i + 1, n, step):
                cases.append(dict(kind="lib", ops=[("r",), ("r",)], chunks=[s[:i], s[i:j], s[j:]], tag="split3"))
    return cases


def cli_session(rng, F, flags, replies, version=None, goodbye=GOODBYE):
    s = render(1, F["version"] if version is None else version) + PROMPT
    for r in replies:
        s += r + PROMPT
    return s + goodbye


CLI_FLAGS = [(["-q"], 0), (["-l"], 0), (["-1", "t1"], 0), (["-T", "-q"], 1), (["-x", "-q", "t[0-3]"], 1), (["-T", "-x", "-d"], 2), (["-t"], 0), (["-c", "a,b"], 0)]


def cli_reply(rng, F, terminal=None):
    lines = []
    for _ in range(rng.randrange(0, 6)):
        r = rng.random()
        if r < 0.7: lines.append(rng.choice(INFO))
        elif r < 0.8: lines.append(render(rng.choice([b"000", b"099", b"300", b"399", b"1000", b"-1", b"4294967599", b"99999999999999999999", b"3 3", b"abc"]), b"not terminal")[:-2])
        elif r < 0.9: lines.append(b"309 " + bytes(rng.choice(b"abc %d\t\x01\xfe") for _ in range(rng.randrange(1, 30))))
        else: lines.append(b"305 " + b"y" * rng.choice([1, 74, 75, 76, 77, 154, 155, 156, 157, 400]))
    if terminal is None:
        r = rng.random()
        if r < 0.7:
            c = rng.choice([c for c in F["server_codes"] if c >= 100]); terminal = render(c, TERM_TEXT.get(c, b"text"))[:-2]
        else:
            terminal = render(rng.choice([b"100", b"106", b"199", b"200", b"206", b"255", b"256", b"257", b"299", b"4294967396", b"4294967552", b" 210", b"+102", b"0210", b"256"]), b"odd terminal")[:-2]
    return b"".join(l + b"\r\n" for l in lines) + terminal + b"\r\n"


def gen_cli(rng, F):
    flags, npre = rng.choice(CLI_FLAGS)
    r = rng.random()
    replies = []
    for i in range(npre):
        if rng.random() < 0.8:
            replies.append(render(104 + (i if npre == 2 else rng.randrange(0, 2)), b"option ON"))
        else:
            replies.append(cli_reply(rng, F))
    replies.append(cli_reply(rng, F))
    tag = "cli-session"
    version = None if rng.random() < 0.8 else rng.choice([b"other-version", b"v " + b"w", b"x" * 1100, b""])
    s = cli_session(rng, F, flags, replies, version)
    if r < 0.2:
        s = s[:rng.randrange(0, len(s))]; tag = "cli-truncated"
    elif r < 0.35:
        s = mutate(rng, s); tag = "cli-damaged"
    elif r < 0.4:
        s = s.replace(b" ", b"", 1) if rng.random() < 0.5 else s.replace(b"\r\n", b"\r\n\r\n", 1); tag = "cli-damaged"
    elif r < 0.45:
        s = render(1, F["version"]) + PROMPT + bytes(rng.choice(b"\r\n 0123456789ab\x00") for _ in range(rng.randrange(0, 60))); tag = "cli-arbitrary"
    cuts = sorted(set(rng.randrange(0, max(1, len(s))) for _ in range(rng.randrange(0, 4))))
    return dict(kind="cli", flags=flags, npre=npre, stream=s, cuts=cuts, tag=tag)


def gen_cli_fixed(F):
    """deterministic CLI cases: every terminal code of the protocol and the class boundaries; every truncation of one
    short session; long lines around xreadstr's growth steps and CP_LINEMAX"""
    cases = []
    terms = [b"%03d" % c for c in F["server_codes"] if c >= 100] + [b"100", b"199", b"200", b"255", b"256", b"257", b"299"]
    for t in terms:
        s = cli_session(None, F, ["-q"], [b"303 t0: on\r\n" + render(t, b"terminal")])
        cases.append(dict(kind="cli", flags=["-q"], npre=0, stream=s, cuts=[], tag="cli-codes"))
    s = cli_session(None, F, ["-x", "-q"], [render(105, b"on"), b"303 t0: on\r\n309 d\r\n" + render(103, b"Query complete")])
    for i in range(0, len(s), 1):
        cases.append(dict(kind="cli", flags=["-x", "-q"], npre=1, stream=s[:i], cuts=[], tag="cli-truncated"))
    for n in [1, 73, 74, 75, 76, 153, 154, 155, 156, 157, 1000, F["linemax"] - 5, F["linemax"] + 7]:
        s = cli_session(None, F, ["-q"], [b"305 " + b"L" * n + b"\r\n" + render(103, b"ok")])
        cases.append(dict(kind="cli", flags=["-q"], npre=0, stream=s, cuts=[], tag="cli-long"))
    # a failing option command skips the main command
    s = render(1, F["version"]) + PROMPT + render(201, b"Unknown command") + PROMPT + GOODBYE
    cases.append(dict(kind="cli", flags=["-T", "-q"], npre=1, stream=s, cuts=[], tag="cli-option-fails"))
    return cases


def generate(ctx, F, scale=1, fixed=True):
    rng, tier = ctx.rng, ctx.tier
    n = dict(quick=dict(session=4000, recv=4000, arb=2500, big=30, cli=900), thorough=dict(session=150000, recv=150000, arb=100000, big=400, cli=16000))[tier]
    if scale != 1:
        n = dict((k, int(v * scale)) for k, v in n.items())
    cases = gen_lib_exhaustive(F, tier) if fixed else []
    cases += [gen_lib_session(rng, F) for _ in range(n["session"])]
    cases += [gen_lib_recv(rng, F) for _ in range(n["recv"])]
    cases += [gen_lib_arbitrary(rng, F) for _ in range(n["arb"])]
    cases += [gen_lib_big(rng, F) for _ in range(n["big"])]
    cases += gen_cli_fixed(F) if fixed else []
    cases += [gen_cli(rng, F) for _ in range(n["cli"])]
    return cases


# ====================================================================== running both sides
SAN_ENV = {"ASAN_OPTIONS": "detect_leaks=0:exitcode=97", "UBSAN_OPTIONS": "exitcode=97:print_stacktrace=1", "LC_ALL": "C"}


def parse_san(err):
    m = re.search(r"ERROR: AddressSanitizer: (\S+)", err)
    if m:
        f = re.search(r"#\d+ 0x[0-9a-f]+ in (\w+) [^\n]*libpowerman\.c:\d+", err)
        return "asan:%s:%s" % (m.group(1), f.group(1) if f else "?")
    m = re.search(r"([\w./-]+\.c:\d+):\d+: runtime error: ([^\n]*)", err)
    if m:
        return "ubsan:%s:%s" % (os.path.basename(m.group(1)), m.group(2)[:60])
    return None


def run_impl_slice(binary, lines, out, max_restarts=40):
    """lines: list of (cid, text).  out[cid] = result text | ('CRASH', what)"""
    todo = list(lines)
    restarts = 0
    while todo:
        inp = ("\n".join(t for _, t in todo) + "\n").encode()
        rc, o, e = vlib.sh(["timeout", "-s", "KILL", "600", binary], inp=inp, env=SAN_ENV, shell=False, timeout=630)
        done = 0
        for l in o.splitlines():
            w = l.split(" ", 1)
            if len(w) == 2 and done < len(todo) and w[0] == todo[done][0]:
                out[w[0]] = w[1]; done += 1
        if done >= len(todo):
            break
        # the process died inside case todo[done]
        cid = todo[done][0]
        tail = e[e.rfind("CASE %s\n" % cid):] if ("CASE %s\n" % cid) in e else e[-4000:]
        what = parse_san(tail) or ("killed:rc=%d" % rc)
        out[cid] = ("CRASH", what, tail[:3000])
        todo = todo[done + 1:]
        restarts += 1
        if restarts >= max_restarts:
            for c, _ in todo:
                out[c] = ("SKIPPED",)
            break


def run_parallel(fn, binary, lines, nproc):
    out = {}
    # big cases are spread evenly: round-robin
    slices = [lines[i::nproc] for i in range(nproc)]
    ts = [threading.Thread(target=fn, args=(binary, s, out)) for s in slices if s]
    for t in ts: t.start()
    for t in ts: t.join()
    return out


def run_model_slice(binary, lines, out):
    inp = ("\n".join(t for _, t in lines) + "\n").encode()
    rc, o, e = vlib.sh("ulimit -s unlimited 2>/dev/null || ulimit -s 1000000; exec timeout -s KILL 900 %s" % binary, inp=inp, timeout=930)
    for l in o.splitlines():
        w = l.split(" ", 1)
        if len(w) == 2:
            out[w[0]] = w[1]
    if rc != 0:
        for c, _ in lines:
            out.setdefault(c, ("MODEL-DIED", "rc=%d %s" % (rc, e[-300:])))


# ====================================================================== results -> python values
def parse_lib_result(text):
    """'c=0:34:hex:;s=0:30:hex:2' -> list of dict(op, rc, consumed, sent, pay);  + crash site of the model"""
    crash = None
    if " CRASH " in text or text.startswith("CRASH "):
        text, _, site = text.rpartition("CRASH ")
        text = text.rstrip(); crash = site.strip()
    res = []
    for part in (text.split(";") if text else []):
        op, _, rest = part.partition("=")
        f = rest.split(":")
        if len(f) < 4:
            continue
        res.append(dict(op=op, rc=int(f[0]), consumed=int(f[1]), sent=(b"" if f[2] == "-" else bytes.fromhex(f[2])), pay=f[3]))
    return res, crash


def unhex_list(s):
    if s in ("", "_"):
        return []
    return [b"" if x == "-" else bytes.fromhex(x) for x in s.split(",")]


# ====================================================================== monitor: the property on the implementation's outputs
def lead_int(line):
    """leading integer of a line as a person reading the protocol would read it; None if there is none"""
    m = re.match(rb"^[ \t\r\n\v\f]*([+-]?\d+)", line)
    return int(m.group(1)) if m else None


def is_success(k):
    return k == 1 or 100 <= k <= 199


def split_reply(seg):
    """(lines without CRLF, ends_with_prompt, clean).  clean = the shape a conforming powermand produces: no NUL,
    lines `NNN text`, the prompt exactly once, at the end, right after a CRLF"""
    ended = seg.endswith(PROMPT)
    body = seg[:-len(PROMPT)] if ended else seg
    parts = body.split(b"\r\n")
    lines, tailpiece = parts[:-1], parts[-1]
    clean = ended and tailpiece == b"" and b"\x00" not in seg and seg.count(PROMPT) == 1 and len(lines) >= 1 \
        and all(re.match(rb"^\d\d\d [^\r\n]*\Z", l) for l in lines)
    return lines, ended, clean


def monitor_lib(case, impl, F):
    """impl: parsed results of the implementation for this case (list of dict), or crash info.
    returns list of (clause, site, detail)"""
    bad = []
    if isinstance(impl, tuple):
        if impl[0] == "CRASH":
            site = impl[1]
            return [("total", site, "memory error / abnormal end inside the library: %s\n%s" % (impl[1], impl[2][:1200]))]
        return []
    stream = b"".join(c for c in case["chunks"] if c is not None)
    pos = 0
    L = F["linemax"]
    for o, r in zip(case["ops"], impl):
        seg = stream[pos:pos + r["consumed"]]
        pos += r["consumed"]
        if r["rc"] == 5 and r["consumed"] == 0:      # PM_EBADHAND: no handle
            continue
        lines, ended, clean = split_reply(seg)
        ints = [lead_int(l) for l in lines]
        weird = b"\x00" in seg or any(i is not None and abs(i) >= 2 ** 31 for i in ints)
        kind = o[0]
        if kind == "c":
            # two exchanges; soundness only
            cints = [lead_int(l) for piece in seg.split(PROMPT) for l in piece.split(b"\r\n")]
            cweird = b"\x00" in seg or any(i is not None and abs(i) >= 2 ** 31 for i in cints)
            if r["rc"] == 0 and not cweird and sum(1 for i in cints if i is not None and is_success(i)) < 2:
                bad.append(("success_sound", "pm_connect", "pm_connect returned PM_ESUCCESS but the stream %r does not contain two success codes" % seg[:200]))
            continue
        if kind == "d":
            continue
        # --- one exchange
        if not ended and r["rc"] != 7:
            bad.append(("total", "eof", "stream ended without prompt but rc=%d (expected PM_ESERVEREOF=7); reply %r" % (r["rc"], seg[-80:])))
        if ended and r["rc"] == 7:
            bad.append(("total", "eof", "reply ends with the prompt but rc=PM_ESERVEREOF"))
        if r["rc"] == 0 and not weird and not any(i is not None and is_success(i) for i in ints):
            bad.append(("success_sound", "retcode", "rc=PM_ESUCCESS but no line of the reply carries a success code: %r" % seg[:300]))
        if clean:
            terms = [i for i in ints if is_success(i) or 200 <= i <= 299]
            if len(terms) == 1:
                k = terms[0]
                if k in F["server_codes"]:
                    exp = 0 if is_success(k) else k
                    if r["rc"] != exp:
                        bad.append(("error_exact", "retcode", "conforming reply with terminal code %d: rc=%d, expected %d" % (k, r["rc"], exp)))
                elif not is_success(k) and r["rc"] == 0:
                    bad.append(("success_sound", "retcode", "failure-class code %d reported as success" % k))
            elif len(terms) == 0 and r["rc"] != 8:
                bad.append(("error_exact", "retcode", "reply without any terminal code: rc=%d, expected PM_ESERVERPARSE=8" % r["rc"]))
        if kind == "s" and r["rc"] == 0:
            node = o[1]
            st = int(r["pay"])
            on_l, off_l = b"303 " + node + b": on", b"303 " + node + b": off"
            if len(on_l) + 3 < L and b"\x00" not in seg:
                has_on, has_off = on_l in lines, off_l in lines
                if st == 2 and not has_on:
                    bad.append(("status", "node_status", "PM_ON for %r but the reply has no line %r" % (node[:40], on_l[:60])))
                if st == 1 and not has_off:
                    bad.append(("status", "node_status", "PM_OFF for %r but the reply has no line %r" % (node[:40], off_l[:60])))
                if st not in (1, 2) and (has_on or has_off):
                    bad.append(("status", "node_status", "state %d for %r although the reply says %s" % (st, node[:40], "off" if has_off else "on")))
                if st == 2 and has_off:
                    bad.append(("status", "node_status", "PM_ON although the reply also says off (off is tested first)"))
        if kind == "s" and r["rc"] != 0 and r["pay"] != "77":
            bad.append(("status", "node_status", "*statep written although rc=%d" % r["rc"]))
        if kind == "n" and r["rc"] == 0:
            a, _, b2 = r["pay"].partition("/")
            got, again = unhex_list(a), unhex_list(b2)
            if got != again:
                bad.append(("nodes", "node_iter", "iteration after reset differs"))
            if b"\x00" not in seg:
                cand = [l for l in lines if l.startswith(b"307")]
                if all(re.match(rb"^307 [^\s]+\Z", l) and len(l) + 2 < L for l in cand):
                    exp = [l[4:] for l in cand]
                    if got != exp:
                        bad.append(("nodes", "node_iter", "nodes %r, the reply lists %r" % ([g[:20] for g in got[:8]], [e[:20] for e in exp[:8]])))
                else:
                    for g in got:
                        if not any(l.startswith(b"307") and g in l for l in cand):
                            bad.append(("nodes", "node_iter", "node %r is not in any 307 line" % g[:40])); break
        if kind == "r" and r["rc"] == 0 and b"\x00" not in seg:
            got = unhex_list(r["pay"])
            if [g for g in reversed(got)] != [l + b"\r\n" for l in lines]:
                bad.append(("total", "parse_response", "lines returned differ from the CRLF-terminated lines of the reply"))
    return bad


def ref_cli(npre, stream, F):
    """independent reading of a whole CLI session; None unless the stream is a complete, clean session"""
    if b"\x00" in stream:
        return None
    pos = 0
    def line():
        nonlocal pos
        i = stream.find(b"\r\n", pos)
        if i < 0: return None
        l = stream[pos:i]; pos = i + 2
        return l
    def lit(s):
        nonlocal pos
        if stream[pos:pos + len(s)] != s: return False
        pos += len(s); return True
    l = line()
    if l is None or not re.match(rb"^001 \S+\Z", l): return None
    vers = l[4:]
    if not lit(PROMPT): return None
    out, diag, terms = b"", b"", []
    for i in range(npre + 1):
        while True:
            l = line()
            if l is None or not re.match(rb"^\d\d\d [^\r\n]+\Z", l): return None
            k = int(l[:3])
            if k == 309: diag += l[4:] + b"\n"
            elif k not in (103, 104, 105): out += l[4:] + b"\n"
            if 100 <= k <= 299: break
        terms.append(k)
        if not lit(PROMPT): return None
        if 200 <= k <= 299: break
    if not lit(GOODBYE): return None
    return dict(out=out, diag=diag, terms=terms, vers=vers)


def monitor_cli(case, r, F):
    bad = []
    if r["san"]:
        return [("cli_total", r["san"], "sanitizer report in the powerman client: %s\n%s" % (r["san"], r["err"][-1500:].decode("latin-1")))]
    if r["killed"]:
        return [("cli_total", "hang", "the powerman client did not exit (killed by the time-out); stream ends %r" % case["stream"][-60:])]
    if r["rc"] is None or r["rc"] < 0 or r["rc"] > 255:
        return [("cli_total", "signal", "abnormal end rc=%r %s" % (r["rc"], r["err"][-300:].decode("latin-1")))]
    ref = ref_cli(case["npre"], case["stream"], F)
    if ref is None:
        return bad
    ok = all(100 <= k <= 199 for k in ref["terms"])
    if (r["rc"] == 0) != ok:
        bad.append(("cli_exit", "exit_status", "terminal codes %r but exit status %d" % (ref["terms"], r["rc"])))
    if r["out"] != ref["out"]:
        bad.append(("cli_exit", "stdout", "stdout %r, the reply text is %r" % (r["out"][:200], ref["out"][:200])))
    errlines = b"".join(l + b"\n" for l in r["err"].split(b"\n")[:-1] if not l.startswith(b"powerman: warning: server version"))
    if errlines != ref["diag"]:
        bad.append(("cli_exit", "stderr", "stderr %r, the 309 text is %r" % (r["err"][:200], ref["diag"][:200])))
    return bad


# ====================================================================== model output -> what the binary should print
FATAL_MSG = {1611: b"EOF on read", 1612: b"unexpected response from server", 1613: b"unexpected response from server",
             1614: b"unexpected response from server", 1615: b"EOF on read"}


def model_cli_expect(text, F):
    """'cli <status> <stdouthex> <events> <terms>' -> (status, stdout, stderr) ; or ('CRASH', site)"""
    w = text.split(" ")
    if w[1] == "CRASH":
        return ("CRASH", w[2])
    status = int(w[1]); out = b"" if w[2] == "-" else bytes.fromhex(w[2])
    err = b""
    if w[3] != "_":
        for e in w[3].split(","):
            k, _, v = e.partition(":")
            if k == "D": err += (b"" if v == "-" else bytes.fromhex(v))
            elif k == "W":
                msg = b"warning: server version (%s) != client (%s)" % (b"" if v == "-" else bytes.fromhex(v), F["version"])
                err += b"powerman: " + msg[:1023] + b"\n"
            elif k == "F": err += b"powerman: " + FATAL_MSG[int(v)] + b"\n"
    return (status, out, err)


# ====================================================================== shrinking
def shrink(case, fails, budget=120):
    """greedy reduction keeping `fails(case)` true"""
    cur = case
    def variants(c):
        if c["kind"] == "lib":
            ops, ch = c["ops"], c["chunks"]
            for i in range(len(ops) - 1, -1, -1):
                if len(ops) > 1: yield dict(c, ops=ops[:i] + ops[i + 1:])
            for i in range(len(ch) - 1, -1, -1):
                yield dict(c, chunks=ch[:i] + ch[i + 1:])
            for i in range(len(ch) - 1):
                if ch[i] is not None and ch[i + 1] is not None:
                    yield dict(c, chunks=ch[:i] + [ch[i] + ch[i + 1]] + ch[i + 2:])
            for i in range(len(ch)):
                if ch[i] is not None and len(ch[i]) > 1:
                    h = len(ch[i]) // 2
                    yield dict(c, chunks=ch[:i] + [ch[i][:h]] + ch[i + 1:])
                    yield dict(c, chunks=ch[:i] + [ch[i][h:]] + ch[i + 1:])
                    if len(ch[i]) > 40:
                        yield dict(c, chunks=ch[:i] + [ch[i][:16] + ch[i][-16:]] + ch[i + 1:])
        else:
            s = c["stream"]
            if c.get("cuts"): yield dict(c, cuts=[])
            ls = s.split(b"\r\n")
            for i in range(len(ls) - 1, -1, -1):
                if len(ls) > 1: yield dict(c, stream=b"\r\n".join(ls[:i] + ls[i + 1:]), cuts=[])
            for i in range(len(ls)):
                if len(ls[i]) > 12:
                    yield dict(c, stream=b"\r\n".join(ls[:i] + [ls[i][:6] + ls[i][-4:]] + ls[i + 1:]), cuts=[])
            if len(s) > 1: yield dict(c, stream=s[:-1], cuts=[])
    progress = True
    while progress and budget > 0:
        progress = False
        for v in variants(cur):
            if budget <= 0: break
            budget -= 1
            try:
                if fails(v):
                    cur = v; progress = True; break
            except Exception:
                pass
    return cur


def isolations(case, impl_results, F):
    """candidate smaller library cases: one call of the session on its own (after a clean connect when it needs a
    handle), fed exactly the bytes that call consumed, cut where the original chunks were cut"""
    if case["kind"] != "lib" or not isinstance(impl_results, list) or len(case["ops"]) < 2:
        return
    stream = b"".join(c for c in case["chunks"] if c is not None)
    ends, p = [], 0
    for c in case["chunks"]:
        if c is not None:
            p += len(c); ends.append(p)
    pos = 0
    connect = [render(1, F["version"]) + PROMPT, render(105, b"Hostrange expansion ON") + PROMPT]
    for o, r in zip(case["ops"], impl_results):
        a, b = pos, pos + r["consumed"]
        pos = b
        if r["consumed"] == 0:
            continue
        cuts = [a] + [e for e in ends if a < e < b] + [b]
        pieces = [stream[cuts[i]:cuts[i + 1]] for i in range(len(cuts) - 1)]
        if o[0] in "cr":
            yield dict(case, ops=[o], chunks=pieces)
        else:
            yield dict(case, ops=[("c",), o], chunks=connect + pieces)


# ====================================================================== one case, both sides (shrinking, replay)
class Runner:
    def __init__(self, ctx, F, impl, model, powerman):
        self.ctx, self.F, self.impl, self.model, self.powerman = ctx, F, impl, model, powerman

    def lib(self, case):
        line = lib_line("x", case)
        a, b = {}, {}
        run_impl_slice(self.impl, [("x", line)], a, max_restarts=1)
        run_model_slice(self.model, [("x", line)], b)
        return a.get("x"), b.get("x")

    def cli(self, case):
        r = cli_drv.run_cases(self.powerman, [dict(id="x", flags=case["flags"], stream=case["stream"], cuts=case.get("cuts", []))], workers=1, timeout=4.0)[0]
        b = {}
        run_model_slice(self.model, [("x", cli_line("x", case))], b)
        return r, b.get("x")

    def verdict(self, case):
        """(monitor failures, agrees?, impl trace, model trace)"""
        if case["kind"] == "lib":
            a, b = self.lib(case)
            ia = a if isinstance(a, tuple) else parse_lib_result(a)[0]
            bad = monitor_lib(case, ia, self.F)
            return bad, lib_agree(a, b), a, b
        r, b = self.cli(case)
        bad = monitor_cli(case, r, self.F)
        return bad, cli_agree(r, b, self.F)[0], dict(rc=r["rc"], out=r["out"], err=r["err"][-2000:], san=r["san"], killed=r["killed"]), b


def lib_agree(a, b):
    if a is None or b is None:
        return False
    if isinstance(a, tuple):
        # implementation crashed: agreement only if the model reports a memory error too
        return isinstance(b, str) and "CRASH" in b
    if isinstance(b, tuple):
        return False
    return a == b


def cli_agree(r, btext, F):
    if btext is None or isinstance(btext, tuple):
        return False, "model died"
    exp = model_cli_expect(btext, F)
    if exp[0] == "CRASH":
        return (r["san"] is not None), "model: memory error site %s" % exp[1]
    if r["san"] or r["killed"]:
        return False, "implementation: %s" % (r["san"] or "killed by time-out")
    if r["rc"] != exp[0]:
        return False, "exit status %r, model %d" % (r["rc"], exp[0])
    if r["out"] != exp[1]:
        return False, "stdout %r, model %r" % (r["out"][:120], exp[1][:120])
    if r["err"] != exp[2]:
        return False, "stderr %r, model %r" % (r["err"][:160], exp[2][:160])
    return True, ""


# ====================================================================== entry points
def build(ctx):
    ok, log, failing = ctx.coq_make(["Extract/ExLibPm.vo"])
    if not ok:
        raise vlib.TieBroken("the model no longer compiles / extracts against the regenerated Gen files: " + log[-1500:])
    impl = ctx.cc([vlib.VERIF + "/harness/libpm_h.c"], "libpm_h")
    r = ctx.repo
    srcs = [r + "/src/powerman/powerman.c"] + sorted(glob.glob(r + "/src/libcommon/*.c")) + sorted(glob.glob(r + "/src/liblsd/*.c"))
    powerman = ctx.cc_parallel(srcs, "powerman")
    model = ctx.ocaml_driver("libpm_model", "libpmmodel", "libpm_drv.ml")
    return impl, model, powerman


def load_corpus():
    cases = []
    for f in sorted(glob.glob(os.path.join(CORPUS, "*.json"))):
        d = json.load(open(f))
        c = case_from_json(d); c["tag"] = "corpus:" + os.path.basename(f)
        cases.append(c)
    return cases


def run(ctx, V):
    proofs_ok = vlib.proof_gate(ctx, V)
    if proofs_ok and ctx.tier == "thorough":
        # independent re-check of the compiled proofs (DESIGN 2.3): coqchk on the property module and everything it loads
        rc, o, e = vlib.sh(["timeout", "-s", "KILL", "1200", "coqchk", "-silent", "-o", "-Q", ".", "PM", "PM.Properties.C16"], cwd=ctx.coq, shell=False, timeout=1230)
        V.extra["coqchk"] = "rc=%d %s" % (rc, re.sub(r"\s+", " ", (o + e)[-400:]))
        if rc != 0 or "Axioms: <none>" not in re.sub(r"\s+", " ", o + e):
            V.tie_broken("proof", "coqchk PM.Properties.C16", (o + e)[-1500:])
    F = tree_facts(ctx)
    impl, model, powerman = build(ctx)
    R = Runner(ctx, F, impl, model, powerman)
    V.rule = ("corpus first; then generated: API sessions (connect / status / on / off / cycle / node iterator / raw receive / disconnect) against "
              "scripted replies with every code of the protocol and codes outside it, random + boundary-biased segmentations, damaged / truncated / "
              "prompt-less / arbitrary streams, payloads around CP_LINEMAX; every split of short streams; CLI sessions (flags -q -l -1 -T -x ...) "
              "against a scripted loopback server.  non-trivial = at least one call consumed server bytes")
    viol, disagree = {}, []
    rounds = [0]

    def evaluate(cases, record=True):
        rd = rounds[0]; rounds[0] += 1
        libs = [(i, c) for i, c in enumerate(cases) if c["kind"] == "lib"]
        clis = [(i, c) for i, c in enumerate(cases) if c["kind"] == "cli"]
        t0 = time.time()
        lib_lines = [("L%d" % i, lib_line("L%d" % i, c)) for i, c in libs]
        cli_lines = [("C%d" % i, cli_line("C%d" % i, c)) for i, c in clis]
        res_model = {}
        tm = threading.Thread(target=lambda: res_model.update(run_parallel(run_model_slice, model, lib_lines + cli_lines, 8)))
        tm.start()
        res_impl = run_parallel(run_impl_slice, impl, lib_lines, 8)
        res_cli = cli_drv.run_cases(powerman, [dict(id="C%d" % i, flags=c["flags"], stream=c["stream"], cuts=c.get("cuts", [])) for i, c in clis], workers=16, timeout=6.0)
        tm.join()
        ctx.log("round %d: ran %d library cases and %d CLI cases on both sides in %.1fs" % (rd, len(libs), len(clis), time.time() - t0))
        if rd == 0:
            V.extra["cases_per_second"] = round(len(cases) / max(0.001, time.time() - t0), 1)
        for i, c in libs:
            cid = "L%d" % i
            a, b = res_impl.get(cid), res_model.get(cid)
            if isinstance(a, tuple) and a[0] == "SKIPPED":
                continue
            ia = a if isinstance(a, tuple) else parse_lib_result(a or "")[0]
            nontriv = (not isinstance(ia, tuple)) and any(r["consumed"] > 0 for r in ia)
            V.case(lib_line("", c), nontrivial=nontriv or isinstance(ia, tuple))
            V.count("kind:" + c["tag"].split(":")[0])
            if not isinstance(ia, tuple):
                for r in ia:
                    V.count("rc:%d" % r["rc"])
            if c["tag"] in ("session", "recv", "big"):
                V.sample(lib_line("", c)[:300])
            bad = monitor_lib(c, ia, F)
            if bad:
                for clause, site, detail in bad:
                    viol.setdefault((clause, site), (c, detail))
            elif not lib_agree(a, b):
                disagree.append((c, "implementation: %s\nmodel:          %s" % (str(a)[:600], str(b)[:600])))
        for (i, c), r in zip(clis, res_cli):
            cid = "C%d" % i
            b = res_model.get(cid)
            V.case(cli_line("", c), nontrivial=len(r["out"]) + len(r["err"]) > 0)
            V.count("kind:" + c["tag"].split(":")[0]); V.count("cli-exit:%s" % r["rc"])
            if c["tag"] == "cli-session":
                V.sample(("powerman %s <- %r" % (" ".join(c["flags"]), c["stream"][:160])))
            bad = monitor_cli(c, r, F)
            if bad:
                for clause, site, detail in bad:
                    viol.setdefault((clause, site), (c, detail))
            else:
                ok, why = cli_agree(r, b, F)
                if not ok:
                    disagree.append((c, "R-CLI: %s\nmodel: %s" % (why, str(b)[:400])))

    cases = load_corpus() + generate(ctx, F)
    ctx.log("cases: %d" % len(cases))
    evaluate(cases)
    if (disagree or not proofs_ok) and not viol:
        # a proof or the correspondence no longer checks but the property was not seen to fail: search harder
        # (DESIGN 2.3 step 4: enlarged budget of freshly generated cases, same generator, continuing the PRNG)
        ctx.log("search: proof/correspondence broken without a failing input so far; enlarging the case budget")
        evaluate(generate(ctx, F, scale=(4 if ctx.tier == "quick" else 2), fixed=False))
        V.extra["search_rounds"] = rounds[0] - 1

    for (clause, site), (c, detail) in sorted(viol.items()):
        def fails(v, clause=clause, site=site):
            bad, _, _, _ = R.verdict(v)
            return any(b[0] == clause and b[1] == site for b in bad)
        if c["kind"] == "lib":
            a0, _ = R.lib(c)
            for cand in isolations(c, (parse_lib_result(a0)[0] if isinstance(a0, str) else None), F):
                if fails(cand):
                    c = cand; break
        small = shrink(c, fails, budget=(10 if site == "hang" else 80 if ctx.tier == "quick" else 300))
        bad, _, a, b = R.verdict(small)
        d2 = next((x[2] for x in bad if x[0] == clause and x[1] == site), detail)
        V.violation(clause, site, small_json(small), "%s\nimplementation: %s\nmodel: %s" % (d2, str(a)[:1500], str(b)[:800]))
    if disagree and not viol:
        c, detail = disagree[0]
        def differs(v):
            bad, agree, _, _ = R.verdict(v)
            return not agree
        small = shrink(c, differs, budget=80)
        _, _, a, b = R.verdict(small)
        V.tie_broken("correspondence", "R-CLI" if c["kind"] == "cli" else "R-SCAN",
                     "%d disagreeing cases; first (shrunk): implementation %s | model %s" % (len(disagree), str(a)[:1200], str(b)[:800]), case=small_json(small))
    elif disagree:
        ctx.log("%d model/implementation disagreements accompany the violations" % len(disagree))
    V.extra["disagreements"] = len(disagree)
    V.assumptions += [
        "C16: malloc/realloc/strdup succeed (PM_ENOMEM paths not modelled); replies shorter than 2^31 bytes (count is an int in the C)",
        "C16: read() hands out the scripted chunks, at most the number of bytes asked for; read() errors (PM_ERRNOVALID) are outside the model",
        "C16: glibc sscanf(\"%d\") = strtol saturation then conversion to int; isspace/strtol in the C locale (tied by R-SCAN on every run, not proved)",
        "C16: the CLI model starts at the established connection; option parsing, getaddrinfo/connect and write errors are not modelled"]


def replay(ctx, V, path):
    d = json.load(open(path))
    ctx.copy_repo(); ctx.copy_coq(); ctx.regen()
    F = tree_facts(ctx)
    impl, model, powerman = build(ctx)
    R = Runner(ctx, F, impl, model, powerman)
    cd = d.get("case") or (d.get("no_longer_checks") or [{}])[0].get("case")
    if not cd:
        print("no case recorded in", path); return 1
    case = case_from_json(cd)
    bad, agree, a, b = R.verdict(case)
    print("case:", json.dumps(cd)[:2000])
    print("implementation:", str(a)[:3000])
    print("model:         ", str(b)[:3000])
    print("correspondence:", "agree" if agree else "DISAGREE")
    for clause, site, detail in bad:
        print("MONITOR: clause=%s site=%s %s" % (clause, site, detail[:1500]))
    if not bad:
        print("MONITOR: property holds on this case")
    return 1 if (bad or not agree) else 0
