"""C09 - scripts see the device's bytes unaltered, in order, once.

proof:   Properties/C09.v (cbuf.c refines a bounded FIFO for every op list; in-order-once delivery ledger; the telnet
         filter + buffer computes TelnetSpec.parse of the stream for every split into reads and every interleaved
         consumption; NUL view of _getregex_buf; reconnect after an arbitrary first connection)
tie:     R-CBUF  harness/cbuf_h.c   (real cbuf.c, scripted read()/write())   vs extracted Model/Cbuf.v (Cbuf.step)
         R-TEL   harness/telnet_h.c (real cbuf.c + device_tcp.c + device.c: _handle_ready_device(POLLIN/POLLOUT),
                 _getregex_buf, _disconnect, tcp_finish_connect_one on real cbufs)  vs extracted Model/Telnet.v
         gen/gen_cbuf.py -> Gen/GenCbuf.v (CBUF_CHUNK, allocation overhead, overwrite enum, telnet bytes)
search:  the monitor = extracted Spec/Fifo.v and Spec/TelnetSpec.v evaluated on the IMPLEMENTATION's outputs
         (driver/cbuf_drv.ml monitor / tmonitor), on corpus + generated cases + the small-scope exhaustive sweep.
"""
import os, re, glob, json, subprocess, time, threading
from concurrent.futures import ThreadPoolExecutor
import vlib

HERE = vlib.VERIF
LOCK = threading.Lock()
OPNAME = {"w": "write", "W": "write", "p": "peek", "r": "read", "d": "drop", "l": "read_line", "k": "peek_line",
          "f": "write_from_fd", "t": "read_to_fd", "x": "flush", "u": "used", "o": "opt_set", "c": "preprocess",
          "s": "handle_write", "R": "reconnect", "e": "getregex_buf"}
IAC, DONT, DO, WONT, WILL, SB, SE, NOP = 255, 254, 253, 252, 251, 250, 240, 241
REPLY_OPTS = [3, 6, 24, 31, 39, 35, 32, 1, 33, 0]


# ---------------------------------------------------------------------------------------------- running things
def sh_run(cmd, inp=None, timeout=600, bigstack=False):
    """hard-killed after `timeout`; returns (rc, stdout, stderr)"""
    full = ["timeout", "-s", "KILL", str(timeout)]
    if bigstack:      # the extracted list functions are not tail recursive: 1 MiB buffers need a deep stack
        full += ["sh", "-c", 'ulimit -s unlimited 2>/dev/null || ulimit -s $(ulimit -Hs); exec "$@"', "sh"]
    full += list(cmd)
    p = subprocess.run(full, input=inp.encode("latin-1") if inp is not None else None, stdout=subprocess.PIPE, stderr=subprocess.PIPE)
    return p.returncode, p.stdout.decode("latin-1"), p.stderr.decode("latin-1")


def split_cases(out):
    """output of a harness / model run -> {id: [lines]}, died {id: status}"""
    res, died, cur = {}, {}, None
    for l in out.split("\n"):
        if l.startswith("C "):
            cur = l.split()[1]
            res[cur] = [l]
        elif l.startswith("! "):
            w = l.split()
            died[w[1]] = " ".join(w[2:])
        elif l.strip() and cur is not None:
            res[cur].append(l)
    return res, died


class Side:
    def __init__(self, ctx, kind, impl, model):
        self.ctx, self.kind, self.impl, self.model = ctx, kind, impl, model
        self.mode = "model" if kind == "cbuf" else "tmodel"
        self.mon = "monitor" if kind == "cbuf" else "tmonitor"
        self.n = 0

    def run_impl(self, text, timeout=900):
        rc, o, e = sh_run([self.impl], inp=text, timeout=timeout)
        return o, e

    def run_model(self, text, timeout=900):
        rc, o, e = sh_run([self.model, self.mode], inp=text, timeout=timeout, bigstack=True)
        if rc != 0:
            raise vlib.TieBroken("extracted model driver failed (rc=%d): %s" % (rc, e[-800:]))
        return o

    def run_monitor(self, cases, impl_out, timeout=900):
        """cases: {id: line}; impl_out: {id: [lines]} -> {id: (ok, opno, clause, detail)}"""
        self.n += 1
        f = os.path.join(self.ctx.scratch, "mon.%s.%d.%d" % (self.kind, os.getpid(), self.n) + str(time.time_ns()))
        with open(f, "w") as fh:
            for i, line in cases.items():
                if i in impl_out:
                    fh.write("@ " + line + "\n" + "\n".join(impl_out[i]) + "\n")
        rc, o, e = sh_run([self.model, self.mon, f], timeout=timeout, bigstack=True)
        os.unlink(f)
        if rc != 0:
            raise vlib.TieBroken("monitor failed (rc=%d): %s" % (rc, e[-800:]))
        res = {}
        for l in o.split("\n"):
            w = l.split(" ", 5)
            if len(w) >= 3 and w[0] == "M":
                res[w[1]] = (True, 0, "", "") if w[2] == "ok" else (False, int(w[3]), w[4], w[5] if len(w) > 5 else "")
        return res

    def evaluate(self, cases):
        """cases: {id: line}. returns {id: dict(impl, model, died, mon)}"""
        text = "".join(l + "\n" for l in cases.values())
        io, ie = self.run_impl(text)
        impl, died = split_cases(io)
        model, _ = split_cases(self.run_model(text))
        mon = self.run_monitor({i: l for i, l in cases.items() if i not in died}, impl)
        out = {}
        for i in cases:
            out[i] = dict(impl=impl.get(i, []), model=model.get(i, []), died=died.get(i), mon=mon.get(i), stderr=ie[-1500:] if i in died else "")
        return out


def ops_of(line):
    parts = [p.strip() for p in line.split("|")]
    return parts[0], [p for p in parts[1:] if p]


def mk_line(hdr, ops):
    return hdr + " | " + " | ".join(ops) if ops else hdr


def verdict_of(r, nops):
    """-> None (fine) | ('violation', clause, opindex, detail) | ('tie', opindex, detail)"""
    if r["died"] is not None:
        k = max(len(r["impl"]) - 1, 0)        # ops completed before the process died
        return ("violation", "inv", min(k, max(nops - 1, 0)), "implementation died (%s) %s" % (r["died"], r["stderr"][-600:]))
    if r["mon"] is None:
        return ("violation", "output", 0, "no monitor verdict")
    ok, opno, clause, detail = r["mon"]
    if not ok:
        return ("violation", clause, max(opno - 1, 0), detail)
    if r["impl"] != r["model"]:
        k = next((j for j, (a, b) in enumerate(zip(r["impl"], r["model"])) if a != b), min(len(r["impl"]), len(r["model"])))
        a = r["impl"][k] if k < len(r["impl"]) else "<missing>"
        b = r["model"][k] if k < len(r["model"]) else "<missing>"
        return ("tie", max(k - 1, 0), "implementation: %s   model: %s" % (a[:300], b[:300]))
    return None


def shrink(side, line, want, budget=120):
    """greedy delta-debugging of the op list keeping the same kind of verdict (and clause)"""
    hdr, ops = ops_of(line)
    hid = hdr.split()[0]

    def same(ops2):
        l2 = mk_line(hdr, ops2)
        r = side.evaluate({hid: l2})[hid]
        v = verdict_of(r, len(ops2))
        return v is not None and v[0] == want[0] and (want[0] != "violation" or v[1] == want[1])

    # cut everything after the failing op first
    cut = ops[:want[2] + 1] if want[0] == "violation" else ops[:want[1] + 1]
    if len(cut) < len(ops) and budget > 0:
        budget -= 1
        if same(cut):
            ops = cut
    changed = True
    while changed and budget > 0:
        changed = False
        i = 0
        while i < len(ops) and budget > 0:
            cand = ops[:i] + ops[i + 1:]
            budget -= 1
            if cand and same(cand):
                ops = cand
                changed = True
            else:
                i += 1
    # shorten hex payloads
    for i in range(len(ops)):
        w = ops[i].split()
        if w[0] in ("w", "c") and len(w) > 1 and len(w[1]) > 4 and budget > 0:
            h = w[1]
            for cand_h in (h[:len(h) // 4 * 2], h[len(h) // 4 * 2:], h[:-2], h[2:]):
                if budget <= 0 or not cand_h:
                    break
                budget -= 1
                cand = ops[:i] + [w[0] + " " + cand_h] + ops[i + 1:]
                if same(cand):
                    ops = cand
                    break
    return mk_line(hdr, ops)


# ---------------------------------------------------------------------------------------------- generators
def hexs(bs):
    return bytes(bs).hex() if bs else "-"


def rand_bytes(rng, n):
    return [10 if rng.random() < 0.12 else (0 if rng.random() < 0.05 else rng.randrange(256)) for _ in range(n)]


def gen_cbuf_case(rng, cid, big=None):
    if big == "dev":
        mn, mx = 1024, 65536
    elif big == "cli":
        mn, mx = 1024, 1048576
    elif big == "mid":
        mn = rng.randrange(8, 65); mx = rng.choice([1000, 1001, 1500, 2016, 2017, 2500, 3100])
    else:
        mn = rng.randrange(8, 65) if rng.random() < 0.85 else rng.randrange(1, 8)
        mx = rng.choice([mn, mn + 1, mn + rng.randrange(0, 80), rng.randrange(1, mn + 1), 0])
    cap = max(mn, mx)
    nops = rng.randrange(5, 40) if not big else rng.randrange(8, 30)
    used, size, mode = 0, mn, 2         # an estimate, only used to aim sizes at the boundaries
    ops = []
    for _ in range(nops):
        x = rng.random()
        nfree = size - used
        if x < 0.30:
            pick = rng.random()
            if pick < 0.5:
                n = max(0, rng.choice([1, 2, 3, nfree - 1, nfree, nfree + 1, size - 1, size, size + 1, cap - used - 1, cap - used, cap - used + 1]))
            elif pick < 0.9:
                n = rng.randrange(0, min(cap, 4000) + 3)
            else:
                n = rng.choice([cap, cap + 1, cap + 2, 2 * cap + 3, 3 * cap + 7])
            if big in ("dev", "cli") and rng.random() < 0.4:
                n = rng.choice([999, 1000, 1001, 1983, 1984, 3000, 20000, cap - used, cap - used + 5])
            n = max(0, min(n, 1100000))
            if n <= 300 and rng.random() < 0.7:
                ops.append("w " + hexs(rand_bytes(rng, n)) if n else "w -")
            else:
                ops.append("W %d %d" % (n, rng.randrange(0, 255)))
            if mode == 2:
                used = min(cap, used + n)
            elif mode == 1:
                used = min(cap, used + min(n, cap))
            else:
                used = min(cap, used + max(0, min(n, cap - used)))
            size = max(size, min(cap, used))
        elif x < 0.40:
            ops.append("p %d" % rng.choice([0, 1, used - 1, used, used + 1, rng.randrange(0, cap + 3), -1 if rng.random() < 0.1 else 2]))
        elif x < 0.52:
            n = rng.choice([0, 1, used - 1, used, used + 1, rng.randrange(0, cap + 3), -1, -2 if rng.random() < 0.1 else 1])
            ops.append("d %d" % n)
            used = 0 if n == -1 else max(0, used - max(n, 0))
        elif x < 0.62:
            n = rng.choice([0, 1, used - 1, used, used + 1, rng.randrange(0, cap + 3)])
            ops.append("r %d" % n)
            used = max(0, used - max(n, 0))
        elif x < 0.72:
            ops.append("%s %d %d" % (rng.choice("lllk"), rng.choice([0, 1, 2, 5, 16, 64, 200, cap + 2, -1 if rng.random() < 0.1 else 80]),
                                     rng.choice([1, 1, 1, 2, 3, -1, -1, 0, -2 if rng.random() < 0.1 else 1])))
            used = max(0, used - 8)
        elif x < 0.84:
            items = []
            for _ in range(rng.randrange(0, 5)):
                y = rng.random()
                items.append("e" if y < 0.15 else "z" if y < 0.25 else "+" + hexs(rand_bytes(rng, rng.choice([1, 2, 3, 7, nfree, nfree + 1, rng.randrange(1, 60)]) or 1)))
            ln = rng.choice([-1, -1, -1, -1, 0, 1, 5, nfree, nfree + 1, cap + 3, -2 if rng.random() < 0.1 else 17])
            ops.append("f %d %s" % (ln, ",".join(items) or "-"))
            used = min(cap, used + 10)
            size = max(size, min(cap, used))
        elif x < 0.94:
            acc = [str(rng.choice([0, 1, 2, 3, 7, -1, rng.randrange(0, 50), 100000])) for _ in range(rng.randrange(0, 4))]
            ops.append("t %d %s" % (rng.choice([-1, -1, -1, 0, 1, used, used + 1, rng.randrange(0, cap + 2), -2 if rng.random() < 0.1 else 9]), ",".join(acc) or "-"))
            used = max(0, used - 5)
        elif x < 0.96:
            ops.append("x"); used = 0
        elif x < 0.98:
            ops.append("u")
        else:
            v = rng.choice([0, 1, 2, 2, 7])
            ops.append("o %d" % v)
            if v in (0, 1, 2):
                mode = v
    return mk_line("%s %d %d" % (cid, mn, mx), ops)


def telnet_stream(rng, n):
    s = []
    while len(s) < n:
        x = rng.random()
        if x < 0.45:
            s += [rng.choice([97, 98, 13, 10, 0, 48, rng.randrange(256)]) for _ in range(rng.randrange(1, 6))]
        elif x < 0.60:
            s += [IAC, IAC]
        elif x < 0.80:
            s += [IAC, rng.choice([DO, DO, DO, DONT, WILL, WONT]), rng.choice(REPLY_OPTS + [rng.randrange(256), 255, 253])]
        elif x < 0.90:
            s += [IAC, rng.choice([NOP, SB, SE, 249, 0, 97, 239])]
        elif x < 0.95:
            s += [IAC]
        else:
            s += [rng.choice([DO, WILL, SB, 0, 255])]
    return s


def py_decode(s):
    """independent python copy of the decoder, used ONLY to aim the generator (how much is unread / unanswered)"""
    d, r, i = 0, 0, 0
    st = 0
    for b in s:
        if st == 0:
            if b == IAC: st = 1
            else: d += 1
        elif st == 1:
            if b == IAC: d += 1; st = 0
            elif b in (DO, DONT, WILL, WONT): st = 2; cmd = b
            else: st = 0
        else:
            if cmd == DO and b in REPLY_OPTS: r += 3
            st = 0
    return d, r


def gen_telnet_case(rng, cid, big=False):
    if big:
        mn, mx = 1024, 65536
        total = rng.choice([200, 1500, 3000, 6000])
        maxchunk = rng.choice([50, 700, 1100, 2500])
    else:
        mn = rng.randrange(8, 33); mx = rng.choice([mn, mn + rng.randrange(1, 60), 64, 200])
        total = rng.randrange(1, 80)
        maxchunk = rng.choice([1, 2, 3, 5, 9, 30])
    cap = max(mn, mx)
    over = rng.random() < 0.08         # a few cases deliberately exceed the capacity (excluded by the monitor, still tied)
    ops, unread, unanswered, sent = [], 0, 0, []
    s = telnet_stream(rng, total)
    i = 0
    while i < len(s):
        k = rng.randrange(1, maxchunk + 1)
        if not over:
            if unread >= cap or (unread > 0 and rng.random() < 0.02):
                n = rng.randrange(1, unread + 1)
                ops.append("d %d" % n); unread -= n
                continue
            k = min(k, cap - unread)
        chunk = s[i:i + k]
        if not over and unanswered + 3 * (len(chunk) // 3 + 1) > cap:
            ops.append("s -"); unanswered = 0
            continue
        d0, r0 = py_decode(sent)
        sent += chunk
        d1, r1 = py_decode(sent)
        ops.append("c " + hexs(chunk))
        unread += d1 - d0; unanswered += r1 - r0
        i += k
        x = rng.random()
        if x < 0.20:
            n = rng.choice([0, 1, 2, unread, unread + 1, rng.randrange(0, unread + 2)])
            ops.append("d %d" % n); unread = max(0, unread - n)
        elif x < 0.40:
            n = min(rng.choice([0, 1, 2, unread, unread + 1, rng.randrange(0, unread + 2)]), 250)
            ops.append("e %d" % n)
            if n <= unread:
                unread -= n
        x = rng.random()
        if x < 0.2:
            acc = [str(rng.choice([1, 2, 3, 4, -1, 100])) for _ in range(rng.randrange(0, 3))]
            ops.append("s " + (",".join(acc) or "-"))
            unanswered = 0 if not acc else unanswered
        if rng.random() < 0.03:
            ops.append("R"); unread = 0; unanswered = 0; sent = []
    if rng.random() < 0.5:
        ops.append("d %d" % (unread + 1))
    return mk_line("%s %d %d" % (cid, mn, mx), ops)


# ---------------------------------------------------------------------------------------------- the check
def stats(V, kind, line, r):
    hdr, ops = ops_of(line)
    for o in ops:
        V.count("%s.op:%s" % (kind, OPNAME.get(o[0], o[0])))
    nontrivial = False
    sizes = set()
    for l in r["impl"][1:]:
        parts = l.split(";")
        try:
            ints = parts[-1].split() if kind == "cbuf" else parts[2].split()
            size, used, i_in, i_out, i_rep, wrap = [int(x) for x in ints]
        except Exception:
            continue
        sizes.add(size)
        if i_in < i_out and used > 0:
            V.count(kind + ".branch:unread-data-wraps"); nontrivial = True
        if wrap:
            V.count(kind + ".branch:got_wrap")
    if len(sizes) > 1:
        V.count(kind + ".branch:grow"); nontrivial = True
    if kind == "cbuf":
        for l in r["impl"][1:]:
            w = l.split()
            if w and w[0] in ("w", "W", "f") and len(w) > 2 and w[2].lstrip("-").isdigit() and int(w[2]) > 0:
                V.count("cbuf.branch:overwrite-dropped"); nontrivial = True; break
    else:
        if any(" ff" in o or "ff" in o.split()[-1] for o in ops if o[0] == "c"):
            nontrivial = True
    return nontrivial


def process(ctx, V, side, cases, relation):
    """evaluate a batch, record verdicts; returns number of problems"""
    if not cases:
        return 0
    res = side.evaluate(cases)
    bad = 0
    with LOCK:
      for i, line in cases.items():
          r = res[i]
          hdr, ops = ops_of(line)
          V.case((side.kind, line), nontrivial=stats(V, side.kind, line, r))
          V.sample(side.kind + ": " + (line if len(line) < 300 else line[:300] + "..."))
          v = verdict_of(r, len(ops))
          if v is None:
              continue
          bad += 1
          if bad > 3:          # the first few are shrunk and reported, the rest only counted
              V.count(side.kind + ".failing-cases-not-shrunk")
              continue
          small = shrink(side, line, v)
          r2 = side.evaluate({hdr.split()[0]: small})[hdr.split()[0]]
          h2, ops2 = ops_of(small)
          v2 = verdict_of(r2, len(ops2)) or v
          if v2[0] == "violation":
              opk = ops2[v2[2]][0] if ops2 and v2[2] < len(ops2) else "?"
              site = ("cbuf." if side.kind == "cbuf" else "telnet.") + OPNAME.get(opk, opk)
              V.violation(v2[1], site, dict(kind=side.kind, line=small), "%s | implementation trace: %s" % (v2[3], " / ".join(r2["impl"])[:1500]))
          else:
              V.tie_broken("correspondence", relation, v2[2], case=dict(kind=side.kind, line=small))
    return bad


def shard(cases, n):
    items = list(cases.items())
    return [dict(items[i::n]) for i in range(n) if items[i::n]]


def run_sweep(ctx, V, impl, model, lfull, luni, nparts):
    """small-scope exhaustive sweep: every stream over {IAC, DO, WILL, SB, 'a', NUL} up to length luni, every split into
    reads, drop schedules in {0,1,2} per read (all of them up to length lfull, uniform ones above)"""
    def part(p):
        rc1, o1, e1 = sh_run([impl, "sweep", str(lfull), str(luni), str(p), str(nparts)], timeout=1500)
        rc2, o2, e2 = sh_run([model, "tsweep", str(lfull), str(luni), str(p), str(nparts)], timeout=1500, bigstack=True)
        return rc1, o1, e1, rc2, o2, e2
    with ThreadPoolExecutor(max_workers=min(nparts, 16)) as ex:
        parts = list(ex.map(part, range(nparts)))
    streams = cases = 0
    problems = []
    for rc1, o1, e1, rc2, o2, e2 in parts:
        if rc2 != 0:
            raise vlib.TieBroken("model sweep failed: " + e2[-500:])
        mS = {l.split()[1]: l for l in o2.split("\n") if l.startswith("S ")}
        mE = {l.split()[1]: l.split()[2] for l in o2.split("\n") if l.startswith("E ")}
        iS = {l.split()[1]: l for l in o1.split("\n") if l.startswith("S ")}
        if rc1 != 0:
            problems.append(("violation", "inv", None, "sweep: implementation died rc=%d %s" % (rc1, e1[-600:])))
        for st, ml in mS.items():
            il = iS.get(st)
            if il is None:
                continue
            w = il.split()
            streams += 1; cases += int(w[2])
            results = [x.rsplit("@", 1) for x in w[4:]]
            for key, wit in results:
                k = key.split("/")
                if k[0] + "/" + k[1] != mE[st]:
                    problems.append(("violation", "telnet_data" if k[0] != mE[st].split("/")[0] else "telnet_replies", (st, wit),
                                     "stream %s split/schedule %s: consumed ++ unread / replies = %s/%s, the stream decodes to %s" % (st, wit, k[0], k[1], mE[st])))
                    break
            else:
                if il != ml:
                    problems.append(("tie", "R-TEL", (st, results[0][1]), "sweep stream %s: implementation %s   model %s" % (st, il[:300], ml[:300])))
    V.count("telnet.sweep:streams", streams)
    V.count("telnet.sweep:cases", cases)
    V.evaluations += cases
    return problems


def sweep_case(st, wit):
    """(stream hex, 'mask:schedule') -> an ordinary telnet case line"""
    s = bytes.fromhex("" if st == "-" else st)
    mask, sched = wit.split(":")
    mask = int(mask)
    ops, start, ci = [], 0, 0
    for i in range(len(s)):
        if i == len(s) - 1 or (mask >> i) & 1:
            ops.append("c " + s[start:i + 1].hex())
            if sched[ci] != "0":
                ops.append("d " + sched[ci])
            start = i + 1; ci += 1
    return mk_line("sweep 8 32", ops)


def load_corpus():
    cases = {"cbuf": {}, "telnet": {}}
    for f in sorted(glob.glob(os.path.join(HERE, "corpus", "C09", "*.case"))):
        for k, l in enumerate(open(f).read().split("\n")):
            l = l.strip()
            if not l or l.startswith("#"):
                continue
            kind, line = l.split(":", 1)
            hdr, ops = ops_of(line.strip())
            w = hdr.split()
            cid = "corpus-%s-%d" % (os.path.basename(f)[:-5], k)
            cases[kind.strip()][cid] = mk_line(" ".join([cid] + w[1:]), ops)
    return cases


def build(ctx):
    impl_c = ctx.cc([HERE + "/harness/cbuf_h.c"], "cbuf_h")
    # telnet_h.c #includes cbuf.c, device_tcp.c and device.c of the scratch copy; what device.c's entry points reach is linked
    # from the tree, the rest of device.c is discarded by --gc-sections
    deps = [os.path.join(ctx.repo, "src", f) for f in ("liblsd/list.c", "libcommon/xregex.c", "powerman/arglist.c", "powerman/pluglist.c",
                                                        "liblsd/hostlist.c", "liblsd/hash.c")]
    impl_t = ctx.cc([HERE + "/harness/telnet_h.c"] + deps, "telnet_h", extra=["-ffunction-sections", "-fdata-sections", "-Wl,--gc-sections"])
    model = ctx.ocaml_driver("cbuf_model", "cbufmodel", "cbuf_drv.ml")
    return Side(ctx, "cbuf", impl_c, model), Side(ctx, "telnet", impl_t, model)


def run(ctx, V):
    proofs_ok = vlib.proof_gate(ctx, V)
    ok, log, failing = ctx.coq_make(["Extract/ExCbuf.vo"])       # re-extract: the model must reflect the regenerated Gen files
    if not ok:
        raise vlib.TieBroken("extraction of the model does not build: " + log[-1500:])
    quick = ctx.tier == "quick"
    try:
        cside, tside = build(ctx)
    except vlib.TieBroken as ex:
        # a harness reaches into device_tcp.c / cbuf.c by name: if it no longer builds the correspondence is gone, but the whole daemon still
        # builds - search it for an input on which the property itself fails before giving up
        V.tie_broken("tie", "harness-build", str(ex)[:1500])
        V.rule = "the unit harnesses do not build against this tree; only the whole-path stage on pmsim ran (search for a failing input)"
        pmsim_stage(ctx, V, 60 if quick else 400)
        return
    V.rule = ("R-CBUF: random op sequences (write / pattern write / peek / read / drop / read_line / peek_line / write_from_fd with scripted "
              "short reads, EOF, EAGAIN / read_to_fd with scripted short writes / flush / used / opt_set) on buffers created with minsize 1..64 and "
              "maxsize around it, on medium pairs that grow in CBUF_CHUNK steps, and on the real 1024/65536 and 1024/1048576 pairs; lengths are aimed at "
              "free-space, size and capacity boundaries +-1.  R-TEL: random telnet streams (data, IAC IAC, IAC DO/DONT/WILL/WONT opt, IAC cmd, stray IAC, NUL) "
              "cut into reads of random length (each read = device.c:_handle_ready_device(XPOLLIN)), interleaved with partial consumption (cbuf_peek+cbuf_drop, and "
              "expects ^.{n} through the real _getregex_buf), partial writes of the replies (_handle_ready_device(XPOLLOUT)) and reconnects (_disconnect + "
              "tcp_finish_connect_one), on small buffers (wrap, growth) and on 1024/65536; plus the small-scope exhaustive sweep.  non-trivial = unread data wrapped around the array end, the buffer grew, bytes were "
              "overwritten, or the stream contained an IAC.  Monitor: extracted Spec/Fifo.v / Spec/TelnetSpec.v evaluated on the implementation's outputs.")
    corpus = load_corpus()
    V.count("corpus:cbuf", len(corpus["cbuf"])); V.count("corpus:telnet", len(corpus["telnet"]))
    bad = process(ctx, V, cside, corpus["cbuf"], "R-CBUF") + process(ctx, V, tside, corpus["telnet"], "R-TEL")

    def budget(mult):
        rng = ctx.rng
        if quick:
            nc, nmid, ndev, ncli, nt, ntbig = 1500, 120, 24, 3, 1500, 12
        else:
            nc, nmid, ndev, ncli, nt, ntbig = 60000, 4000, 400, 24, 60000, 300
        nc, nmid, ndev, ncli, nt, ntbig = [int(x * mult) for x in (nc, nmid, ndev, ncli, nt, ntbig)]
        cc, tc = {}, {}
        for k in range(nc):
            cc["c%d" % k] = gen_cbuf_case(rng, "c%d" % k)
        for k in range(nmid):
            cc["m%d" % k] = gen_cbuf_case(rng, "m%d" % k, big="mid")
        for k in range(ndev):
            cc["D%d" % k] = gen_cbuf_case(rng, "D%d" % k, big="dev")
        for k in range(ncli):
            cc["L%d" % k] = gen_cbuf_case(rng, "L%d" % k, big="cli")
        for k in range(nt):
            tc["t%d" % k] = gen_telnet_case(rng, "t%d" % k)
        for k in range(ntbig):
            tc["T%d" % k] = gen_telnet_case(rng, "T%d" % k, big=True)
        return cc, tc

    def generated(mult):
        cc, tc = budget(mult)
        nsh = 4 if quick else 16
        jobs = [(cside, sh, "R-CBUF") for sh in shard(cc, nsh)] + [(tside, sh, "R-TEL") for sh in shard(tc, nsh)]
        t = time.time()
        with ThreadPoolExecutor(max_workers=16) as ex:
            n = sum(ex.map(lambda j: process(ctx, V, j[0], j[1], j[2]), jobs))
        V.extra["cases_per_second"] = round((len(cc) + len(tc)) / max(time.time() - t, 1e-6), 1)
        return n

    bad += generated(1)
    lf, lu, nparts = (4, 5, 4) if quick else (5, 6, 16)
    t = time.time()
    probs = run_sweep(ctx, V, tside.impl, tside.model, lf, lu, nparts)
    V.extra["sweep"] = dict(full_schedules_up_to_length=lf, uniform_schedules_up_to_length=lu, wall_s=round(time.time() - t, 1),
                            alphabet="IAC DO WILL SB 'a' NUL", exhaustive_within_scope=True)
    for kind, name, where, detail in probs[:3]:
        bad += 1
        if kind == "violation":
            case = dict(kind="telnet", line=sweep_case(*where)) if where else None
            V.violation(name, "telnet.preprocess", case, detail)
        else:
            V.tie_broken("correspondence", name, detail, case=dict(kind="telnet", line=sweep_case(*where)))
    pmsim_stage(ctx, V, 24 if quick else 400)
    if (not proofs_ok or V.broken) and not V.violations:
        # a proof or the correspondence no longer checks but no input violating the property was found: search harder
        ctx.log("proof/tie broken without a failing input: enlarged search")
        generated(5 if quick else 3)
        if quick:
            for kind, name, where, detail in run_sweep(ctx, V, tside.impl, tside.model, 5, 6, 16)[:3]:
                if kind == "violation":
                    V.violation(name, "telnet.preprocess", dict(kind="telnet", line=sweep_case(*where)) if where else None, detail)


def pmsim_stage(ctx, V, n):
    """the byte path on the WHOLE daemon (pmsim: unmodified powermand, real device_tcp.c / device.c / cbuf.c under the virtual OS), for what
    the one-device harness of R-TEL cannot show:
      split   two tcp devices that are healthy but telnet-chatty: every answer carries a telnet sequence and is CUT inside it, the rest follows
              two rounds later, the other device's answers are read in between (the decoder position belongs to the connection);
      relogin the first login of a device's life is answered with something else of the same length as the prompt (or one byte less / more):
              the login times out, the daemon reconnects, and on the new connection the prompt must be seen (nothing of the old connection -
              bytes, fill level, match bookkeeping - is visible after the reconnect).
    Monitor: the devices are healthy where it matters, so the requests concerned must end with a success code."""
    import random, pmsim, pmgen, pmcheck
    exe = pmsim.build(ctx)
    scs = []
    for i in range(n):
        rng = random.Random(ctx.seed * 49979687 + i)
        cfg = pmgen.Config()
        d0 = pmgen.Dev("d0", ["login", "on", "off", "status"], hardwired=["p1", "p2"], transport="tcp", timeout=rng.choice([3.0, 4.0]))
        d1 = pmgen.Dev("d1", ["login", "on", "off", "status"], hardwired=["p1"], transport="tcp", timeout=rng.choice([3.0, 4.0]))
        cfg.devs += [d0, d1]
        cfg.node_lines += [("n0,n1", "d0", "p1,p2"), ("n2", "d1", "p1")]
        cfg.truth = {"d0": {"p1": "n0", "p2": "n1"}, "d1": {"p1": "n2"}}
        reqs = [rng.choice(["status n[0-2]", "on n[0-2]", "off n0,n2", "status", "on n1,n2"]) for _ in range(rng.randint(2, 4))]
        if i % 2 == 0:
            S = [("devmode", "d0", "iacsplit"), ("devmode", "d1", "iacsplit"), ("connect",), ("wait", 0)]
            for r in reqs: S += [("send", 0, (r + "\r\n").encode()), ("wait", 0)]
            tags = dict(style="c09-split", must_succeed=list(range(len(reqs))))
        else:
            S = [("devmode", "d1", "badlogin"), ("connect",), ("wait", 0), ("sleep", 9000000)]
            for r in reqs: S += [("send", 0, (r + "\r\n").encode()), ("wait", 0)]
            tags = dict(style="c09-relogin", must_succeed=list(range(len(reqs))))
        scs.append(pmcheck.Scenario(cfg, S, dict(tags, ncli=1)))

    def mon_succeed(sess, sc):
        if not sess.alive_after_script or sess.wedged or sess.overrun:
            return []
        codes = [r[0] for r in (pmcheck.split_replies(sess.client_out.get(0, b"")) or []) if isinstance(r[0], int)]
        bad = [(i, codes[i] if i < len(codes) else None) for i in sc.tags["must_succeed"] if i >= len(codes) or not 100 <= codes[i] < 200]
        if bad:
            return [("whole-path", sc.tags["style"][4:], "healthy (%s) devices, yet request #%d ended with %s: what the scripts saw is not what the devices sent | %r" % (
                "telnet-chatty" if sc.tags["style"] == "c09-split" else "first login answered wrongly, then fine", bad[0][0], bad[0][1], sess.client_out.get(0, b"")[-400:]))]
        return []
    pmcheck.MONITORS["c09succeed"] = mon_succeed
    pmcheck.run_batch(ctx, V, exe, scs, ["alive", "wedge", "c09succeed"], "c09w")
    V.count("whole-path-histories", len(scs))


def replay(ctx, V, path):
    rec = json.load(open(path))
    case = rec.get("case") or (rec.get("no_longer_checks") or [{}])[0].get("case")
    if not case:
        print("replay file names no concrete case: " + json.dumps(rec)[:600])
        return 1
    ctx.copy_repo(); ctx.copy_coq(); ctx.regen()
    ok, log, failing = ctx.coq_make(["Extract/ExCbuf.vo"])
    if not ok:
        print("extraction does not build: " + log[-800:])
        return 1
    cside, tside = build(ctx)
    side = cside if case["kind"] == "cbuf" else tside
    hdr, ops = ops_of(case["line"])
    cid = hdr.split()[0]
    r = side.evaluate({cid: case["line"]})[cid]
    print("case (%s): %s" % (case["kind"], case["line"]))
    print("implementation:"); print("\n".join("  " + l for l in r["impl"]))
    if r["died"]:
        print("  implementation died: %s\n%s" % (r["died"], r["stderr"]))
    print("model:"); print("\n".join("  " + l for l in r["model"]))
    v = verdict_of(r, len(ops))
    if v is None:
        print("monitor: property holds on this case; implementation and model agree")
        return 0
    if v[0] == "violation":
        print("monitor: VIOLATED clause %s at op #%d: %s" % (v[1], v[2] + 1, v[3]))
    else:
        print("monitor: property holds on this case, but implementation and model differ at op #%d: %s" % (v[1] + 1, v[2]))
    return 1
