"""C14 -- host-range notation round-trips without changing any name (src/liblsd/hostlist.c)

proof        coq/Properties/C14.v over coq/Model/HL.v (+ Gen/GenHL.v regenerated from the current source)
tie (R-HL)   harness/hl_h.c (the real hostlist.c, #included) vs driver/hl_drv.ml (extracted HL.step) on the same op
             sequences: every result and, after every op, the full internal range array + nhosts + iterator state
monitor      every answer of the C API checked against an independent python reading of the range array
             (py_expand, cross-checked against the extracted HLSpec.expand on every state) and of the bracket
             notation (ref_expand): a change of hostlist.c that breaks the property gives a concrete failing input
"""
import os, sys, json, re, subprocess, time, hashlib
import vlib

MAX_SUFFIX = 1 << 25
MAX_RANGE = 16384
MAX_RANGES = 10240
SEPS = b"\t, "
FORBIDDEN_IN_NAMES = b"[], \t"


def hx(b):
    return b.hex() if b else "-"


def unhx(s):
    return b"" if s == "-" else bytes.fromhex(s)


# ---------------------------------------------------------------------------------------------- reference
def py_names(r):
    pfx, lo, hi, w, single = r
    if single:
        return [pfx]
    return [pfx + str(k).zfill(w).encode() for k in range(lo, hi + 1)]


def py_expand(ranges):
    out = []
    for r in ranges:
        out += py_names(r)
    return out


def state_size(ranges):
    return sum(1 if r[4] else max(0, r[2] - r[1] + 1) for r in ranges)


def sane(ranges):
    """states the reference semantics is applied to: lo <= hi < 2^64 - 1 in every range, moderate size"""
    return all(r[4] or (r[1] <= r[2] < 2 ** 64 - 1) for r in ranges) and state_size(ranges) < 300000


def split_tokens(expr):
    """documented tokenisation: separators outside brackets; returns None if brackets are unbalanced in a way the
    documented grammar does not define (negative depth / nesting)"""
    toks, cur, depth = [], b"", 0
    for c in expr:
        ch = bytes([c])
        if depth == 0 and ch in (b"\t", b",", b" "):
            if cur:
                toks.append(cur)
            cur = b""
            continue
        if ch == b"[":
            depth += 1
            if depth > 1:
                return None
        elif ch == b"]":
            depth -= 1
            if depth < 0:
                return None
        cur += ch
    if cur:
        toks.append(cur)
    if depth != 0:
        return "unbalanced"
    return toks


ITEM = re.compile(rb"([0-9]+)(?:-([0-9]+))?")


def ref_expand(expr):
    """independent reading of the documented notation.  returns list of names, "error" (the expression must be
    refused: reversed range, over-long range, unbalanced bracket, empty bracket) or None (outside the documented
    grammar: only the model/implementation tie applies)"""
    toks = split_tokens(expr)
    if toks is None:
        return None
    if toks == "unbalanced":
        # a lone "[" without "]" in the last token: documented as an error
        return "error" if expr.count(b"[") == 1 and expr.count(b"]") == 0 else None
    out = []
    for t in toks:
        if b"[" not in t and b"]" not in t:
            if len(t) >= 1023 or 0 in t:
                return None
            out.append(t)
            continue
        m = re.fullmatch(rb"([^\[\]]*)\[([^\[\]]*)\]([^\[\]]*)", t, re.S)
        if not m:
            return None
        pfx, items, sfx = m.group(1), m.group(2), m.group(3)
        if items == b"":
            return "error"
        parts = items.split(b",")
        if len(parts) > MAX_RANGES:
            return None
        names = []
        for p in parts:
            mm = ITEM.fullmatch(p)
            if not mm:
                return None
            lo = int(mm.group(1)); hi = int(mm.group(2)) if mm.group(2) is not None else lo
            w = len(mm.group(1))
            if hi >= 2 ** 64 - 1 and not (sfx and hi == 2 ** 64 - 1 and len(mm.group(2) or mm.group(1)) == 20):
                return None       # (with a suffix the names are pushed one by one: hi == ULONG_MAX written exactly is in scope, F33)
            if lo > hi:
                return "error"
            if hi - lo >= MAX_RANGE:
                return "error"
            for k in range(lo, hi + 1):
                n = pfx + str(k).zfill(w).encode() + sfx
                if len(n) > 4000:
                    return None
                names.append(n)
        out += names
    return out


def trailing_run(name):
    i = len(name)
    while i > 0 and 48 <= name[i - 1] <= 57:
        i -= 1
    return name[i:]


def suffix_small(name):
    t = trailing_run(name)
    return t == b"" or int(t) <= MAX_SUFFIX


def printable_state(ranges, allow_long=False):
    """ranged_string/create round trip is claimed for these states (wf of the theorem).  allow_long: also states holding a
    numbered range of MAX_RANGE or more hosts (a join of pushed runs): the property text covers them, hostlist_create does
    not re-read them (finding F35 roundtrip@run_ge_MAX_RANGE, Coq: HLRound.roundtrip_refuted_long_run)"""
    grp = 0
    for i, r in enumerate(ranges):
        pfx, lo, hi, w, single = r
        if any(c in FORBIDDEN_IN_NAMES or c == 0 for c in pfx):
            return False
        if single:
            if pfx == b"" or len(pfx) >= 1023:
                return False
            grp = 0
            continue
        if lo > hi or (hi - lo >= MAX_RANGE and not allow_long) or hi >= 10 ** 19 or len(pfx) + max(w, len(str(hi))) >= 1023:
            return False
        if i > 0 and not ranges[i - 1][4] and ranges[i - 1][0] == pfx:
            grp += 1
        else:
            grp = 1
        if grp > MAX_RANGES:
            return False
    return True


def in_scope_names(ranges):
    """names up to 63 characters, numeric parts up to 9 digits, suffix field at most 14 wide"""
    for pfx, lo, hi, w, single in ranges:
        if single:
            if len(pfx) > 63:
                return False
        else:
            if hi >= 10 ** 9 or lo > hi or w > 14 or len(pfx) + max(w, len(str(hi))) > 63:
                return False
    return True


# ---------------------------------------------------------------------------------------------- traces
class Trace:
    """parsed output of one case: list of (result_words, {slot: state}) per op, and the outcome"""
    def __init__(self):
        self.ops = []
        self.outcome = None
        self.raw = []


def parse_state(words):
    # words after "= d": nhosts nranges | pfx lo hi w s | ... ; idx depth flag ...
    if words[0] == "null":
        return None
    txt = " ".join(words)
    head, *rest = txt.split(" | ")
    its = []
    if rest:
        last = rest[-1].split(" ; ")
        rest[-1] = last[0]
        its = last[1:]
    else:
        hh = head.split(" ; ")
        head, its = hh[0], hh[1:]
    nhosts, nranges = head.split()[:2]
    ranges = []
    for r in rest:
        p, lo, hi, w, s = r.split()
        ranges.append((unhx(p), int(lo), int(hi), int(w), s == "1"))
    iters = [tuple(int(x) for x in i.split()) for i in its]
    return dict(nhosts=int(nhosts), ranges=ranges, iters=iters)


def parse_output(text):
    """-> {case id: Trace}"""
    out, cur = {}, None
    for l in text.split("\n"):
        if not l:
            continue
        w = l.split(" ")
        if w[0] == "case":
            cur = Trace(); out[w[1]] = cur
        elif cur is None:
            continue
        elif w[0] == "end":
            cur = None
        elif w[0] == "r":
            cur.ops.append([w[1:], {}, {}]); cur.raw.append(l)
        elif w[0] == "=":
            if cur.ops:
                cur.ops[-1][1][int(w[1])] = parse_state(w[2:])
            cur.raw.append(l)
        elif w[0] == "x":
            if cur.ops:
                cur.ops[-1][2][int(w[1])] = w[2:]
        elif w[0] == "!":
            cur.outcome = w[1]; cur.outcome_detail = " ".join(w[2:]); cur.raw.append("! " + w[1])
    return out


# ---------------------------------------------------------------------------------------------- monitor
class Viol(Exception):
    def __init__(self, clause, site, detail):
        self.clause, self.site, self.detail = clause, site, detail


def remove_first(l, x):
    l = list(l); l.remove(x); return l


def cmp_sorted_ok(ranges):
    """sortedness of the range array after hostlist_sort, stated on the array (independent of hostrange_cmp's code)"""
    for a, b in zip(ranges, ranges[1:]):
        if a[0] != b[0]:
            if not a[0] < b[0]:
                return "prefix order %r !< %r" % (a[0], b[0])
            continue
        if a[4] != b[4]:
            if not a[4]:
                return "plain name %r after its numbered range" % (a[0],)
            continue
        if a[4]:
            continue
        if a[3] == b[3] and not a[2] <= b[1]:
            return "ranges %r overlap or are out of order: [%d-%d] before [%d-%d]" % (a[0], a[1], a[2], b[1], b[2])
    return None


def uniform_format(ranges):
    """python reading of HLSortOrder.fmt_ok: one zero-padding format per prefix (a range whose width exceeds the digits of
    its lo fixes the width W of its prefix; every other range of that prefix must be indifferent to W); plain names width 0"""
    W = {}
    for pfx, lo, hi, w, single in ranges:
        if single:
            if w != 0:
                return False
        elif w > len(str(lo)) and W.setdefault(pfx, w) != w:
            return False
    for pfx, lo, hi, w, single in ranges:
        if not single and w <= len(str(lo)) and W.get(pfx, 0) > len(str(lo)):
            return False
    return True


def fmt_sorted_ok(ranges):
    """conclusion of C14_sort_sorted on the range array: sorted by (prefix in byte order, plain name first, lo) and
    neighbours of one prefix do not overlap (hi <= lo) -- hence the expansion is sorted by (prefix, number)"""
    for a, b in zip(ranges, ranges[1:]):
        ka, kb = (a[0], 0 if a[4] else 1, a[1]), (b[0], 0 if b[4] else 1, b[1])
        if ka > kb:
            return "range keys out of order: %r before %r" % (ka, kb)
        if a[0] == b[0] and not a[4] and not b[4] and a[2] > b[1]:
            return "neighbours of prefix %r overlap: [%d-%d] before [%d-%d]" % (a[0], a[1], a[2], b[1], b[2])
    return None


def monitor(ops, tr):
    """ops: the case's op list (tuples); tr: Trace of the IMPLEMENTATION.  raises Viol at the first answer of the
    implementation that contradicts the reference semantics.  Returns number of clause checks made."""
    slots = [None] * 4          # last known state of each slot (as dumped by the implementation)
    itpos = [dict() for _ in range(4)]   # slot -> {iterator index: position in expansion or None}
    nh_ok = [True] * 4          # False once delete_nth was called with n == nhosts (documented misuse: nhosts-- without a deletion)
    checks = 0
    for k, op in enumerate(ops):
        if k >= len(tr.ops):
            break
        res, states, _ = tr.ops[k]
        kind, d = op[0], op[1]
        pre = slots[d]
        post = states.get(d, pre)
        pre_e = py_expand(pre["ranges"]) if pre and sane(pre["ranges"]) else None
        post_e = py_expand(post["ranges"]) if post and sane(post["ranges"]) else None

        def bad(clause, site, msg):
            raise Viol(clause, site, "op #%d %s: %s" % (k, fmt_op(op), msg))

        if res and res[0] == "nolist":
            pass
        elif kind in ("C", "P"):
            expr = op[2]
            ref = ref_expand(expr)
            base = [] if kind == "C" else (pre_e if pre_e is not None else None)
            if ref == "error":
                checks += 1
                if kind == "C" and post is not None:
                    bad("parse_refuses", "create", "malformed expression %r accepted" % expr)
                if kind == "P" and (res[0] != "0" or post_e != pre_e):
                    bad("parse_refuses", "push", "malformed expression %r changed the list / returned %s" % (expr, res[0]))
            elif ref is not None and base is not None:
                checks += 1
                if post is None:
                    bad("parse_expands", "create", "well-formed expression %r refused" % expr)
                if post_e != base + ref:
                    bad("parse_expands", "create" if kind == "C" else "push", "expression %r: names %s, expected %s" % (expr, brief(post_e[len(base):] if post_e else post_e), brief(ref)))
                if kind == "P" and int(res[0]) != len(ref):
                    bad("count", "push_return", "hostlist_push returned %s for %d names" % (res[0], len(ref)))
        elif kind == "CN":
            checks += 1
            if post is None or post_e != []:
                bad("parse_expands", "create_null", "hostlist_create(NULL) is not the empty list")
        elif kind == "H" and pre_e is not None:
            checks += 1
            if post_e != pre_e + [op[2]]:
                bad("push", "push_host", "after push_host(%r) the list denotes %s, expected %s" % (op[2], brief(post_e), brief(pre_e + [op[2]])))
        elif kind == "L":
            s = op[2]
            src = slots[s]
            if pre_e is not None and src is not None and s != d and sane(src["ranges"]):
                checks += 1
                src_e = py_expand(src["ranges"])
                if post_e != pre_e + src_e:
                    bad("push_list", "push_list", "destination denotes %s, expected %s" % (brief(post_e), brief(pre_e + src_e)))
                if states.get(s) is not None and py_expand(states[s]["ranges"]) != src_e:
                    bad("push_list", "push_list_source", "source list changed its names")
        elif kind == "Y":
            src = slots[op[2]]
            if src is not None and sane(src["ranges"]):
                checks += 1
                if post is None or post_e != py_expand(src["ranges"]) or post["nhosts"] != src["nhosts"]:
                    bad("copy", "copy", "copy denotes %s, source %s" % (brief(post_e), brief(py_expand(src["ranges"]))))
        elif kind == "F" and pre_e is not None:
            name = op[2]; got = int(res[0]); want = pre_e.index(name) if name in pre_e else -1
            checks += 1
            if got != want:
                if got >= 0:
                    bad("find_sound", "find", "find(%r) = %d but position %d holds %r" % (name, got, got, pre_e[got] if got < len(pre_e) else None))
                elif not suffix_small(name):
                    bad("find_complete", "suffix_gt_MAX_HOST_SUFFIX", "find(%r) = -1 although it is element %d (trailing digit run above 2^25)" % (name, want))
                else:
                    bad("find_complete", "find", "find(%r) = -1 although it is element %d" % (name, want))
            if post_e != pre_e:
                bad("find_sound", "find_mutates", "find changed the names of the list")
        elif kind == "D" and pre_e is not None:
            name = op[2]; got = int(res[0])
            checks += 1
            if name in pre_e:
                if got != 1 or post_e != remove_first(pre_e, name):
                    if got == 0 and post_e == pre_e and not suffix_small(name):
                        bad("find_complete", "suffix_gt_MAX_HOST_SUFFIX", "delete_host(%r) = 0 although the name is in the list (trailing digit run above 2^25)" % name)
                    bad("delete", "delete_host", "delete_host(%r) = %d, list now %s, expected %s" % (name, got, brief(post_e), brief(remove_first(pre_e, name))))
            elif got != 0 or post_e != pre_e:
                bad("delete", "delete_host_absent", "delete_host(%r) of an absent name returned %d / changed the list" % (name, got))
        elif kind == "N" and pre_e is not None:
            i = op[2]
            if 0 <= i < len(pre_e):
                checks += 1
                if post_e != pre_e[:i] + pre_e[i + 1:]:
                    bad("delete", "delete_nth", "delete_nth(%d): list now %s, expected %s" % (i, brief(post_e), brief(pre_e[:i] + pre_e[i + 1:])))
        elif kind == "T" and pre_e is not None:
            i = op[2]
            if 0 <= i < len(pre_e) and len(pre_e[i]) <= 78:
                checks += 1
                if res[0] == "nil" or unhx(res[0]) != pre_e[i]:
                    bad("nth", "nth", "nth(%d) = %r, expected %r" % (i, None if res[0] == "nil" else unhx(res[0]), pre_e[i]))
            elif i >= len(pre_e):
                checks += 1
                if res[0] != "nil":
                    bad("nth", "nth_past_end", "nth(%d) of a %d-name list is not NULL" % (i, len(pre_e)))
        elif kind == "K" and pre_e is not None and nh_ok[d]:
            checks += 1
            if int(res[0]) != len(pre_e):
                bad("count", "count", "count = %s for %d names" % (res[0], len(pre_e)))
        elif kind == "S" and pre_e is not None and post_e is not None:
            checks += 1
            if sorted(post_e) != sorted(pre_e):
                bad("sort_permutation", "sort", "sort changed the multiset of names: %s -> %s" % (brief(pre_e), brief(post_e)))
            # sortedness is not part of the property text; it is checked for lists without a repeated name only: with a
            # name listed twice next to a zero-padded name of another width the (F36-repaired) hostrange_intersect leaves
            # an out-of-order pair alone (t01,t[9-10],t[9-10] -> t9,t9,t10,t10,t01)
            if in_scope_names(pre["ranges"]) and len(set(pre_e)) == len(pre_e):
                why = cmp_sorted_ok(post["ranges"])
                if why:
                    bad("sort_sorted", "sort", why)
            # C14_sort_sorted: one zero-padding format per prefix, numbers below 2^31, at most SORT_MAX_NAMES names ->
            # sorted and non-overlapping, repeated names included
            if (in_scope_names(pre["ranges"]) and uniform_format(pre["ranges"]) and state_size(pre["ranges"]) <= 10240
                    and all(r[4] or r[2] < 2 ** 31 for r in pre["ranges"])):
                checks += 1
                why = fmt_sorted_ok(post["ranges"])
                if why:
                    bad("sort_sorted", "sort_uniform_format", why)
        elif kind == "Q" and pre_e is not None and in_scope_names(pre["ranges"]):
            checks += 1
            got = [unhx(x) for x in res]
            if sorted(got) != sorted(pre_e):
                bad("sort_permutation", "sort_libc_qsort", "sort (libc qsort) changed the multiset of names: %s -> %s" % (brief(pre_e), brief(got)))
        elif kind == "R" and pre_e is not None:
            if op[2] == 0 and printable_state(pre["ranges"]):
                checks += 1
                s = unhx(res[1]) if len(res) > 1 else b""
                ref = ref_expand(s)
                if ref != pre_e:
                    bad("roundtrip", "ranged_string", "ranged string %r denotes %s, list is %s" % (s, brief(ref), brief(pre_e)))
            elif op[2] > 0 and printable_state(pre["ranges"]) and res and res[0].lstrip("-").isdigit() and int(res[0]) >= 0:
                # a bounded call either says `does not fit` (-1) or returns the WHOLE text: what it returns with a success status must
                # denote the list (the daemon's growth loop trusts exactly that)
                checks += 1
                s = unhx(res[1]) if len(res) > 1 else b""
                if ref_expand(s) != pre_e:
                    bad("roundtrip", "ranged_string_bounded", "ranged_string with a %d-byte buffer returned %s and %r: that denotes %s, the list is %s" % (op[2], res[0], s, brief(ref_expand(s)), brief(pre_e)))
        elif kind == "RT" and pre_e is not None:
            e = op[2]
            if printable_state(pre["ranges"], allow_long=True):
                checks += 1
                site = "create_of_ranged_string" if printable_state(pre["ranges"]) else "run_ge_MAX_RANGE"
                s = unhx(res[1]) if len(res) > 1 else b""
                pe = states.get(e)
                if pe is None:
                    bad("roundtrip", site, "hostlist_create refused the library's own output %r" % (s if len(s) < 200 else s[:200] + b"..."))
                if py_expand(pe["ranges"]) != pre_e:
                    bad("roundtrip", site, "%r re-expands to %s, list is %s" % (s, brief(py_expand(pe["ranges"])), brief(pre_e)))
        elif kind == "IN" and pre_e is not None:
            kk, m = op[2], op[3]
            pos = itpos[d].get(kk)
            if pos is not None and in_scope_names(pre["ranges"]):
                checks += 1
                got = [unhx(x) for x in res[:-1]]
                ended = res[-1] == "$"
                want = pre_e[pos:pos + m]
                if got != want or ended != (pos + m > len(pre_e)):
                    bad("iterate", "next", "iterator at position %d gave %s%s, expected %s" % (pos, brief(got), " then NULL" if ended else "", brief(want)))
                itpos[d][kk] = min(pos + m, len(pre_e)) if not ended else len(pre_e)

        # bookkeeping of iterator positions known to the monitor
        if kind == "IC" and res and res[0] == "ok":
            itpos[d][len(itpos[d])] = 0
        elif kind == "IR" and res and res[0] == "ok":
            itpos[d][op[2]] = 0
        elif kind == "ID" and res and res[0] == "ok":
            old = itpos[d]; kk = op[2]
            itpos[d] = {(i if i < kk else i - 1): v for i, v in old.items() if i != kk}
        elif kind in ("P", "H", "D", "N", "S") or (kind == "L"):
            # mutation: positions of live iterators are no longer claimed until reset
            # (appending at the end keeps positions valid only while the iterator has not reached the end)
            for i in list(itpos[d]):
                itpos[d][i] = None
        if kind in ("C", "CN", "Y"):
            itpos[d] = {}
        if kind == "RT":
            itpos[op[2]] = {}

        if kind == "N" and pre is not None and not (0 <= op[2] < state_size(pre["ranges"])):
            nh_ok[d] = False
        if kind in ("C", "CN"):
            nh_ok[d] = True
        if kind == "Y" and not (res and res[0] == "nolist"):
            nh_ok[d] = nh_ok[op[2]]
        if kind == "RT" and not (res and res[0] == "nolist"):
            nh_ok[op[2]] = True
        for s, st in states.items():
            slots[s] = st
            if st is not None and not sane(st["ranges"]):
                nh_ok[s] = False      # values at the top of unsigned long: hostrange_empty misreads hi == ULONG_MAX (outside the quantifier)
            if st is not None and nh_ok[s] and sane(st["ranges"]):
                checks += 1
                if st["nhosts"] != state_size(st["ranges"]):
                    bad("count", "nhosts", "nhosts field %d but the array denotes %d names" % (st["nhosts"], state_size(st["ranges"])))
    # hostlist_create / hostlist_push must return on every input (C14_create_no_hang; F33): a time-out inside create is a violation
    k = len(tr.ops)
    if tr.outcome == "Hang" and k < len(ops) and ops[k][0] in ("C", "P", "RT"):
        checks += 1
        raise Viol("create_no_hang", "create", "op #%d %s: hostlist_create did not return (time-out)" % (k, fmt_op(ops[k])[:200]))
    # hostlist_sort must return: an assert / sanitizer report / time-out inside sort on a list of in-scope names
    k = len(tr.ops)
    if tr.outcome in ("Abort", "MemErr", "UB", "Crash", "Hang") and k < len(ops) and ops[k][0] in ("S", "Q"):
        pre = slots[ops[k][1]]
        if pre is not None and sane(pre["ranges"]) and in_scope_names(pre["ranges"]):
            checks += 1
            detail = getattr(tr, "outcome_detail", "")
            site = "intersect_assert" if "hostrange_cmp" in detail or detail.strip() == "856" else tr.outcome
            raise Viol("sort_returns", site, "op #%d %s: hostlist_sort did not return (%s %s) on the list %s" % (
                k, fmt_op(ops[k]), tr.outcome, detail[:120], brief(py_expand(pre["ranges"]))))
    return checks


def brief(l, n=12):
    if l is None or isinstance(l, str):
        return repr(l)
    s = [x.decode("latin-1") for x in l[:n]]
    return "[" + " ".join(s) + (" ...+%d" % (len(l) - n) if len(l) > n else "") + "]"


def fmt_op(op):
    return " ".join(x.decode("latin-1") if isinstance(x, bytes) else str(x) for x in op)


# ---------------------------------------------------------------------------------------------- case encoding
def enc_op(op):
    k = op[0]
    if k in ("C", "P", "H", "D", "F"):
        return "%s %d %s" % (k, op[1], hx(op[2]))
    return " ".join(str(x) for x in op)


def dec_op(line):
    w = line.split()
    k = w[0]
    if k in ("C", "P", "H", "D", "F"):
        return (k, int(w[1]), unhx(w[2]))
    return tuple([k] + [int(x) for x in w[1:]])


def enc_case(cid, ops, tmo=10000):
    return "case %s %d\n%s\nend\n" % (cid, tmo, "\n".join(enc_op(o) for o in ops))


# ---------------------------------------------------------------------------------------------- generator
PFX = [b"t", b"n", b"foo", b"a1b", b"x-", b"r2d", b"node.", b"q_", b"n1", b"f00", b"", b"rack3-n"]
NUMS = [0, 1, 5, 8, 9, 10, 11, 19, 20, 98, 99, 100, 101, 999, 1000, 9999, 10000, MAX_SUFFIX - 1, MAX_SUFFIX, MAX_SUFFIX + 1,
        99999998, 99999999, 123456789, 999999998, 999999999]


def gen_name(rng, base=None):
    p = rng.choice(base or PFX[:8])
    k = rng.random()
    if k < 0.07:
        return p + rng.choice([b"a", b"zz", b"b", b"-mgmt"])
    if k < 0.10:
        return rng.choice([b"123", b"007", b"0", b"9", b"10"])
    if k < 0.14:       # long names: 62..64, 78..81 characters
        L = rng.choice([62, 63, 63, 64, 78, 79, 80, 81])
        tail = rng.choice([b"", b"7", b"07", b"123"])
        return (p + b"y" * 100)[:L - len(tail)] + tail
    v = rng.choice(NUMS) if rng.random() < 0.45 else rng.randrange(0, 130)
    w = rng.choice([0, 0, 0, 1, 2, 3, 4, 5, 9, 10])
    s = str(v).zfill(w).encode()
    n = p + s
    return n if n else b"t1"


def gen_run(rng):
    p = rng.choice(PFX[:8])
    st = rng.choice([0, 7, 8, 9, 97, 98, 99, 998, 9998, MAX_SUFFIX - 2])
    w = rng.choice([1, 1, 2, 3, 4])
    return [p + str(st + i).zfill(w).encode() for i in range(rng.randrange(2, 7))]


def gen_item(rng):
    lo = rng.choice([0, 1, 7, 8, 9, 10, 95, 99, 100, 995, MAX_SUFFIX - 2, 99999990, 999999990]) if rng.random() < 0.7 else rng.randrange(0, 1200)
    n = rng.randrange(1, 7)
    w = rng.choice([1, 1, 2, 3, 4, 10])
    los = str(lo).zfill(w)
    hi = lo + n - 1
    his = str(hi).zfill(rng.choice([w, len(str(hi)), 1]))
    if n == 1 and rng.random() < 0.5:
        return los
    return los + "-" + his


def gen_expr(rng, pfxs=None):
    toks = []
    for _ in range(rng.choice([1, 1, 1, 2, 3])):
        if rng.random() < 0.25:
            toks.append(gen_name(rng, pfxs))
            continue
        pf = rng.choice(pfxs or PFX)
        items = [gen_item(rng) for _ in range(rng.choice([1, 1, 2, 3, 4]))]
        sfx = rng.choice([b"", b"", b"", b"-ib", b"b", b"7"])
        toks.append(pf + b"[" + ",".join(items).encode() + b"]" + sfx)
    sep = rng.choice([b",", b",", b" ", b"\t", b", "])
    return sep.join(toks)


MALFORMED = [b"t[5-1]", b"t[1", b"t1]", b"t[1]]", b"t[[1]]", b"t[]", b"t[,]", b"t[1,]", b"t[,1]", b"t[1-]", b"t[a]", b"t[1x-5]", b"t[1-5x]",
             b"t[1, 2]", b"t[ 1]", b"t[+5]", b"t[1-+5]", b"t[1- 5]", b"t[-1]", b"t[1--2]", b"t[1-2-3]", b"t[1- -5]", b"t[\n5]", b"t[5\n]",
             b"t[99999999999999999999]", b"t[18446744073709551615]", b"t[18446744073709551614-18446744073709551615]",
             b"t[0-18446744073709551615]", b"t[18446744073709551616]", b"t[4294967295-4294967297]", b"t[2147483647-2147483649]",
             b"a]b,c", b"a,b]", b"]", b"[", b"[]", b"[1]", b"[1-3]x", b",,,", b" ", b"", b"a,,b", b"t[1-3][4-5]", b"t[1-3]x[4-5]",
             b"t[1-3],,u[2]", b"t[00000000000000000001-3]", b"t[1-00000000000000000003]", b"t[007-010]", b"t[9-10]", b"t[09-10]", b"t[099-0100]",
             b"n1[33554430-33554432]", b"n[33554431-33554433]", b"n[99999998-99999999]"]
HANG_EXPR = [b"t[99999999999999999999]x", b"t[18446744073709551615]-ib", b"a,t[18446744073709551600-18446744073709551615]z"]


def gen_malformed(rng):
    r = rng.random()
    if r < 0.55:
        return rng.choice(MALFORMED)
    if r < 0.70:      # mutate a valid expression
        e = bytearray(gen_expr(rng))
        for _ in range(rng.randrange(1, 3)):
            if not e:
                break
            i = rng.randrange(len(e))
            c = rng.random()
            if c < 0.4:
                del e[i]
            elif c < 0.8:
                e.insert(i, rng.choice(b"[]-,x 09+"))
            else:
                e[i] = rng.choice(b"[]-,x 09+")
        return bytes(e)
    if r < 0.85:      # token length boundary of cur_tok
        L = rng.choice([1021, 1022, 1023, 1024, 1030])
        tail = rng.choice([b"", b"5", b"05"])
        return b"a" * (L - len(tail)) + tail
    # long bracket token (no limit applies), long width
    return b"t[" + b"0" * rng.choice([14, 15, 20, 40, 1100]) + b"7]"


def gen_case(rng, kind):
    """kind: 'names' (push_host built lists), 'expr' (bracket expressions), 'mixed', 'malformed', 'exotic'"""
    ops = []
    nslots = rng.choice([1, 1, 2, 3, 4])
    live = set()
    pool = []                      # names known to be (probably) in some list, for find/delete probes

    def fresh(d):
        if kind in ("names",) or rng.random() < 0.4:
            ops.append(("CN", d))
        else:
            e = gen_expr(rng) if kind != "malformed" else gen_malformed(rng)
            ops.append(("C", d, e))
            r = ref_expand(e)
            if isinstance(r, list):
                pool.extend(r[:40])
        live.add(d)

    fresh(0)
    pfxs = [rng.choice(PFX[:8]) for _ in range(2)] if rng.random() < 0.7 else None
    n = rng.randrange(1, 31)
    for _ in range(n):
        d = rng.randrange(nslots)
        if d not in live:
            fresh(d); continue
        r = rng.random()
        if r < 0.22:
            if kind in ("expr", "mixed", "malformed", "exotic") and rng.random() < 0.5:
                e = gen_malformed(rng) if (kind == "malformed" and rng.random() < 0.7) else gen_expr(rng, pfxs)
                if kind == "exotic" and rng.random() < 0.5:
                    e = rng.choice([b"n[3000000000,1]", b"n[4294967296-4294967300,0-5]", b"n[5000000000,1]", b"t[2147483646-2147483650]",
                                    b"t[18446744073709551615]", b"t[18446744073709551614-18446744073709551615],t[0-2]", b"t[4294967296],t[0]"])
                ops.append(("P", d, e))
                rr = ref_expand(e)
                if isinstance(rr, list):
                    pool.extend(rr[:40])
            else:
                names = gen_run(rng) if rng.random() < 0.35 else [gen_name(rng, pfxs)]
                if rng.random() < 0.15:
                    rng.shuffle(names)
                for nm in names:
                    ops.append(("H", d, nm)); pool.append(nm)
        elif r < 0.34:
            probe = rng.choice(pool) if pool and rng.random() < 0.7 else gen_name(rng, pfxs)
            if rng.random() < 0.25 and probe:
                probe = rng.choice([probe + b"0", b"0" + probe, probe[:-1] + b"0" + probe[-1:], probe.lstrip(b"0") or b"0",
                                    probe[:-1], re.sub(rb"(\d+)$", lambda m: b"0" + m.group(1), probe), re.sub(rb"0(\d+)$", lambda m: m.group(1), probe)])
            ops.append(("F", d, probe))
        elif r < 0.42:
            ops.append(("T", d, rng.choice([0, 0, 1, 2, 3, 5, 8, 13, 40, -1]) if rng.random() < 0.9 else rng.randrange(-2, 60)))
        elif r < 0.47:
            ops.append(("K", d))
        elif r < 0.55:
            probe = rng.choice(pool) if pool and rng.random() < 0.8 else gen_name(rng, pfxs)
            ops.append(("D", d, probe))
        elif r < 0.60:
            ops.append(("N", d, rng.choice([0, 0, 1, 2, 3, 4, 7, 11])))
        elif r < 0.67:
            ops.append(("S", d))
        elif r < 0.70:
            ops.append(("Q", d))
        elif r < 0.77:
            ops.append(("R", d, 0 if rng.random() < 0.7 else rng.choice([1, 2, 3, 5, 8, 13, 21, 40, 80])))
        elif r < 0.84:
            e = rng.randrange(nslots)
            ops.append(("RT", d, e)); live.add(e)
        elif r < 0.88:
            s = rng.randrange(nslots)
            if s in live and s != d:
                ops.append(("L", d, s))
        elif r < 0.91:
            s = rng.randrange(nslots)
            if s in live:
                ops.append(("Y", d, s))
        elif r < 0.94:
            ops.append(("IC", d))
        elif r < 0.985:
            ops.append(("IN", d, rng.choice([0, 0, 0, 1]), rng.choice([1, 1, 2, 3, 5, 50])))
        elif r < 0.995:
            ops.append(("IR", d, 0))
        else:
            ops.append(("ID", d, 0))
    # closing checks: count and compress/re-expand of one live list
    d = sorted(live)[0]
    ops.append(("K", d))
    ops.append(("RT", d, (d + 1) % 4))
    return ops


def big_case(rng):
    """MAX_RANGE - 1 .. + 1 hosts in one bracket, MAX_RANGES - 1 .. + 1 items in one bracket (no sort: the model's
    insertion sort and its list-based push are quadratic)"""
    r = rng.random()
    if r < 0.3:
        k = rng.choice([MAX_RANGES - 1, MAX_RANGES, MAX_RANGES + 1])
        e = b"t[" + b",".join(b"%d" % i for i in range(1, k + 1)) + b"]"      # consecutive: joins into one range
        return [("C", 0, e), ("K", 0), ("CN", 1), ("P", 1, e), ("K", 1), ("R", 0, 0), ("RT", 0, 2)]
    k = rng.choice([MAX_RANGE - 1, MAX_RANGE, MAX_RANGE + 1])
    lo = rng.choice([0, 1, 100])
    if r < 0.4:
        return [("C", 0, b"t[%d-%d]x" % (lo, lo + k - 1)), ("K", 0)]
    e = b"t[%d-%d]" % (lo, lo + k - 1)
    ref = ref_expand(e)
    ops = [("C", 0, e), ("K", 0)]
    if isinstance(ref, list):
        ops += [("F", 0, ref[0]), ("F", 0, ref[-1]), ("F", 0, ref[len(ref) // 2]), ("T", 0, len(ref) - 1), ("T", 0, len(ref)), ("D", 0, ref[len(ref) // 2])]
    ops += [("CN", 1), ("H", 1, b"t0"), ("P", 1, e), ("K", 1), ("R", 1, 0), ("RT", 1, 2), ("K", 2)]
    return ops


def alias_pattern_case(rng):
    """the conf_exp_aliases pattern: iterate; on a match delete_host, push_list elsewhere, reset; finally push_list back"""
    ops = [("CN", 0), ("CN", 1), ("C", 2, gen_expr(rng))]
    names = gen_run(rng) + [gen_name(rng) for _ in range(rng.randrange(1, 5))]
    for nm in names:
        ops.append(("H", 0, nm))
    ops.append(("IC", 0))
    for _ in range(rng.randrange(1, 4)):
        ops.append(("IN", 0, 0, rng.randrange(1, 4)))
        ops.append(("D", 0, rng.choice(names)))
        ops.append(("L", 1, 2))
        ops.append(("IR", 0, 0))
    ops.append(("IN", 0, 0, 60))
    ops.append(("L", 0, 1))
    ops.append(("K", 0)); ops.append(("R", 0, 0))
    return ops


def roundtrip_case(rng):
    """compress a list of names, re-expand: same names in the same order (the three-hop use in powerman)"""
    ops = [("CN", 0)]
    pf = [rng.choice(PFX[:8]) for _ in range(rng.choice([1, 2, 3]))]
    for _ in range(rng.randrange(1, 25)):
        if rng.random() < 0.4:
            for nm in gen_run(rng):
                ops.append(("H", 0, nm))
        else:
            ops.append(("H", 0, gen_name(rng, pf)))
    if rng.random() < 0.4:
        ops.append(("S", 0))
    ops += [("R", 0, 0), ("RT", 0, 1), ("K", 1), ("RT", 1, 2), ("IC", 2), ("IN", 2, 0, 200)]
    return ops


def sanitize_case(ops):
    """hostlist_nth on a numbered range whose prefix is far longer than its 80-byte stack buffer writes beyond the
    sanitizer's red zone (silent corruption of the caller's frame instead of a report): such cases keep everything but
    the nth calls, so that the tie stays deterministic (prefixes of 80..100 bytes, which do hit the red zone, are kept)"""
    longtok = any(isinstance(x, bytes) and any(len(t) > 100 for t in re.split(rb"[\t, \[\]]", x)) for o in ops for x in o[2:])
    return [o for o in ops if not (longtok and o[0] == "T")]


def bounded_string_cases(rng):
    """ranged_string into a buffer a few bytes around the true length, for lists whose text ends in an unbracketed numbered host, in a
    bracket, in a plain name: the text of distinct-prefix names is their comma join, so the true length is known here"""
    out = []
    for tail in (b"zz-node107", b"zz[5-7]", b"plainname", b"q9", b"r[01-03]x"):
        names = [b"aa1", b"bb22", b"cc-long-name-333", tail]
        e = b",".join(names)
        for _ in range(2):
            ops = [("C", 0, e)]
            for n in range(len(e) - 5, len(e) + 3):
                ops.append(("R", 0, n))
            out.append(("bounded-string", ops))
        names2 = [b"x%d-%s" % (k, b"w" * rng.randint(1, 9)) for k in range(rng.randint(6, 9))] + [tail]
        e2 = b",".join(names2)
        out.append(("bounded-string", [("C", 0, e2)] + [("R", 0, n) for n in (80, 81, len(e2) - 2, len(e2) - 1, len(e2), len(e2) + 1, 160)]))
    return out


def bare_prefix_cases():
    """a bare name next to numbered names of the SAME prefix (`t` beside `t1`, `t[1-3]`, `t0`, `t01`): hostrange_prefix_cmp separates a
    host without a numeric suffix from the numbered hosts of its prefix, and push_range / join / sort / find / within_range all lean on
    that (the random generators only draw names that end in digits or carry a foreign suffix).  Deterministic: consumes no randomness."""
    out = []
    for pf in (b"t", b"foo", b"x-", b"a1b"):
        num = [pf + b"1", pf + b"2", pf + b"3"]
        seqs = [[pf] + num, num + [pf], [pf + b"1", pf, pf + b"2"], [pf, pf + b"0", pf + b"1"], [pf, pf + b"01", pf + b"02"],
                [pf, pf, pf + b"1"], [pf + b"0", pf, pf + b"1", pf]]
        for names in seqs:
            probes = sorted(set(names + [pf, pf + b"1", pf + b"0"]))
            for sort in (False, True):
                ops = [("CN", 0)] + [("H", 0, nm) for nm in names] + ([("S", 0)] if sort else []) + [("K", 0)]
                ops += [("F", 0, q) for q in probes] + [("T", 0, i) for i in range(len(names) + 1)]
                ops += [("R", 0, 0), ("RT", 0, 1), ("K", 1), ("IC", 1), ("IN", 1, 0, 20), ("D", 0, pf), ("K", 0), ("R", 0, 0), ("D", 0, pf + b"1"), ("R", 0, 0)]
                out.append(("bare-prefix", ops))
        for e in (pf + b"," + pf + b"[1-3]", pf + b"[1-3]," + pf, pf + b"," + pf + b"1", pf + b"1," + pf, pf + b"," + pf + b"[0-2]",
                  pf + b"," + pf + b"[01-03]", pf + b"[1-2]," + pf + b"," + pf + b"[3-4]"):
            for sort in (False, True):
                ops = [("C", 0, e)] + ([("S", 0)] if sort else []) + [("K", 0), ("F", 0, pf), ("F", 0, pf + b"1"), ("F", 0, pf + b"3"), ("T", 0, 0), ("T", 0, 1),
                       ("R", 0, 0), ("RT", 0, 1), ("K", 1), ("CN", 2), ("P", 2, e), ("H", 2, pf), ("H", 2, pf + b"1"), ("K", 2), ("R", 2, 0), ("Q", 2), ("R", 2, 0)]
                out.append(("bare-prefix", ops))
    return out


def generate(rng, n):
    cases = []
    for i in range(n):
        r = rng.random()
        if r < 0.22:
            kind, ops = "roundtrip", roundtrip_case(rng)
        elif r < 0.30:
            kind, ops = "alias", alias_pattern_case(rng)
        elif r < 0.50:
            kind, ops = "names", gen_case(rng, "names")
        elif r < 0.70:
            kind, ops = "expr", gen_case(rng, "expr")
        elif r < 0.84:
            kind, ops = "mixed", gen_case(rng, "mixed")
        elif r < 0.96:
            kind, ops = "malformed", gen_case(rng, "malformed")
        elif r < 0.985:
            kind, ops = "exotic", gen_case(rng, "exotic")
        else:
            kind, ops = "big", big_case(rng)
        cases.append((kind, sanitize_case(ops)))
    return cases


# ---------------------------------------------------------------------------------------------- running
def run_batch(exe, text, env=None, timeout=600, nproc=8):
    """split the case text into nproc chunks (on case boundaries) and run them concurrently"""
    blocks = text.split("case ")[1:]
    blocks = ["case " + b for b in blocks]
    if not blocks:
        return ""
    nproc = max(1, min(nproc, len(blocks) // 20 + 1))
    chunks = [blocks[i::nproc] for i in range(nproc)]
    e = dict(os.environ)
    e.update(env or {})
    procs = []
    for c in chunks:
        p = subprocess.Popen(["timeout", "-s", "KILL", str(timeout), exe], stdin=subprocess.PIPE, stdout=subprocess.PIPE,
                             stderr=subprocess.DEVNULL, env=e)
        procs.append((p, "".join(c).encode()))
    outs = []
    import threading
    res = [None] * len(procs)

    def work(i, p, data):
        res[i] = p.communicate(data)[0]
    th = [threading.Thread(target=work, args=(i, p, d)) for i, (p, d) in enumerate(procs)]
    for t in th:
        t.start()
    for t in th:
        t.join()
    return "".join((r or b"").decode("latin-1") for r in res)


ASAN_ENV = {"ASAN_OPTIONS": "detect_leaks=0:abort_on_error=0:exitcode=77:allocator_may_return_null=1", "UBSAN_OPTIONS": "print_stacktrace=0"}


def run_impl(impl, cases, hang_ids=(), budget=20000):
    text = "".join(enc_case(cid, ops, 400 if cid in hang_ids else budget) for cid, ops in cases)
    return parse_output(run_batch(impl, text, env=ASAN_ENV))


def run_model(model, cases):
    text = "".join(enc_case(cid, ops) for cid, ops in cases)
    return parse_output(run_batch(model, text))


def compare(ops, a, b):
    """a: implementation trace, b: model trace.  returns None or a description of the first difference"""
    la, lb = list(a.raw), list(b.raw)
    ra = [i for i, l in enumerate(la) if l[:1] == "r"]
    rb = [i for i, l in enumerate(lb) if l[:1] == "r"]
    for k, op in enumerate(ops):
        # libc qsort may order comparator-equal ranges differently: compared as a multiset of names
        if op[0] == "Q" and k < len(ra) and k < len(rb) and sorted(la[ra[k]].split()) == sorted(lb[rb[k]].split()):
            la[ra[k]] = lb[rb[k]] = "r <Q: same multiset>"
    if la == lb:
        return None
    for i in range(max(len(la), len(lb))):
        x = la[i] if i < len(la) else "<nothing>"
        y = lb[i] if i < len(lb) else "<nothing>"
        if x != y:
            nops = sum(1 for l in la[:i + 1] if l[:1] == "r")
            return "line %d (op #%d %s): implementation `%s` model `%s`" % (i, nops - 1, fmt_op(ops[nops - 1]) if 0 < nops <= len(ops) else "?", x[:300], y[:300])
    return "?"


def check_spec_expand(tr_model):
    """the python expander used by the monitor must agree with the extracted HLSpec.expand on every dumped state"""
    for res, states, xs in tr_model.ops:
        for s, st in states.items():
            if st is None or s not in xs or xs[s] == ["toobig"]:
                continue
            if [unhx(x) for x in xs[s]] != py_expand(st["ranges"]):
                return "slot %d: python expand %s, HLSpec.expand %s" % (s, brief(py_expand(st["ranges"])), brief([unhx(x) for x in xs[s]]))
    return None


def nontrivial(tr):
    for res, states, _ in tr.ops:
        for st in states.values():
            if st and any((not r[4]) and r[2] > r[1] for r in st["ranges"]):
                return True
    return tr.outcome is not None or any(r and r[0] in ("null",) for r, _, _ in tr.ops)


SHRINK_MS = 2500           # per candidate while shrinking: the cases themselves run in milliseconds; a candidate that spins is not "smaller"
SHRINK_WALL = 90           # seconds of wall clock per shrink: a change that makes operations spin must not turn the check into hours


def shrink(ops, fails, budget=80):
    """greedy delta debugging on the op list; fails(ops) -> bool"""
    cur = list(ops)
    changed = True
    t_end = time.time() + SHRINK_WALL
    while changed and budget > 0 and time.time() < t_end:
        changed = False
        i = len(cur) - 1
        while i >= 0 and budget > 0 and time.time() < t_end:
            cand = cur[:i] + cur[i + 1:]
            budget -= 1
            if cand and fails(cand):
                cur = cand; changed = True
            i -= 1
    return cur


def load_corpus():
    d = os.path.join(vlib.VERIF, "corpus", "C14")
    out = []
    for f in sorted(os.listdir(d)) if os.path.isdir(d) else []:
        if not f.endswith(".case"):
            continue
        ops = [dec_op(l) for l in open(os.path.join(d, f)).read().split("\n") if l.strip() and not l.startswith("#")]
        out.append(("corpus:" + f[:-5], ops))
    return out


def width_sweep_case(tier):
    # handled by dedicated ops W* in both drivers: exhaustive comparison of _width_equiv / _zero_padded
    # (n range, m range; widths 0..6 on both sides).  The extracted model does ~0.7M evaluations/s: the thorough sweep
    # (n, m < 3000: 441M evaluations) is cut into slices of the n range that run concurrently
    if tier == "quick":
        return [("WS", 0, 300, 0, 300), ("WS", 990, 1010, 0, 120), ("WS", 9990, 10010, 95, 105), ("WS", 33554425, 33554440, 0, 20)]
    step = 200
    return ([("WS", lo, min(lo + step, 3000), 0, 3000) for lo in range(0, 3000, step)]
            + [("WS", 990, 1010, 0, 120), ("WS", 9990, 10010, 95, 105), ("WS", 33554425, 33554440, 0, 20)])


def build(ctx):
    impl = ctx.cc([os.path.join(vlib.VERIF, "harness", "hl_h.c")], "hl_h", extra=["-ftrivial-auto-var-init=pattern"])
    model = ctx.ocaml_driver("hl_model", "hlmodel", "hl_drv.ml")
    return impl, model


def evaluate(ctx, V, impl, model, cases, record=True):
    """cases: list of (kind, ops).  returns (violations, disagreements) found; records into V when record"""
    ided = [("c%d" % i, ops) for i, (kind, ops) in enumerate(cases)]
    kinds = {("c%d" % i): kind for i, (kind, ops) in enumerate(cases)}
    tm = run_model(model, ided) if model else {}
    hang = {cid for cid, t in tm.items() if t.outcome == "Hang"}
    ti = run_impl(impl, ided, hang)
    nviol = ndis = 0
    for cid, ops in ided:
        a = ti.get(cid)
        b = tm.get(cid) if model else None
        kind = kinds[cid]
        if a is None:
            V.tie_broken("tie", "harness-run", "implementation harness produced no trace for a case", case=[enc_op(o) for o in ops])
            ndis += 1
            continue
        if record:
            V.case([enc_op(o) for o in ops], nontrivial=nontrivial(a))
            V.count("kind:" + kind.split(":")[0])
            V.count("outcome:" + (a.outcome or "Ok"))
            for o in ops[:len(a.ops)]:
                V.count("op:" + o[0])
            V.count("ops_total", len(a.ops))
            if len(V.samples) < 6 and kind.split(":")[0] not in [s.get("kind") for s in V.samples]:
                V.sample(dict(kind=kind.split(":")[0], ops=[fmt_op(o) for o in ops[:12]], results=[" ".join(r[0])[:80] for r in a.ops[:12]]))
        try:
            nchecks = monitor(ops, a)
            if record:
                V.count("monitor_checks", nchecks)
        except Viol as v:
            nviol += 1
            if any((x["clause"], x["site"]) == (v.clause, v.site) for x in V.violations):
                V.count("violations_same_signature")
                continue

            quick = ("s",) if a.outcome == "Hang" else ()        # a candidate that spins is cut after 0.4 s, not 20 s

            def fails(cand, v=v):
                t = run_impl(impl, [("s", cand)], quick, budget=SHRINK_MS).get("s")
                if t is None:
                    return False
                try:
                    monitor(cand, t)
                except Viol as v2:
                    return (v2.clause, v2.site) == (v.clause, v.site)
                return False
            small = shrink(ops, fails, budget=10 if "did not return" in v.detail or "Hang" in v.detail else 80) if len(ops) > 2 else ops
            detail = v.detail
            t = run_impl(impl, [("s", small)], quick, budget=SHRINK_MS).get("s")
            try:
                monitor(small, t)
            except Viol as v2:
                detail = v2.detail
            V.violation(v.clause, v.site, witness=[enc_op(o) for o in small], detail=detail)
            continue
        if b is None:
            if model:
                V.tie_broken("tie", "model-run", "model driver produced no trace", case=[enc_op(o) for o in ops])
                ndis += 1
            continue
        diff = compare(ops, a, b)
        if diff is None:
            diff = check_spec_expand(b)
            if diff:
                diff = "python reference expander disagrees with extracted HLSpec.expand: " + diff
        if diff:
            ndis += 1
            if not any(x["kind"] == "correspondence" for x in V.broken) or len(V.broken) < 4:
                def differs(cand, a=a):
                    x = run_impl(impl, [("s", cand)], ("s",) if a.outcome == "Hang" else (), budget=SHRINK_MS).get("s"); y = run_model(model, [("s", cand)]).get("s")
                    return x is not None and y is not None and compare(cand, x, y) is not None
                small = shrink(ops, differs, budget=60) if len(ops) > 2 else ops
                x = run_impl(impl, [("s", small)], budget=SHRINK_MS).get("s"); y = run_model(model, [("s", small)]).get("s")
                d2 = compare(small, x, y) if x and y else None
                V.tie_broken("correspondence", "R-HL", d2 or diff, case=[enc_op(o) for o in small])
    return nviol, ndis


# ---------------------------------------------------------------------------------------------- R-HLO
# The host-list ORACLES of the client layer (C02 C03 C06 C11 C15), as Proofs/HLOracles.v defines them from the model
# (hl_expand_str, hl_ranged_sorted[_expr], hl_ranged_plain, hl_sorted; theorems C14_services_*, C15_stream_hl), against the
# implementations driver/devstub.c hands the extracted client / device models (the scratch copy's real hostlist.c), on the same
# arguments; monitor = C14_services_provenance evaluated on the IMPLEMENTATION's answer by an independent python reading
# (every byte of an answer occurs in the argument or is a digit / one of [ ] , -), plus ref_expand for expressions.
HLO_ODD = [b"a\rb", b"\rn1", b"n1\r", b"n\x80\xff1", b"x+1", b"x-1", b"-", b"--5", b"+7", b"n 1", b"a\tb", b"007", b"\x01", b"\x01\x01", b"q"]
HLO_SYNTAX = [b"t1a[2]", b"n[1-3]", b"n[3,1]", b"x,y", b"a b", b"t[01-03]z", b"t[5-1]", b"t[1", b"t1]", b"u[2]v[3]", b"[1]", b",", b"t[9-10]", b"t[09-10]"]


def hlo_build(ctx):
    return ctx.ocaml_driver("hlo_model", "hlomodel", "hlo_drv.ml", cstubs=["devstub.c"], csources=[ctx.repo + "/src/liblsd/hostlist.c"],
                            ccopt="-w -DHAVE_CONFIG_H -I%s/config -I%s/src/liblsd" % (ctx.repo, ctx.repo))


def hlo_ok_bytes(b):
    return b != b"" and 0 not in b and 10 not in b


def hlo_names(rng, syntax=False, odd=True):
    out = []
    for _ in range(rng.choice([0, 1, 1, 2, 3, 4, 6, 9])):
        r = rng.random()
        if r < 0.25:
            out += gen_run(rng)
        elif r < 0.33 and odd:
            out.append(rng.choice(HLO_ODD))
        elif r < 0.45 and syntax:
            out.append(rng.choice(HLO_SYNTAX))
        else:
            out.append(gen_name(rng))
    rng.shuffle(out)
    if rng.random() < 0.3 and out:
        out.append(rng.choice(out))          # a repeated name
    return [n for n in out if hlo_ok_bytes(n)]


def hlo_generate(rng, n):
    cases = [("E", b"n[1-3],x"), ("RS", [b"n3", b"n1", b"n2", b"x"]), ("RX", [b"t1a[2]"]), ("RS", [b"t1a[2]".replace(b"[", b"(").replace(b"]", b")")]),
             ("E", b"t[1]a[2]"), ("E", b"a\rb[1-2]\r"), ("RP", [b"n3", b"n1", b"n2", b"x"]), ("SO", [b"n3", b"n1", b"n2", b"x", b"n001", b"n01"]),
             ("SO", [b"t000000000000000000001", b"t2"]), ("RX", [b"a b", b"x,y", b"n[3,1]"]), ("E", b"\x01"), ("E", b"\x01,\x01"), ("RX", []), ("SO", [])]
    for i in range(n):
        r = rng.random()
        if r < 0.35:
            k = rng.random()
            e = gen_expr(rng) if k < 0.6 else gen_malformed(rng) if k < 0.85 else b",".join(hlo_names(rng, True)) or b"x"
            if rng.random() < 0.1:
                e = e + rng.choice([b"\r", b",\r", b"\rz"])
            if not hlo_ok_bytes(e) or len(e) > 2000 or e in HANG_EXPR:
                e = b"t[1-2]"
            cases.append(("E", e))
        elif r < 0.50:
            cases.append(("RS", hlo_names(rng, False, False)))       # names free of list syntax: hostlist_push = hostlist_push_host
        elif r < 0.70:
            cases.append(("RX", hlo_names(rng, True)))
        elif r < 0.85:
            cases.append(("RP", hlo_names(rng, True)))
        else:
            cases.append(("SO", hlo_names(rng, True)))
    return cases


def hlo_enc(cid, op, arg):
    if op == "E":
        return "E %s %s\n" % (cid, hx(arg))
    return "%s %s %s\n" % (op, cid, ",".join(hx(x) for x in arg) if arg else ".")


def hlo_canon(op, arg):
    return "HLO " + hlo_enc("x", op, arg).strip()


def hlo_parse_case(line):
    w = line.split()
    if w[1] == "E":
        return ("E", unhx(w[3]))
    return (w[1], [] if w[3] == "." else [unhx(x) for x in w[3].split(",")])


def hlo_res(op, txt):
    if op in ("E", "SO"):
        if txt == "null":
            return None
        return [] if txt == "." else [unhx(x) for x in txt.split(",")]
    return unhx(txt)


def hlo_run(exe, cases, timeout=300):
    text = "".join(hlo_enc("h%d" % i, op, arg) for i, (op, arg) in enumerate(cases))
    rc, o, e = vlib.sh(["timeout", "-s", "KILL", str(timeout), exe], inp=text.encode("latin-1"), shell=False, timeout=timeout + 10)
    out = {}
    for l in o.split("\n"):
        w = l.split()
        if len(w) == 5 and w[1] == "M" and w[3] == "I":
            out[w[0]] = (w[2], w[4])
    return out


def hlo_monitor(op, arg, ans):
    """the property on the implementation's answer.  returns None or (clause, detail)"""
    src = set(arg) if op == "E" else set(b"".join(arg))
    digits = set(b"0123456789")
    if op in ("E", "SO"):
        if ans is None:
            if op == "E" and isinstance(ref_expand(arg), list) and not any(c in arg for c in b"+") and b"\x01" not in arg:
                return ("expand_str", "hostlist_create refuses an expression the documented notation defines: %r" % arg)
            return None
        for n in ans:
            bad = [c for c in n if c not in src and c not in digits]
            if bad:
                return ("services_provenance", "name %r holds byte(s) %r that occur neither in the argument nor among the digits" % (n, bytes(bad)))
        if op == "E":
            ref = ref_expand(arg)
            if ref == "error":
                return ("expand_str", "hostlist_create accepts an expression the documented notation refuses: %r -> %r" % (arg, ans[:6]))
            if isinstance(ref, list) and not re.search(rb"[0-9]{15}", arg) and ans != ref and b"\x01" not in arg:
                return ("expand_str", "expression %r expands to %s, documented notation says %s" % (arg, brief(ans), brief(ref)))
        if op == "SO" and all(b"[" not in n and b"]" not in n for n in arg):
            trunc = any(len(n) - len(n.rstrip(b"0123456789")) > 14 for n in arg)      # hostlist_next cuts a printed number at 14 characters
            if not trunc and sorted(ans) != sorted(arg):
                return ("sorted_permutation", "sorting %s yields %s: not the same names" % (brief(arg), brief(ans)))
        return None
    bad = [c for c in ans if c not in src and c not in digits and c not in b"[],-"]
    if bad:
        return ("services_provenance", "ranged string %r holds byte(s) %r that occur neither in a name nor among digits and [ ] , -" % (ans, bytes(bad)))
    if all(c not in (10, 13) for c in src) and any(c in (10, 13) for c in ans):
        return ("services_clean", "ranged string %r of clean names holds a CR / LF" % ans)
    legal = all(n and not any(c in n for c in b"[], \t") and len(n) < 1023 for n in arg)
    if legal and len(arg) <= 10240:
        back = ref_expand(ans) if ans else []
        if isinstance(back, list) and all(len(n) < 60 for n in arg):
            want = sorted(arg) if op in ("RS", "RX") else list(arg)
            got = sorted(back) if op in ("RS", "RX") else back
            if got != want:
                return ("reply_sets", "the text %r of the node set %s re-reads as %s" % (ans, brief(arg), brief(back)))
    return None


def hlo_shrink(exe, op, arg, fails):
    if op == "E":
        return arg
    cur = list(arg)
    i = len(cur) - 1
    budget = 40
    while i >= 0 and budget > 0:
        cand = cur[:i] + cur[i + 1:]
        budget -= 1
        if fails(cand):
            cur = cand
        i -= 1
    return cur


def oracle_stage(ctx, V, only=None):
    """returns (cases, violations, disagreements)"""
    try:
        ctx.coq_make(["Extract/ExHLOracles.vo"])
        exe = hlo_build(ctx)
    except vlib.TieBroken as ex:
        V.tie_broken("tie", "R-HLO:build", str(ex)); return (0, 0, 1)
    cases = only if only is not None else hlo_generate(ctx.rng, 600 if ctx.tier == "quick" else 8000)
    t0 = time.time()
    res = {}
    step = 500
    spun = []

    def run_range(lo, hi):
        """the driver runs the C in-process: a case that spins takes the whole chunk with it -> short time-out, bisect to the case"""
        part = hlo_run(exe, cases[lo:hi], timeout=6)
        if len(part) == hi - lo or len(spun) >= 4:
            for k, v in part.items():
                res[lo + int(k[1:])] = v
        elif hi - lo == 1:
            spun.append(lo)
        else:
            mid = (lo + hi) // 2
            run_range(lo, mid); run_range(mid, hi)
    for i in range(0, len(cases), step):
        run_range(i, min(len(cases), i + step))
    nv = nd = 0
    for i, (op, arg) in enumerate(cases):
        canon = hlo_canon(op, arg)
        if only is None:
            V.case(canon, nontrivial=(op != "E" and len(arg) > 1) or (op == "E" and (b"[" in arg or b"," in arg)))
            V.count("kind:hlo-" + op)
        if i in spun:
            if nv < 5:
                V.violation("services_return", "oracle:" + op, witness=[canon], detail="the host-list service %s did not return within 6 s on this argument (every other case takes microseconds)" % op)
            nv += 1
            continue
        if i not in res:
            if nd < 3:
                V.tie_broken("tie", "R-HLO:harness-run", "the oracle driver produced no answer (crash of the implementation side?)", case=[canon])
            nd += 1
            continue
        m, a = res[i]
        ans = hlo_res(op, a)
        v = hlo_monitor(op, arg, ans)
        if v:
            def fails(cand, op=op, clause=v[0]):
                r = hlo_run(exe, [(op, cand)], timeout=5).get("h0")
                w = hlo_monitor(op, cand, hlo_res(op, r[1])) if r else None
                return bool(w and w[0] == clause)
            small = hlo_shrink(exe, op, arg, fails)
            r2 = hlo_run(exe, [(op, small)]).get("h0")
            v2 = hlo_monitor(op, small, hlo_res(op, r2[1])) if r2 else None
            if nv < 5:
                V.violation(v[0], "oracle:" + op, witness=[hlo_canon(op, small)], detail=(v2 or v)[1])
            nv += 1
        elif m != a:
            def differs(cand, op=op):
                r = hlo_run(exe, [(op, cand)], timeout=5).get("h0")
                return bool(r and r[0] != r[1])
            small = hlo_shrink(exe, op, arg, differs)
            r2 = hlo_run(exe, [(op, small)]).get("h0") or (m, a)
            v2 = hlo_monitor(op, small, hlo_res(op, r2[1]))
            if v2:                      # the shrunk disagreement is an input on which the property itself fails
                if nv < 5:
                    V.violation(v2[0], "oracle:" + op, witness=[hlo_canon(op, small)], detail=v2[1])
                nv += 1
            elif nd < 5:
                V.tie_broken("correspondence", "R-HLO", "oracle %s: model (Proofs/HLOracles.v) answers %s, implementation (devstub.c on hostlist.c) %s" % (op, r2[0][:300], r2[1][:300]),
                             case=[hlo_canon(op, small)])
            nd += 0 if v2 else 1
    V.extra["oracle_stage"] = dict(cases=len(cases), seconds=round(time.time() - t0, 1), violations=nv, disagreements=nd)
    return (len(cases), nv, nd)


def run(ctx, V):
    proofs_ok = vlib.proof_gate(ctx, V)
    # the extracted model must exist even if a proof broke (Model/ and Extract/ do not depend on Proofs/)
    if not os.path.exists(os.path.join(ctx.coq, "Extract", "hlmodel.ml")) or ctx.gen_changed or not proofs_ok:
        ctx.coq_make(["Extract/ExHL.vo"])
    impl, model = build(ctx)
    quick = ctx.tier == "quick"
    V.rule = ("structured op sequences (1-30 ops over 1-4 lists: create/push/push_host/push_list/copy/delete_host/delete_nth/find/nth/"
              "count/sort/libc-qsort/ranged_string(n)/create-of-ranged-string/iterator create,next,reset,destroy) over the boundary alphabet "
              "(suffix widths 0-10, leading zeros, 9|10 99|100 09|10 099|0100, values around 2^25, 2^31, 2^32, 2^64, digit-terminated bracket "
              "prefixes, suffix after bracket, a bare name beside numbered hosts of its own prefix (directed), 62-81 character names, MAX_RANGE-1..+1, MAX_RANGES-1..+1, 1021-1030 byte tokens, malformed "
              "expressions) + the conf_exp_aliases iterator pattern + compress/expand round trips + corpus; a case is non-trivial if some "
              "state holds a range of more than one host or the case ends in a refusal / non-Ok outcome; distinct = distinct op lists; "
              "R-HLO: the four host-list oracles of the client layer (expand / ranged sorted, by push_host and by push / ranged plain / sorted) on "
              "generated expressions and name lists (incl. CR, high bytes, list syntax inside names), non-trivial = expression with brackets or "
              "separators, list of two or more names")
    n = 1500 if quick else 24000
    cases = load_corpus() + bounded_string_cases(ctx.rng) + bare_prefix_cases() + generate(ctx.rng, n)
    t0 = time.time()
    nv, nd = 0, 0
    step = 4000
    for i in range(0, len(cases), step):
        a, b = evaluate(ctx, V, impl, model, cases[i:i + step])
        nv += a; nd += b
    # exhaustive comparison of _width_equiv/_zero_padded (tie only)
    ws = sweep(ctx, V, impl, model)
    dt = time.time() - t0
    hc, hv, hd = oracle_stage(ctx, V)
    nv += hv; nd += hd
    V.extra["cases_per_second"] = round(len(cases) / max(dt, 1e-6), 1)
    V.extra["width_equiv_sweep"] = ws
    ctx.log("cases=%d violations=%d disagreements=%d %.1fs" % (len(cases), nv, nd, dt))
    if (V.broken and not V.violations):
        # search: the proof or the correspondence no longer checks; look harder for an input on which the property itself fails
        extra = generate(ctx.rng, 10 * n if quick else 2 * n)
        found = 0
        for i in range(0, len(extra), step):
            a, b = evaluate(ctx, V, impl, None, extra[i:i + step], record=False)
            found += a
            if found:
                break
        ctx.log("search after broken proof/tie: %d more cases, %d property violations" % (len(extra), found))
    V.assumptions.append("C14: qsort is modelled as a stable insertion sort and the harness substitutes that loop for libc qsort (the comparator "
                         "rewrites width fields); the genuine libc qsort path is checked by the monitor only (op Q: permutation of the names)")
    V.assumptions.append("C14: strcmp is modelled by its sign; malloc never fails; text contains no NUL byte")


def sweep(ctx, V, impl, model):
    lines = ["WS %d %d %d %d" % t[1:] for t in width_sweep_case(ctx.tier)]
    import threading
    la, lb = [None] * len(lines), [None] * len(lines)

    def work(i, l):
        text = "case ws%d 1500000\n%s\nend\n" % (i, l)
        a = run_batch(impl, text, env=ASAN_ENV, nproc=1, timeout=1500)
        b = run_batch(model, text, nproc=1, timeout=1500)
        la[i] = [x for x in a.split("\n") if x.startswith("r ")]
        lb[i] = [x for x in b.split("\n") if x.startswith("r ")]
    sem = threading.Semaphore(15)

    def guarded(i, l):
        with sem:
            work(i, l)
    th = [threading.Thread(target=guarded, args=(i, l)) for i, l in enumerate(lines)]
    for t in th:
        t.start()
    for t in th:
        t.join()
    bad = [i for i in range(len(lines)) if la[i] != lb[i] or not la[i] or len(la[i]) != 1]
    if bad:
        i = bad[0]
        V.tie_broken("correspondence", "R-HL:_width_equiv", "exhaustive sweep of _width_equiv/_zero_padded differs on `%s`: implementation %s model %s" % (lines[i], la[i], lb[i]), case=[lines[i]])
        return dict(ok=False)
    total = sum(int(l[0].split()[1]) for l in la)
    V.count("width_equiv_evaluations", total)
    return dict(ok=True, evaluations=total, slices=len(lines), hashes=[l[0].split()[2] for l in la][:8])


def replay(ctx, V, path):
    rec = json.load(open(path))
    ctx.copy_repo(); ctx.copy_coq()
    try:
        ctx.regen()
        ctx.coq_make(["Extract/ExHL.vo"])
        impl, model = build(ctx)
    except vlib.TieBroken as ex:
        print("cannot build: %s" % ex); return 1
    case = rec.get("case")
    if case is None and rec.get("no_longer_checks"):
        case = next((x.get("case") for x in rec["no_longer_checks"] if x.get("case")), None)
    if not case:
        print("replay file holds no concrete case (proof-only breakage): %s" % json.dumps(rec.get("no_longer_checks"))[:2000]); return 1
    if case and str(case[0]).startswith("HLO "):
        op, arg = hlo_parse_case(case[0])
        try:
            ctx.coq_make(["Extract/ExHLOracles.vo"]); exe = hlo_build(ctx)
        except vlib.TieBroken as ex:
            print("cannot build: %s" % ex); return 1
        r = hlo_run(exe, [(op, arg)]).get("h0")
        print("== case %s %r" % (op, arg))
        print("== model          %s" % (r[0] if r else "<none>")); print("== implementation %s" % (r[1] if r else "<none>"))
        v = hlo_monitor(op, arg, hlo_res(op, r[1])) if r else ("harness-run", "no answer")
        print("== monitor: %s" % ("holds" if not v else "clause %s violated: %s" % v))
        print("== correspondence: %s" % ("agree" if r and r[0] == r[1] else "differ"))
        return 1 if (v or not r or r[0] != r[1]) else 0
    ops = [dec_op(l) for l in case]
    a = run_impl(impl, [("r", ops)]).get("r"); b = run_model(model, [("r", ops)]).get("r")
    print("== case"); [print("   " + fmt_op(o)) for o in ops]
    print("== implementation trace"); [print("   " + l) for l in (a.raw if a else ["<none>"])]
    print("== model trace"); [print("   " + l) for l in (b.raw if b else ["<none>"])]
    rc = 0
    try:
        n = monitor(ops, a)
        print("== monitor: %d clause checks, all hold" % n)
    except Viol as v:
        print("== monitor: clause %s violated at %s: %s" % (v.clause, v.site, v.detail)); rc = 1
    d = compare(ops, a, b) if a and b else "missing trace"
    print("== correspondence: %s" % ("agree" if d is None else d))
    return 1 if (rc or d) else 0
