"""C11 - clients are isolated from one another (DESIGN §5 C11).

Proof gate: Properties/C11.v (multi-client world Model/CliWorld.v).  Tie: R-CLIENT (C06.correspond: the real client.c against
the extracted world, incl. dropped clients and orphan completions).  Search on the implementation: whole-daemon histories on
pmsim with 2-4 clients in fixed roles, and the monitor `mon_c11` below:
   A  power command and a second line in ONE segment (the second line must be answered 208 and not executed)
   B  status query on nodes overlapping A's, in flight at the same time
   C  a power command, answered; the same command again and then the connection is reset (the devices must still get it)
   D  a client that never reads (its output is stalled)
"""
import json, re
import vlib, pmcheck, pmgen, pmsim

POWER_CODES = {102, 210, 213, 205, 209}
QUERY_CODES = {103, 211, 213, 205, 209}


def gen_c11(rng, style="healthy"):
    cfg = pmgen.gen_variant_config(rng)
    for d in cfg.devs:
        d.transport = rng.choice(["pipe", "pipe", "tcp"])
        d.timeout = rng.choice([2.0, 3.0])
    if rng.random() < 0.35:
        # per-plug scripts only: a request for several plugs of one device queues one action per plug, so that actions which have
        # not started yet exist when the requester vanishes
        for d in cfg.devs:
            d.kinds = [k for k in d.kinds if not k.endswith(("_ranged", "_all"))]
            d.kinds += [k for k in ("on", "off", "cycle", "status") if k not in d.kinds]
    nodes = cfg.all_nodes()
    roles = ["A", "B"] + (["C"] if rng.random() < 0.6 else []) + (["D"] if rng.random() < 0.35 else [])
    sc = pmcheck.Scenario(cfg, [], dict(style="c11", ncli=len(roles), roles=roles))
    S = sc.script
    idx = {r: i for i, r in enumerate(roles)}
    for k in range(len(roles)):
        S.append(("connect",)); S.append(("wait", k))
    sc.lines = {k: [] for k in range(len(roles))}        # k -> [(line, word, targets)]

    def say(k, line, word, targets, seg=None):
        sc.lines[k].append((line, word, targets))
        return (line + "\r\n").encode()

    if "D" in idx:
        S.append(("raw", ["STALL c%d 1" % idx["D"]]))
        S.append(("send", idx["D"], say(idx["D"], "help", "help", []) + say(idx["D"], "nodes", "nodes", [])))
    cand = [d for d in cfg.devs if any(k in d.kinds for k in ("status", "status_all")) and any(cfg.truth[d.name].values())]
    if cand and rng.random() < 0.35:
        # a query WITHOUT a node list by B, then one device falls silent, then the same query by A: what A is told about that
        # device's nodes must come from A's own (timed-out) action - unknown - not from what B's request found earlier
        d = rng.choice(cand)
        S.append(("send", idx["B"], say(idx["B"], "status", "status", list(nodes)))); S.append(("wait", idx["B"]))
        S.append(("devmode", d.name, "silent"))
        S.append(("send", idx["A"], say(idx["A"], "status", "status", list(nodes)))); S.append(("wait", idx["A"]))
        S.append(("devmode", d.name, "healthy")); S.append(("sleep", 2500000))
        sc.tags["stale"] = dict(client=idx["A"], line=len(sc.lines[idx["A"]]) - 1, dev=d.name, nodes=[n for n in cfg.truth[d.name].values() if n])
    if rng.random() < 0.4:
        S.append(("send", idx["A"], say(idx["A"], "telemetry", "telemetry", []))); S.append(("wait", idx["A"]))
    if rng.random() < 0.3:
        S.append(("send", idx["B"], say(idx["B"], "exprange", "exprange", []))); S.append(("wait", idx["B"]))
    ea, ta, _ = pmcheck.target_expr(rng, cfg, mode=rng.choice(["all", "subset", "onedev", "single", "two-devs"]))
    # B overlaps A
    tb = sorted(set(rng.sample(ta, rng.randint(1, len(ta))) + [n for n in nodes if rng.random() < 0.3]), key=nodes.index)
    try:
        eb = pmgen.compress_some(rng, tb)
    except AssertionError:
        eb = ",".join(tb)
    wa = rng.choice(["on", "on", "off", "cycle"])
    second = rng.choice(["nodes", "status", "on " + rng.choice(nodes), "help", "bogus"])
    sc.tags["second"] = second
    if "C" in idx:
        ec, tc, _ = pmcheck.target_expr(rng, cfg, mode=rng.choice(["single", "onedev", "subset"]))
        wc = "off" if wa != "off" else "on"
        sc.tags["C"] = dict(word=wc, targets=tc)
        S.append(("send", idx["C"], say(idx["C"], "%s %s" % (wc, ec), wc, tc))); S.append(("wait", idx["C"]))
    # the concurrent part: one segment for A (command + second line), B's query in the same round
    S.append(("send", idx["A"], say(idx["A"], "%s %s" % (wa, ea), wa, ta) + say(idx["A"], second, second.split(" ")[0], list(nodes) if second == "status" else second.split(" ")[1:])))
    S.append(("send", idx["B"], say(idx["B"], "status %s" % eb, "status", tb)))
    if "C" in idx:
        S.append(("send", idx["C"], say(idx["C"], "%s %s" % (wc, ec), wc, tc)))
        # (virtual time only advances while the daemon is idle: `sleep 0` = one round later, i.e. the line has been parsed and the
        # first actions started, the others are still queued; longer sleeps = after the devices have gone quiet)
        S.append(("sleep", rng.choice([0, 0, 0, 60, 1000])))
        S.append(("raw", ["RST c%d" % idx["C"]]))
        sc.tags["dropped"] = idx["C"]
    S.append(("sleep", 9000000))
    # afterwards everybody who is still there is served normally
    S.append(("send", idx["A"], say(idx["A"], "nodes", "nodes", []))); S.append(("wait", idx["A"]))
    S.append(("send", idx["B"], say(idx["B"], "status %s" % eb, "status", tb))); S.append(("wait", idx["B"]))
    sc.requests = []
    return sc


def allowed_infos(word):
    return {"on": {305, 308, 309}, "off": {305, 308, 309}, "cycle": {305, 308, 309}, "reset": {305, 308, 309}, "flash": {305, 308, 309}, "unflash": {305, 308, 309},
            "status": {302, 303, 305, 308, 309}, "beacon": {302, 303, 305, 308, 309}, "temp": {303, 305, 308, 309},
            "nodes": {306, 307}, "help": {301}, "device": {304}}.get(word, set())


def allowed_codes(word):
    if word in pmgen.POWER_WORDS: return POWER_CODES
    if word in pmgen.QUERY_WORDS: return QUERY_CODES
    return {"nodes": {103}, "help": {103}, "device": {103, 205}, "telemetry": {104}, "exprange": {105}, "quit": {101}}.get(word, {201})


def mon_c11(sess, sc):
    bad = []
    cfg = sc.cfg
    node_dev = {}
    for dname, m in cfg.truth.items():
        for p, n in m.items():
            if n: node_dev[n] = (dname, p)
    dropped = sc.tags.get("dropped")
    stalled = [i for i, r in enumerate(sc.tags["roles"]) if r == "D"]
    for k, stream in sess.client_out.items():
        if k == dropped or k in stalled:
            continue
        reps = pmcheck.split_replies(stream)
        if reps is None:
            bad.append(("attribution", "banner", "client %d: no banner/prompt" % k)); continue
        chunks = [r for r in reps if isinstance(r[0], int)]
        lines = list(sc.lines.get(k, []))
        if sess.alive_after_script and not sess.wedged and not sess.overrun and len(chunks) != len(lines):
            bad.append(("one-reply", "count", "client %d sent %d lines and got %d terminal replies: %s" % (k, len(lines), len(chunks), [c[0] for c in chunks])))
            continue
        pending = []
        li = 0
        carried = []
        for code, lns, prompt in chunks:
            infos = carried + lns[:-1]; carried = []
            if li < len(lines) and not pending:
                pending.append(lines[li]); li += 1
            if code == 208:
                # answers the NEXT line; the command in progress keeps waiting; its informational lines so far stay with it
                if li >= len(lines):
                    bad.append(("busy", "spurious-208", "client %d: 208 without a further line" % k)); break
                li += 1
                carried = infos
                continue
            if not pending:
                bad.append(("attribution", "unsolicited", "client %d: reply %d without a request" % (k, code))); break
            line, word, tg = pending.pop(0)
            if code not in allowed_codes(word):
                bad.append(("attribution", "foreign-terminal", "client %d: request `%s` answered %d" % (k, line, code)))
            for l in infos:
                c3 = int(l[:3]) if l[:3].isdigit() else -1
                if c3 not in allowed_infos(word):
                    bad.append(("attribution", "foreign-info-line", "client %d: line %r inside the reply to `%s`" % (k, l[:60], line)))
                m = re.match(rb"305 (?:send|recv|connect|delay)\(([^)]*)\)", l)
                if m and tg:
                    devs = {node_dev[n][0] for n in tg if n in node_dev}
                    if m.group(1).decode() not in devs:
                        bad.append(("attribution", "foreign-telemetry", "client %d: telemetry of device %s in the reply to `%s` (its devices: %s)" % (k, m.group(1).decode(), line, sorted(devs))))
            if word == "status" and code in (103, 211):
                listed = []
                for l in infos:
                    m = re.match(rb"302 (?:on|off|unknown): +(.*)$", l)
                    if m and m.group(1): listed += pmgen.expand(m.group(1).decode())
                    m = re.match(rb"303 ([^:]+): (?:on|off|unknown)$", l)
                    if m: listed.append(m.group(1).decode())
                if sorted(listed) != sorted(tg):
                    bad.append(("attribution", "status-scope", "client %d: `%s` listed %s, asked for %s" % (k, line, sorted(listed), sorted(tg))))
                st = sc.tags.get("stale")
                if st and k == st["client"] and li - 1 == st["line"]:
                    known = []
                    for l in infos:
                        m = re.match(rb"302 (?:on|off): +(.*)$", l)
                        if m and m.group(1): known += pmgen.expand(m.group(1).decode())
                        m = re.match(rb"303 ([^:]+): (?:on|off)$", l)
                        if m: known.append(m.group(1).decode())
                    leaked = sorted(set(known) & set(st["nodes"]))
                    if leaked:
                        bad.append(("result-scope", "stale-state", "client %d: `status` while device %s was silent reports %s as on/off - values of an earlier request (of another client), not of this request's own actions" % (k, st["dev"], leaked)))
        # the second line of A must have been refused, not executed, when A's command was queued
        if sc.tags["roles"][k] == "A" and chunks:
            codes = [c[0] for c in chunks]
            first = next((i for i, (l, w, t) in enumerate(lines) if w in ("on", "off", "cycle")), None)
            if first is not None and first < len(codes) and codes[first] in (102, 210):
                # the command was queued; the second line sat in the same segment, so it was parsed while the command was pending:
                # its 208 must precede the command's own terminal line
                bad.append(("busy", "second-line-not-208", "client %d: command queued but the pipelined second line was not answered 208 first (codes %s)" % (k, codes)))
    # a client reset in mid-command does not cancel its actions
    if dropped is not None and "C" in sc.tags and sess.alive_after_script:
        info = sc.tags["C"]
        base = pmgen.CLIENT_COMS[info["word"]].upper()
        reps = pmcheck.split_replies(sess.client_out.get(dropped, b"")) or []
        chunks = [r for r in reps if isinstance(r[0], int)]
        if chunks and chunks[0][0] in (102, 210):
            for n in set(info["targets"]):
                if n not in node_dev: continue
                dname, plug = node_dev[n]
                cnt = sum(1 for conn, verb, tg, how in sess.devs[dname].log if verb.replace("_RANGED", "").replace("_ALL", "") == base and plug in tg)
                if cnt < 2:
                    bad.append(("vanish", "action-cancelled", "client %d repeated `%s` on %s and was reset: device %s saw the command for plug %s only %d time(s)" % (dropped, info["word"], n, dname, plug, cnt)))
    return bad


def mon_protocol_c11(sess, sc):
    """pmcheck.mon_protocol, except that the client that never reads (role D) is not expected to have received its replies"""
    stalled = [i for i, r in enumerate(sc.tags["roles"]) if r == "D"]
    return [b for b in pmcheck.mon_protocol(sess, sc) if not any(("client %d" % d) in b[2] for d in stalled)]


def cross_session_stage(ctx, V, exe, n):
    """what one session leaves behind must not reach another:
      queue   k sessions each switch one node of the same (healthy, slow: `delay` in the script) device at the same moment; every action is well
              inside the device time-out on its own, all of them together are not: the time an action spends QUEUED behind other sessions'
              actions is not its own - every session gets 102;
      result  session A's command fails for one plug (the device says ERR; setresult records it; A gets 210); session B then runs a command
              whose script records no per-plug result at all (no setresult): B's reply reflects B's actions only - 102."""
    import random
    scs = []
    for i in range(n):
        rng = random.Random(ctx.seed * 2750159 + i)
        cfg = pmgen.Config()
        d0 = pmgen.Dev("d0", ["login", "on", "off", "cycle", "status"], hardwired=["p1", "p2", "p3"], transport=rng.choice(["pipe", "tcp"]), timeout=3.0)
        cfg.devs.append(d0); cfg.node_lines.append(("n0,n1,n2", "d0", "p1,p2,p3")); cfg.truth = {"d0": {"p1": "n0", "p2": "n1", "p3": "n2"}}
        if i % 2 == 0:
            D = rng.choice(["1.1", "1.2", "1.4"])
            body = pmgen.script_text("on"); first, rest = body.split("\n", 1)
            d0.bodies["on"] = first + "\n\t\tdelay %s\n" % D + rest
            S = [("connect",), ("connect",), ("connect",), ("wait", 0), ("wait", 1), ("wait", 2)]
            order = [0, 1, 2]; rng.shuffle(order)
            for k in order: S.append(("send", k, ("on n%d\r\n" % k).encode()))
            S += [("wait", 0), ("wait", 1), ("wait", 2)]
            sc = pmcheck.Scenario(cfg, S, dict(style="c11-queue", ncli=3, want={0: [102], 1: [102], 2: [102]}))
        else:
            d0.bodies["cycle"] = 'send "CYCLE %s\\n"\n\t\texpect "done\\n"'
            bad = rng.choice(["p1", "p2"])
            S = [("connect",), ("connect",), ("wait", 0), ("wait", 1), ("verdict", "d0", bad, "ERR"),
                 ("send", 0, b"on n[0-1]\r\n"), ("wait", 0), ("send", 1, rng.choice([b"cycle n2\r\n", b"cycle n[0-2]\r\n", b"cycle n1\r\n"])), ("wait", 1),
                 ("send", 1, b"cycle n0\r\n"), ("wait", 1)]
            sc = pmcheck.Scenario(cfg, S, dict(style="c11-result", ncli=2, want={0: [210], 1: [102, 102]}))
        scs.append(sc)

    def mon_want(sess, sc):
        if not sess.alive_after_script or sess.wedged or sess.overrun:
            return []
        bad = []
        for k, want in sc.tags["want"].items():
            codes = [r[0] for r in (pmcheck.split_replies(sess.client_out.get(k, b"")) or []) if isinstance(r[0], int)]
            if codes != want:
                bad.append(("cross-session", sc.tags["style"][4:], "client %d: replies %s, expected %s (its own actions all %s): %r" % (
                    k, codes, want, "succeeded" if want[0] == 102 else "as the device said", sess.client_out.get(k, b"")[-300:])))
        return bad
    pmcheck.MONITORS["c11want"] = mon_want
    pmcheck.run_batch(ctx, V, exe, scs, ["alive", "wedge", "c11want"], "c11x")
    V.count("cross-session-histories", len(scs))


def run(ctx, V):
    _run(ctx, V)
    cross_session_stage(ctx, V, pmsim.build(ctx), 16 if ctx.tier == "quick" else 300)


def _run(ctx, V):
    import C06
    proofs_ok = vlib.proof_gate(ctx, V, extract=["Extract/ExClient.vo", "Extract/ExEnqueue.vo"])
    exe = pmsim.build(ctx)
    n = 220 if ctx.tier == "quick" else 8000
    scs = [gen_c11(ctx.rng) for _ in range(n)]
    pmcheck.MONITORS["c11"] = mon_c11
    pmcheck.MONITORS["protocol11"] = mon_protocol_c11
    V.rule = ("C11 histories on pmsim (unmodified powermand under the virtual OS): generated configurations, 2-4 clients in roles A (power command + a second "
              "line in one segment), B (status on overlapping nodes at the same time, optionally -x), C (power command, then the same again followed by a "
              "connection reset), D (stalled reader); monitors: alive, protocol, wedge, c03, c11 (every reply chunk attributable to the client's own "
              "request: terminal code class, kinds of 3xx lines, telemetry only of its own devices, status lists exactly its own targets; 208 for the "
              "pipelined line; devices still receive the reset client's command). non-trivial = a simulated device received a command; distinct by (config, script)")
    sessions = pmcheck.run_batch(ctx, V, exe, scs, ["alive", "protocol11", "wedge", "c11"], "c11")
    for sc, sess in zip(scs, sessions):
        if isinstance(sess, Exception): continue
        a = sc.tags["roles"].index("A")
        codes = [c[0] for c in (pmcheck.split_replies(sess.client_out.get(a, b"")) or []) if isinstance(c[0], int)]
        V.count("A-got-208" if 208 in codes else "A-not-busy")
        if "dropped" in sc.tags: V.count("dropped-client")
        if "D" in sc.tags["roles"]: V.count("stalled-client")
    # a client that never reads and is owed MORE than its 1 MiB buffer (C15_overflow_only_beyond_buffer: the oldest unsent bytes are overwritten,
    # nothing else happens): the other session must be served as if the non-reader were not there, and the loop must not block on its socket
    import C04

    ov = [C04.gen_overflow(ctx.rng, "out") for _ in range(2 if ctx.tier == "quick" else 6)]
    pmcheck.run_batch(ctx, V, exe, ov, ["alive", "wedge", "nonreader"], "c11o")
    V.count("non-reader-over-1MiB", len(ov))
    C06.correspond(ctx, V, n=300 if ctx.tier == "quick" else 6000)


def replay(ctx, V, path):
    import C06
    return C06.replay(ctx, V, path)
