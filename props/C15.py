"""C15 - server output always obeys the line protocol (DESIGN §5 C15).
   Proof gate: Properties/C15.v (single-client stream theorem against the recogniser Spec/Proto.v).
   Tie: R-CLIENT (C06.correspond) - the real _client_printf callers against the extracted model, byte for byte.
   Search on the implementation: whole-daemon histories on pmsim; EVERY client's raw byte stream is given to the EXTRACTED
   recogniser (Proto.ok_prefix for streams that may have been cut, Proto.ok for clients that were served to the end)."""
import json, os, re
import vlib, pmcheck, pmsim


def proto_verdicts(model, streams):
    """streams: list of (tag, bytes) -> {tag: {ok, rest, prefix, terminals}} through the extracted Spec/Proto"""
    inp = "".join("PROTO %s %s\n" % (t, b.hex() or "-") for t, b in streams)
    rc, o, e = vlib.sh(["timeout", "-s", "KILL", "300", model], shell=False, inp=inp.encode(), timeout=320)
    if rc != 0:
        raise vlib.TieBroken("extracted recogniser failed: " + e[-500:])
    return {l.split()[1]: dict(x.split("=") for x in l.split()[2:]) for l in o.splitlines() if l.startswith("PROTO ")}


ON_BODY = ('send "ON %s\\n"\n\t\texpect "([^ \\n]+) (OK|ERR[\\r\\n]*[A-Za-z0-9_]*)\\n"\n\t\t\tsetresult $1 $2 success="OK"\n\t\texpect "done\\n"')
TEMP_BODY = ('send "STATUS_TEMP %s\\n"\n\t\texpect "([^ \\n]+) ([0-9]+[\\r\\n]*[A-Za-z0-9_]*)\\n"\n\t\t\tsetplugstate $1 $2\n\t\texpect "done\\n"')


def crlf_device(sc, rng):
    """make one device answer with CR / LF INSIDE the text that setresult (309 line) or setplugstate (303 temperature value) captures:
    the scripts' capture groups are widened to admit it (as icebox3.dev's `[^ ]+` does), the simulated device is told to say so for one plug,
    and client 0 asks for exactly that node"""
    cands = []
    for d in sc.cfg.devs:
        for kind in ("on", "status_temp"):
            if kind in d.kinds:
                for p, n in sc.cfg.truth[d.name].items():
                    if n: cands.append((d, kind, p, n))
    if not cands:
        return False
    d, kind, plug, node = rng.choice(cands)
    if kind == "on":
        d.bodies["on"] = ON_BODY
        text = rng.choice(["ERR\nx", "ERR\rx", "ERR\r\n102_y", "ERR\n\n"])
        req = "on %s" % node
    else:
        d.bodies["status_temp"] = TEMP_BODY
        text = rng.choice(["41\r\n102_Command_completed_successfully", "41\nx", "7\r"])
        req = "temp %s" % node
    import C06
    pos = C06.after_connects(sc.script)
    sc.script[pos:pos] = [("verdict", d.name, plug, text), ("send", 0, (req + "\r\n").encode()), ("wait", 0)]
    sc.requests.insert(0, dict(client=0, line=req, word=req.split()[0], targets=[node], mode="crlf", step=pos + 1))
    sc.tags["crlf"] = kind
    return True


def run(ctx, V):
    import C06
    proofs_ok = vlib.proof_gate(ctx, V, extract=["Extract/ExClient.vo", "Extract/ExEnqueue.vo"])
    exe = pmsim.build(ctx)
    model = C06.build_model(ctx)
    n = 360 if ctx.tier == "quick" else 6000
    styles = ("healthy", "mixed", "faults")
    scs = [pmcheck.gen_scenario(ctx.rng, style=styles[i % 3]) for i in range(n)]
    # telemetry echo of hostile device bytes: switch telemetry on for client 0 in every third scenario
    for i, sc in enumerate(scs):
        if i % 4 == 2 and crlf_device(sc, ctx.rng):
            V.count("crlf-device:" + sc.tags["crlf"])
        if i % 3 == 1:
            pos = C06.after_connects(sc.script)
            sc.script[pos:pos] = [("send", 0, b"telemetry\r\n"), ("wait", 0)]
    V.rule = ("whole-daemon histories on pmsim (unmodified powermand under the virtual OS; generated configurations, 1-3 clients, valid and refused requests, "
              "device faults incl. garbage bytes echoed through telemetry; every 4th history has a device whose setresult / temperature capture admits CR LF and which answers one plug with CR / LF inside the captured text); monitors: alive, protocol (python), and the EXTRACTED recogniser Spec.Proto on every "
              "client's raw stream (ok_prefix always; ok + one terminal line per line sent for clients served to the end). non-trivial = a simulated device "
              "received a command; distinct by (config, script)")
    # `node sets inside replies are well-formed host ranges`: requests that name many UNKNOWN nodes whose ranged form does not compress
    # (209 No such nodes: <list>: the list passes 80, 256, 1024, 4096 bytes), next to the long-named configurations of the generator
    import pmgen
    for i, sc in enumerate(scs):
        if i % 5 == 3:
            k = ctx.rng.choice([30, 90, 140, 400, 1500])
            kind = ctx.rng.choice(["odd", "words"])
            names = ("zz[%s]" % ",".join(str(2 * j + 1) for j in range(k))) if kind == "odd" else ",".join("%s%d-x" % (pmgen.LONG_WORDS[j % 20], j) for j in range(k // 3 + 2))
            w = ctx.rng.choice(["on", "off", "status", "cycle", "temp", "beacon"])
            pos = C06.after_connects(sc.script)
            sc.script[pos:pos] = [("send", 0, ("%s %s\r\n" % (w, names)).encode()), ("wait", 0)]
            sc.requests.insert(0, dict(client=0, line="%s %s" % (w, names[:40]), word=w, targets=[], mode="unknown-long", step=pos))
            V.count("unknown-long-list")

    # request lines that are EMPTY after blank stripping: each is a request (answered 201 + prompt), never a bare second prompt
    for i, sc in enumerate(scs):
        if i % 7 == 5:
            pos = C06.after_connects(sc.script)
            extra = []
            for _ in range(ctx.rng.randint(1, 3)):
                extra += [("send", 0, ctx.rng.choice([b"\r\n", b"\n", b"  \r\n", b"\t\r\n", b" \t \n"])), ("wait", 0)]
            sc.script[pos:pos] = extra
            V.count("blank-request-lines")

    def mon_nodesets(sess, sc):
        bad = []
        for k, stream in sess.client_out.items():
            for ln in stream.split(b"\r\n")[:-1]:
                ln = ln[len(b"powerman> "):] if ln.startswith(b"powerman> ") else ln
                m = re.match(rb"(209 No such nodes: |302 (?:on|off|unknown): +|306 )(.*)$", ln)
                if not m or not m.group(2):
                    continue
                txt = m.group(2).decode("latin-1")
                try:
                    pmgen.expand(txt)
                    okk = txt.count("[") == txt.count("]")
                except Exception:
                    okk = False
                if not okk:
                    bad.append(("node-sets", "malformed-range", "client %d: the node set of `%s...` is not a well-formed host range (%d bytes): ...%r" % (k, ln[:24].decode("latin-1"), len(txt), txt[-60:])))
                    break
        return bad
    pmcheck.MONITORS["c15nodesets"] = mon_nodesets
    sessions = pmcheck.run_batch(ctx, V, exe, scs, ["alive", "protocol", "c15nodesets"], "c15")
    streams, meta = [], {}
    for i, (sc, sess) in enumerate(zip(scs, sessions)):
        if isinstance(sess, Exception): continue
        dropped = set(sess.closed_clients)
        for st in sc.script:
            if st[0] == "raw":
                for ev in st[1]:
                    m = re.match(r"(EOF|RST|FULLCLOSE) c(\d+)", ev)
                    if m: dropped.add(int(m.group(2)))
        for k, b in sess.client_out.items():
            tag = "%d.%d" % (i, k)
            streams.append((tag, b)); meta[tag] = (sc, sess, k, k in dropped)
    ver = proto_verdicts(model, streams)
    for tag, (sc, sess, k, dropped) in meta.items():
        v = ver.get(tag)
        if v is None:
            V.tie_broken("tie", "proto-monitor", "no verdict for stream " + tag); continue
        V.count("stream:ok=%s,prefix=%s" % (v["ok"], v["prefix"]))
        w = dict(sc.describe(), client=k, stream=sess.client_out[k].decode("latin-1")[-800:])
        if v["prefix"] != "true":
            V.violation("protocol", "client-stream", w, "Spec.Proto.ok_prefix rejects what client %d received" % k)
        elif not dropped and sess.alive_after_script and not sess.wedged and not sess.overrun and v["ok"] != "true":
            V.violation("protocol", "client-stream", w, "client %d was served to the end but its stream is not a sequence of whole protocol tokens (Spec.Proto.ok)" % k)
    C06.correspond(ctx, V, n=300 if ctx.tier == "quick" else 4000)


def replay(ctx, V, path):
    import C06
    return C06.replay(ctx, V, path)
