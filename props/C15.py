"""C15 - server output always obeys the line protocol (DESIGN §5 C15)"""
import json, vlib, pmcheck
def run(ctx, V):
    import C06
    pmcheck.standard_run(ctx, V, ["alive", "protocol"], extract=["Extract/ExClient.vo", "Extract/ExEnqueue.vo"], n_quick=400)
    C06.correspond(ctx, V, n=150 if ctx.tier == "quick" else 3000)
def replay(ctx, V, path):
    print(json.dumps(json.load(open(path)), indent=1)[:6000]); return 0
