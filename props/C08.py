"""C08 - device scripts execute exactly as written (DESIGN §5 C08); R-DEV unit correspondence of the device layer"""
import os, sys, json, subprocess, re
from concurrent.futures import ThreadPoolExecutor
import vlib, pmgen, pmsim

DEV_SRCS = [s for s in pmsim.DAEMON_SRCS if not s.endswith("/device.c")]
POOL = ["ok\n", "p1 ON\n", "p2 OFF\n", "n0 X\n", "1:ON", ":OFF", "done", "p2=OFF\n", "p1=ON\n", "a", "b", "xx", "\n", "zz ON\n", "p3 ON\n", "\x00ok\n", "\xff\x01", "p1 ON", " OFF\n"]


def build_dev(ctx):
    if not os.path.exists(os.path.join(ctx.repo, "src/powerman/parse_tab.c.regen")):
        ctx.regen_parser(); open(os.path.join(ctx.repo, "src/powerman/parse_tab.c.regen"), "w").close()
    srcs = [os.path.join(ctx.repo, s) for s in DEV_SRCS] + [os.path.join(vlib.VERIF, "harness", "dev_h.c")]
    return ctx.cc_parallel(srcs, "dev_h", extra=["-Dmain=pm_main", '-DX_SYSCONFDIR="/nonexistent"'], link_extra=["-Wl,--wrap=gettimeofday"])


def build_model(ctx):
    return ctx.ocaml_driver("dev_model", "devmodel", "dev_drv.ml", cstubs=["devstub.c"], csources=[ctx.repo + "/src/liblsd/hostlist.c"],
                            ccopt="-w -DHAVE_CONFIG_H -I%s/config -I%s/src/liblsd" % (ctx.repo, ctx.repo))


ALLKINDS = ["on", "on_ranged", "on_all", "off", "off_ranged", "off_all", "cycle", "cycle_ranged", "cycle_all", "reset", "reset_ranged", "reset_all",
            "beacon_on", "beacon_on_ranged", "beacon_off", "beacon_off_ranged", "status", "status_all", "status_temp", "status_temp_all",
            "status_beacon", "status_beacon_all", "ping"]


LINE = 'expect "([^ \\n]+) ([A-Za-z0-9]+)\\n"'
GEN2 = {
    "status_all": 'send "STATUS_ALL\\n"\n\t\tforeachnode {\n\t\t\t%s\n\t\t\tsetplugstate $1 $2 on="O" off="OFF"\n\t\t}\n\t\texpect "done\\n"' % LINE,
    "status": 'send "STATUS %%s\\n"\n\t\t%s\n\t\tsetplugstate $2 off="OFF" on="O"\n\t\texpect "done\\n"' % LINE,
    "cycle": 'send "Q %%s\\n"\n\t\t%s\n\t\tsetplugstate $1 $2 on="ON" off="OFF"\n\t\tifon {\n\t\t\tsend "OFF %%s\\n"\n\t\t\texpect "done\\n"\n\t\t}\n\t\tifoff {\n\t\t\tsend "ON %%s\\n"\n\t\t\texpect "done\\n"\n\t\t}\n\t\tsend "CYCLED %%s\\n"\n\t\texpect "done\\n"' % LINE,
    "on_all": 'foreachplug {\n\t\t\tsend "ON1 %%s\\n"\n\t\t\t%s\n\t\t\tsetresult $1 $2 success="OK"\n\t\t}\n\t\texpect "done\\n"' % LINE,
    "off_ranged": 'send "OFFR %%s\\n"\n\t\tforeachnode {\n\t\t\t%s\n\t\t\tsetplugstate $1 $2 on="ON" off="OFF"\n\t\t\tifon {\n\t\t\t\tsend "KILL %%s\\n"\n\t\t\t\tdelay 0.5\n\t\t\t}\n\t\t}\n\t\texpect "done\\n"' % LINE,
    "reset_all": 'send "RESET_ALL\\n"\n\t\tforeachnode {\n\t\t\t%s\n\t\t\tsetresult $1 $2 success="OK" success="ON"\n\t\t}\n\t\texpect "done\\n"' % LINE,
    "status_temp_all": 'send "TEMP_ALL\\n"\n\t\tforeachplug {\n\t\t\t%s\n\t\t\tsetplugstate $1 $2\n\t\t}\n\t\texpect "done\\n"' % LINE,
}


def gen_case(rng, consts, style):
    """one configuration (1-2 devices with random or generated scripts) + an op sequence"""
    cfg = pmgen.Config()
    ndev = rng.choice([1, 1, 2])
    asts = {}
    nodeno = 0
    for di in range(ndev):
        name = "d%d" % di
        nk = rng.randint(2, 7)
        kinds = ["login"] + rng.sample(ALLKINDS, nk if style == "random" else rng.randint(8, 16))
        if style == "gen2":
            kinds = ["login"] + list(dict.fromkeys([k for k in GEN2 if not (k == "status" and rng.random() < 0.5)] + rng.sample(ALLKINDS, 3)))
        nplugs = rng.randint(1, 4)
        hard = rng.random() < 0.5
        pn = ["p%d" % (k + 1) for k in range(nplugs + (rng.choice([0, 1]) if hard else 0))]
        d = pmgen.Dev(name, kinds, hardwired=pn if hard else None, timeout=rng.choice([2.0, 5.0, 1.5]), ping=rng.choice([0, 0, 0, 3.0]))
        asts[name] = {}
        for k in kinds:
            if style == "gen2" and k in GEN2:
                d.bodies[k] = GEN2[k]
                asts[name][k] = pmgen.parse_script_text(GEN2[k])
            elif style == "random" and not (k == "login" and rng.random() < 0.7):
                body = pmgen.random_script(rng, k)
                d.bodies[k] = "\n".join(s.text() for s in body).lstrip("\t")
                asts[name][k] = body
            else:
                asts[name][k] = pmgen.parse_script_text(pmgen.script_text(k))
        cfg.devs.append(d)
        nodes = ["n%d" % (nodeno + k) for k in range(nplugs)]; nodeno += nplugs
        cfg.node_lines.append((",".join(nodes), name, ",".join(pn[:nplugs])))
    # ops
    ops = []
    now = 1000000
    ops.append("NOW %d" % now)
    for di in range(ndev):
        ops.append("PLAN %d %s" % (di, " ".join(rng.choice(["now", "now", "now", "pending", "fail"]) for _ in range(12))))
        if rng.random() < 0.2:
            ops.append("FINISH %d 0" % di)
    ops.append("INIT")
    nodes = cfg.all_nodes()
    nargs = 0
    words = pmgen.POWER_WORDS + pmgen.QUERY_WORDS
    for step in range(rng.randint(6, 40) if style == "random" else rng.randint(20, 60)):
        r = rng.random()
        if r < 0.16:
            t = rng.sample(nodes, rng.randint(1, len(nodes)))
            if rng.random() < 0.15: t = t + [t[0]]
            ops.append("NEWARGS " + ",".join(x.encode().hex() for x in t))
            w = rng.choice(words) if style != "gen2" or rng.random() < 0.3 else rng.choice(["cycle", "cycle", "status", "status", "off", "on", "reset", "temp"])
            ops.append("ENQ %d %d %d %d %s" % (consts[pmgen.KINDS[pmgen.CLIENT_COMS[w]]], rng.randint(1, 3), rng.choice([0, 1]), nargs, ",".join(x.encode().hex() for x in t)))
            nargs += 1
        elif r < 0.62:
            di = rng.randrange(ndev)
            if style in ("gen", "gen2") and rng.random() < 0.8:
                # a device that answers the generated scripts: one line per plug with a verdict, then the terminators
                d = cfg.devs[di]
                pn = d.hardwired if d.hardwired is not None else expand_plugs(cfg, d.name)
                lines = ["ready\n"] if rng.random() < 0.7 else []
                for p_ in pn:
                    if rng.random() < 0.9:
                        lines.append("%s %s\n" % (p_, rng.choice(["OK", "OK", "OK", "ERR", "ON", "OFF", "ON", "OFF", "42", "ERRX"])))
                if rng.random() < 0.15: rng.shuffle(lines)
                lines += ["done\n"] if rng.random() < 0.85 else []
                lines += ["pong\n"] if d.ping else []
                data = "".join(lines)
                if rng.random() < 0.2: data = data[:rng.randint(0, len(data))]
            else:
                k = rng.choice([1, 1, 2, 3, 6])
                data = "".join(rng.choice(POOL) for _ in range(k))
            ops.append("FEED %d %s" % (di, data.encode("latin-1").hex()))
        elif r < 0.66:
            ops.append("PEERCLOSE %d" % rng.randrange(ndev))
        elif r < 0.70:
            ops.append("FINISH %d %d" % (rng.randrange(ndev), rng.choice([0, 1, 1])))
        elif r < 0.74:
            ops.append("PLAN %d %s" % (rng.randrange(ndev), " ".join(rng.choice(["now", "pending", "fail"]) for _ in range(3))))
        now += rng.choice([0, 0, 1000, 100000, 500000, 1000000, 1000000, 2500000, 8000000] if style == "random" else [0, 0, 0, 1000, 1000, 100000, 500000, 1000000, 6000000])
        ops.append("NOW %d" % now)
        ops.append("PASS")
    return cfg, asts, ops


def directed_cases(consts):
    """hand-made histories aimed at the case splits of the proofs and at the repaired defects (run first)"""
    out = []

    def one(bodies, ops_mid, hard=("p1", "p2", "p3"), nodes=("n0", "n1"), tele=1, word="cycle", targets=("n0",)):
        cfg = pmgen.Config()
        kinds = ["login"] + [k for k in bodies if k != "login"]
        d = pmgen.Dev("d0", kinds, hardwired=list(hard), timeout=5.0)
        asts = {"d0": {}}
        for k in kinds:
            if k in bodies:
                d.bodies[k] = bodies[k]
            asts["d0"][k] = pmgen.parse_script_text(bodies.get(k, pmgen.script_text(k)))
        cfg.devs.append(d)
        cfg.node_lines.append((",".join(nodes), "d0", ",".join(hard[:len(nodes)])))
        hx = lambda x: x.encode("latin-1").hex()
        ops = ["NOW 1000000", "PLAN 0 now now now now", "INIT", "PASS", "FEED 0 " + hx("ready\n"), "NOW 1100000", "PASS",
               "NEWARGS " + ",".join(hx(t) for t in targets),
               "ENQ %d 1 %d 0 %s" % (consts[pmgen.KINDS[pmgen.CLIENT_COMS[word]]], tele, ",".join(hx(t) for t in targets))]
        t = 1200000
        for o in ops_mid:
            if o is None:
                t += 100000; ops += ["NOW %d" % t, "PASS"]
            elif isinstance(o, int):
                t += o; ops += ["NOW %d" % t, "PASS"]
            elif o == "CLOSE":
                ops.append("PEERCLOSE 0")
            else:
                ops.append("FEED 0 " + hx(o))
        out.append((cfg, asts, ops))

    for verdict in ["ON", "OFF", "XX"]:
        one({"cycle": GEN2["cycle"]}, [None, None, "p1 %s\n" % verdict, None, None, "done\n", None, None, "done\n", None, None])
    one({"status_all": GEN2["status_all"]}, [None, None, "p1 OFF\np2 ON\np3 ON\ndone\n", None, None], word="status", targets=("n0", "n1"))
    one({"status_all": GEN2["status_all"]}, [None, None, "p1 O\n", None, "p2 OFFX\n", None, "done\n", None], word="status", targets=("n1",))
    one({"on": 'send "ON %s\\n"\n\t\texpect "plug ([0-9]*):(ON|OFF)"\n\t\tsetplugstate $1 $2 on="ON"\n\t\tsetresult $1 $2 success="ON"'}, [None, None, "plug :ON", None, None], word="on")
    one({"on": 'send "ON %s\\n"\n\t\texpect "x([^y]*)y"\n\t\texpect "done"'}, [None, None, "x\x80\xff\x00\x01y", None, "zz", 6000000, None], word="on")
    one({"on": 'send "AAAA %s\\n"\n\t\tdelay 1.0\n\t\tforeachplug {\n\t\t\tsend "B %s\\n"\n\t\t\texpect "ok"\n\t\t}'}, [None, "CLOSE", None, 1000000, None, "ready\n", None, None, 1000000, None, "ok", None, "ok", None, "ok", None, None], word="on")
    one({"login": 'setplugstate $1 $2 on="ON"\n\t\tsend "LOGIN\\n"\n\t\texpect "ready\\n"', "on": pmgen.script_text("on")}, [None, None, "p1 OK\ndone\n", None, None], word="on")
    one({"login": 'send "LOGIN\\n"\n\t\tforeachplug {\n\t\t\tifon {\n\t\t\t\tsend "x"\n\t\t\t}\n\t\t}\n\t\texpect "ready\\n"', "on": pmgen.script_text("on")}, [None, None, "p1 OK\ndone\n", None, 6000000, None], word="on")
    return out


def expand_plugs(cfg, devname):
    out = []
    for n, d, p in cfg.node_lines:
        if d == devname:
            out += pmgen.expand(p) if p is not None else pmgen.expand(n)
    return out


def run_impl(exe, scratch, idx, cfg, ops):
    path = os.path.join(scratch, "dev%d.conf" % idx)
    open(path, "w").write(cfg.text())
    rc, o, e = vlib.sh(["timeout", "-s", "KILL", "60", exe, path], shell=False, inp=("\n".join(ops) + "\n").encode(), timeout=70,
                       env={"ASAN_OPTIONS": "detect_leaks=0"})
    return rc, o, e


def devtab_from_enq(enq, scratch, idx, cfg):
    """the plug tables as the real parser builds them (so R-DEV does not depend on a model of conf)"""
    path = os.path.join(scratch, "dev%d.conf" % idx)
    rc, o, e = vlib.sh(["timeout", "-s", "KILL", "30", enq, path], shell=False, inp=b"", timeout=40, env={"ASAN_OPTIONS": "detect_leaks=0"})
    tab = []
    for l in o.splitlines():
        if l.startswith("DEVTAB "):
            w = l.split()
            tab.append(w[4].split("=")[1] or "-")
    return rc, tab, e


def model_input(cfg, asts, tab, ops, consts):
    L = []
    for d, plugs in zip(cfg.devs, tab):
        L.append("DEVDEF %s %d %d %s" % (d.name.encode().hex(), int(round(d.timeout * 1000000)), int(round(d.ping * 1000000)), plugs))
        for k in d.kinds:
            toks = []
            for s in asts[d.name][k]:
                toks += s.tok(consts)
            L.append("SCRIPT %d %s" % (consts[pmgen.KINDS[k]], " ".join(toks)))
    L.append("ENDDEFS")
    return L + ops


def split_blocks(out):
    """group output lines per op that produces output (INIT / ENQ / PASS)"""
    blocks, cur = [], []
    for l in out.splitlines():
        cur.append(l)
        if l in ("ENDINIT", "ENDPASS") or l.startswith("COUNT ") or l.startswith("OUTCOME "):
            blocks.append(cur); cur = []
    if cur:
        blocks.append(cur)
    return blocks


def run(ctx, V):
    import C01
    proofs_ok = vlib.proof_gate(ctx, V, extract=["Extract/ExDevice.vo", "Extract/ExEnqueue.vo"])
    consts = pmgen.load_genconsts(ctx.coq)
    devh = build_dev(ctx)
    enq = C01.build_enq(ctx)
    model = build_model(ctx)
    n = 420 if ctx.tier == "quick" else 6000
    V.rule = ("R-DEV: generated configurations with random scripts over the whole statement grammar (and the structured generated specs), "
              "op sequences (connect plans, requests, device bytes from a pool matching the expect pool, peer close, clock steps) run through the real "
              "dev_initial_connect/dev_enqueue_actions/dev_pre_poll/poll/dev_post_poll with stub transports and through Model.DevHarness; compared after every pass: "
              "callbacks with their text, bytes written, requested time-out, every device's state, queue, exec stacks, buffers, every Arg; "
              "non-trivial = at least one completion callback or written byte")
    cases = directed_cases(consts) + [gen_case(ctx.rng, consts, ["random", "gen", "gen2"][i % 3]) for i in range(n)]
    with ThreadPoolExecutor(16) as ex:
        outs = list(ex.map(lambda ic: (run_impl(devh, ctx.scratch, ic[0], ic[1][0], ic[1][2]), devtab_from_enq(enq, ctx.scratch, ic[0], ic[1][0])), enumerate(cases)))
        minputs = []
        for (cfg, asts, ops), ((rc, o, e), (rc2, tab, e2)) in zip(cases, outs):
            minputs.append("\n".join(model_input(cfg, asts, tab, ops, consts)) + "\n")
        mouts = list(ex.map(lambda s: vlib.sh(["timeout", "-s", "KILL", "60", model], shell=False, inp=s.encode(), timeout=70), minputs))
    for (cfg, asts, ops), ((rc, o, e), (rc2, tab, e2)), (mrc, mo, me), minp in zip(cases, outs, mouts, minputs):
        ib, mb = split_blocks(o), split_blocks(mo)
        nontriv = any(l.startswith("EV DONE") or l.startswith("WROTE") for l in o.splitlines())
        V.case((cfg.text(), tuple(ops)), nontrivial=nontriv)
        V.count("ops", len(ops)); V.count("impl_rc:%d" % rc)
        for l in o.splitlines():
            if l.startswith("EV "): V.count("ev:" + l.split()[1])
        model_outcome = [l for l in mo.splitlines() if l.startswith("OUTCOME ")]
        if mrc != 0:
            V.tie_broken("correspondence", "R-DEV", "model driver failed: %s" % me[-800:], case=dict(config=cfg.text(), ops=ops))
            continue
        if model_outcome:
            V.count("model:" + model_outcome[0])
        # compare block by block up to the first difference
        diff = None
        for k in range(max(len(ib), len(mb))):
            a = ib[k] if k < len(ib) else ["<missing>"]
            b = mb[k] if k < len(mb) else ["<missing>"]
            if b and b[-1].startswith("OUTCOME "):
                # the model predicts an abort/crash here: the implementation must have died at this op
                if rc == 0 or k < len(ib) - 1:
                    diff = (k, a, b)
                break
            if a != b:
                diff = (k, a, b); break
        if rc != 0 and not model_outcome and diff is None:
            diff = (len(ib), ["<implementation died rc=%d: %s>" % (rc, e[-600:])], ["<model continues>"])
        if model_outcome or rc != 0:
            # a crash of the device layer caused by device bytes / scripts accepted by the parser
            site = model_outcome[0] if model_outcome else "impl rc=%d" % rc
            V.violation("daemon-aborts", site, dict(config=cfg.text(), ops=ops, impl_tail=o.splitlines()[-5:], stderr=e[-600:]),
                        "the device layer aborts (assert / crash) on this history")
        if diff:
            k, a, b = diff
            da = [x for x in a if x not in b][:6]; db = [x for x in b if x not in a][:6]
            V.tie_broken("correspondence", "R-DEV", "first difference in output block %d\nimpl only: %s\nmodel only: %s" % (k, da, db),
                         case=dict(config=cfg.text(), ops=ops))
        V.sample(dict(config=cfg.text()[:600], ops=ops[:25], impl_first_pass=[l for l in o.splitlines() if l.startswith(("EV", "WROTE", "TMO"))][:12]), limit=2)


def replay(ctx, V, path):
    rep = json.load(open(path))
    print(json.dumps(rep, indent=1)[:6000])
    return 0
