"""C08 - device scripts execute exactly as written (DESIGN §5 C08); R-DEV unit correspondence of the device layer"""
import os, sys, json, subprocess, re
from concurrent.futures import ThreadPoolExecutor
import vlib, pmgen, pmsim

DEV_SRCS = [s for s in pmsim.DAEMON_SRCS if not s.endswith("/device.c")]
POOL = ["ok\n", "p1 ON\n", "p2 OFF\n", "n0 X\n", "1:ON", ":OFF", "done", "p2=OFF\n", "p1=ON\n", "a", "b", "xx", "\n", "zz ON\n", "p3 ON\n", "\x00ok\n", "\xff\x01", "p1 ON", " OFF\n"]


def build_dev(ctx):
    if not os.path.exists(os.path.join(ctx.repo, "src/powerman/parse_tab.c.regen")):
        ctx.regen_parser(); open(os.path.join(ctx.repo, "src/powerman/parse_tab.c.regen"), "w").close()
    srcs = [os.path.join(ctx.repo, s) for s in DEV_SRCS] + [os.path.join(vlib.VERIF, "harness", "dev_h.c")]
    return ctx.cc_parallel(srcs, "dev_h", extra=["-Dmain=pm_main", '-DX_SYSCONFDIR="/nonexistent"'], link_extra=["-Wl,--wrap=gettimeofday"])


def build_model(ctx):
    return ctx.ocaml_driver("dev_model", "devmodel", "dev_drv.ml", cstubs=["devstub.c"], csources=[ctx.repo + "/src/liblsd/hostlist.c"],
                            ccopt="-w -DHAVE_CONFIG_H -I%s/config -I%s/src/liblsd" % (ctx.repo, ctx.repo))


ALLKINDS = ["on", "on_ranged", "on_all", "off", "off_ranged", "off_all", "cycle", "cycle_ranged", "cycle_all", "reset", "reset_ranged", "reset_all",
            "beacon_on", "beacon_on_ranged", "beacon_off", "beacon_off_ranged", "status", "status_all", "status_temp", "status_temp_all",
            "status_beacon", "status_beacon_all", "ping"]


LINE = 'expect "([^ \\n]+) ([A-Za-z0-9]+)\\n"'
GEN2 = {
    "status_all": 'send "STATUS_ALL\\n"\n\t\tforeachnode {\n\t\t\t%s\n\t\t\tsetplugstate $1 $2 on="O" off="OFF"\n\t\t}\n\t\texpect "done\\n"' % LINE,
    "status": 'send "STATUS %%s\\n"\n\t\t%s\n\t\tsetplugstate $2 off="OFF" on="O"\n\t\texpect "done\\n"' % LINE,
    "cycle": 'send "Q %%s\\n"\n\t\t%s\n\t\tsetplugstate $1 $2 on="ON" off="OFF"\n\t\tifon {\n\t\t\tsend "OFF %%s\\n"\n\t\t\texpect "done\\n"\n\t\t}\n\t\tifoff {\n\t\t\tsend "ON %%s\\n"\n\t\t\texpect "done\\n"\n\t\t}\n\t\tsend "CYCLED %%s\\n"\n\t\texpect "done\\n"' % LINE,
    "on_all": 'foreachplug {\n\t\t\tsend "ON1 %%s\\n"\n\t\t\t%s\n\t\t\tsetresult $1 $2 success="OK"\n\t\t}\n\t\texpect "done\\n"' % LINE,
    "off_ranged": 'send "OFFR %%s\\n"\n\t\tforeachnode {\n\t\t\t%s\n\t\t\tsetplugstate $1 $2 on="ON" off="OFF"\n\t\t\tifon {\n\t\t\t\tsend "KILL %%s\\n"\n\t\t\t\tdelay 0.5\n\t\t\t}\n\t\t}\n\t\texpect "done\\n"' % LINE,
    "reset_all": 'send "RESET_ALL\\n"\n\t\tforeachnode {\n\t\t\t%s\n\t\t\tsetresult $1 $2 success="OK" success="ON"\n\t\t}\n\t\texpect "done\\n"' % LINE,
    "status_temp_all": 'send "TEMP_ALL\\n"\n\t\tforeachplug {\n\t\t\t%s\n\t\t\tsetplugstate $1 $2\n\t\t}\n\t\texpect "done\\n"' % LINE,
}


def gen_case(rng, consts, style):
    """one configuration (1-2 devices with random or generated scripts) + an op sequence"""
    cfg = pmgen.Config()
    ndev = rng.choice([1, 1, 2])
    asts = {}
    nodeno = 0
    for di in range(ndev):
        name = "d%d" % di
        nk = rng.randint(2, 7)
        kinds = ["login"] + rng.sample(ALLKINDS, nk if style == "random" else rng.randint(8, 16))
        if style == "gen2":
            kinds = ["login"] + list(dict.fromkeys([k for k in GEN2 if not (k == "status" and rng.random() < 0.5)] + rng.sample(ALLKINDS, 3)))
        nplugs = rng.randint(1, 4)
        hard = rng.random() < 0.5
        pn = ["p%d" % (k + 1) for k in range(nplugs + (rng.choice([0, 1]) if hard else 0))]
        d = pmgen.Dev(name, kinds, hardwired=pn if hard else None, timeout=rng.choice([2.0, 5.0, 1.5]), ping=rng.choice([0, 0, 0, 3.0]))
        asts[name] = {}
        for k in kinds:
            if style == "gen2" and k in GEN2:
                d.bodies[k] = GEN2[k]
                asts[name][k] = pmgen.parse_script_text(GEN2[k])
            elif style == "random" and not (k == "login" and rng.random() < 0.7):
                body = pmgen.random_script(rng, k)
                d.bodies[k] = "\n".join(s.text() for s in body).lstrip("\t")
                asts[name][k] = body
            else:
                asts[name][k] = pmgen.parse_script_text(pmgen.script_text(k))
        cfg.devs.append(d)
        nodes = ["n%d" % (nodeno + k) for k in range(nplugs)]; nodeno += nplugs
        cfg.node_lines.append((",".join(nodes), name, ",".join(pn[:nplugs])))
    # ops
    ops = []
    now = 1000000
    ops.append("NOW %d" % now)
    for di in range(ndev):
        ops.append("PLAN %d %s" % (di, " ".join(rng.choice(["now", "now", "now", "pending", "fail"]) for _ in range(12))))
        if rng.random() < 0.2:
            ops.append("FINISH %d 0" % di)
    ops.append("INIT")
    nodes = cfg.all_nodes()
    nargs = 0
    words = pmgen.POWER_WORDS + pmgen.QUERY_WORDS
    for step in range(rng.randint(6, 40) if style == "random" else rng.randint(20, 60)):
        r = rng.random()
        if r < 0.16:
            t = rng.sample(nodes, rng.randint(1, len(nodes)))
            if rng.random() < 0.15: t = t + [t[0]]
            ops.append("NEWARGS " + ",".join(x.encode().hex() for x in t))
            w = rng.choice(words) if style != "gen2" or rng.random() < 0.3 else rng.choice(["cycle", "cycle", "status", "status", "off", "on", "reset", "temp"])
            ops.append("ENQ %d %d %d %d %s" % (consts[pmgen.KINDS[pmgen.CLIENT_COMS[w]]], rng.randint(1, 3), rng.choice([0, 1]), nargs, ",".join(x.encode().hex() for x in t)))
            nargs += 1
        elif r < 0.62:
            di = rng.randrange(ndev)
            if style in ("gen", "gen2") and rng.random() < 0.8:
                # a device that answers the generated scripts: one line per plug with a verdict, then the terminators
                d = cfg.devs[di]
                pn = d.hardwired if d.hardwired is not None else expand_plugs(cfg, d.name)
                lines = ["ready\n"] if rng.random() < 0.7 else []
                for p_ in pn:
                    if rng.random() < 0.9:
                        lines.append("%s %s\n" % (p_, rng.choice(["OK", "OK", "OK", "ERR", "ON", "OFF", "ON", "OFF", "42", "ERRX"])))
                if rng.random() < 0.15: rng.shuffle(lines)
                lines += ["done\n"] if rng.random() < 0.85 else []
                lines += ["pong\n"] if d.ping else []
                data = "".join(lines)
                if rng.random() < 0.2: data = data[:rng.randint(0, len(data))]
            else:
                k = rng.choice([1, 1, 2, 3, 6])
                data = "".join(rng.choice(POOL) for _ in range(k))
            ops.append("FEED %d %s" % (di, data.encode("latin-1").hex()))
        elif r < 0.66:
            ops.append("PEERCLOSE %d" % rng.randrange(ndev))
        elif r < 0.70:
            ops.append("FINISH %d %d" % (rng.randrange(ndev), rng.choice([0, 1, 1])))
        elif r < 0.74:
            ops.append("PLAN %d %s" % (rng.randrange(ndev), " ".join(rng.choice(["now", "pending", "fail"]) for _ in range(3))))
        now += rng.choice([0, 0, 1000, 100000, 500000, 1000000, 1000000, 2500000, 8000000] if style == "random" else [0, 0, 0, 1000, 1000, 100000, 500000, 1000000, 6000000])
        ops.append("NOW %d" % now)
        ops.append("PASS")
    return cfg, asts, ops


def directed_cases(consts):
    """hand-made histories aimed at the case splits of the proofs and at the repaired defects (run first)"""
    out = []

    def one(bodies, ops_mid, hard=("p1", "p2", "p3"), nodes=("n0", "n1"), tele=1, word="cycle", targets=("n0",)):
        cfg = pmgen.Config()
        kinds = ["login"] + [k for k in bodies if k != "login"]
        d = pmgen.Dev("d0", kinds, hardwired=list(hard), timeout=5.0)
        asts = {"d0": {}}
        for k in kinds:
            if k in bodies:
                d.bodies[k] = bodies[k]
            asts["d0"][k] = pmgen.parse_script_text(bodies.get(k, pmgen.script_text(k)))
        cfg.devs.append(d)
        cfg.node_lines.append((",".join(nodes), "d0", ",".join(hard[:len(nodes)])))
        hx = lambda x: x.encode("latin-1").hex()
        ops = ["NOW 1000000", "PLAN 0 now now now now", "INIT", "PASS", "FEED 0 " + hx("ready\n"), "NOW 1100000", "PASS",
               "NEWARGS " + ",".join(hx(t) for t in targets),
               "ENQ %d 1 %d 0 %s" % (consts[pmgen.KINDS[pmgen.CLIENT_COMS[word]]], tele, ",".join(hx(t) for t in targets))]
        t = 1200000
        for o in ops_mid:
            if o is None:
                t += 100000; ops += ["NOW %d" % t, "PASS"]
            elif isinstance(o, int):
                t += o; ops += ["NOW %d" % t, "PASS"]
            elif o == "CLOSE":
                ops.append("PEERCLOSE 0")
            else:
                ops.append("FEED 0 " + hx(o))
        out.append((cfg, asts, ops))

    for verdict in ["ON", "OFF", "XX"]:
        one({"cycle": GEN2["cycle"]}, [None, None, "p1 %s\n" % verdict, None, None, "done\n", None, None, "done\n", None, None])
    one({"status_all": GEN2["status_all"]}, [None, None, "p1 OFF\np2 ON\np3 ON\ndone\n", None, None], word="status", targets=("n0", "n1"))
    one({"status_all": GEN2["status_all"]}, [None, None, "p1 O\n", None, "p2 OFFX\n", None, "done\n", None], word="status", targets=("n1",))
    one({"on": 'send "ON %s\\n"\n\t\texpect "plug ([0-9]*):(ON|OFF)"\n\t\tsetplugstate $1 $2 on="ON"\n\t\tsetresult $1 $2 success="ON"'}, [None, None, "plug :ON", None, None], word="on")
    one({"on": 'send "ON %s\\n"\n\t\texpect "x([^y]*)y"\n\t\texpect "done"'}, [None, None, "x\x80\xff\x00\x01y", None, "zz", 6000000, None], word="on")
    one({"on": 'send "AAAA %s\\n"\n\t\tdelay 1.0\n\t\tforeachplug {\n\t\t\tsend "B %s\\n"\n\t\t\texpect "ok"\n\t\t}'}, [None, "CLOSE", None, 1000000, None, "ready\n", None, None, 1000000, None, "ok", None, "ok", None, "ok", None, None], word="on")
    one({"login": 'setplugstate $1 $2 on="ON"\n\t\tsend "LOGIN\\n"\n\t\texpect "ready\\n"', "on": pmgen.script_text("on")}, [None, None, "p1 OK\ndone\n", None, None], word="on")
    one({"login": 'send "LOGIN\\n"\n\t\tforeachplug {\n\t\t\tifon {\n\t\t\t\tsend "x"\n\t\t\t}\n\t\t}\n\t\texpect "ready\\n"', "on": pmgen.script_text("on")}, [None, None, "p1 OK\ndone\n", None, 6000000, None], word="on")
    return out


def expand_plugs(cfg, devname):
    out = []
    for n, d, p in cfg.node_lines:
        if d == devname:
            out += pmgen.expand(p) if p is not None else pmgen.expand(n)
    return out


def run_impl(exe, scratch, idx, cfg, ops):
    path = os.path.join(scratch, "dev%d.conf" % idx)
    open(path, "w").write(cfg.text())
    # a change that makes the device layer spin would cost the full budget on every case (hours): once a few cases were killed by the
    # time-out the property is violated anyway and the remaining cases get a short budget (a healthy case takes milliseconds)
    t = 60 if SPUN[0] < 8 else 5
    rc, o, e = vlib.sh(["timeout", "-s", "KILL", str(t), exe, path], shell=False, inp=("\n".join(ops) + "\n").encode(), timeout=t + 10,
                       env={"ASAN_OPTIONS": "detect_leaks=0"})
    if rc in (137, -9): SPUN[0] += 1
    return rc, o, e


SPUN = [0]


def devtab_from_enq(enq, scratch, idx, cfg):
    """the plug tables as the real parser builds them (so R-DEV does not depend on a model of conf)"""
    path = os.path.join(scratch, "dev%d.conf" % idx)
    rc, o, e = vlib.sh(["timeout", "-s", "KILL", "30", enq, path], shell=False, inp=b"", timeout=40, env={"ASAN_OPTIONS": "detect_leaks=0"})
    tab = []
    for l in o.splitlines():
        if l.startswith("DEVTAB "):
            w = l.split()
            tab.append(w[4].split("=")[1] or "-")
    return rc, tab, e


def model_input(cfg, asts, tab, ops, consts):
    L = []
    for d, plugs in zip(cfg.devs, tab):
        L.append("DEVDEF %s %d %d %s" % (d.name.encode().hex(), int(round(d.timeout * 1000000)), int(round(d.ping * 1000000)), plugs))
        for k in d.kinds:
            toks = []
            for s in asts[d.name][k]:
                toks += s.tok(consts)
            L.append("SCRIPT %d %s" % (consts[pmgen.KINDS[k]], " ".join(toks)))
    L.append("ENDDEFS")
    return L + ops


def split_blocks(out):
    """group output lines per op that produces output (INIT / ENQ / PASS)"""
    blocks, cur = [], []
    for l in out.splitlines():
        cur.append(l)
        if l in ("ENDINIT", "ENDPASS") or l.startswith("COUNT ") or l.startswith("OUTCOME "):
            blocks.append(cur); cur = []
    if cur:
        blocks.append(cur)
    return blocks



# ================================================================ the property monitor
# The trace semantics (coq/Spec/ScriptSem.v, the statement of C08_refines) evaluated on the IMPLEMENTATION's own
# telemetry: every action of the "sem" cases runs with a verbose callback, so the C reports each send (the bytes it
# queued), each expect (the bytes it consumed) and each delay (its length) in order.  The monitor walks the script by
# structural recursion (no stack, no flags - a python generator per action) and demands that the next telemetry
# event is exactly what the semantics allows next; at completion the walk must be at the end of the script and the
# request's argument table must be the one the semantics computed.  Script selection is NOT decided here (C01): the
# first send of a generated script carries a verb that names the script and its %s names the action's plugs.
ST_UNKNOWN, RT_NONE = 0, 0


class Mismatch(Exception):
    def __init__(self, clause, site, detail):
        Exception.__init__(self, detail); self.clause, self.site, self.detail = clause, site, detail


def unmemstr(s):
    """inverse of dbg_memstr for texts without a literal backslash"""
    out = bytearray(); i = 0
    while i < len(s):
        c = s[i]
        if c == "\\" and i + 1 < len(s) and s[i + 1] in "rnt":
            out.append({"r": 13, "n": 10, "t": 9}[s[i + 1]]); i += 2
        elif c == "\\" and i + 3 < len(s) + 0 and all(x in "01234567" for x in s[i + 1:i + 4]) and len(s[i + 1:i + 4]) == 3:
            out.append(int(s[i + 1:i + 4], 8) & 255); i += 4
        else:
            out.append(ord(c) & 255); i += 1
    return out.decode("latin-1")


def posix_match_end(pat, consumed):
    """the match regexec found, given that the C consumed the buffer up to its end: leftmost start whose match ends
    at the end of `consumed` (the generated patterns are unambiguous, so python's groups are POSIX's)"""
    try:
        return re.search("(?:%s)\\Z" % pat, consumed)
    except re.error:
        return None


def send_matches(fmt, ps, text):
    """text == fmt with %s -> the block's argument (single plug: its name; several: a range expression denoting
    exactly their names; none: "(null)") and %% -> %"""
    rx, i, multi = "", 0, False
    while i < len(fmt):
        if fmt.startswith("%s", i):
            if not ps: rx += re.escape("(null)")
            elif len(ps) == 1: rx += re.escape(ps[0][0])
            else: rx += "(.*)"; multi = True
            i += 2
        elif fmt.startswith("%%", i):
            rx += "%"; i += 2
        else:
            rx += re.escape(fmt[i]); i += 1
    m = re.fullmatch(rx, text, re.S)
    if not m: return False
    if multi:
        try:
            return sorted(pmgen.expand(m.group(1))) == sorted(p[0] for p in ps)
        except Exception:
            return False
    return True


class Walk:
    """one action: the script's meaning as a generator of demands; .shadow is the request's argument table"""

    def __init__(self, consts, plugs, ranged, shadow, script, ps):
        self.c, self.plugs, self.ranged, self.shadow = consts, plugs, ranged, shadow
        self.xm = None; self.not_before = None; self.site = "top"; self.cur_ps = ps
        self.gen = self.block(script, ps, ("top",)); self.result = None; self.need = None
        self.step(None)

    def step(self, ev):
        try:
            self.need = self.gen.send(ev)
        except StopIteration as e:
            self.need = None; self.result = e.value or "ok"

    # --- semantics
    def block(self, stmts, ps, where):
        for st in stmts:
            r = yield from self.stmt(st, ps, where)
            if r == "fail": return "fail"
        return "ok"

    def clause(self, where, dflt):
        for w in reversed(where):
            if w in ("foreachplug", "foreachnode"): return "foreach-plugs"
            if w in ("ifon", "ifoff"): return "ifonoff"
        return dflt

    def demand(self, kind, st, where):
        self.site = where[-1] + ":" + st.kind
        ev = yield (kind, st, self.cur_ps)
        if ev[0] != kind:
            raise Mismatch(self.clause(where, "program-order"), self.site, "the script is at `%s` (%s) but the implementation reports a %s: %r" % (st.text("").strip(), "/".join(where), ev[0], ev[1]))
        return ev

    def cap(self, i):
        if self.xm is None or i < 0 or i > 20: return None
        try: return self.xm.group(i)
        except IndexError: return None

    def interp(self, ints, s, on_code, off_code, dflt):
        for code, pat in ints:
            try:
                if re.search(pat, s, re.S): return on_code if code in ("on", "success") else off_code
            except re.error: pass
        return dflt

    def node_of(self, name):
        for n, node in self.plugs:
            if n == name: return node
        return None

    def stmt(self, st, ps, where):
        k, c = st.kind, self.c
        self.cur_ps = ps
        if k == "send":
            ev = yield from self.demand("send", st, where)
            if not send_matches(st.fmt, ps, ev[1]):
                raise Mismatch(self.clause(where, "send-argument"), self.site, "send %r in a block with plugs %s must queue the format with that argument, the implementation queued %r" % (st.fmt, [p[0] for p in ps] if ps is not None else None, ev[1]))
        elif k == "expect":
            ev = yield from self.demand("recv", st, where)
            m = posix_match_end(st.re_src, ev[1])
            if m is None:
                raise Mismatch("expect-match", self.site, "expect %r finished on %r, which does not end in a match" % (st.re_src, ev[1]))
            self.xm = m
        elif k == "delay":
            ev = yield from self.demand("delay", st, where)
            us = int(round(float(st.secs) * 1000000))
            if ev[1] != us:
                raise Mismatch("delay", self.site, "delay %s reported as %d usec" % (st.secs, ev[1]))
            self.not_before = (ev[2] + us, st.secs, ev[2])
        elif k == "setplugstate":
            name = st.lit if st.lit is not None else self.cap(st.pmp)
            if name is None and ps: name = ps[0][0]
            if name is not None:
                val, node = self.cap(st.smp), self.node_of(name)
                if val is not None and node is not None and node in self.shadow:
                    self.shadow[node][0] = self.interp(st.interps, val, c["ST_ON"], c["ST_OFF"], c["ST_UNKNOWN"])
                    self.shadow[node][2] = val
        elif k == "setresult":
            name = self.cap(st.pmp)
            if name is not None:
                val, node = self.cap(st.smp), self.node_of(name)
                if val is not None and node is not None and node in self.shadow:
                    self.shadow[node][1] = self.interp(st.interps, val, c["RT_SUCCESS"], c["RT_SUCCESS"], c["RT_UNKNOWN"])
                    self.shadow[node][2] = val
        elif k in ("foreachplug", "foreachnode"):
            lst = (ps or []) if self.ranged else self.plugs
            if k == "foreachnode": lst = [p for p in lst if p[1] is not None]
            for p in lst:
                r = yield from self.block(st.body, [p], where + (k,))
                if r == "fail": return "fail"
        elif k in ("ifon", "ifoff"):
            state = c["ST_UNKNOWN"]
            if ps and ps[0][1] is not None and ps[0][1] in self.shadow: state = self.shadow[ps[0][1]][0]
            if state == (c["ST_ON"] if k == "ifon" else c["ST_OFF"]):
                r = yield from self.block(st.body, ps if ps is not None else [], where + (k,))
                if r == "fail": return "fail"
            elif state == c["ST_UNKNOWN"]:
                self.site = where[-1] + ":" + k
                return "fail"
        return "ok"


def monitor_case(consts, meta, ops, out):
    """walk the implementation's output of one sem case; raises Mismatch"""
    plugs = meta["plugs"]                                   # [(name, node|None)] in device order (from the real parser)
    scripts = meta["scripts"]                               # kind -> [Stmt]
    by_verb = {sc[0].fmt.split()[0].strip(): k for k, sc in scripts.items() if sc and sc[0].kind == "send" and k != "login"}
    enq = meta["enq"]                                       # client id -> dict(targets=[node], args=k)
    shadows = {}                                            # args index -> {node: [state, result, val]}
    cur = None                                              # the running action: dict(walk, client, first, kind)
    disc = False; now = 0
    blocks = iter(split_blocks(out))
    stats = dict(actions=0, completed=0, events=0, restarts=0, failed=0)

    def start(client, text):
        verb = text.split()[0].strip() if text.split() else ""
        kind = by_verb.get(verb)
        if kind is None or client not in enq:
            raise Mismatch("program-order", "action-start", "telemetry %r of client %d does not start any script of the device" % (text, client))
        sc = scripts[kind]; targets = enq[client]["targets"]; k = enq[client]["args"]
        shadow = shadows.setdefault(k, {n: [consts["ST_UNKNOWN"], 0, None] for n in targets})
        tplugs = [p for p in plugs if p[1] is not None and p[1] in targets]
        if kind.endswith("_all"): ps = None
        elif kind.endswith("_ranged"): ps = tplugs
        else:
            ps = None
            for p in tplugs:
                if send_matches(sc[0].fmt, [p], text): ps = [p]
            if ps is None:
                raise Mismatch("send-argument", "action-start", "first send %r of script %s names no targeted plug of %s" % (text, kind, [p[0] for p in tplugs]))
        stats["actions"] += 1
        return dict(walk=Walk(consts, plugs, kind.endswith("_ranged"), shadow, sc, ps), client=client, first=text, kind=kind, args=k)

    def feed(ev, client):
        nonlocal cur, disc
        stats["events"] += 1
        is_start = ev[0] == "send" and bool(ev[1].split()) and ev[1].split()[0] in by_verb
        if cur is not None and is_start and (cur["walk"].need is None or (disc and ev[1] == cur["first"])):
            if cur["walk"].need is not None: stats["restarts"] += 1       # the connection dropped: the rewound action starts over
            cur = None
        if cur is None:
            if ev[0] != "send":
                raise Mismatch("program-order", "action-start", "%s %r while no action is running" % (ev[0], ev[1]))
            cur = start(client, ev[1]); disc = False
        w = cur["walk"]
        if w.not_before is not None and not disc and ev[2] < w.not_before[0]:
            raise Mismatch("delay", w.site, "delay %s started at %d was over by %d" % (w.not_before[1], w.not_before[2], ev[2]))
        if w.need is None:
            raise Mismatch("program-order", "after-end", "the script %s is finished but the implementation reports %s %r" % (cur["kind"], ev[0], ev[1]))
        w.not_before = None
        w.step(ev)

    for op in ops:
        if op.startswith("NOW "): now = int(op.split()[1]); continue
        if not (op == "INIT" or op == "PASS" or op.startswith("ENQ ")): continue
        blk = next(blocks, None)
        if blk is None: break
        if op != "PASS": continue
        evl = [l for l in blk if l.startswith("EV ")]
        done_ok = []
        for idx, l in enumerate(evl):
            w_ = l.split()
            if w_[1] in ("DISC", "CONN"):
                disc = True; continue
            if w_[1] == "TELE":
                client = int(w_[2]); txt = bytes.fromhex(w_[3]).decode("latin-1") if w_[3] != "-" else ""
                m = re.match(r"(send|recv|delay|connect)\(([^)]*)\): ?(.*)\Z", txt, re.S)
                if not m or m.group(1) == "connect": continue
                kind, body = m.group(1), m.group(3)
                if kind == "delay":
                    sec, usec = body.strip().split(".")
                    feed(("delay", int(sec) * 1000000 + int(usec), now), client)
                else:
                    if not (body.startswith("'") and body.endswith("'")): continue
                    text = unmemstr(body[1:-1])
                    if kind == "recv" and idx + 1 < len(evl) and evl[idx + 1].split()[1] == "DONE" and int(evl[idx + 1].split()[3]) != 0:
                        continue                            # the buffer dump of a timed-out action
                    feed((kind, text, now), client)
            elif w_[1] == "DONE":
                client, err = int(w_[2]), int(w_[3])
                if cur is None or cur["client"] != client:
                    continue                                # an action that never ran a statement (aborted / timed out in the queue)
                w = cur["walk"]
                if err == 0:
                    if w.not_before is not None and now < w.not_before[0]:
                        raise Mismatch("delay", w.site, "delay %s started at %d, action completed at %d" % (w.not_before[1], w.not_before[2], now))
                    if w.need is not None:
                        raise Mismatch("foreach-plugs" if "foreach" in w.site else "program-order", w.site, "action %s completed but the script is still at `%s`" % (cur["kind"], w.need[1].text("").strip()))
                    if w.result == "fail":
                        raise Mismatch("ifonoff", w.site, "ifon/ifoff on a plug of unknown state must fail the action, it completed")
                    stats["completed"] += 1; done_ok.append(cur["args"])
                else:
                    stats["failed"] += 1
                cur = None
        # argument tables at the end of the pass, for requests one of whose actions completed and none is mid-way
        for l in blk:
            if l.startswith("ARGS "):
                w_ = l.split(); k = int(w_[1])
                if k not in done_ok or (cur is not None and cur["args"] == k) or k not in shadows: continue
                got = {}
                if w_[2] != "-":
                    for ent in w_[2].split(","):
                        n, st_, rs_, v = ent.split(":")
                        got[bytes.fromhex(n).decode("latin-1")] = (int(st_), int(rs_), "" if v == "-" else bytes.fromhex(v).decode("latin-1"))
                for node, (st_, rs_, v) in shadows[k].items():
                    exp = (st_, rs_, v or "")
                    if got.get(node) != exp:
                        raise Mismatch("setplugstate-record", "args", "argument table of request %d: node %s holds (state, result, text) = %s, the script's semantics gives %s" % (k, node, got.get(node), exp))
    return stats


# ---------------------------------------------------------------- cases for the monitor
E_OK, E_DONE = "ok\n", "done\n"
E_PLUG = "plug ([a-z0-9]*): ([a-z]*)\n"                 # both fields may be EMPTY
E_WORD = "([^ \n]+) ([A-Za-z0-9]+)\n"
E_X = "x*"                                                # matches the empty string
# NB: xregex_exec passes REG_NOTEOL, so `$` never matches in a powerman pattern: the generated patterns avoid it
ST = pmgen.Stmt


def sem_body(rng, depth, ranged):
    n = rng.randint(1, 3 if depth else 4)
    out = []
    for _ in range(n):
        r = rng.random()
        if r < 0.22:
            out.append(ST("send", fmt=rng.choice(["A %s\n", "B\n", "C %s 100%%\n", "D%%\n", "FN %s\n"])))
        elif r < 0.44:
            out.append(ST("expect", re_src=rng.choice([E_OK, E_OK, E_PLUG, E_PLUG, E_WORD, E_X, E_DONE])))
        elif r < 0.58:
            lit = rng.choice([None, None, None, "p1", "zz"])
            pmp = rng.choice([1, 1, 1, 3]) if lit is None and rng.random() < 0.75 else -1
            ints = rng.choice([[("on", "^on"), ("off", "^off")], [("on", "o"), ("off", "off")], [("off", "x*"), ("on", "on")], [("off", "off"), ("on", "o")], []])
            out.append(ST("setplugstate", lit=lit, pmp=0 if lit is not None else pmp, smp=rng.choice([2, 2, 2, 1, 0]), interps=ints))
        elif r < 0.66:
            out.append(ST("setresult", pmp=1, smp=2, interps=rng.choice([[("success", "^on")], [("success", "o")], [("success", "x*")]])))
        elif r < 0.74:
            out.append(ST("delay", secs=rng.choice(["0", "0.5", "1", "0.25"])))
        elif depth < 2:
            k = rng.choice(["foreachplug", "foreachnode", "foreachnode", "ifon", "ifoff"])
            out.append(ST(k, body=sem_body(rng, depth + 1, ranged)))
        else:
            out.append(ST("send", fmt="E %s\n"))
    return out


def sem_script(rng, kind):
    verb = kind.upper()
    first = ST("send", fmt=(verb + "\n") if kind.endswith("_all") else (verb + " %s\n"))
    return [first, ST("expect", re_src=rng.choice([E_OK, E_PLUG, E_PLUG, E_WORD]))] + sem_body(rng, 0, kind.endswith("_ranged"))


SEM_KINDS = ["on", "on_ranged", "on_all", "off", "off_ranged", "off_all", "cycle", "cycle_ranged", "cycle_all", "reset", "reset_ranged", "reset_all", "status", "status_all",
             "beacon_off", "beacon_off_ranged",
             "beacon_on", "beacon_on_ranged", "status_temp", "status_temp_all"]


def sem_config(scripts, plugs, timeout=5.0):
    """one device d0 with hard-wired plugs [(name, node|None)] and the given scripts (kind -> [Stmt])"""
    cfg = pmgen.Config()
    kinds = ["login"] + [k for k in scripts if k != "login"]
    d = pmgen.Dev("d0", kinds, hardwired=[p[0] for p in plugs], timeout=timeout)
    asts = {"d0": {}}
    for k in kinds:
        if k in scripts:
            d.bodies[k] = "\n".join(s.text() for s in scripts[k]).lstrip("\t")
            asts["d0"][k] = scripts[k]
        else:
            asts["d0"][k] = pmgen.parse_script_text(pmgen.script_text(k))
    cfg.devs.append(d)
    for name, node in plugs:
        if node is not None:
            cfg.node_lines.append((node, "d0", name))
    return cfg, asts


def sem_plugs(rng):
    """hard-wired plug list with unmapped plugs anywhere, runs of two or more adjacent unmapped plugs included"""
    nm = rng.randint(1, 4)
    seq = ["m"] * nm
    for _ in range(rng.choice([0, 1, 2, 2, 3, 4])):
        seq.insert(rng.randint(0, len(seq)), "u")
    if rng.random() < 0.4:
        i = rng.randint(0, len(seq)); seq[i:i] = ["u", "u"]
    out, mi, ui = [], 0, 0
    for t in seq:
        if t == "m": mi += 1; out.append(("p%d" % mi, "n%d" % (mi - 1)))
        else: ui += 1; out.append(("u%d" % ui, None))
    return out


def sem_reply_pool(plugs):
    names = [p[0] for p in plugs] + ["", "zz"]
    pool = [E_OK] * 6 + [E_DONE] * 2 + ["xx", "x", "\n"]
    for n in names:
        for v in ["on", "off", "", "on", "off", "zap"]:
            pool.append("plug %s: %s\n" % (n, v))
    for n in [p[0] for p in plugs]:
        pool += ["%s ON\n" % n, "%s OFF\n" % n]
    return pool


def ideal_replies(rng, consts, plugs, kind, script, targets):
    """what a device that follows the script would answer (used to steer the generated histories deep into the scripts)"""
    names = [p[0] for p in plugs]
    tplugs = [p for p in plugs if p[1] is not None and p[1] in targets]
    if not tplugs: return []
    ps = None if kind.endswith("_all") else tplugs if kind.endswith("_ranged") else [rng.choice(tplugs)]
    w = Walk(consts, plugs, kind.endswith("_ranged"), {n: [consts["ST_UNKNOWN"], 0, None] for n in targets}, script, ps)
    out, guard = [], 0
    try:
        while w.need is not None and guard < 120:
            guard += 1
            k, st, bps = w.need
            if k == "send":
                arg = "(null)" if not bps else bps[0][0] if len(bps) == 1 else ",".join(p[0] for p in bps)
                w.step(("send", st.fmt.replace("%s", arg).replace("%%", "%"), 0))
            elif k == "recv":
                pat = st.re_src
                if pat == E_PLUG: txt = "plug %s: %s\n" % (rng.choice(names + names + ["", "zz"]), rng.choice(["on", "off", "on", "off", "", "zap"]))
                elif pat == E_WORD: txt = "%s %s\n" % (rng.choice(names), rng.choice(["ON", "OFF", "o"]))
                elif pat == E_X: txt = rng.choice(["x", "xx", ""])
                else: txt = pat
                out.append(txt if pat != E_X else txt + rng.choice(["", "q"]))
                w.step(("recv", txt, 0))
            else:
                us = int(round(float(st.secs) * 1000000)); out.append(us)
                w.step(("delay", us, 0)); w.not_before = None
    except Mismatch:
        pass
    return out


def sem_ops(rng, consts, plugs, kinds, pool, steps, scripts=None):
    hx = lambda x: x.encode("latin-1").hex()
    nodes = [p[1] for p in plugs if p[1] is not None]
    ops = ["NOW 1000000", "PLAN 0 " + " ".join(["now"] * 12), "INIT", "PASS", "FEED 0 " + hx("ready\n"), "NOW 1100000", "PASS"]
    enq, nargs, t, plan = {}, 0, 1100000, []
    words = [w for w in pmgen.POWER_WORDS + pmgen.QUERY_WORDS if any(k in kinds for k in (pmgen.CLIENT_COMS[w], pmgen.CLIENT_COMS[w] + "_ranged", pmgen.CLIENT_COMS[w] + "_all"))]
    for step in range(steps):
        r = rng.random()
        if plan and r < 0.8:
            item = plan.pop(0)
            if isinstance(item, int):
                t += item
            elif item:
                if rng.random() < 0.15 and len(item) > 1:
                    cut = rng.randint(1, len(item) - 1); plan.insert(0, item[cut:]); item = item[:cut]
                ops.append("FEED 0 " + hx(item))
            t += rng.choice([0, 1000, 100000, 100000, 250000])
            ops += ["NOW %d" % t, "PASS"]
            continue
        if (r < 0.22 or step == 0 or (not plan and r < 0.5)) and words and nargs < 30:
            tg = rng.sample(nodes, rng.randint(1, len(nodes)))
            if rng.random() < 0.35: tg = list(nodes)
            client = 100 + nargs
            ops.append("NEWARGS " + ",".join(hx(x) for x in tg))
            word = rng.choice(words)
            ops.append("ENQ %d %d 1 %d %s" % (consts[pmgen.KINDS[pmgen.CLIENT_COMS[word]]], client, nargs, ",".join(hx(x) for x in tg)))
            enq[client] = dict(targets=tg, args=nargs); nargs += 1
            if scripts and not plan and rng.random() < 0.85:
                base = pmgen.CLIENT_COMS[word]
                cands = [k for k in kinds if k in (base, base + "_ranged", base + "_all")]
                if base + "_all" in cands and len(tg) == len(nodes) and rng.random() < 0.8: cands = [base + "_all"]
                if cands:
                    k = rng.choice(cands)
                    plan = ideal_replies(rng, consts, plugs, k, scripts[k], tg)
        elif r < 0.80:
            data = "".join(rng.choice(pool) for _ in range(rng.choice([1, 1, 2, 3])))
            if rng.random() < 0.2: data = data[:rng.randint(0, len(data))]
            ops.append("FEED 0 " + hx(data))
        elif r < 0.83:
            ops.append("PEERCLOSE 0")
        t += rng.choice([0, 0, 1000, 100000, 250000, 500000, 1000000, 1000000, 6000000])
        ops += ["NOW %d" % t, "PASS"]
    return ops, enq


def gen_sem_case(rng, consts):
    plugs = sem_plugs(rng)
    kinds = rng.sample(SEM_KINDS, rng.randint(3, 8))
    scripts = {k: sem_script(rng, k) for k in kinds}
    cfg, asts = sem_config(scripts, plugs, timeout=rng.choice([5.0, 3.0, 8.0]))
    ops, enq = sem_ops(rng, consts, plugs, kinds, sem_reply_pool(plugs), rng.randint(20, 70), scripts)
    return cfg, asts, ops, dict(scripts=scripts, enq=enq, style="sem")


def directed_sem_cases(consts):
    """the case splits of the proofs and the shapes of the seeded / mutated changes, hand-made"""
    out = []
    hx = lambda x: x.encode("latin-1").hex()
    P = pmgen.parse_script_text

    def one(scripts_txt, plugs, word, targets, steps, timeout=5.0):
        scripts = {k: P(v) for k, v in scripts_txt.items()}
        cfg, asts = sem_config(scripts, plugs, timeout=timeout)
        ops = ["NOW 1000000", "PLAN 0 " + " ".join(["now"] * 8), "INIT", "PASS", "FEED 0 " + hx("ready\n"), "NOW 1100000", "PASS",
               "NEWARGS " + ",".join(hx(x) for x in targets),
               "ENQ %d 100 1 0 %s" % (consts[pmgen.KINDS[pmgen.CLIENT_COMS[word]]], ",".join(hx(x) for x in targets))]
        t = 1200000
        for o in steps:
            if o is None: t += 100000; ops += ["NOW %d" % t, "PASS"]
            elif isinstance(o, int): t += o; ops += ["NOW %d" % t, "PASS"]
            elif o == "CLOSE": ops.append("PEERCLOSE 0")
            else: ops.append("FEED 0 " + hx(o))
        out.append((cfg, asts, ops, dict(scripts=scripts, enq={100: dict(targets=list(targets), args=0)}, style="sem-directed")))

    mixed = [("u1", None), ("u2", None), ("p1", "n0"), ("u3", None), ("u4", None), ("u5", None), ("p2", "n1"), ("p3", "n2"), ("u6", None), ("u7", None)]
    # foreachnode over a plug list with runs of adjacent unmapped plugs at the start, in the middle, at the end; non-ranged
    one({"status_all": 'send "STATUS_ALL\\n"\n\t\texpect "ok\\n"\n\t\tforeachnode {\n\t\t\tsend "FN %s\\n"\n\t\t\texpect "ok\\n"\n\t\t}\n\t\tforeachplug {\n\t\t\tsend "FP %s\\n"\n\t\t}\n\t\texpect "done\\n"'},
        mixed, "status", ["n0", "n1", "n2"], [None, None, "ok\n", None, None, "ok\n", None, None, "ok\n", None, None, "ok\n", None] + [None] * 12 + ["done\n", None, None])
    # ranged script with ONE targeted plug and with several; foreachnode / foreachplug run over the targeted plugs only
    for tg in (["n1"], ["n0", "n2"], ["n0", "n1", "n2"]):
        one({"on_ranged": 'send "ON_RANGED %s\\n"\n\t\texpect "ok\\n"\n\t\tforeachplug {\n\t\t\tsend "FP %s\\n"\n\t\t\texpect "ok\\n"\n\t\t}\n\t\tforeachnode {\n\t\t\tsend "FN %s 100%%\\n"\n\t\t}\n\t\texpect "done\\n"'},
            mixed, "on", tg, [None, None, "ok\n", None] + [None, "ok\n", None] * 3 + [None] * 8 + ["done\n", None, None])
    # ranged script whose %s is a plug expression of 80 characters and more (names that do not compress): the first attempt at a fixed size has to grow
    longp = [("%s-outlet-%d" % (w, k), "n%d" % k) for k, w in enumerate(["alpha", "bravo", "charlie", "delta", "echo", "foxtrot", "golf", "hotel", "india", "juliett"])]
    for tg in (["n%d" % k for k in range(10)], ["n%d" % k for k in range(0, 10, 2)] + ["n7"], ["n1", "n2", "n3", "n4", "n5", "n6"]):
        one({"on_ranged": 'send "ON_RANGED %s\\n"\n\t\texpect "ok\\n"\n\t\tforeachplug {\n\t\t\tsend "FP %s\\n"\n\t\t}\n\t\texpect "done\\n"'},
            longp, "on", tg, [None, None, "ok\n", None] + [None] * 12 + ["done\n", None, None])
    # captures that matched the EMPTY string: an empty plug name names no plug (no fallback to the target); an empty status is recorded
    for reply in ["plug : on\n", "plug p2: \n", "plug p1: on\n", "plug zz: off\n", "plug u1: on\n"]:
        one({"status": 'send "STATUS %s\\n"\n\t\texpect "plug ([a-z0-9]*): ([a-z]*)\\n"\n\t\tsetplugstate $1 $2 off="x*" on="on"\n\t\texpect "done\\n"'},
            mixed, "status", ["n0"], [None, None, reply, None, "done\n", None, None])
        one({"on": 'send "ON %s\\n"\n\t\texpect "plug ([a-z0-9]*): ([a-z]*)\\n"\n\t\tsetresult $1 $2 success="x*"\n\t\texpect "done\\n"'},
            mixed, "on", ["n1"], [None, None, reply, None, "done\n", None, None])
    # first matching interpretation; literal / captured / implied plug
    for verdict in ["off", "o", "on", "zap"]:
        one({"status": 'send "STATUS %%s\\n"\n\t\texpect "plug ([a-z0-9]*): ([a-z]*)\\n"\n\t\tsetplugstate $1 $2 on="o" off="off"\n\t\tsetplugstate "p2" $2 off="off" on="o"\n\t\tsetplugstate $2 on="^o" off="zap"\n\t\texpect "done\\n"'.replace("%%", "%")},
            mixed, "status", ["n0", "n1"], [None, None, "plug p3: %s\n" % verdict, None, "done\n", None, None, "plug p3: %s\n" % verdict, None, "done\n", None])
    # ifon / ifoff with a foreach inside, state on / off / unknown
    for verdict in ["on", "off", "zap"]:
        one({"cycle": 'send "CYCLE %s\\n"\n\t\texpect "plug ([a-z0-9]*): ([a-z]*)\\n"\n\t\tsetplugstate $1 $2 on="^on" off="^off"\n\t\tifon {\n\t\t\tsend "WASON %s\\n"\n\t\t\tforeachnode {\n\t\t\t\tsend "IN %s\\n"\n\t\t\t}\n\t\t}\n\t\tifoff {\n\t\t\tsend "WASOFF %s\\n"\n\t\t\tdelay 0\n\t\t}\n\t\tsend "END %s\\n"\n\t\texpect "done\\n"'},
            mixed, "cycle", ["n1"], [None, None, "plug p2: %s\n" % verdict] + [None] * 14 + ["done\n", None, None])
    # delays: over exactly at, and not before, start + delay; delay 0; expect that matches the empty string
    one({"reset": 'send "RESET %s\\n"\n\t\texpect "x*"\n\t\tdelay 1\n\t\tsend "A %s\\n"\n\t\tdelay 0\n\t\tsend "B\\n"\n\t\tdelay 0.5\n\t\texpect "done\\n"'},
        mixed, "reset", ["n2"], [None, None, "yy", None, 400000, 400000, 100000, 99999, 1, None, None, None, None, 499999, 1, "done\n", None, None])
    # connection drops inside a send / a foreach / a delay: the retried action starts over (F9)
    one({"on": 'send "ON %s\\n"\n\t\texpect "ok\\n"\n\t\tdelay 1\n\t\tforeachplug {\n\t\t\tsend "FP %s\\n"\n\t\t\texpect "ok\\n"\n\t\t}\n\t\texpect "done\\n"'},
        mixed[:4], "on", ["n0"], [None, None, "ok\n", None, "CLOSE", None, 1000000, None, "ready\n", None, None, "ok\n", None, 1000000, None] + [None, "ok\n", None] * 5 + ["done\n", None, None], timeout=20.0)
    return out


def run(ctx, V):
    import C01
    proofs_ok = vlib.proof_gate(ctx, V, extract=["Extract/ExDevice.vo", "Extract/ExEnqueue.vo"])
    consts = pmgen.load_genconsts(ctx.coq)
    devh = build_dev(ctx)
    enq = C01.build_enq(ctx)
    model = build_model(ctx)
    n = 420 if ctx.tier == "quick" else 6000
    V.rule = ("R-DEV: generated configurations with random scripts over the whole statement grammar (and the structured generated specs), "
              "op sequences (connect plans, requests, device bytes from a pool matching the expect pool, peer close, clock steps) run through the real "
              "dev_initial_connect/dev_enqueue_actions/dev_pre_poll/poll/dev_post_poll with stub transports and through Model.DevHarness; compared after every pass: "
              "callbacks with their text, bytes written, requested time-out, every device's state, queue, exec stacks, buffers, every Arg; "
              "non-trivial = at least one completion callback or written byte")
    nsem = 500 if ctx.tier == "quick" else 8000
    V.rule += ("; MONITOR (sem cases): one device with hard-wired plugs (unmapped plugs anywhere, runs of adjacent ones), scripts over the whole grammar whose "
               "first send names the script, every action verbose: the trace semantics of Spec/ScriptSem.v is walked over the implementation's send / recv / delay "
               "telemetry (argument of %s, program order, foreach lists and order, ifon/ifoff guards, delay length against the pass clock) and the request's "
               "argument table is compared with the semantics' at completion")
    cases = ([c + (None,) for c in directed_cases(consts)] + directed_sem_cases(consts) + corpus_cases(consts)
             + [gen_case(ctx.rng, consts, ["random", "gen", "gen2"][i % 3]) + (None,) for i in range(n)]
             + [gen_sem_case(ctx.rng, consts) for i in range(nsem)])
    with ThreadPoolExecutor(16) as ex:
        outs = list(ex.map(lambda ic: (run_impl(devh, ctx.scratch, ic[0], ic[1][0], ic[1][2]), devtab_from_enq(enq, ctx.scratch, ic[0], ic[1][0])), enumerate(cases)))
        minputs = []
        for (cfg, asts, ops, meta), ((rc, o, e), (rc2, tab, e2)) in zip(cases, outs):
            minputs.append("\n".join(model_input(cfg, asts, tab, ops, consts)) + "\n")
        mouts = list(ex.map(lambda s: vlib.sh(["timeout", "-s", "KILL", "60", model], shell=False, inp=s.encode(), timeout=70), minputs))
    mstats = {}
    for (cfg, asts, ops, meta), ((rc, o, e), (rc2, tab, e2)), (mrc, mo, me), minp in zip(cases, outs, mouts, minputs):
        ib, mb = split_blocks(o), split_blocks(mo)
        if meta is not None and rc == 0:
            # the property itself, on the implementation's behaviour
            V.count("style:" + meta["style"])
            try:
                meta["plugs"] = [(bytes.fromhex(x.split(":")[0]).decode("latin-1"), None if x.split(":")[1] == "-" else bytes.fromhex(x.split(":")[1]).decode("latin-1"))
                                 for x in tab[0].split(",")] if tab and tab[0] != "-" else []
                st = monitor_case(consts, meta, ops, o)
                for k_, v_ in st.items(): mstats[k_] = mstats.get(k_, 0) + v_
            except Mismatch as mm:
                V.violation(mm.clause, mm.site, dict(config=cfg.text(), ops=ops, enq={str(k_): v_ for k_, v_ in meta["enq"].items()},
                                                     scripts={k_: "\n".join(x.text() for x in v_).lstrip("\t") for k_, v_ in meta["scripts"].items()}), mm.detail)
        nontriv = any(l.startswith("EV DONE") or l.startswith("WROTE") for l in o.splitlines())
        V.case((cfg.text(), tuple(ops)), nontrivial=nontriv)
        V.count("ops", len(ops)); V.count("impl_rc:%d" % rc)
        for l in o.splitlines():
            if l.startswith("EV "): V.count("ev:" + l.split()[1])
        model_outcome = [l for l in mo.splitlines() if l.startswith("OUTCOME ")]
        if mrc != 0:
            V.tie_broken("correspondence", "R-DEV", "model driver failed: %s" % me[-800:], case=dict(config=cfg.text(), ops=ops))
            continue
        if model_outcome:
            V.count("model:" + model_outcome[0])
        # compare block by block up to the first difference
        diff = None
        for k in range(max(len(ib), len(mb))):
            a = ib[k] if k < len(ib) else ["<missing>"]
            b = mb[k] if k < len(mb) else ["<missing>"]
            if b and b[-1].startswith("OUTCOME "):
                # the model predicts an abort/crash here: the implementation must have died at this op
                if rc == 0 or k < len(ib) - 1:
                    diff = (k, a, b)
                break
            if a != b:
                diff = (k, a, b); break
        if rc != 0 and not model_outcome and diff is None:
            diff = (len(ib), ["<implementation died rc=%d: %s>" % (rc, e[-600:])], ["<model continues>"])
        if model_outcome or rc != 0:
            # a crash of the device layer caused by device bytes / scripts accepted by the parser
            site = model_outcome[0] if model_outcome else "impl rc=%d" % rc
            V.violation("daemon-aborts", site, dict(config=cfg.text(), ops=ops, impl_tail=o.splitlines()[-5:], stderr=e[-600:]),
                        "the device layer aborts (assert / crash) on this history")
        if diff:
            k, a, b = diff
            da = [x for x in a if x not in b][:6]; db = [x for x in b if x not in a][:6]
            V.tie_broken("correspondence", "R-DEV", "first difference in output block %d\nimpl only: %s\nmodel only: %s" % (k, da, db),
                         case=dict(config=cfg.text(), ops=ops))
        V.sample(dict(config=cfg.text()[:600], ops=ops[:25], impl_first_pass=[l for l in o.splitlines() if l.startswith(("EV", "WROTE", "TMO"))][:12]), limit=2)
    for k_, v_ in mstats.items(): V.count("monitor:" + k_, v_)
    V.extra["monitor"] = mstats


def corpus_cases(consts):
    """corpus/C08/*.json: {scripts: {kind: text}, plugs: [[name, node|null]], word, targets, steps, timeout} - cases that once violated"""
    out = []
    cdir = os.path.join(vlib.VERIF, "corpus", "C08")
    for fn in sorted(os.listdir(cdir)) if os.path.isdir(cdir) else []:
        if not fn.endswith(".json"): continue
        c = json.load(open(os.path.join(cdir, fn)))
        scripts = {k: pmgen.parse_script_text(v) for k, v in c["scripts"].items()}
        plugs = [(p[0], p[1]) for p in c["plugs"]]
        cfg, asts = sem_config(scripts, plugs, timeout=c.get("timeout", 5.0))
        hx = lambda x: x.encode("latin-1").hex()
        ops = ["NOW 1000000", "PLAN 0 " + " ".join(["now"] * 8), "INIT", "PASS", "FEED 0 " + hx("ready\n"), "NOW 1100000", "PASS",
               "NEWARGS " + ",".join(hx(x) for x in c["targets"]),
               "ENQ %d 100 1 0 %s" % (consts[pmgen.KINDS[pmgen.CLIENT_COMS[c["word"]]]], ",".join(hx(x) for x in c["targets"]))]
        t = 1200000
        for o in c["steps"]:
            if o is None: t += 100000; ops += ["NOW %d" % t, "PASS"]
            elif isinstance(o, int): t += o; ops += ["NOW %d" % t, "PASS"]
            elif o == "CLOSE": ops.append("PEERCLOSE 0")
            else: ops.append("FEED 0 " + hx(o))
        out.append((cfg, asts, ops, dict(scripts=scripts, enq={100: dict(targets=list(c["targets"]), args=0)}, style="corpus")))
    return out


def replay(ctx, V, path):
    """re-run the recorded configuration + op sequence on the current tree: implementation output and extracted-model output side by side"""
    rep = json.load(open(path))
    case = rep.get("case") or (rep.get("no_longer_checks") or [{}])[0].get("case") or {}
    print(json.dumps({k: v for k, v in rep.items() if k != "case"}, indent=1)[:3000])
    if not case.get("config"):
        return 0
    vlib.proof_gate(ctx, V, extract=["Extract/ExDevice.vo", "Extract/ExEnqueue.vo"])
    devh = build_dev(ctx)
    conf = os.path.join(ctx.scratch, "replay.conf"); open(conf, "w").write(case["config"])
    rc, o, e = vlib.sh(["timeout", "-s", "KILL", "60", devh, conf], shell=False, inp=("\n".join(case["ops"]) + "\n").encode(), timeout=70, env={"ASAN_OPTIONS": "detect_leaks=0"})
    print("--- configuration\n" + case["config"])
    print("--- implementation (rc=%d): callbacks / bytes written / argument tables per pass" % rc)
    for l in o.splitlines():
        if l.startswith(("EV ", "WROTE", "ARGS", "COUNT")):
            w = l.split()
            if w[0] == "EV" and w[1] in ("TELE", "DONE") and w[-1] != "-":
                try: l = " ".join(w[:-1]) + " " + repr(bytes.fromhex(w[-1]).decode("latin-1"))
                except ValueError: pass
            print("  " + l)
    print("--- recorded: %s @ %s: %s" % (rep.get("clause_violated"), rep.get("site"), str(rep.get("detail", ""))[:2000]))
    if case.get("scripts") and rc == 0:
        # evaluate the property monitor again on the current tree
        import C01
        consts = pmgen.load_genconsts(ctx.coq)
        open(os.path.join(ctx.scratch, "dev0.conf"), "w").write(case["config"])
        rc2, tab, e2 = devtab_from_enq(C01.build_enq(ctx), ctx.scratch, 0, None)
        meta = dict(scripts={k: pmgen.parse_script_text(v) for k, v in case["scripts"].items()},
                    enq={int(k): v for k, v in case["enq"].items()}, style="replay")
        meta["plugs"] = [(bytes.fromhex(x.split(":")[0]).decode("latin-1"), None if x.split(":")[1] == "-" else bytes.fromhex(x.split(":")[1]).decode("latin-1"))
                         for x in tab[0].split(",")] if tab and tab[0] != "-" else []
        try:
            st = monitor_case(consts, meta, case["ops"], o)
            print("--- now: the implementation's behaviour on this input is a trace of the script (%s)" % st)
            return 0
        except Mismatch as mm:
            print("--- now: VIOLATED %s @ %s: %s" % (mm.clause, mm.site, mm.detail))
            return 1
    return 1 if rep.get("verdict") == "violation" and rc != 0 else 0
